(* C06 -- Kernel hook redirects exactly the protected connects, records the true caller.
   Property theorems only: each is closed by [exact lemma] and followed by Print Assumptions.
   Model: Model/Ebpf.v -- linux-ebpf/ebpf_cgroup.c statement by statement, the maps and helpers as
   documented in linux/bpf.h, and the agent's encoders/decoders (ebpf_obj.rs, linux.rs,
   redirector.rs); tied to the code on every run by tools/checks/c06.py (the unmodified C file
   executed in user space, the real Rust encoders fed with the C side's byte images).

   Reading guide.  [kstate] = the four maps.  [kstep sh s ev] = one event: a hook run by a task
   ([EConnect4], [ETcpConnect]) or a bpf(2) operation of the agent.  [krun] = any sequence of them.
   Theorems quantify over ARBITRARY states s (reachable or not) and arbitrary event lists [mid]
   run by other threads / the agent between the two hooks of one connect, which is every
   interleaving.  [sh] says which half of bpf_get_current_uid_gid() each site records: [cur_sh] is
   re-read from ebpf_cgroup.c on every run, [sh_pinned] = `>> 32` (the pinned commit), [sh_repaired]
   = the low half.  KnownClass_F4_* is the class of inputs on which the program as it stands records a
   wrong user id (uid <> gid while the site takes the high half); it is EMPTY once the site is
   repaired, and then C06_redirect_and_record is the full-strength statement. *)
From GPA Require Import Ebpf EbpfProofs EbpfFaults EbpfFaultsProofs.

(* ---- redirect and record ---------------------------------------------------------------- *)
(* A TCP connect by a non-exempt task to an address listed in the policy (under the key the AGENT
   inserts) is rewritten to the policy value, and after the thread's tcp_connect with source port
   [num] -- whatever other threads, processes and the agent did in between, as long as fewer than the
   local-map capacity of connects were started -- the agent's lookup_audit(num) returns the caller's
   uid, tgid, uid == 0, and the original address and port; the pending entry is consumed. *)
Theorem C06_redirect_and_record : forall s t ip port pol mid num,
  wf_task t = true -> KnownClass_F4_connect4 t = false ->
  wlookup (destination_entry_from_ipv4 ip port) (policy s) = Some pol ->
  skipped s t = false ->
  let ctx := connect_ctx ip port IPPROTO_TCP in
  let s1 := fst (fst (connect4 cur_sh s t ctx)) in
  let ctx' := snd (fst (connect4 cur_sh s t ctx)) in
  snd (connect4 cur_sh s t ctx) = PROCEED /\
  sa_ip ctx' = de_ipv4 pol /\ sa_port ctx' = de_port pol /\ sa_proto ctx' = sa_proto ctx /\
  (forallb (other_thread (thread_key t)) mid = true ->
   forallb (fun ev => negb (adds_skip (skip_entry_from_pid (tgid t)) ev)) mid = true ->
   wlen (local s1) + count_connect4 mid <= local_cap ->
   let s3 := fst (kstep cur_sh (krun cur_sh s1 mid) (ETcpConnect t KERNEL_AF_INET num (sa_ip ctx') (sa_port ctx'))) in
   lookup_audit s3 num = Some (expected_audit t ip port) /\
   wlookup (thread_key t) (local s3) = None).
Proof.
  intros s t ip port pol mid num Hwf Hk.
  exact (redirect_and_record_agent cur_sh s t ip port pol mid num Hwf (uid_at_cur_connect4 t Hwf Hk)).
Qed.
Print Assumptions C06_redirect_and_record.

(* the same for the repaired program (low half at both sites): no class hypothesis *)
Theorem C06_redirect_and_record_repaired : forall s t ip port pol mid num,
  wf_task t = true ->
  wlookup (destination_entry_from_ipv4 ip port) (policy s) = Some pol ->
  skipped s t = false ->
  let ctx := connect_ctx ip port IPPROTO_TCP in
  let s1 := fst (fst (connect4 sh_repaired s t ctx)) in
  let ctx' := snd (fst (connect4 sh_repaired s t ctx)) in
  snd (connect4 sh_repaired s t ctx) = PROCEED /\
  sa_ip ctx' = de_ipv4 pol /\ sa_port ctx' = de_port pol /\ sa_proto ctx' = sa_proto ctx /\
  (forallb (other_thread (thread_key t)) mid = true ->
   forallb (fun ev => negb (adds_skip (skip_entry_from_pid (tgid t)) ev)) mid = true ->
   wlen (local s1) + count_connect4 mid <= local_cap ->
   let s3 := fst (kstep sh_repaired (krun sh_repaired s1 mid) (ETcpConnect t KERNEL_AF_INET num (sa_ip ctx') (sa_port ctx'))) in
   lookup_audit s3 num = Some (expected_audit t ip port) /\
   wlookup (thread_key t) (local s3) = None).
Proof.
  intros s t ip port pol mid num Hwf.
  exact (redirect_and_record_agent sh_repaired s t ip port pol mid num Hwf (uid_at_repaired t Hwf)).
Qed.
Print Assumptions C06_redirect_and_record_repaired.

(* F4: the program as pinned (`>> 32` at both sites) records the GROUP id.  uid 1000 / gid 0 is
   recorded as logon 0, is_admin 1; uid 0 / gid 1000 as logon 1000, is_admin 0. *)
Theorem C06_uid_refuted :
  witness_run sh_pinned {| tgid := 100; tid := 101; uid := 1000; gid := 0 |} =
    Some {| ae_logon_id := 0; ae_process_id := 100; ae_is_admin := 1;
            ae_destination_ipv4 := Consts.wire_server_ip_network_byte_order;
            ae_destination_port := to_be16 Consts.wire_server_port |} /\
  witness_run sh_pinned {| tgid := 100; tid := 101; uid := 0; gid := 1000 |} =
    Some {| ae_logon_id := 1000; ae_process_id := 100; ae_is_admin := 0;
            ae_destination_ipv4 := Consts.wire_server_ip_network_byte_order;
            ae_destination_port := to_be16 Consts.wire_server_port |}.
Proof. exact uid_refuted. Qed.
Print Assumptions C06_uid_refuted.

(* the value the agent inserts sends the connect to the proxy listener 127.0.0.1:local_port *)
Theorem C06_redirect_to_proxy : forall ip port local_port,
  rewritten (destination_entry_from_ipv4 (string_to_ip PROXY_AGENT_IP) local_port) (connect_ctx ip port IPPROTO_TCP)
  = connect_ctx Consts.proxy_agent_ip_network_byte_order local_port IPPROTO_TCP.
Proof. exact rewritten_is_proxy. Qed.
Print Assumptions C06_redirect_to_proxy.

(* the record stays readable until consumed: later hooks on other source ports, within capacity *)
Theorem C06_record_persists : forall sh s p post r,
  lookup_audit s p = Some r ->
  forallb (fun ev => negb (touches_port (u16 p) ev)) post = true ->
  wlen (audit s) + count_tcp_connect post <= audit_cap ->
  lookup_audit (krun sh s post) p = Some r.
Proof. exact record_persists. Qed.
Print Assumptions C06_record_persists.

Theorem C06_remove_audit_removes : forall sh s p,
  lookup_audit (fst (kstep sh s (agent_remove_audit p))) p = None.
Proof. exact remove_audit_removes. Qed.
Print Assumptions C06_remove_audit_removes.

(* ---- untouched otherwise ---------------------------------------------------------------- *)
(* connect4 to an address not listed (TCP), or by an exempt process, or on a non-TCP socket (the
   agent only ever inserts TCP keys, C06_agent_policy_keys_tcp): address unchanged, ALL maps
   unchanged -- no rewrite, no record, no pending entry. *)
Theorem C06_untouched_connect4 : forall sh s t ip port proto,
  (u32 proto = IPPROTO_TCP -> wlookup (destination_entry_from_ipv4 ip port) (policy s) = None \/ skipped s t = true) ->
  (u32 proto <> IPPROTO_TCP -> policy_keys_tcp s \/ skipped s t = true) ->
  kstep sh s (EConnect4 t (connect_ctx ip port proto)) =
  (s, [PROCEED; sa_ip (connect_ctx ip port proto); sa_port (connect_ctx ip port proto)]).
Proof. exact untouched_connect4_agent. Qed.
Print Assumptions C06_untouched_connect4.

Theorem C06_agent_policy_keys_tcp : forall sh evs,
  forallb policy_update_tcp evs = true -> policy_keys_tcp (krun sh kinit evs).
Proof. intros sh evs H. exact (krun_policy_keys_tcp sh evs kinit H kinit_policy_keys_tcp). Qed.
Print Assumptions C06_agent_policy_keys_tcp.

(* the kprobe on a non-IPv4 socket, by an exempt process, or with nothing pending and a destination
   that is not listed: all maps unchanged *)
Theorem C06_untouched_tcp_connect : forall sh s t f n d p,
  u16 f <> AF_INET \/ skipped s t = true \/
  (wlookup (thread_key t) (local s) = None /\
   wlookup (c_destination_entry (u32 d) (u16 p) IPPROTO_TCP) (policy s) = None) ->
  kstep sh s (ETcpConnect t f n d p) = (s, [0]).
Proof. exact untouched_tcp_connect. Qed.
Print Assumptions C06_untouched_tcp_connect.

(* a connect that was left alone leaves no record, whatever runs in between *)
Theorem C06_untouched_no_record : forall sh s t ip port proto mid num,
  wlookup (thread_key t) (local s) = None ->
  fst (kstep sh s (EConnect4 t (connect_ctx ip port proto))) = s ->
  forallb (other_thread (thread_key t)) mid = true ->
  let s2 := krun sh s mid in
  wlookup (destination_entry_from_ipv4 ip port) (policy s2) = None ->
  kstep sh s2 (ETcpConnect t KERNEL_AF_INET num ip (to_be16 port)) = (s2, [0]).
Proof. exact untouched_no_record. Qed.
Print Assumptions C06_untouched_no_record.

(* ---- threads do not mix ----------------------------------------------------------------- *)
(* hooks run by other threads never read, change or consume this thread's pending entry ... *)
Theorem C06_other_threads_frame : forall sh K mid s,
  forallb (other_thread K) mid = true ->
  wlen (local s) + count_connect4 mid <= local_cap ->
  wlookup K (local (krun sh s mid)) = wlookup K (local s).
Proof. exact krun_local_frame. Qed.
Print Assumptions C06_other_threads_frame.

(* ... and, for EVERY history (no capacity bound, evictions included), the pending entry a thread's
   tcp_connect finds -- from which its record is copied field by field -- was written by a connect4
   run under the same pid_tgid key with that connect's own address and identity *)
Theorem C06_threads_do_not_mix : forall sh evs s t le,
  wlookup (thread_key t) (local (krun sh s evs)) = Some le ->
  wlookup (thread_key t) (local s) = Some le \/
  exists t' sa, In (EConnect4 t' sa) evs /\ thread_key t = thread_key t' /\ le = local_entry_of sh t' sa.
Proof. intros sh evs s t le. exact (krun_local_provenance sh evs s (thread_key t) le). Qed.
Print Assumptions C06_threads_do_not_mix.

Theorem C06_thread_key_injective : forall t t', wf_task t = true -> wf_task t' = true ->
  thread_key t' = thread_key t -> tgid t' = tgid t /\ tid t' = tid t.
Proof. exact thread_key_inj. Qed.
Print Assumptions C06_thread_key_injective.

Theorem C06_record_is_pending_entry : forall sh s t f n d p le,
  u16 f = AF_INET -> skipped s t = false -> wlookup (thread_key t) (local s) = Some le ->
  wlookup (c_audit_key (le_proto le) (u16 n)) (audit (fst (kstep sh s (ETcpConnect t f n d p)))) =
  Some (c_audit_entry (le_logon le) (le_pid le) (le_is_root le) (le_ip le) (le_port le)).
Proof. exact tcp_connect_writes_pending. Qed.
Print Assumptions C06_record_is_pending_entry.

(* the kprobe's own path (nothing pending, socket destination listed): same record contents *)
Theorem C06_fallback_record : forall s t ip port num pol,
  wf_task t = true -> KnownClass_F4_tcp_connect t = false ->
  skipped s t = false -> wlookup (thread_key t) (local s) = None ->
  wlookup (destination_entry_from_ipv4 ip port) (policy s) = Some pol ->
  lookup_audit (fst (kstep cur_sh s (ETcpConnect t KERNEL_AF_INET num ip (to_be16 port)))) num =
  Some (expected_audit t ip port).
Proof.
  intros s t ip port num pol Hwf Hk.
  exact (tcp_connect_fallback_agent cur_sh s t ip port num pol Hwf (uid_at_cur_tcp_connect t Hwf Hk)).
Qed.
Print Assumptions C06_fallback_record.

(* ---- layout agreement, bit for bit ------------------------------------------------------- *)
Theorem C06_layout_agreement : forall ip port p f n (t : task),
  (* policy key: agent insert = connect4 lookup = kprobe fallback lookup *)
  (let ctx := connect_ctx ip port IPPROTO_TCP in
   destination_entry_from_ipv4 ip port = c_destination_entry (sa_ip ctx) (sa_port ctx) (sa_proto ctx)) /\
  (let skc := mk_sock f n ip (to_be16 port) in
   destination_entry_from_ipv4 ip port = c_destination_entry (skc_daddr skc) (skc_dport skc) IPPROTO_TCP) /\
  (* audit key: agent lookup = kprobe write for a TCP socket with skc_num = p *)
  audit_key_from_source_port p = c_audit_key (sa_proto (connect_ctx 0 0 IPPROTO_TCP)) (skc_num (mk_sock 0 p 0 0)) /\
  (* skip key: agent insert for its pid = both hooks' lookup for a task of that tgid *)
  skip_entry_from_pid (tgid t) = c_skip_entry (pid_of t) /\
  (* key sizes in words *)
  sized POLICY_WORDS (destination_entry_from_ipv4 ip port) = true /\
  sized SKIP_WORDS (skip_entry_from_pid p) = true /\
  sized AUDIT_KEY_WORDS (audit_key_from_source_port p) = true.
Proof.
  intros ip port p f n t.
  exact (conj (layout_policy_key ip port) (conj (layout_policy_key_sock ip port f n)
        (conj (layout_audit_key p) (conj (layout_skip_key t) (layout_sizes ip port p p))))).
Qed.
Print Assumptions C06_layout_agreement.

(* decode (record written for a.b.c.d:port) = (a.b.c.d, port, logon, pid, is_root) *)
Theorem C06_decode_roundtrip : forall a b c d port logon pid root,
  a < 256 -> b < 256 -> c < 256 -> d < 256 -> port < 65536 ->
  let ctx := connect_ctx (a + 256 * (b + 256 * (c + 256 * d))) port IPPROTO_TCP in
  let e := audit_entry_of_array (c_audit_entry logon pid root (sa_ip ctx) (sa_port ctx)) in
  destination_ipv4_addr e = [a; b; c; d] /\ destination_port_in_host_byte_order e = port /\
  ae_logon_id e = logon /\ ae_process_id e = pid /\ ae_is_admin e = as_i32 root.
Proof. exact decode_roundtrip. Qed.
Print Assumptions C06_decode_roundtrip.

Theorem C06_decode_expected : forall t ip port,
  destination_ipv4_addr (expected_audit t ip port) = octets_of_ip (u32 ip) /\
  destination_port_in_host_byte_order (expected_audit t ip port) = u16 port.
Proof. exact decode_expected. Qed.
Print Assumptions C06_decode_expected.

Theorem C06_ip_string_roundtrip : forall ip, ip < 4294967296 -> string_to_ip (ip_to_string ip) = ip.
Proof. exact ip_string_roundtrip. Qed.
Print Assumptions C06_ip_string_roundtrip.

(* the address constants and their string forms agree (re-proved when constants.rs changes) *)
Theorem C06_endpoint_constants :
  string_to_ip Consts.wire_server_ip = Consts.wire_server_ip_network_byte_order /\
  string_to_ip Consts.ga_plugin_ip = Consts.ga_plugin_ip_network_byte_order /\
  string_to_ip Consts.imds_ip = Consts.imds_ip_network_byte_order /\
  string_to_ip Consts.proxy_agent_ip = Consts.proxy_agent_ip_network_byte_order /\
  ip_to_string Consts.wire_server_ip_network_byte_order = Consts.wire_server_ip /\
  ip_to_string Consts.imds_ip_network_byte_order = Consts.imds_ip.
Proof. exact endpoint_strings. Qed.
Print Assumptions C06_endpoint_constants.

(* ---- failing map helper calls (Model/EbpfFaults.v) --------------------------------------- *)
(* The hooks at per-helper-call granularity: [f n = true] = the n-th map helper call of the run, if it
   is an update or a delete, fails and has no effect (lookups cannot fail).  Return codes are handled as
   the C does (only logged). *)

(* fail-closed: for EVERY failure oracle a protected connect of a non-exempt process is diverted to the
   proxy listener; it is never passed on un-diverted *)
Theorem C06_fail_closed : forall (f : oracle) sh s t ip port local_port,
  wlookup (destination_entry_from_ipv4 ip port) (policy s) =
    Some (destination_entry_from_ipv4 (string_to_ip PROXY_AGENT_IP) local_port) ->
  skipped s t = false ->
  snd (fst (connect4_f f sh s t (connect_ctx ip port IPPROTO_TCP))) =
    connect_ctx Consts.proxy_agent_ip_network_byte_order local_port IPPROTO_TCP.
Proof. exact fail_closed_agent. Qed.
Print Assumptions C06_fail_closed.

Theorem C06_fail_closed_any_value : forall (f : oracle) sh s t ctx pol,
  wlookup (c_destination_entry (sa_ip ctx) (sa_port ctx) (sa_proto ctx)) (policy s) = Some pol ->
  skipped s t = false ->
  snd (fst (connect4_f f sh s t ctx)) = rewritten pol ctx /\ snd (connect4_f f sh s t ctx) = PROCEED.
Proof. exact fail_closed. Qed.
Print Assumptions C06_fail_closed_any_value.

(* for every oracle a connect that is not protected keeps its address (and all maps) *)
Theorem C06_untouched_under_failures : forall (f : oracle) sh s t ip port proto,
  (u32 proto = IPPROTO_TCP -> wlookup (destination_entry_from_ipv4 ip port) (policy s) = None \/ skipped s t = true) ->
  (u32 proto <> IPPROTO_TCP -> policy_keys_tcp s \/ skipped s t = true) ->
  kstep_f f sh s (EConnect4 t (connect_ctx ip port proto)) =
  (s, [PROCEED; sa_ip (connect_ctx ip port proto); sa_port (connect_ctx ip port proto)]).
Proof. exact untouched_f_agent. Qed.
Print Assumptions C06_untouched_under_failures.

(* refinement: with no failing call the refined hooks, events and script lines ARE the atomic ones, so
   every theorem above is a theorem about the refined model at the all-false oracle *)
Theorem C06_refinement : forall sh,
  (forall s t ctx, connect4_f no_fail sh s t ctx = connect4 sh s t ctx) /\
  (forall s t skc, tcp_v4_connect_f no_fail sh s t skc = tcp_v4_connect sh s t skc) /\
  (forall s ev, kstep_f no_fail sh s ev = kstep sh s ev) /\
  (forall w l, lstep_f no_fail sh w l = lstep sh w l).
Proof.
  intros sh. exact (conj (connect4_refines sh) (conj (tcp_v4_connect_refines sh) (conj (kstep_refines sh) (lstep_refines sh)))).
Qed.
Print Assumptions C06_refinement.

(* what a failure can cost.  connect4: the hand-over entry is missing exactly when its update (call 3)
   fails; nothing else changes *)
Theorem C06_failure_cost_connect4 : forall sh (f : oracle) s t ctx pol,
  wlookup (c_destination_entry (sa_ip ctx) (sa_port ctx) (sa_proto ctx)) (policy s) = Some pol ->
  skipped s t = false ->
  local (fst (fst (connect4_f f sh s t ctx))) =
    (if f 3%nat then local s else local (fst (fst (connect4 sh s t ctx)))) /\
  policy (fst (fst (connect4_f f sh s t ctx))) = policy s /\
  skip (fst (fst (connect4_f f sh s t ctx))) = skip s /\
  audit (fst (fst (connect4_f f sh s t ctx))) = audit s.
Proof. exact connect4_f_local. Qed.
Print Assumptions C06_failure_cost_connect4.

(* the kprobe with a pending entry: the record is written iff the audit_map update (call 3) succeeds and
   is then exactly the atomic program's; the entry is consumed iff the delete (call 4) succeeds -- a failed
   delete leaves the hand-over entry behind for the thread's next connect *)
Theorem C06_failure_cost_tcp_connect : forall (f : oracle) sh s t fam n d p le,
  u16 fam = AF_INET -> skipped s t = false ->
  wlookup (thread_key t) (local s) = Some le ->
  let s' := fst (tcp_v4_connect_f f sh s t (mk_sock fam n d p)) in
  audit s' = (if f 3%nat then audit s else audit (fst (tcp_v4_connect sh s t (mk_sock fam n d p)))) /\
  wlookup (thread_key t) (local s') = (if f 4%nat then Some le else None) /\
  policy s' = policy s /\ skip s' = skip s.
Proof. exact tcp_connect_f_pending. Qed.
Print Assumptions C06_failure_cost_tcp_connect.

(* whatever else fails: when the two updates succeed the record states the caller and the original address *)
Theorem C06_record_under_failures : forall (f1 f2 : oracle) sh s t ctx pol num,
  wlookup (c_destination_entry (sa_ip ctx) (sa_port ctx) (sa_proto ctx)) (policy s) = Some pol ->
  skipped s t = false ->
  f1 3%nat = false -> f2 3%nat = false ->
  let s1 := fst (fst (connect4_f f1 sh s t ctx)) in
  let s3 := fst (kstep_f f2 sh s1 (ETcpConnect t KERNEL_AF_INET num (de_ipv4 pol) (de_port pol))) in
  wlookup (c_audit_key (sa_proto ctx) (u16 num)) (audit s3) =
    Some (c_audit_entry (uid_at (sh_connect4 sh) t) (pid_of t)
            (if uid_at (sh_connect4 sh) t =? 0 then 1 else 0) (sa_ip ctx) (sa_port ctx)).
Proof. exact record_under_failures. Qed.
Print Assumptions C06_record_under_failures.

(* the losses are real: diverted but NO record when connect4's update or the kprobe's update fails; a
   record plus a stale hand-over entry when the kprobe's delete fails *)
Theorem C06_losses_under_failures :
  let proxy := connect_ctx Consts.proxy_agent_ip_network_byte_order Consts.proxy_agent_port IPPROTO_TCP in
  (exists e, loss_witness no_fail no_fail = (proxy, Some e, None)) /\
  loss_witness (fail_at 3) no_fail = (proxy, None, None) /\
  loss_witness no_fail (fail_at 3) = (proxy, None, None) /\
  (exists e le, loss_witness no_fail (fail_at 4) = (proxy, Some e, Some le)).
Proof. exact losses. Qed.
Print Assumptions C06_losses_under_failures.

(* ---- non-vacuity ------------------------------------------------------------------------- *)
(* a concrete protected connect between two other threads' hooks; the repaired program records the
   true caller on the F4 witnesses; an unlisted connect leaves everything alone *)
Example C06_nonvacuous :
  let t := {| tgid := 100; tid := 101; uid := 1000; gid := 1000 |} in
  let o := {| tgid := 200; tid := 201; uid := 0; gid := 0 |} in
  let ip := Consts.imds_ip_network_byte_order in
  let s := krun cur_sh kinit [agent_skip 77; agent_policy_add ip 80 3080] in
  let ctx := connect_ctx ip 80 IPPROTO_TCP in
  let s1 := fst (fst (connect4 cur_sh s t ctx)) in
  let mid := [EConnect4 o ctx; ETcpConnect o KERNEL_AF_INET 50001 16777343 (to_be16 3080)] in
  wf_task t = true /\ KnownClass_F4_connect4 t = false /\ skipped s t = false /\
  forallb (other_thread (thread_key t)) mid = true /\
  lookup_audit (fst (kstep cur_sh (krun cur_sh s1 mid) (ETcpConnect t KERNEL_AF_INET 50000 16777343 (to_be16 3080)))) 50000
    = Some (expected_audit t ip 80) /\
  lookup_audit (krun cur_sh s1 mid) 50001 <> None /\
  witness_run sh_repaired {| tgid := 100; tid := 101; uid := 1000; gid := 0 |} =
    Some (expected_audit {| tgid := 100; tid := 101; uid := 1000; gid := 0 |}
            Consts.wire_server_ip_network_byte_order Consts.wire_server_port) /\
  kstep cur_sh s (EConnect4 t (connect_ctx ip 8080 IPPROTO_TCP)) = (s, [1; ip; to_be16 8080]) /\
  kstep cur_sh s (EConnect4 {| tgid := 77; tid := 77; uid := 0; gid := 0 |} ctx) = (s, [1; ip; to_be16 80]).
Proof. vm_compute. repeat split; discriminate. Qed.
