(* C14 -- The proxy is transparent: requests and responses are relayed unchanged.  Property
   theorems only: each is closed by [exact lemma] and followed by Print Assumptions.
   Model: Model/Relay.v (on Model/Headers.v and Model/Canon.v), tied to proxy_server.rs
   handle_request_with_signature / convert_request / forward_response and proxy_connection.rs
   TcpConnectionContext::send_request by the byte-level end-to-end correspondence.

   Reading guide.  [q_frames q] is the client's body as ANY list of data frames (chunks of any
   sizes); [s_frames r] the host's body as any list of frames; [owned n] says n is one of the
   three proxy-owned request header names; schedules are arbitrary lists of task ids. *)
From GPA Require Import Relay HeadersProofs RelayProofs.

(* request leg: method, target, body bytes and every header other than the three proxy-owned
   ones (values and relative order) reach the host unchanged, for every chunking of the body *)
Theorem C14_request_unchanged :
  forall (mac : bytes -> bytes -> bytes) (a : audit) (now : bytes) (kv kg : option bytes)
         (q : framed_request) (out : request),
  upstream_of mac a now kv kg q = Forwarded out ->
  r_method out = q_method q /\
  r_uri out = q_uri q /\
  r_body out = concat (q_frames q) /\
  (forall n, owned n = false -> hm_get_all n (r_headers out) = wire_values n (q_wire q)) /\
  filter (fname (fun n => negb (owned n))) (r_headers out)
  = filter (fname (fun n => negb (owned n))) (of_wire (q_wire q)).
Proof. exact request_unchanged. Qed.
Print Assumptions C14_request_unchanged.

(* two requests that differ only in how the same body bytes were cut into frames are
   indistinguishable upstream *)
Theorem C14_chunking_irrelevant :
  forall (mac : bytes -> bytes -> bytes) (a : audit) (now : bytes) (kv kg : option bytes)
         (q q' : framed_request),
  q_method q = q_method q' -> q_uri q = q_uri q' -> q_wire q = q_wire q' ->
  concat (q_frames q) = concat (q_frames q') ->
  upstream_of mac a now kv kg q = upstream_of mac a now kv kg q'.
Proof. exact chunking_irrelevant. Qed.
Print Assumptions C14_chunking_irrelevant.

(* `byte.to_be()` on a u8 is the identity for all 256 values *)
Theorem C14_to_be_u8_id : forall b : N, b < 256 -> to_be_u8 b = b.
Proof. exact to_be_u8_id. Qed.
Print Assumptions C14_to_be_u8_id.

(* hence the client receives the host's body bytes, frame for frame, wherever the frame
   boundaries fall (1-byte frames, frames ending inside a multi-byte sequence, ...) *)
Theorem C14_response_bytes :
  forall r : response,
  wf_frames (s_frames r) = true ->
  body_of (s_frames (client_resp_of r)) = body_of (s_frames r) /\
  length (s_frames (client_resp_of r)) = length (s_frames r).
Proof. exact response_bytes. Qed.
Print Assumptions C14_response_bytes.

Theorem C14_response_bytes_any_framing :
  forall r r' : response,
  wf_frames (s_frames r) = true -> wf_frames (s_frames r') = true ->
  body_of (s_frames r) = body_of (s_frames r') ->
  body_of (s_frames (client_resp_of r)) = body_of (s_frames (client_resp_of r')).
Proof. exact response_bytes_any_framing. Qed.
Print Assumptions C14_response_bytes_any_framing.

(* a host body that ends in an ERROR (the host connection fails mid-body) reaches the client as
   an aborted transfer, never as a well-terminated shorter body *)
Theorem C14_truncation_not_hidden :
  forall r : response, s_aborted (client_resp_of r) = s_aborted r.
Proof. exact truncation_not_hidden. Qed.
Print Assumptions C14_truncation_not_hidden.

(* response head: status and all headers preserved (values and order); only the marker name
   is added / replaced, and it carries exactly the marker value *)
Theorem C14_response_head :
  forall r : response,
  s_status (client_resp_of r) = s_status r /\
  hm_get_all auth_header (s_headers (client_resp_of r)) = [marker_value] /\
  (forall n, beq n auth_header = false ->
             hm_get_all n (s_headers (client_resp_of r)) = hm_get_all n (s_headers r)) /\
  filter (fname (fun n => negb (beq n auth_header))) (s_headers (client_resp_of r))
  = filter (fname (fun n => negb (beq n auth_header))) (s_headers r).
Proof. exact response_head. Qed.
Print Assumptions C14_response_head.

(* keep-alive: for every number of requests on one connection and every interleaving of their
   steps (and of hyper's connection task) under the mutex, a request is only ever handed the
   response that answers it ([w = true]: the code as it is; [w = false]: before fix cdcae0b) *)
Theorem C14_fifo :
  forall (w : bool) (sched : list actor) (t r : nat),
  delivered (crun true w cinit sched) t = Some r -> r = t.
Proof. exact fifo. Qed.
Print Assumptions C14_fifo.

(* the same for any number of concurrent client connections, each with its own upstream
   connection; schedules interleave (connection, actor) steps arbitrarily *)
Theorem C14_fifo_connections :
  forall (w : bool) (sched : list (nat * actor)) (cid t r : nat),
  delivered (srun w sinit sched cid) t = Some r -> r = t.
Proof. exact fifo_connections. Qed.
Print Assumptions C14_fifo_connections.

(* at most one request of a connection is between "mutex taken" and "response head received" *)
Theorem C14_mutex_exclusive :
  forall (w : bool) (sched : list actor) (t t' : nat),
  critical (pcs (crun true w cinit sched) t) = true ->
  critical (pcs (crun true w cinit sched) t') = true -> t = t'.
Proof. exact mutex_exclusive. Qed.
Print Assumptions C14_mutex_exclusive.

(* "each response going to the request that caused it" also needs every request to be relayed:
   under every schedule no request is failed for lack of readiness of the upstream connection
   (Client::send_request awaits SendRequest::ready() before send_request: [code_waits_ready]
   is regenerated from its source, so removing the wait breaks this theorem) *)
Theorem C14_every_request_relayed :
  forall (sched : list actor) (t : nat), pcs (crun true code_waits_ready cinit sched) t <> PFailed.
Proof. exact code_no_spurious_failure. Qed.
Print Assumptions C14_every_request_relayed.

(* FINDING F12, repaired by fix commit cdcae0b (known_findings.d/C14.json, status fixed).  The
   code before the fix called send_request without waiting for ready(): a request dispatched
   before the connection task had signalled readiness after the previous exchange was answered
   503 by the proxy and never reached the host.  Kept for the record: the model of that code
   refutes the statement above ... *)
Theorem C14_every_request_relayed_before_fix_refuted :
  exists (sched : list actor) (t : nat),
    pcs (crun true false cinit sched) t = PFailed /\ ~ In t (upwire (crun true false cinit sched)).
Proof. exact spurious_failure_refuted. Qed.
Print Assumptions C14_every_request_relayed_before_fix_refuted.

(* ... and satisfies it only outside the class of schedules in which a send_request overtakes
   the readiness signal *)
Theorem C14_every_request_relayed_before_fix_partial :
  forall (sched : list actor) (t : nat),
  KnownClass_C14_send_before_ready sched = false ->
  pcs (crun true false cinit sched) t <> PFailed.
Proof. exact no_spurious_failure_partial. Qed.
Print Assumptions C14_every_request_relayed_before_fix_partial.

(* non-vacuity and contrasts:
   - a 3-request interleaving with lock contention completes with every request paired with
     its own response; the schedule that failed request 1 before the fix now completes;
   - the class of the repaired finding is inhabited by a schedule that did fail a request;
   - without the mutex a second request issued while the first is in flight is failed by
     hyper's dispatcher, with it the request waits;
   - the byte mapper is the identity on a frame holding 0x00, 0x7f, 0x80, 0xff, while the same
     function at width 2 is not the identity (so the theorem is about the width);
   - a response with a host-supplied marker header and a repeated header keeps everything but
     the marker value. *)
Example C14_nonvacuous :
  (let c := crun true false cinit
              [ConnTask; Req 0; Req 1; Req 2; Req 1; Req 0; Req 0; Req 2; Req 0; ConnTask;
               Req 1; Req 2; Req 1; Req 1; Req 1; ConnTask; Req 2; Req 2; Req 2; Req 2]%nat in
   pcs c 0%nat = PDone 0 /\ pcs c 1%nat = PDone 1 /\ pcs c 2%nat = PDone 2) /\
  (let c := crun true true cinit
              [Req 0; Req 0; Req 0; Req 0; Req 1; Req 1; Req 1; ConnTask; Req 1; Req 1; Req 1]%nat in
   pcs c 0%nat = PDone 0 /\ pcs c 1%nat = PDone 1) /\
  (exists sched t, KnownClass_C14_send_before_ready sched = true /\
                   pcs (crun true false cinit sched) t = PFailed) /\
  pcs (crun false false cinit [Req 0; Req 1; Req 0; Req 1]%nat) 1%nat = PFailed /\
  map_frame (FData [0; 127; 128; 255]) = FData [0; 127; 128; 255] /\
  to_be true 2 1 = 256 /\
  (let r := {| s_status := 404;
               s_headers := of_wire [([120], [49]); (auth_header, [104]); ([120], [50])];
               s_frames := [FData [1]; FData []; FData [2; 3]]; s_aborted := false |} in
   s_headers (client_resp_of r) = [([120], [49]); ([120], [50]); (auth_header, marker_value)] /\
   body_of (s_frames (client_resp_of r)) = [1; 2; 3] /\ s_status (client_resp_of r) = 404).
Proof.
  split; [vm_compute; repeat split|].
  split; [vm_compute; repeat split|].
  split; [exact known_class_witness|].
  vm_compute. repeat split.
Qed.
