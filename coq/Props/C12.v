(* C12 -- The latched key value never leaves the key store.  Property theorems only: each is closed
   by [exact lemma] and followed by Print Assumptions.  Model: Model/Taint.v (tied to key_keeper.rs,
   key_keeper/key.rs, common/{helpers,error,hyper_client,logger}.rs, proxy/proxy_server.rs,
   shared_state/agent_status_wrapper.rs, provision.rs, proxy_agent_status.rs, acl/linux_acl.rs by the
   canary correspondence check tools/checks/c12.py).

   [run v h] is the list of (sink, symbolic text) the agent writes over history [h] (latch, rotation,
   disable/enable, restarts, client requests, /provision queries, provision deadline, status.json
   writes; host faults: error status, malformed / invalid status, error / malformed key body, non-hex
   key, failed attestation).  [v] says which of the two repairs of F6 the code carries; [current]
   (= both: commits 5de21e5 and 04b956c) is the code under verification.  [Mac _] fragments are not
   occurrences of the key. *)
From Coq Require Import List NArith Bool.
From GPA Require Import Taint TaintProofs.
Import ListNotations.
Open Scope N_scope.

(* THE PROPERTY, at full strength: for EVERY history over the whole fault alphabet, every sink other
   than the key file is free of every key value. *)
Theorem C12_noninterference : forall h : history,
  Forall (fun o : sink * text => fst o = KeyFile \/ secret_free (snd o)) (run current h).
Proof. exact noninterference_current. Qed.
Print Assumptions C12_noninterference.

(* the key directory.  [predir]: the directory already existed, mode 0o755 and not chown'ed, when the agent
   first started; [co]: the environment lets chown(key dir, root, root) succeed (it does not for an agent
   without CAP_CHOWN on somebody else's directory; acl_directory then logs and still sets the mode).
   Histories may also REMOVE the key directory while the agent runs ([RemoveKeyDir]); the provision deadline
   then re-creates it with default permissions.  Since commit fd6287b (repair of F12) the key folder is
   re-created if gone and restricted again right before every key store, so the statements hold for EVERY
   history, with no class hypothesis. *)

(* The directory the agent finds when it first starts is arbitrary: absent, or present with ANY owner and mode
   ([dir_matches predir d0]: 0o755 of another account, 0o700 of another account -- pre-created by a local user --,
   0o700 root:other-group, 0o755 root:root, ...). *)

(* in EVERY environment, history and initial directory: the mode is 0o700 at every creation of a key file inside
   the key directory *)
Theorem C12_dir_mode_restricted_at_create :
  forall (v : variant) (predir co : bool) (h : history) (d0 : dirstate) (pre post : list sys),
  dir_matches predir d0 ->
  sys_trace v predir co h = pre ++ Create FKeyFile :: post -> mode_restricted (dir_after d0 pre) = true.
Proof. exact dir_mode_restricted_at_create. Qed.
Print Assumptions C12_dir_mode_restricted_at_create.

(* where chown can succeed: owner root:root AND mode 0o700 at every such creation, whoever owned the directory before *)
Theorem C12_dir_restricted_at_create :
  forall (v : variant) (predir : bool) (h : history) (d0 : dirstate) (pre post : list sys),
  dir_matches predir d0 ->
  sys_trace v predir true h = pre ++ Create FKeyFile :: post -> restricted (dir_after d0 pre) = true.
Proof. exact dir_restricted_at_create. Qed.
Print Assumptions C12_dir_restricted_at_create.

(* DESIGN form: the chmod 0o700 (= 448) precedes every creation of a key file in the key directory, in every
   environment and history; so does the chown root:root wherever it can succeed -- the agent never relies on the
   mode or owner it finds *)
Theorem C12_dir_restricted_first :
  forall (v : variant) (predir co : bool) (h : history) (pre post : list sys),
  sys_trace v predir co h = pre ++ Create FKeyFile :: post ->
  In (Chmod 448) pre /\ (co = true -> In (Chown 0 0) pre).
Proof. exact dir_restricted_first. Qed.
Print Assumptions C12_dir_restricted_first.

(* the former F12 witness (directory removed, re-created by the provision deadline, next key stored): the key
   file is now created after a fresh chown + chmod of the re-created directory *)
Example C12_keydir_recreated_now_restricted :
  map sys_code (sys_trace current false true witness_keydir_recreated)
  = [(0, 0); (1, 0); (2, 448); (1, 0); (2, 448); (3, 0); (4, 0); (0, 0); (3, 1); (3, 1); (1, 0); (2, 448); (3, 0)]%N.
Proof. exact keydir_recreated_now_restricted. Qed.

(* ---- what the two repairs prevent (F6; both were replayed on the real code before the repairs) ---- *)

(* Without the repairs the statement is refuted on two host-fault paths: *)
(* (1) the host hands out a key whose value is not valid hex *)
Theorem C12_hex_error_refuted : exists h : history, ~ noninterference (run unfixed h).
Proof. exact hex_error_refuted. Qed.
Print Assumptions C12_hex_error_refuted.

(* (2) the host's key response body does not deserialize *)
Theorem C12_body_error_refuted : exists h : history, ~ noninterference (run unfixed h).
Proof. exact body_error_refuted. Qed.
Print Assumptions C12_body_error_refuted.

(* each repair is needed on its own *)
Theorem C12_without_hex_repair_refuted : exists h : history, ~ noninterference (run only_body_repair h).
Proof. exact without_hex_repair_refuted. Qed.
Print Assumptions C12_without_hex_repair_refuted.

Theorem C12_without_body_repair_refuted : exists h : history, ~ noninterference (run only_hex_repair h).
Proof. exact without_body_repair_refuted. Qed.
Print Assumptions C12_without_body_repair_refuted.

(* The exact leak envelope of EVERY variant: for every history and every sink other than the key file, the
   only key values that can occur are (a) keys the host delivered non-hex, and then only in the log, the
   console and the connection log; (b) keys the host delivered inside an undeserialisable body, and then
   only in the log, connection log, events, status.json, status.tag, the serial console and /provision
   answers -- each only while the corresponding repair is absent. *)
Theorem C12_leak_envelope : forall (v : variant) (h : history) (s : sink) (t : text) (k : keyid),
  In (s, t) (run v h) -> In k (secrets t) -> leak_allowed v h s k.
Proof. exact leak_envelope. Qed.
Print Assumptions C12_leak_envelope.

(* non-interference of every variant for every history outside the fault classes its missing repairs open *)
Theorem C12_noninterference_partial : forall (v : variant) (h : history),
  KnownClass_host_key_not_hex v h = false ->
  KnownClass_host_key_body_malformed v h = false ->
  Forall (fun o : sink * text => fst o = KeyFile \/ secret_free (snd o)) (run v h).
Proof. exact noninterference_partial. Qed.
Print Assumptions C12_noninterference_partial.

(* a well-formed key stays in the key file even in histories where OTHER keys hit the faults *)
Theorem C12_wellformed_key_confined : forall (v : variant) (h : history) (s : sink) (t : text) (k : keyid),
  In (s, t) (run v h) -> In k (secrets t) ->
  ~ In k (nonhex_keys h) -> ~ In k (malformed_keys h) -> s = KeyFile.
Proof. exact wellformed_key_confined. Qed.
Print Assumptions C12_wellformed_key_confined.

(* non-vacuity: the witnesses are in their classes and (without the repairs) leak exactly where the replay
   on the pre-repair code showed the canary; a latch / rotation / disable / restart / re-enable history
   writes two key files and nothing else; the current code is silent on both witnesses *)
Example C12_witnesses_in_class :
  KnownClass_host_key_not_hex unfixed witness_not_hex = true
  /\ KnownClass_host_key_body_malformed unfixed witness_not_hex = false
  /\ KnownClass_host_key_body_malformed unfixed witness_body_malformed = true
  /\ KnownClass_host_key_not_hex unfixed witness_body_malformed = false.
Proof. exact witnesses_in_class. Qed.

Example C12_witness_vectors :
  vector (run unfixed witness_not_hex) = [(KeyFile, [1%N]); (Log, [1%N]); (ConnLog, [1%N]); (Stdout, [1%N])]
  /\ vector (run unfixed witness_body_malformed)
     = [(Log, [1%N]); (ConnLog, [1%N]); (Event, [1%N]); (StatusJson, [1%N]); (ProvisionTag, [1%N]);
        (SerialConsole, [1%N]); (ClientResponse, [1%N])].
Proof. exact witness_vectors. Qed.

Example C12_nonvacuous :
  vector (run unfixed [Poll (SOk true None 1) (KOk 1 true) AOk; ClientRequest; Poll (SOk true None 1) (KOk 2 true) AOk;
                       Poll (SOk false (Some 2%N) 1) KErr AOk; Restart; Poll (SOk true (Some 2%N) 1) KErr AOk; ClientRequest;
                       StatusTick; ProvisionQuery true; ProvisionTimeup])
    = [(KeyFile, [1%N; 2%N])]
  /\ map sys_code (sys_trace unfixed false true [Poll (SOk true None 1) (KOk 1 true) AOk; ProvisionTimeup; Restart; Poll (SOk true None 1) (KOk 2 true) AOk])
    = [(0, 0); (1, 0); (2, 448); (1, 0); (2, 448); (3, 0); (3, 1); (3, 1); (1, 0); (2, 448); (1, 0); (2, 448); (3, 0)]%N
  /\ map sys_code (sys_trace unfixed true true [Poll (SOk true None 1) (KOk 1 true) AOk])
    = [(1, 0); (2, 448); (1, 0); (2, 448); (3, 0)]%N
  /\ map sys_code (sys_trace current true false [Poll (SOk true None 1) (KOk 1 true) AOk])
    = [(2, 448); (2, 448); (3, 0)]%N
  /\ vector (run repaired witness_not_hex) = []
  /\ vector (run repaired witness_body_malformed) = [].
Proof. exact nonvacuous_examples. Qed.

(* the model's hex gate is hex::decode's acceptance (even length AND all hex digits): an odd-length all-hex
   key is refused by the current code and would leak through Error::Hex(.., OddLength) without the gate *)
Example C12_odd_length_is_not_hex :
  hex_decode_accepts false true = false /\ hex_decode_accepts true false = false
  /\ hex_decode_accepts true true = true /\ hex_decode_accepts false false = false
  /\ vector (run current [Poll (SOk true None 1) (KOk 1 (hex_decode_accepts false true)) AOk; ClientRequest]) = []
  /\ vector (run only_body_repair [Poll (SOk true None 1) (KOk 1 (hex_decode_accepts false true)) AOk])
     = [(KeyFile, [1%N]); (Log, [1%N]); (Stdout, [1%N])].
Proof. exact odd_length_is_not_hex. Qed.
