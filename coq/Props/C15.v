(* C15 -- Request bodies above the size limit are refused and never relayed.  Property theorems
   only: each is closed by [exact lemma] and followed by Print Assumptions.
   Model: Model/Limit.v (on Relay.v / Headers.v / Canon.v), tied to the service_fn closure of
   proxy_server.rs, tower-http's RequestBodyLimitLayer and the handler's collect-then-send order
   by the end-to-end correspondence.

   Reading guide.  [serve mac p now kv kg up q declared broken] is one request through the limit
   layer and the handler: [p] what the handler decides before touching the body, [declared] the
   Content-Length (None = chunked), [q_frames q] the body as ANY list of data frames, [broken]
   whether the body stream ends in an error, [up] whether the upstream connection is open.
   [upstream_writes] lists every request written upstream; [total] is the body length. *)
From GPA Require Import Limit HeadersProofs LimitProofs.

(* nothing of an over-limit body is ever relayed -- unconditionally *)
Theorem C15_never_relayed :
  forall (mac : bytes -> bytes -> bytes) (p : pre) (now : bytes) (kv kg : option bytes) (up : bool)
         (q : framed_request) (declared : option N) (broken : bool),
  limit_of (q_method q) (q_uri q) < total (q_frames q) ->
  upstream_writes (serve mac p now kv kg up q declared broken) = [].
Proof. exact never_relayed. Qed.
Print Assumptions C15_never_relayed.

(* over the limit => a 4xx answer and no upstream write, in both declaration modes, for every
   request on the relay path (authorized, or refused for a client-caused reason) *)
Theorem C15_over_limit_refused :
  forall (mac : bytes -> bytes -> bytes) (p : pre) (now : bytes) (kv kg : option bytes) (up : bool)
         (q : framed_request) (declared : option N) (broken : bool),
  header_value_ok now = true ->
  (match p with PreEarly k => client_caused k = true | PreProvision _ => False | PreProceed _ => True end) ->
  limit_of (q_method q) (q_uri q) < total (q_frames q) ->
  exists s, to_client (serve mac p now kv kg up q declared broken) = Local s /\
            is_4xx s = true /\
            upstream_writes (serve mac p now kv kg up q declared broken) = [].
Proof. exact over_limit_refused. Qed.
Print Assumptions C15_over_limit_refused.

(* declared mode: 413 before the handler runs, whatever the request *)
Theorem C15_over_limit_declared :
  forall (mac : bytes -> bytes -> bytes) (p : pre) (now : bytes) (kv kg : option bytes) (up : bool)
         (q : framed_request) (d : N) (broken : bool),
  limit_of (q_method q) (q_uri q) < d ->
  serve mac p now kv kg up q (Some d) broken = local status_payload_too_large.
Proof. exact over_limit_declared. Qed.
Print Assumptions C15_over_limit_declared.

(* undeclared mode: 400 once discovered while collecting, nothing sent before *)
Theorem C15_over_limit_discovered :
  forall (mac : bytes -> bytes -> bytes) (a : audit) (now : bytes) (kv kg : option bytes) (up : bool)
         (q : framed_request) (broken : bool),
  header_value_ok now = true ->
  limit_of (q_method q) (q_uri q) < total (q_frames q) ->
  serve mac (PreProceed a) now kv kg up q None broken = local 400.
Proof. exact over_limit_discovered. Qed.
Print Assumptions C15_over_limit_discovered.

(* exactly the limit or less: accepted and relayed intact, in one upstream write *)
Theorem C15_within_limit_relayed :
  forall (mac : bytes -> bytes -> bytes) (a : audit) (now : bytes) (kv kg : option bytes)
         (q : framed_request) (declared : option N) (out : request),
  total (q_frames q) <= limit_of (q_method q) (q_uri q) ->
  (declared = None \/ declared = Some (total (q_frames q))) ->
  proxy_forward mac a now kv kg
    {| c_method := q_method q; c_uri := q_uri q; c_wire := q_wire q; c_body := concat (q_frames q) |}
  = Forwarded out ->
  serve mac (PreProceed a) now kv kg true q declared false
  = {| to_client := FromHost; upstream_writes := [out] |} /\
  r_body out = concat (q_frames q).
Proof. exact within_limit_relayed. Qed.
Print Assumptions C15_within_limit_relayed.

(* converse: any upstream write carries the whole body, the body was within the limit, and it
   is the only write (no partial relay, no streaming ahead of the decision) *)
Theorem C15_relayed_only_within :
  forall (mac : bytes -> bytes -> bytes) (p : pre) (now : bytes) (kv kg : option bytes) (up : bool)
         (q : framed_request) (declared : option N) (broken : bool) (out : request),
  In out (upstream_writes (serve mac p now kv kg up q declared broken)) ->
  r_body out = concat (q_frames q) /\ total (q_frames q) <= limit_of (q_method q) (q_uri q) /\
  upstream_writes (serve mac p now kv kg up q declared broken) = [out].
Proof. exact relayed_only_within. Qed.
Print Assumptions C15_relayed_only_within.

(* the large limit applies iff the request is one of the signature-exempt uploads ... *)
Theorem C15_limit_class :
  forall (m : bytes) (u : uri), limit_of m u = large_limit <-> should_skip_sig m u = true.
Proof. exact limit_class. Qed.
Print Assumptions C15_limit_class.

(* ... which are exactly PUT /vmAgentLog and POST /machine/?comp=telemetrydata, the URL (path
   and query as one string) compared case-insensitively, the method exactly *)
Theorem C15_exempt_exact :
  forall (m : bytes) (u : uri),
  should_skip_sig m u = true <->
  (m = Lit.put /\ lower (uri_to_string u) = Lit.vmagentlog) \/
  (m = Lit.post /\ lower (uri_to_string u) = Lit.telemetrydata).
Proof. exact skip_exact. Qed.
Print Assumptions C15_exempt_exact.

(* the two limits, from the regenerated constants *)
Theorem C15_limits_are : low_limit = 100 * 1024 /\ large_limit = 100 * 1024 * 1024.
Proof. exact limits_are. Qed.
Print Assumptions C15_limits_are.

(* non-vacuity (small frames standing for large ones would be vacuous, so the boundary is
   exercised on the decision procedure over frame LENGTHS, which LimitProofs.c15_case_sound
   ties to [serve]): at both limits, L is relayed and L+1 is refused, declared and chunked with
   a chunk straddling the limit; case variants are exempt, near misses are not. *)
Module Ex.
  Import Coq.Strings.String.
  Definition put := B"PUT".
  Definition post := B"POST".
  Definition get := B"GET".
  Definition log := B"/vmAgentLog".
  Definition log_slash := B"/vmAgentLog/".
  Definition machine := B"/machine/".
  Definition tele := B"comp=TelemetryData".
  Definition tele_x := B"comp=TelemetryData&x=1".
  Definition other := B"/metadata/instance".
End Ex.

Example C15_nonvacuous :
  (* low class *)
  snd (c15_case Ex.post Ex.other None 0 (Some 102400) [102400] false) = VRelayed 102400 /\
  snd (c15_case Ex.post Ex.other None 0 (Some 102401) [102401] false) = VLocal 413 /\
  snd (c15_case Ex.post Ex.other None 0 None [60000; 42400] false) = VRelayed 102400 /\
  snd (c15_case Ex.post Ex.other None 0 None [102399; 2] false) = VLocal 400 /\
  snd (c15_case Ex.post Ex.other None 1 None [102399; 2] false) = VLocal 403 /\
  (* large class, case variants *)
  c15_case Ex.put Ex.log None 0 None [104857600] false = (104857600, true, VRelayed 104857600) /\
  snd (c15_case Ex.put Ex.log None 0 None [104857599; 2] false) = VLocal 400 /\
  snd (c15_case Ex.post Ex.machine (Some Ex.tele) 0 (Some 104857601) [] false) = VLocal 413 /\
  fst (c15_case Ex.post Ex.machine (Some Ex.tele) 0 None [] false) = (104857600, true) /\
  (* near misses stay in the low class *)
  fst (c15_case Ex.put Ex.log_slash None 0 None [] false) = (102400, false) /\
  fst (c15_case Ex.post Ex.machine (Some Ex.tele_x) 0 None [] false) = (102400, false) /\
  fst (c15_case Ex.post Ex.log None 0 None [] false) = (102400, false) /\
  fst (c15_case Ex.get Ex.machine (Some Ex.tele) 0 None [] false) = (102400, false) /\
  (* [serve] itself on a small instance: 3 bytes in two frames are relayed in one write *)
  (let a := {| a_logon_id := 0; a_process_id := 1; a_is_admin := 1%Z;
               a_destination_ipv4 := 0; a_destination_port := 80 |} in
   let q := {| q_method := Ex.post; q_uri := {| u_path := Ex.other; u_query := None |};
               q_wire := []; q_frames := [[1; 2]; [3]] |} in
   match upstream_writes (serve zero_mac (PreProceed a) [48] None None true q None false) with
   | [out] => r_body out = [1; 2; 3]
   | _ => False
   end).
Proof. vm_compute. repeat split. Qed.

(* ---------------------------------------------------------------------------------------- *)
(* a connection is a SEQUENCE of requests (Model/LimitSeq.v): the limit applied to a request  *)
(* depends on that request alone                                                              *)
(* ---------------------------------------------------------------------------------------- *)
From GPA Require Import LimitSeq LimitSeqProofs.

(* the outcome at position i of any connection equals the outcome of the same request at any
   position of any other connection: nothing is carried from request to request *)
Theorem C15_seq_position_independent :
  forall (mac : bytes -> bytes -> bytes) (kv kg : option bytes) (rs rs' : list conn_request) (i j : nat),
  nth_error rs i = nth_error rs' j ->
  nth_error (serve_connection mac kv kg rs) i = nth_error (serve_connection mac kv kg rs') j.
Proof. exact position_independent. Qed.
Print Assumptions C15_seq_position_independent.

(* for every sequence and every position: a request over the limit of ITS OWN class is answered
   4xx and causes no upstream write -- whatever preceded it, host usable or not *)
Theorem C15_seq_over_limit_refused :
  forall (mac : bytes -> bytes -> bytes) (kv kg : option bytes) (rs : list conn_request) (i : nat) (r : conn_request),
  nth_error rs i = Some r ->
  header_value_ok (cr_now r) = true -> on_relay_path r -> over_own_limit r ->
  exists s st, nth_error (serve_connection mac kv kg rs) i = Some s /\
               to_client s = Local st /\ is_4xx st = true /\ upstream_writes s = [].
Proof. exact seq_over_limit_refused. Qed.
Print Assumptions C15_seq_over_limit_refused.

(* the host is down or dropped its side before this request: the over-limit body is still refused
   by the size decision (413 declared / 400 discovered), as the code collects the body before it
   touches the host *)
Theorem C15_seq_over_limit_host_down :
  forall (mac : bytes -> bytes -> bytes) (kv kg : option bytes) (rs : list conn_request) (i : nat) (r : conn_request) (a : audit),
  nth_error rs i = Some r -> cr_up r = false -> cr_pre r = PreProceed a ->
  header_value_ok (cr_now r) = true -> over_own_limit r ->
  exists st, nth_error (serve_connection mac kv kg rs) i = Some (local st) /\ (st = 413 \/ st = 400).
Proof. exact seq_over_limit_host_down. Qed.
Print Assumptions C15_seq_over_limit_host_down.

(* for every sequence and every position: a request within the limit of its own class is not
   refused for its size -- relayed intact when the host is usable ... *)
Theorem C15_seq_within_limit_relayed :
  forall (mac : bytes -> bytes -> bytes) (kv kg : option bytes) (rs : list conn_request) (i : nat) (r : conn_request)
         (a : audit) (out : request),
  nth_error rs i = Some r -> cr_pre r = PreProceed a -> cr_up r = true -> cr_broken r = false ->
  total (q_frames (cr_req r)) <= limit_of (q_method (cr_req r)) (q_uri (cr_req r)) ->
  (cr_declared r = None \/ cr_declared r = Some (total (q_frames (cr_req r)))) ->
  proxy_forward mac a (cr_now r) kv kg
    {| c_method := q_method (cr_req r); c_uri := q_uri (cr_req r); c_wire := q_wire (cr_req r);
       c_body := concat (q_frames (cr_req r)) |} = Forwarded out ->
  nth_error (serve_connection mac kv kg rs) i = Some {| to_client := FromHost; upstream_writes := [out] |} /\
  r_body out = concat (q_frames (cr_req r)).
Proof. exact seq_within_limit_relayed. Qed.
Print Assumptions C15_seq_within_limit_relayed.

(* ... and answered with the host error (502), not a size refusal, when it is not *)
Theorem C15_seq_within_limit_host_down :
  forall (mac : bytes -> bytes -> bytes) (kv kg : option bytes) (rs : list conn_request) (i : nat) (r : conn_request)
         (a : audit) (out : request),
  nth_error rs i = Some r -> cr_pre r = PreProceed a -> cr_up r = false -> cr_broken r = false ->
  total (q_frames (cr_req r)) <= limit_of (q_method (cr_req r)) (q_uri (cr_req r)) ->
  (cr_declared r = None \/ cr_declared r = Some (total (q_frames (cr_req r)))) ->
  proxy_forward mac a (cr_now r) kv kg
    {| c_method := q_method (cr_req r); c_uri := q_uri (cr_req r); c_wire := q_wire (cr_req r);
       c_body := concat (q_frames (cr_req r)) |} = Forwarded out ->
  nth_error (serve_connection mac kv kg rs) i = Some (local status_bad_gateway).
Proof. exact seq_within_limit_host_down. Qed.
Print Assumptions C15_seq_within_limit_host_down.

(* non-vacuity / contrast: behind an exempt upload a chunked 102401-byte POST /x is refused 400 by the
   code's per-request layer, while a layer kept from the connection's first request would relay it *)
Example C15_seq_nonvacuous :
  exists r s, nth_error sticky_witness 1 = Some r /\ over_own_limit r /\
              nth_error (serve_connection_sticky zero_mac None None sticky_witness) 1 = Some s /\
              length (upstream_writes s) = 1%nat /\
              (exists s', nth_error (serve_connection zero_mac None None sticky_witness) 1 = Some s' /\
                          upstream_writes s' = [] /\ to_client s' = Local 400).
Proof. exact sticky_limit_refuted. Qed.
