(* C09 -- Agent state converges to the host's latest secure-channel status.
   Property theorems only: each is closed by [exact lemma] and followed by Print Assumptions.
   Model: Model/KeyKeeper.v (one iteration of key_keeper.rs::loop_poll, key.rs::KeyStatus, the
   actor locals of key_keeper_wrapper.rs), tied to the code by the correspondence check
   tools/checks/c09.py (real KeyKeeper against a scripted mock host). *)
From GPA Require Import KeyKeeper KeyKeeperProofs.

(* A poll whose status request fails (transport error, non-2xx, undeserialisable body) or returns
   a document that fails validate() changes nothing and does nothing but the status request --
   from ANY state, reachable or not. *)
Theorem C09_failed_status_changes_nothing : forall (s : kk) (a : answers),
  status_failed a = true -> poll s a = (s, [EStatus]).
Proof. exact poll_failed. Qed.
Print Assumptions C09_failed_status_changes_nothing.

(* Convergence: after ANY history of polls (arbitrary answers, faults at every step) and notify
   resets, one clean poll makes the observable state (rules of the three endpoints, key, channel
   state) equal to F of that answer alone.  Hypotheses are the named contracts:
   id_functional   -- a rule id identifies the item (the code keys replacement on the id; F9);
   guid_functional -- a key guid identifies the key;
   mem_backed      -- the local key store still returns the key held in memory when the host names
                      it (C08; discharged for the modelled file system in KeyStoreProofs). *)
Theorem C09_converges : forall (h : list event) (a : answers) (d : doc),
  a_status a = StatusDoc d -> clean d a = true ->
  id_functional (empty_doc :: docs_of h ++ [d]) ->
  guid_functional (keys_of h ++ keys_of_ans a) ->
  mem_backed (run h) d a ->
  observe (fst (poll (run h) a)) = F d a.
Proof. exact converges. Qed.
Print Assumptions C09_converges.

(* Without id_functional the statement is false: a document that re-uses a rule id with a
   different mode is not installed.  Kept as information about the host contract (DESIGN 6, F9:
   not a finding). *)
Theorem C09_converges_same_id_refuted :
  exists h a d,
    a_status a = StatusDoc d /\ clean d a = true /\
    guid_functional (keys_of h ++ keys_of_ans a) /\ mem_backed (run h) d a /\
    observe (fst (poll (run h) a)) <> F d a.
Proof. exact converges_same_id_refuted. Qed.
Print Assumptions C09_converges_same_id_refuted.

(* Likewise without guid_functional: a different key under the guid already in memory is not picked up. *)
Theorem C09_converges_same_guid_refuted :
  exists h a d,
    a_status a = StatusDoc d /\ clean d a = true /\
    id_functional (empty_doc :: docs_of h ++ [d]) /\ mem_backed (run h) d a /\
    observe (fst (poll (run h) a)) <> F d a.
Proof. exact converges_same_guid_refuted. Qed.
Print Assumptions C09_converges_same_guid_refuted.

(* Whenever the agent's channel state is "disabled" it holds no key -- in every reachable state. *)
Theorem C09_disabled_means_no_key : forall h : list event,
  k_state (run h) = DISABLE_STATE -> k_key (run h) = None.
Proof. exact disabled_means_no_key. Qed.
Print Assumptions C09_disabled_means_no_key.

(* Redirect policy: in every poll from every state, the policy updates issued are exactly
   [wireserver, imds, hostga] with redirect = (mode <> "disabled") when the stored channel state
   changes in this poll, and none at all otherwise. *)
Theorem C09_policy_follows_modes : forall (s : kk) (a : answers),
  policies (snd (poll s a)) =
  if beq (k_state s) (k_state (fst (poll s a))) then []
  else match a_status a with
       | StatusDoc d =>
           [EPolicy WS (negb (beq (ws_mode d) DISABLE_STATE));
            EPolicy IMDS (negb (beq (imds_mode d) DISABLE_STATE));
            EPolicy GA (negb (beq (ga_mode d) DISABLE_STATE))]
       | StatusErr => []
       end.
Proof. exact policy_follows_modes. Qed.
Print Assumptions C09_policy_follows_modes.

(* Rules are installed before the key step: whatever acquire / store / check / attest do, the rules
   after a poll with a valid document are: unchanged where the stored id equals the document's id,
   the document's item (or none) otherwise. *)
Theorem C09_rules_survive_failed_acquire : forall (s : kk) (a : answers) (d : doc) (ep : endpoint),
  a_status a = StatusDoc d -> validate d = true ->
  krules ep (fst (poll s a)) = if beq (kid ep s) (ep_id ep d) then krules ep s else ep_item ep d.
Proof. exact poll_rules_explicit. Qed.
Print Assumptions C09_rules_survive_failed_acquire.

(* A failed key step (acquire, store, read-back or attest) leaves channel state and key as they
   were and issues no policy update. *)
Theorem C09_failed_key_step_keeps_state_and_key : forall (s : kk) (a : answers) (d : doc),
  a_status a = StatusDoc d -> validate d = true ->
  need_key (fst (install_rules s d)) d = true ->
  fst (key_step d a) = KeyFailed ->
  k_state (fst (poll s a)) = k_state s /\ k_key (fst (poll s a)) = k_key s /\
  policies (snd (poll s a)) = [].
Proof. exact failed_key_step_keeps. Qed.
Print Assumptions C09_failed_key_step_keeps_state_and_key.

(* non-vacuity: a latch, a disable that drops the key and flips the policy, a failed attest that
   still installs the rules, and a clean poll that meets every hypothesis of C09_converges *)
Example C09_nonvacuous :
  (let s := run [Poll nv_ans_latch] in
   k_key s = Some nv_key /\ k_ws s = Some nv_item /\ k_state s <> DISABLE_STATE) /\
  (let s := run [Poll nv_ans_latch; Poll nv_ans_disabled] in
   k_key s = None /\ k_state s = DISABLE_STATE /\ k_ws s = None) /\
  policies (snd (poll (run [Poll nv_ans_latch]) nv_ans_disabled)) =
    [EPolicy WS false; EPolicy IMDS false; EPolicy GA false] /\
  (let s := run [Poll nv_ans_attest_fails] in
   k_key s = None /\ k_ws s = Some nv_item /\ k_state s = UNKNOWN_STATE) /\
  clean nv_doc_enabled nv_ans_latch = true /\
  status_failed {| a_status := StatusErr; a_local := None; a_acquire := None; a_store := false;
                   a_readback := None; a_attest := false |} = true /\
  k_state (run [Poll nv_ans_disabled; Notify]) = UNKNOWN_STATE.
Proof. vm_compute. repeat split; discriminate. Qed.
