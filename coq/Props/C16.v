(* C16 -- Provisioning status is truthful under any arrival order.  Property theorems only: each
   is closed by [exact lemma] and followed by Print Assumptions.  Model: Model/Provision.v over the
   generic interleaving semantics Model/Sched.v, tied to provision.rs / provision_wrapper.rs /
   proxy_server.rs by the correspondence check tools/checks/c16.py.

   Reading guide.  [prun v (start v w0 ops) sched] is the configuration reached by the client
   operations [ops] (any number of readiness reports, key-latch resets, deadline handlers, queries
   with arbitrary ticks, status / channel updates) from the initial world [w0] under the schedule
   [sched] -- ANY list of task ids, i.e. any interleaving at the granularity of single actor
   messages and single file-system syscalls, of any length (a shorter schedule = a crash point).
   [repaired_code] is the code as it is now (/repo e68ce38 atomic tick, b4d0508 zero tick never
   finished, 3666d88 writers of status.tag.tmp serialized): the main theorems are about it, at full
   strength, and the check compares the code with exactly this model.  [original_code] is the tree
   before those three repairs; the refutations F10 / F12 / F11 of the full statements for it, and the
   partial statements that did hold for it, are kept below as documented lemmas.  Theorems quantified
   over [v] hold for every variant. *)
From Coq Require Import List NArith ZArith.
Import ListNotations.
From GPA Require Import Provision SchedProofs ProvisionProofs.
Local Open Scope Z_scope.

(* ---- no lost update: the flags are the OR of the reports minus the resets, in actor order ---- *)
Theorem C16_no_lost_update : forall v w0 (ps : list pprog) sched,
  w_flags w0 = 0%N ->
  let c := run (handle v) (init w0 ps) sched in
  w_flags (shared c) = flags_of_trace (trace c).
Proof. exact no_lost_update. Qed.
Print Assumptions C16_no_lost_update.

(* the value handed back by UpdateState / ResetState / GetState is the flags right after that very
   message: the ALL_READY test of update_provision_state is made on an atomic snapshot *)
Theorem C16_reply_is_snapshot : forall v w0 (ps : list pprog) sched tr1 e tr2,
  w_flags w0 = 0%N ->
  trace (run (handle v) (init w0 ps) sched) = tr1 ++ e :: tr2 ->
  match ev_msg e with
  | UpdateState _ | ResetState _ | GetState => ev_reply e = RFlags (flags_of_trace (e :: tr2))
  | _ => True
  end.
Proof. exact reply_is_flags_then. Qed.
Print Assumptions C16_reply_is_snapshot.

(* a processed report stays visible until a later reset names its flag *)
Theorem C16_report_survives : forall tr1 e tr2 f,
  ev_msg e = UpdateState f -> no_reset_of f tr1 ->
  fcontains (flags_of_trace (tr1 ++ e :: tr2)) f = true.
Proof. exact report_survives. Qed.
Print Assumptions C16_report_survives.

(* ---- tick justified ---- *)
Theorem C16_tick_justified : forall v evt msgs chan tag0 ops sched,
  let w := shared (prun v (start v (init_world evt msgs chan tag0) ops) sched) in
  w_tick w <> 0 ->
  exists t, 0 < t <= w_now w /\
            (all_ready_at (w_hist w) t = true \/ timeup_at (w_hist w) t = true).
Proof. exact tick_justified. Qed.
Print Assumptions C16_tick_justified.

(* outside the stale-stamp class the tick IS an instant at which all three were ready or the
   deadline handler ran *)
Theorem C16_tick_justified_strong : forall v evt msgs chan tag0 ops sched,
  let w := shared (prun v (start v (init_world evt msgs chan tag0) ops) sched) in
  w_stale w = false -> w_tick w <> 0 ->
  0 < w_tick w <= w_now w /\
  (all_ready_at (w_hist w) (w_tick w) = true \/ timeup_at (w_hist w) (w_tick w) = true).
Proof. exact tick_justified_strong. Qed.
Print Assumptions C16_tick_justified_strong.

(* ---- the error text ---- *)
Theorem C16_error_names_exactly_missing : forall v evt msgs chan tag0 ops sched t fin err q tk fl la,
  let c := prun v (start v (init_world evt msgs chan tag0) ops) sched in
  result_of c t = Some (RQuery fin err q tk fl la) ->
  (exists reads, map fst reads = missing fl /\ err = text_of reads) /\
  (err = [] <-> fcontains fl F_ALL = true) /\
  (exists t0, 0 < t0 <= w_now (shared c) /\ flags_at (w_hist (shared c)) t0 = fl).
Proof. exact error_text_exact. Qed.
Print Assumptions C16_error_names_exactly_missing.

(* ---- status.tag ---- *)
(* THE FULL STATEMENT, for the code as it is now: at every instant of every schedule (= at every
   crash point) status.tag shows the last complete content published by a rename, and every single
   step leaves it alone or replaces it by the complete content the renaming writer intended *)
Theorem C16_status_tag_atomic : forall evt msgs chan tag0 ops sched,
  let w := shared (prun repaired_code (start repaired_code (init_world evt msgs chan tag0) ops) sched) in
  tag_content w = w_pub w.
Proof. exact status_tag_atomic_repaired. Qed.
Print Assumptions C16_status_tag_atomic.

Theorem C16_status_tag_old_or_new : forall evt msgs chan tag0 ops sched t,
  let c := prun repaired_code (start repaired_code (init_world evt msgs chan tag0) ops) sched in
  let c' := sstep (handle repaired_code) c t in
  tag_content (shared c') = tag_content (shared c) \/
  tag_content (shared c') = Some (w_intent (shared c)).
Proof. exact status_tag_old_or_new_repaired. Qed.
Print Assumptions C16_status_tag_old_or_new.

(* the lock the model assumes has not disappeared from the source (constant regenerated on every run;
   0 = provision.rs takes no mutex at all) *)
Theorem C16_writers_serialized_in_source :
  Consts.provision_status_tag_writers_serialized <> 0%N /\ v_lock repaired_code = true.
Proof. exact writers_serialized_in_source. Qed.
Print Assumptions C16_writers_serialized_in_source.

(* serialized writers never overlap, whatever the client programs *)
Theorem C16_writers_never_overlap : forall v evt msgs chan tag0 (ps : list pprog) sched,
  v_lock v = true ->
  w_overlap (shared (run (handle v) (init (init_world evt msgs chan tag0) ps) sched)) = false.
Proof. exact lock_never_overlap. Qed.
Print Assumptions C16_writers_never_overlap.

(* -- documented lemmas about the variants without the lock (the tree before 3666d88) -- *)
(* outside the overlapping-writers class: at every instant status.tag shows the last complete
   content published by a rename (initially: what was there before) *)
Theorem C16_status_tag_atomic_any_variant : forall v evt msgs chan tag0 ops sched,
  let w := shared (prun v (start v (init_world evt msgs chan tag0) ops) sched) in
  KnownClass_C16_overlapping_writers v (init_world evt msgs chan tag0) ops sched = false ->
  tag_content w = w_pub w.
Proof. exact status_tag_atomic. Qed.
Print Assumptions C16_status_tag_atomic_any_variant.

(* ... so every single step (hence every crash prefix) shows the old or the new complete content *)
Theorem C16_status_tag_old_or_new_any_variant : forall v evt msgs chan tag0 ops sched t,
  let c := prun v (start v (init_world evt msgs chan tag0) ops) sched in
  let c' := sstep (handle v) c t in
  w_overlap (shared c') = false ->
  tag_content (shared c') = tag_content (shared c) \/
  tag_content (shared c') = Some (w_intent (shared c)).
Proof. exact status_tag_old_or_new. Qed.
Print Assumptions C16_status_tag_old_or_new_any_variant.

(* without the lock the unrestricted statement is false: two writers sharing status.tag.tmp
   (finding F11, fixed by 3666d88) *)
Theorem C16_status_tag_atomic_refuted :
  let c := prun original_code (start original_code world0 f11_ops) f11_sched in
  KnownClass_C16_overlapping_writers original_code world0 f11_ops f11_sched = true /\
  tag_content (shared c) <> w_pub (shared c) /\
  (exists published, w_pub (shared c) = Some published /\
     exists mixed, tag_content (shared c) = Some mixed /\
       firstn 60 mixed <> firstn 60 published /\ skipn 60 mixed = skipn 60 published).
Proof. exact shared_tmp_refuted. Qed.
Print Assumptions C16_status_tag_atomic_refuted.

(* the same schedule on the code as it is now: the second writer's open is refused *)
Theorem C16_status_tag_refutation_repaired :
  let c := prun repaired_code (start repaired_code world0 f11_ops) f11_sched in
  w_overlap (shared c) = false /\ tag_content (shared c) = w_pub (shared c) /\
  result_of c 1 = Some RDone /\ w_owner (shared c) = Some 0%nat.
Proof. exact shared_tmp_repaired. Qed.
Print Assumptions C16_status_tag_refutation_repaired.

(* ---- finished is truthful: documented lemmas about the tree before e68ce38 / b4d0508 ---- *)
(* the full statement [forall schedules and queries, truthful] is refuted by the faithful model of
   the original code, in two ways (findings F10 and F12, both fixed) *)
Theorem C16_stale_finish_refuted :
  let c := prun original_code (start original_code f10_world f10_ops) f10_sched in
  exists res, result_of c 4 = Some res /\
    match res with RQuery fin _ q _ fl la =>
      fin = true /\ la = false /\ 0 < q /\ fcontains fl F_K = false | RDone => False end /\
    ~ truthful (shared c) res /\
    KnownClass_C16_stale_stamp original_code f10_world f10_ops f10_sched = true.
Proof. exact stale_finish_refuted. Qed.
Print Assumptions C16_stale_finish_refuted.

Theorem C16_zero_tick_refuted :
  let c := prun original_code (start original_code world0 f12_ops) f12_sched in
  exists res, result_of c 0 = Some res /\
    match res with RQuery fin _ q tk fl la =>
      fin = true /\ la = false /\ q = 0 /\ tk = 0 /\ fl = 0%N | RDone => False end /\
    ~ truthful (shared c) res /\
    KnownClass_C16_stale_stamp original_code world0 f12_ops f12_sched = false.
Proof. exact zero_tick_refuted. Qed.
Print Assumptions C16_zero_tick_refuted.

(* the strongest true statement about the original code: outside the two classes every answer is
   truthful, under every schedule *)
Theorem C16_finished_truthful_partial : forall evt msgs chan tag0 ops sched t fin err q tk fl la,
  let w0 := init_world evt msgs chan tag0 in
  let c := prun original_code (start original_code w0 ops) sched in
  result_of c t = Some (RQuery fin err q tk fl la) ->
  KnownClass_C16_stale_stamp original_code w0 ops sched = false ->
  KnownClass_C16_nonpositive_query_tick q = false ->
  truthful (shared c) (RQuery fin err q tk fl la).
Proof. exact finished_truthful_partial. Qed.
Print Assumptions C16_finished_truthful_partial.

(* THE FULL STATEMENT, for the code as it is now: under every schedule, for every query tick (any
   integer), a query answers finished only if the channel was latched or at some instant at or
   after the instant it names all three subsystems were ready or the deadline handler stamped *)
Theorem C16_finished_truthful : forall evt msgs chan tag0 ops sched t res,
  let c := prun repaired_code (start repaired_code (init_world evt msgs chan tag0) ops) sched in
  result_of c t = Some res -> truthful (shared c) res.
Proof. exact finished_truthful_repaired. Qed.
Print Assumptions C16_finished_truthful.

(* each repair removes its class on its own *)
Theorem C16_finished_truthful_each_repair : forall v evt msgs chan tag0 ops sched t fin err q tk fl la,
  let w0 := init_world evt msgs chan tag0 in
  let c := prun v (start v w0 ops) sched in
  result_of c t = Some (RQuery fin err q tk fl la) ->
  (v_atomic v = true \/ KnownClass_C16_stale_stamp v w0 ops sched = false) ->
  (v_guard v = true \/ KnownClass_C16_nonpositive_query_tick q = false) ->
  truthful (shared c) (RQuery fin err q tk fl la).
Proof. exact finished_truthful_each_repair. Qed.
Print Assumptions C16_finished_truthful_each_repair.

(* the two refuting inputs are answered "not finished" by the repaired code *)
Theorem C16_refutations_repaired :
  (exists err q tk fl la,
     result_of (prun repaired_code (start repaired_code f10_world f10_ops) f10_sched) 4
     = Some (RQuery false err q tk fl la)) /\
  (exists err q tk fl la,
     result_of (prun repaired_code (start repaired_code world0 f12_ops) f12_sched) 0
     = Some (RQuery false err q tk fl la)).
Proof. exact (conj stale_finish_repaired zero_tick_repaired). Qed.
Print Assumptions C16_refutations_repaired.

(* ---- the hand-polled schedules of the correspondence check are schedules of the theorems ---- *)
Theorem C16_polls_are_schedules : forall v w0 ops polls,
  exists sched, fold_left (ppoll v) polls (start v w0 ops) = prun v (start v w0 ops) sched.
Proof. exact polls_are_schedules. Qed.
Print Assumptions C16_polls_are_schedules.

(* ---- non-vacuity (code as it is now) ---- *)
(* all three report, a query is created afterwards, a later key_latched refreshes the tick: the
   query is answered finished = true, truthfully, with an empty error text *)
Example C16_nonvacuous :
  let ops := [OpReport F_R; OpReport F_K; OpReport F_L; OpQuery QNow; OpReport F_K] in
  let sched := [0; 1; 2; 3; 4; 3; 3; 3]%nat in
  let c := prun repaired_code (start repaired_code world0 ops) sched in
  (exists q tk, result_of c 3 = Some (RQuery true [] q tk 7%N false) /\ 0 < q <= tk) /\
  w_flags (shared c) = F_ALL.
Proof.
  cbv zeta. split; [|vm_compute; reflexivity].
  eexists _, _. split; [vm_compute; reflexivity|]. vm_compute. split; [reflexivity|discriminate].
Qed.

(* a deadline stamp makes an earlier-created query finished, with the error text naming all three *)
Example C16_nonvacuous_timeup :
  let ops := [OpQuery QNow; OpTimeup] in
  let sched := ([0; 1; 1] ++ repeat 0 9)%nat in
  let c := prun repaired_code (start repaired_code world0 ops) sched in
  exists err q tk, result_of c 0 = Some (RQuery true err q tk 0%N false) /\ err <> [] /\ 0 < q <= tk.
Proof.
  cbv zeta. eexists _, _, _. split; [vm_compute; reflexivity|]. split; [discriminate|].
  vm_compute. split; [reflexivity|discriminate].
Qed.

(* a reset zeroes the tick: a query created before the reset but answered after it is not finished *)
Example C16_nonvacuous_reset :
  let ops := [OpReport F_R; OpReport F_K; OpReport F_L; OpQuery QNow; OpReset] in
  let sched := [0; 1; 2; 3; 4; 3; 3; 3; 3; 3]%nat in
  let c := prun repaired_code (start repaired_code world0 ops) sched in
  exists err q, result_of c 3 = Some (RQuery false err q 0 5%N false) /\ err <> [].
Proof. cbv zeta. eexists _, _. split; [vm_compute; reflexivity|discriminate]. Qed.
