(* C16 -- Provisioning status is truthful under any arrival order.  Property theorems only: each
   is closed by [exact lemma] and followed by Print Assumptions.  Model: Model/Provision.v over the
   generic interleaving semantics Model/Sched.v, tied to provision.rs / provision_wrapper.rs /
   proxy_server.rs by the correspondence check tools/checks/c16.py.

   Reading guide.  [prun v (start v w0 ops) sched] is the configuration reached by the client
   operations [ops] (any number of readiness reports, key-latch resets, deadline handlers, queries
   with arbitrary ticks, status / channel updates) from the initial world [w0] under the schedule
   [sched] -- ANY list of task ids, i.e. any interleaving at the granularity of single actor
   messages and single file-system syscalls, of any length (a shorter schedule = a crash point).
   [v] selects the code variant: [current_code] = the pinned tree, [repaired_code] = with
   patches/fix-C16-atomic-tick.diff and patches/fix-C16-zero-tick-not-finished.diff. *)
From Coq Require Import List NArith ZArith.
Import ListNotations.
From GPA Require Import Provision SchedProofs ProvisionProofs.
Local Open Scope Z_scope.

(* ---- no lost update: the flags are the OR of the reports minus the resets, in actor order ---- *)
Theorem C16_no_lost_update : forall v w0 (ps : list pprog) sched,
  w_flags w0 = 0%N ->
  let c := run (handle v) (init w0 ps) sched in
  w_flags (shared c) = flags_of_trace (trace c).
Proof. exact no_lost_update. Qed.
Print Assumptions C16_no_lost_update.

(* the value handed back by UpdateState / ResetState / GetState is the flags right after that very
   message: the ALL_READY test of update_provision_state is made on an atomic snapshot *)
Theorem C16_reply_is_snapshot : forall v w0 (ps : list pprog) sched tr1 e tr2,
  w_flags w0 = 0%N ->
  trace (run (handle v) (init w0 ps) sched) = tr1 ++ e :: tr2 ->
  match ev_msg e with
  | UpdateState _ | ResetState _ | GetState => ev_reply e = RFlags (flags_of_trace (e :: tr2))
  | _ => True
  end.
Proof. exact reply_is_flags_then. Qed.
Print Assumptions C16_reply_is_snapshot.

(* a processed report stays visible until a later reset names its flag *)
Theorem C16_report_survives : forall tr1 e tr2 f,
  ev_msg e = UpdateState f -> no_reset_of f tr1 ->
  fcontains (flags_of_trace (tr1 ++ e :: tr2)) f = true.
Proof. exact report_survives. Qed.
Print Assumptions C16_report_survives.

(* ---- tick justified ---- *)
Theorem C16_tick_justified : forall v evt msgs chan tag0 ops sched,
  let w := shared (prun v (start v (init_world evt msgs chan tag0) ops) sched) in
  w_tick w <> 0 ->
  exists t, 0 < t <= w_now w /\
            (all_ready_at (w_hist w) t = true \/ timeup_at (w_hist w) t = true).
Proof. exact tick_justified. Qed.
Print Assumptions C16_tick_justified.

(* outside the stale-stamp class the tick IS an instant at which all three were ready or the
   deadline handler ran *)
Theorem C16_tick_justified_strong : forall v evt msgs chan tag0 ops sched,
  let w := shared (prun v (start v (init_world evt msgs chan tag0) ops) sched) in
  w_stale w = false -> w_tick w <> 0 ->
  0 < w_tick w <= w_now w /\
  (all_ready_at (w_hist w) (w_tick w) = true \/ timeup_at (w_hist w) (w_tick w) = true).
Proof. exact tick_justified_strong. Qed.
Print Assumptions C16_tick_justified_strong.

(* ---- the error text ---- *)
Theorem C16_error_names_exactly_missing : forall v evt msgs chan tag0 ops sched t fin err q tk fl la,
  let c := prun v (start v (init_world evt msgs chan tag0) ops) sched in
  result_of c t = Some (RQuery fin err q tk fl la) ->
  (exists reads, map fst reads = missing fl /\ err = text_of reads) /\
  (err = [] <-> fcontains fl F_ALL = true) /\
  (exists t0, 0 < t0 <= w_now (shared c) /\ flags_at (w_hist (shared c)) t0 = fl).
Proof. exact error_text_exact. Qed.
Print Assumptions C16_error_names_exactly_missing.

(* ---- status.tag ---- *)
(* outside the overlapping-writers class: at every instant status.tag shows the last complete
   content published by a rename (initially: what was there before) *)
Theorem C16_status_tag_atomic : forall v evt msgs chan tag0 ops sched,
  let w := shared (prun v (start v (init_world evt msgs chan tag0) ops) sched) in
  KnownClass_C16_overlapping_writers v (init_world evt msgs chan tag0) ops sched = false ->
  tag_content w = w_pub w.
Proof. exact status_tag_atomic. Qed.
Print Assumptions C16_status_tag_atomic.

(* ... so every single step (hence every crash prefix) shows the old or the new complete content *)
Theorem C16_status_tag_old_or_new : forall v evt msgs chan tag0 ops sched t,
  let c := prun v (start v (init_world evt msgs chan tag0) ops) sched in
  let c' := sstep (handle v) c t in
  w_overlap (shared c') = false ->
  tag_content (shared c') = tag_content (shared c) \/
  tag_content (shared c') = Some (w_intent (shared c)).
Proof. exact status_tag_old_or_new. Qed.
Print Assumptions C16_status_tag_old_or_new.

(* the unrestricted statement is false: two writers sharing status.tag.tmp (finding F11) *)
Theorem C16_status_tag_atomic_refuted :
  let c := prun current_code (start current_code world0 f11_ops) f11_sched in
  KnownClass_C16_overlapping_writers current_code world0 f11_ops f11_sched = true /\
  tag_content (shared c) <> w_pub (shared c) /\
  (exists published, w_pub (shared c) = Some published /\
     exists mixed, tag_content (shared c) = Some mixed /\
       firstn 60 mixed <> firstn 60 published /\ skipn 60 mixed = skipn 60 published).
Proof. exact shared_tmp_refuted. Qed.
Print Assumptions C16_status_tag_atomic_refuted.

(* ---- finished is truthful ---- *)
(* the full statement [forall schedules and queries, truthful] is refuted by the faithful model of
   the current code, in two ways *)
Theorem C16_stale_finish_refuted :
  let c := prun current_code (start current_code f10_world f10_ops) f10_sched in
  exists res, result_of c 4 = Some res /\
    match res with RQuery fin _ q _ fl la =>
      fin = true /\ la = false /\ 0 < q /\ fcontains fl F_K = false | RDone => False end /\
    ~ truthful (shared c) res /\
    KnownClass_C16_stale_stamp current_code f10_world f10_ops f10_sched = true.
Proof. exact stale_finish_refuted. Qed.
Print Assumptions C16_stale_finish_refuted.

Theorem C16_zero_tick_refuted :
  let c := prun current_code (start current_code world0 f12_ops) f12_sched in
  exists res, result_of c 0 = Some res /\
    match res with RQuery fin _ q tk fl la =>
      fin = true /\ la = false /\ q = 0 /\ tk = 0 /\ fl = 0%N | RDone => False end /\
    ~ truthful (shared c) res /\
    KnownClass_C16_stale_stamp current_code world0 f12_ops f12_sched = false.
Proof. exact zero_tick_refuted. Qed.
Print Assumptions C16_zero_tick_refuted.

(* the strongest true statement about the current code: outside the two classes every answer is
   truthful, under every schedule *)
Theorem C16_finished_truthful_partial : forall evt msgs chan tag0 ops sched t fin err q tk fl la,
  let w0 := init_world evt msgs chan tag0 in
  let c := prun current_code (start current_code w0 ops) sched in
  result_of c t = Some (RQuery fin err q tk fl la) ->
  KnownClass_C16_stale_stamp current_code w0 ops sched = false ->
  KnownClass_C16_nonpositive_query_tick q = false ->
  truthful (shared c) (RQuery fin err q tk fl la).
Proof. exact finished_truthful_partial. Qed.
Print Assumptions C16_finished_truthful_partial.

(* the full statement for the repaired code: tick stamped / zeroed inside the actor's
   UpdateState / ResetState, zero tick never "finished" -- every schedule, every query tick *)
Theorem C16_finished_truthful_atomic_tick : forall evt msgs chan tag0 ops sched t res,
  let c := prun repaired_code (start repaired_code (init_world evt msgs chan tag0) ops) sched in
  result_of c t = Some res -> truthful (shared c) res.
Proof. exact finished_truthful_repaired. Qed.
Print Assumptions C16_finished_truthful_atomic_tick.

(* each repair removes its class on its own *)
Theorem C16_finished_truthful_each_repair : forall v evt msgs chan tag0 ops sched t fin err q tk fl la,
  let w0 := init_world evt msgs chan tag0 in
  let c := prun v (start v w0 ops) sched in
  result_of c t = Some (RQuery fin err q tk fl la) ->
  (v_atomic v = true \/ KnownClass_C16_stale_stamp v w0 ops sched = false) ->
  (v_guard v = true \/ KnownClass_C16_nonpositive_query_tick q = false) ->
  truthful (shared c) (RQuery fin err q tk fl la).
Proof. exact finished_truthful_each_repair. Qed.
Print Assumptions C16_finished_truthful_each_repair.

(* the two refuting inputs are answered "not finished" by the repaired code *)
Theorem C16_refutations_repaired :
  (exists err q tk fl la,
     result_of (prun repaired_code (start repaired_code f10_world f10_ops) f10_sched) 4
     = Some (RQuery false err q tk fl la)) /\
  (exists err q tk fl la,
     result_of (prun repaired_code (start repaired_code world0 f12_ops) f12_sched) 0
     = Some (RQuery false err q tk fl la)).
Proof. exact (conj stale_finish_repaired zero_tick_repaired). Qed.
Print Assumptions C16_refutations_repaired.

(* ---- the hand-polled schedules of the correspondence check are schedules of the theorems ---- *)
Theorem C16_polls_are_schedules : forall v w0 ops polls,
  exists sched, fold_left (ppoll v) polls (start v w0 ops) = prun v (start v w0 ops) sched.
Proof. exact polls_are_schedules. Qed.
Print Assumptions C16_polls_are_schedules.

(* ---- non-vacuity ---- *)
(* all three report, then a query created afterwards is answered by a later key_latched refresh:
   finished = true, truthfully, outside both classes *)
Example C16_nonvacuous :
  let ops := [OpReport F_R; OpReport F_K; OpReport F_L; OpQuery QNow; OpReport F_K] in
  let sched := [0; 1; 2; 2; 3; 4; 4; 3; 3; 3]%nat in
  let c := prun current_code (start current_code world0 ops) sched in
  KnownClass_C16_stale_stamp current_code world0 ops sched = false /\
  (exists q tk, result_of c 3 = Some (RQuery true [] q tk 7%N false) /\ 0 < q <= tk) /\
  w_flags (shared c) = F_ALL.
Proof.
  cbv zeta. split; [vm_compute; reflexivity|]. split; [|vm_compute; reflexivity].
  eexists _, _. split; [vm_compute; reflexivity|]. vm_compute. split; [reflexivity|discriminate].
Qed.

(* a deadline stamp makes a later-created query with an earlier tick finished, with the error text
   naming all three subsystems *)
Example C16_nonvacuous_timeup :
  let ops := [OpQuery QNow; OpTimeup] in
  let sched := ([0; 1; 1] ++ repeat 0 9)%nat in
  let c := prun current_code (start current_code world0 ops) sched in
  exists err q tk, result_of c 0 = Some (RQuery true err q tk 0%N false) /\ err <> [] /\ 0 < q <= tk.
Proof.
  cbv zeta. eexists _, _, _. split; [vm_compute; reflexivity|]. split; [discriminate|].
  vm_compute. split; [reflexivity|discriminate].
Qed.
