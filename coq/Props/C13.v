(* C13 -- No input can crash a request handler or a background task.
   Property theorems only ([exact lemma], then Print Assumptions).  Model: Model/Panic.v (tied to
   event_logger.rs, proxy_server.rs, agent_status_wrapper.rs, hyper_client.rs, key_keeper.rs and
   logger.rs by tools/checks/c13.py: real code driven through harness/src/bin/c13.rs and the e2e
   runner, static inventory tools/panic_sites.py).

   Shape: for every site S  (a) [C13_S_panics_iff]: the CURRENT code panics exactly on the
   syntactic class Known_S (so a panic outside the class is a new defect);  (b) [C13_S_refuted]:
   the class is inhabited by a legitimate input (F7);  (c) [C13_S_fixed_total]: the repaired form
   of patches/fix-C13-*.diff returns for all inputs, and  (d) [C13_S_fixed_agrees]: it returns what
   the current code returns wherever the current code returns at all. *)
From GPA Require Import Panic PanicProofs BatchLoop BatchLoopProofs.
Local Open Scope nat_scope.

(* ---- the primitive: slicing / truncating a str at a byte offset ---- *)
Theorem C13_slice_panics_iff : forall (s : bytes) (n : nat),
  slice_to s n = None <-> is_char_boundary s n = false.
Proof. exact slice_to_none_iff. Qed.
Print Assumptions C13_slice_panics_iff.

(* String::truncate panics exactly like slicing when n <= len is not a char boundary *)
Theorem C13_truncate_panics_iff : forall (s : bytes) (n : nat),
  truncate s n = None <-> n <= length s /\ is_char_boundary s n = false.
Proof. exact truncate_none_iff. Qed.
Print Assumptions C13_truncate_panics_iff.

(* the repaired cut: total, a prefix, on a char boundary, at most mx bytes, and the longest such *)
Theorem C13_cut_fixed_total : forall (mx : nat) (msg : bytes), exists r, cut_fixed mx msg = Some r.
Proof. exact cut_fixed_total. Qed.
Print Assumptions C13_cut_fixed_total.

Theorem C13_cut_fixed_spec : forall (mx : nat) (msg r : bytes), cut_fixed mx msg = Some r ->
  (exists rest, msg = r ++ rest) /\ length r <= mx /\ is_char_boundary msg (length r) = true /\
  (forall m, length r < m -> m <= mx -> m <= length msg -> is_char_boundary msg m = false).
Proof. exact cut_fixed_spec_full. Qed.
Print Assumptions C13_cut_fixed_spec.

Theorem C13_cut_fixed_agrees : forall (mx : nat) (msg r : bytes),
  cut_cur mx msg = Some r -> cut_fixed mx msg = Some r.
Proof. exact cut_fixed_agrees. Qed.
Print Assumptions C13_cut_fixed_agrees.

(* ---- S1 event_logger::write_event ---- *)
Theorem C13_write_event_panics_iff : forall msg : bytes,
  write_event_cur msg = None <-> Known_write_event msg = true.
Proof. exact write_event_panics_iff. Qed.
Print Assumptions C13_write_event_panics_iff.

Theorem C13_write_event_refuted : exists msg, utf8_valid msg = true /\ write_event_cur msg = None.
Proof. exact write_event_refuted. Qed.
Print Assumptions C13_write_event_refuted.

Theorem C13_write_event_fixed_total : forall msg : bytes, exists r, write_event_fixed msg = Some r.
Proof. exact (cut_fixed_total MAXM). Qed.
Print Assumptions C13_write_event_fixed_total.

(* ---- S2 proxy_server::log_connection_summary ---- *)
Theorem C13_summary_panics_iff : forall pre details : bytes,
  summary_cur pre details = None <-> Known_summary pre details = true.
Proof. exact summary_panics_iff. Qed.
Print Assumptions C13_summary_panics_iff.

Theorem C13_summary_refuted : exists pre d, utf8_valid d = true /\ summary_cur pre d = None.
Proof. exact summary_refuted. Qed.
Print Assumptions C13_summary_refuted.

(* the caller's names / command line alone suffice (no error details) *)
Theorem C13_summary_refuted_by_caller : exists pre, utf8_valid pre = true /\ summary_cur pre [] = None.
Proof. exact summary_refuted_by_caller. Qed.
Print Assumptions C13_summary_refuted_by_caller.

Theorem C13_summary_fixed_total : forall pre details : bytes, exists r, summary_fixed pre details = Some r.
Proof. exact summary_fixed_total. Qed.
Print Assumptions C13_summary_fixed_total.

Theorem C13_summary_fixed_agrees : forall (pre details : bytes) r,
  summary_cur pre details = Some r -> summary_fixed pre details = Some r.
Proof. exact summary_fixed_agrees. Qed.
Print Assumptions C13_summary_fixed_agrees.

(* ---- S3 agent_status_wrapper ---- *)
Theorem C13_status_panics_iff : forall msg : bytes,
  get_module_status_cur msg = None <-> Known_status msg = true.
Proof. exact status_panics_iff. Qed.
Print Assumptions C13_status_panics_iff.

Theorem C13_status_refuted : exists msg, utf8_valid msg = true /\ get_module_status_cur msg = None.
Proof. exact status_refuted. Qed.
Print Assumptions C13_status_refuted.

Theorem C13_status_fixed_total : forall msg : bytes, exists r, get_module_status_fixed msg = Some r.
Proof. exact status_fixed_total. Qed.
Print Assumptions C13_status_fixed_total.

Theorem C13_status_fixed_bounded : forall msg r : bytes,
  get_module_status_fixed msg = Some r -> length r <= MAXS + 3.
Proof. exact status_fixed_bounded. Qed.
Print Assumptions C13_status_fixed_bounded.

Theorem C13_status_fixed_agrees : forall msg r : bytes,
  get_module_status_cur msg = Some r -> get_module_status_fixed msg = Some r.
Proof. exact status_fixed_agrees. Qed.
Print Assumptions C13_status_fixed_agrees.

Theorem C13_set_status_panics_iff : forall (updated : bool) (msg : bytes),
  set_module_status_cur updated msg = None <-> updated = true /\ Known_write_event msg = true.
Proof. exact set_status_panics_iff. Qed.
Print Assumptions C13_set_status_panics_iff.

Theorem C13_set_status_fixed_total : forall (updated : bool) (msg : bytes),
  exists r, set_module_status_fixed updated msg = Some r.
Proof. exact set_status_fixed_total. Qed.
Print Assumptions C13_set_status_fixed_total.

(* ---- S4 hyper_client::headers_to_canonicalized_string ---- *)
Theorem C13_header_panics_iff : forall hs : list (bytes * bytes),
  canon_headers_cur hs = None <-> Known_header hs = true.
Proof. exact header_panics_iff. Qed.
Print Assumptions C13_header_panics_iff.

(* a header value that http::HeaderValue accepts and hyper forwards *)
Theorem C13_header_refuted : exists hs,
  forallb (fun kv => hv_valid (snd kv)) hs = true /\ canon_headers_cur hs = None.
Proof. exact header_refuted. Qed.
Print Assumptions C13_header_refuted.

Theorem C13_header_fixed_total : forall hs : list (bytes * bytes), exists r, canon_headers_fixed hs = Some r.
Proof. exact header_fixed_total. Qed.
Print Assumptions C13_header_fixed_total.

Theorem C13_header_fixed_agrees : forall (hs r : list (bytes * bytes)),
  canon_headers_cur hs = Some r -> canon_headers_fixed hs = Some r.
Proof. exact header_fixed_agrees. Qed.
Print Assumptions C13_header_fixed_agrees.

(* lossy decoding is the identity on valid UTF-8: the repaired canonical string carries exactly
   the bytes that are sent whenever the value is valid UTF-8 *)
Theorem C13_lossy_valid_id : forall v : bytes, utf8_valid v = true -> lossy v = v.
Proof. exact lossy_valid_id. Qed.
Print Assumptions C13_lossy_valid_id.

(* ---- S5 hyper_client::read_response_body ---- *)
Theorem C13_read_body_panics_iff : forall (ct : option bytes) (frames : list bytes),
  read_body_cur ct frames = None <-> Known_utf16 ct frames = true.
Proof. exact read_body_panics_iff. Qed.
Print Assumptions C13_read_body_panics_iff.

Theorem C13_utf16_refuted :
  utf16_cur [[1%N; 2%N; 3%N]] = None /\
  utf16_cur [[123%N; 0%N; 125%N]; [0%N]] = None /\
  utf16_fixed [[123%N; 0%N; 125%N]; [0%N]] = Some [123%N; 125%N].
Proof. exact utf16_refuted. Qed.
Print Assumptions C13_utf16_refuted.

Theorem C13_read_body_fixed_total : forall (ct : option bytes) (frames : list bytes),
  exists b, read_body_fixed ct frames = Some b.
Proof. exact read_body_fixed_total. Qed.
Print Assumptions C13_read_body_fixed_total.

Theorem C13_read_body_fixed_agrees : forall (ct : option bytes) (frames : list bytes) b,
  read_body_cur ct frames = Some b -> read_body_fixed ct frames = Some b.
Proof. exact read_body_fixed_agrees. Qed.
Print Assumptions C13_read_body_fixed_agrees.

Theorem C13_utf16_fixed_frame_independent : forall f1 f2 : list bytes,
  concat f1 = concat f2 -> utf16_fixed f1 = utf16_fixed f2.
Proof. exact utf16_fixed_frame_independent. Qed.
Print Assumptions C13_utf16_fixed_frame_independent.

(* ---- S6 key_keeper::loop_poll ---- *)
Theorem C13_kk_sub_panics_iff : forall sleep_ms slept_ms : N,
  continue_sleep_debug sleep_ms slept_ms = None <-> Known_kk_sub sleep_ms slept_ms = true.
Proof. exact kk_sub_panics_iff. Qed.
Print Assumptions C13_kk_sub_panics_iff.

Theorem C13_kk_sub_refuted : continue_sleep_debug 1000 1001 = None.
Proof. exact kk_sub_refuted. Qed.
Print Assumptions C13_kk_sub_refuted.

(* release builds: no panic, but the task sleeps for more than 2^63 ms and never polls again *)
Theorem C13_kk_release_stalls : forall a b : N, (a < b)%N -> (b < 2 ^ 63)%N ->
  continue_sleep_release a b = Some (2 ^ 64 - (b - a))%N /\ (2 ^ 63 < 2 ^ 64 - (b - a))%N.
Proof. exact kk_release_stalls. Qed.
Print Assumptions C13_kk_release_stalls.

Theorem C13_kk_fixed_total : forall a b : N, exists r,
  continue_sleep_fixed a b = Some r /\ (r <= a)%N /\ ((b <= a)%N -> r = (a - b)%N) /\ ((a < b)%N -> r = 0%N).
Proof. exact kk_fixed_total. Qed.
Print Assumptions C13_kk_fixed_total.

(* ---- S7 logger::get_log_header (clock driven, found by the inventory) ---- *)
Theorem C13_log_header_panics_iff : forall (stamp : bytes) (nanos : N) (level : bytes),
  ascii stamp = true -> ascii level = true ->
  log_header_cur stamp nanos level = None <-> Known_log_header stamp nanos level = true.
Proof. exact log_header_panics_iff. Qed.
Print Assumptions C13_log_header_panics_iff.

Theorem C13_log_header_refuted :
  (log_header_cur sample_stamp 500000000%N Lits.lit_info = None) /\
  (log_header_cur sample_stamp 120000000%N Lits.lit_warn = None) /\
  (log_header_cur sample_stamp 0%N Lits.lit_error = None) /\
  (log_header_cur sample_stamp 123000000%N Lits.lit_info <> None).
Proof. exact log_header_refuted. Qed.
Print Assumptions C13_log_header_refuted.

Theorem C13_log_header_fixed_total : forall (stamp : bytes) (nanos : N) (level : bytes),
  length stamp = 20 -> ascii stamp = true -> In level levels ->
  exists r, log_header_fixed stamp nanos level = Some r /\ length r = 34.
Proof. exact log_header_fixed_total. Qed.
Print Assumptions C13_log_header_fixed_total.

(* ---- the handler and the listener, model level ---- *)
Theorem C13_handler_panics_iff : forall r : request, handle_cur r = None <-> Known_handler r = true.
Proof. exact handle_cur_panics_iff. Qed.
Print Assumptions C13_handler_panics_iff.

(* C13_total as DESIGN states it is REFUTED for the current forms (one witness per site above);
   for the repaired forms every request is answered with the status its route prescribes *)
Theorem C13_handler_total : forall r : request, handle_fixed r = Some (route_status r).
Proof. exact handle_fixed_total. Qed.
Print Assumptions C13_handler_total.

Theorem C13_handler_fixed_agrees : forall (r : request) (st : N),
  handle_cur r = Some st -> handle_fixed r = Some st.
Proof. exact handle_fixed_agrees. Qed.
Print Assumptions C13_handler_fixed_agrees.

Theorem C13_listener_answers_all : forall rs : list request,
  serve handle_fixed rs = map (fun r => Some (route_status r)) rs.
Proof. exact serve_fixed_all. Qed.
Print Assumptions C13_listener_answers_all.

(* a request's answer does not depend on the other requests (one task per connection) *)
Theorem C13_listener_independent : forall (h : request -> option N) (rs : list request) (i : nat),
  nth_error (serve h rs) i = option_map h (nth_error rs i).
Proof. exact serve_independent. Qed.
Print Assumptions C13_listener_independent.

(* C13_site_total: all repaired sites together *)
Theorem C13_site_total :
  (forall msg, exists r, write_event_fixed msg = Some r) /\
  (forall pre d, exists r, summary_fixed pre d = Some r) /\
  (forall msg, exists r, get_module_status_fixed msg = Some r) /\
  (forall u msg, exists r, set_module_status_fixed u msg = Some r) /\
  (forall hs, exists r, canon_headers_fixed hs = Some r) /\
  (forall ct fr, exists r, read_body_fixed ct fr = Some r) /\
  (forall a b, exists r, continue_sleep_fixed a b = Some r).
Proof. exact site_total. Qed.
Print Assumptions C13_site_total.

(* ---- liveness of the telemetry reader: the batching loop of EventReader::send_events ----
   (Model/BatchLoop.v: a flat state machine iterated with fuel; generic in the event type and in
   the size test [over], about which NOTHING is assumed) *)

(* termination: 4 * n + 2 steps always suffice; the out-of-fuel value is never returned *)
Theorem C13_batch_loop_terminates : forall (E : Type) (over : list E -> bool) (evs : list E),
  exists r, send_events over evs = Some r.
Proof. exact @send_events_terminates. Qed.
Print Assumptions C13_batch_loop_terminates.

(* what each step of the loop does (move one event into the batch / drop exactly one / push the
   overflowing one back with a non-empty batch / send / start a batch) *)
Theorem C13_batch_step_progress : forall (E : Type) (over : list E -> bool) (s : state) (l : label) (s' : state),
  step over s = Next l s' ->
  match l with
  | LInit => at_pc s = Outer /\ pend s' = pend s /\ pend s <> [] /\ batch s' = [] /\ more s' = true /\ at_pc s' = Inner
             /\ sent s' = sent s /\ dropped s' = dropped s
  | LMove => exists e, pend s = e :: pend s' /\ batch s' = batch s ++ [e] /\ sent s' = sent s /\ dropped s' = dropped s
  | LDrop => exists e, pend s = e :: pend s' /\ batch s = [] /\ batch s' = [] /\ dropped s' = e :: dropped s
             /\ sent s' = sent s /\ more s' = false /\ over [e] = true
  | LPushBack => pend s' = pend s /\ batch s <> [] /\ batch s' = batch s /\ more s' = false
                 /\ sent s' = sent s /\ dropped s' = dropped s
  | LSend => sent s' = batch s :: sent s /\ pend s' = pend s /\ at_pc s' = Outer /\ dropped s' = dropped s
             /\ (pend s = [] \/ more s = false)
  end.
Proof. exact @step_progress. Qed.
Print Assumptions C13_batch_step_progress.

(* every outer iteration ends, with strictly fewer pending events, having either sent a non-empty
   batch or dropped exactly one event *)
Theorem C13_batch_iteration_ends : forall (E : Type) (over : list E -> bool) (s0 : state),
  at_pc s0 = Outer -> exists s', to_outer over (fuel_for (length (pend s0))) s0 = Some s'.
Proof. exact @outer_iteration_ends. Qed.
Print Assumptions C13_batch_iteration_ends.

Theorem C13_batch_iteration_progress : forall (E : Type) (over : list E -> bool) (fuel : nat) (s0 s' : state),
  at_pc s0 = Outer -> pend s0 <> [] -> to_outer over fuel s0 = Some s' -> iteration_result s0 s'.
Proof. exact @outer_iteration_progress. Qed.
Print Assumptions C13_batch_iteration_progress.

(* a pending list that does not shrink over two consecutive iterations is impossible *)
Theorem C13_batch_pending_shrinks : forall (E : Type) (over : list E -> bool) (f1 f2 : nat) (s0 s1 s2 : state),
  at_pc s0 = Outer -> pend s0 <> [] -> to_outer over f1 s0 = Some s1 -> pend s1 <> [] -> to_outer over f2 s1 = Some s2 ->
  (length (pend s2) < length (pend s1) /\ length (pend s1) < length (pend s0))%nat.
Proof. exact @pending_shrinks_every_iteration. Qed.
Print Assumptions C13_batch_pending_shrinks.

(* what these exclude (seeded change s2): without the "single event too large: drop it" branch one
   event that is over the limit on its own exhausts any fuel *)
Theorem C13_batch_s2_variant_refuted : forall (E : Type) (over : list E -> bool) (e : E),
  over [e] = true -> forall fuel, run_s2 over fuel (init [e]) = None.
Proof. exact @s2_variant_never_finishes. Qed.
Print Assumptions C13_batch_s2_variant_refuted.

Example C13_batch_nonvacuous :
  (* limit 100, envelope 10: [30;30;30;200;30] -> batches {30,30} {30} {30}, the 200 is dropped *)
  summary 100 10 [30; 30; 30; 200; 30]%N = Some (3, 1)%nat /\
  run_s2 (over_sizes 100 10) 1000 (init [200%N]) = None.
Proof. vm_compute. split; reflexivity. Qed.

(* non-vacuity / concrete shapes, stated relative to the regenerated limits *)
Example C13_nonvacuous :
  let a := fun n => repeat 97%N n in
  write_event_cur (a (MAXM - 1) ++ [195%N; 169%N]) = None /\
  write_event_fixed (a (MAXM - 1) ++ [195%N; 169%N]) = Some (a (MAXM - 1)) /\
  write_event_cur (a (MAXM - 2) ++ [195%N; 169%N; 98%N]) = Some (a (MAXM - 2) ++ [195%N; 169%N]) /\
  get_module_status_cur (a (MAXS - 1) ++ [195%N; 169%N]) = None /\
  get_module_status_fixed (a (MAXS - 1) ++ [195%N; 169%N]) = Some (a (MAXS - 1) ++ [46%N; 46%N; 46%N]) /\
  canon_headers_cur [([120%N], [128%N])] = None /\
  canon_headers_fixed [([88%N], [128%N])] = Some [([120%N], [239%N; 191%N; 189%N])] /\
  canon_headers_fixed [([88%N], [195%N; 169%N])] = Some [([120%N], [195%N; 169%N])].
Proof. vm_compute. repeat split. Qed.
