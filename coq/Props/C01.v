(* C01 -- Complete mediation: only attributed, authorized requests reach a metadata host.
   Property theorems only: each is closed by [exact lemma] and followed by Print Assumptions.
   Model: Model/Server.v ([accept] = TcpConnectionContext::new, [handle_gen authz] =
   ProxyServer::handle_new_http_request with the authorization function as a parameter,
   [handle] = its instance with Model/Authorizer.v), tied to proxy_agent/src/proxy/{proxy_server,
   proxy_connection,proxy_authorizer}.rs and redirector.rs by the end-to-end correspondence run
   (tools/checks/c01.py).  The statements about [handle_gen] hold for EVERY authorization function,
   hence in particular for the one of the pinned commit and for the repaired one (C02/F1). *)
From GPA Require Import Server ServerProofs.

Section AnyAuthorizer.
Context (authz : bytes -> N -> claims -> url -> option computed -> auth_result).

(* A request is relayed only if the connection carries claims and an original destination, the
   path has no "..", the rules of that destination could be read, and the policy in force does
   not forbid this caller for this URL.  ("authorizes" includes audit mode: AOkWithAudit.) *)
Theorem C01_relay_implies_attributed_and_authorized : forall e cx r u fx,
  handle_gen authz e cx r = (Relay u, fx) ->
  e_counter_ok e = true /\ has_traversal r = false /\ is_provision r = false /\
  cx_dest cx = Some (up_ip u, up_port u) /\ cx_claims cx = Some (up_claims u) /\
  e_claims_json_ok e (up_claims u) = true /\ up_request u = r /\
  exists rs, rules_for e (ipv4_text (up_ip u)) (up_port u) = ROk rs /\
             authz (ipv4_text (up_ip u)) (up_port u) (up_claims u) (url_of r) rs <> AForbidden /\
             In (UpstreamWrite u) fx.
Proof. exact (relay_inv authz). Qed.

(* ... and, composed with the accept step: only if the kernel hook left a record under the
   connection's source port; destination, elevation bit and claims are that record's. *)
Theorem C01_relay_implies_kernel_record : forall os fr e m p r u fx,
  handle_gen authz e (fst (accept os fr m p)) r = (Relay u, fx) ->
  exists rec rs,
    alookup N.eqb p m = Some rec /\
    up_ip u = ae_ip rec /\ up_port u = ae_port rec /\
    claims_of_entry os rec = Some (up_claims u) /\
    k_elevated (up_claims u) = elevated_of_audit (ae_is_admin rec) /\
    has_traversal r = false /\
    rules_for e (ipv4_text (ae_ip rec)) (ae_port rec) = ROk rs /\
    authz (ipv4_text (ae_ip rec)) (ae_port rec) (up_claims u) (url_of r) rs <> AForbidden.
Proof. exact (served_relay_attributed_authorized authz). Qed.

(* In every other case not one byte is written upstream ... *)
Theorem C01_no_upstream_byte_otherwise : forall e cx r,
  (forall u, fst (handle_gen authz e cx r) <> Relay u) ->
  forall b, ~ In (UpstreamWrite b) (snd (handle_gen authz e cx r)).
Proof. exact (no_upstream_byte_otherwise authz). Qed.

(* ... (and what is written when the request IS relayed is that request and nothing else) ... *)
Theorem C01_only_the_relayed_request_is_written : forall e cx r b,
  In (UpstreamWrite b) (snd (handle_gen authz e cx r)) -> fst (handle_gen authz e cx r) = Relay b.
Proof. exact (only_the_relayed_request_is_written authz). Qed.

(* ... and the client gets 404/421/500/403 (or the local /provision answer).  The statuses are the
   constants regenerated from proxy_server.rs on every run. *)
Theorem C01_error_status : forall e cx r,
  (forall u, fst (handle_gen authz e cx r) <> Relay u) ->
  fst (handle_gen authz e cx r) = Provision \/
  exists s, fst (handle_gen authz e cx r) = Resp s /\ In s [404; 421; 500; 403].
Proof. exact (error_status authz). Qed.

(* The case table.  [refused_with x s] := the outcome is [Resp s] and no effect is an upstream write. *)
Theorem C01_case_traversal_404 : forall e cx r,
  e_counter_ok e = true -> has_traversal r = true ->
  refused_with (handle_gen authz e cx r) 404.
Proof. exact (case_traversal authz). Qed.

Theorem C01_case_direct_421 : forall e cx r,
  e_counter_ok e = true -> has_traversal r = false -> is_provision r = false ->
  cx_dest cx = None ->
  refused_with (handle_gen authz e cx r) 421.
Proof. exact (case_direct authz). Qed.

Theorem C01_case_unknown_caller_421 : forall e cx r,
  e_counter_ok e = true -> has_traversal r = false -> is_provision r = false ->
  cx_claims cx = None ->
  refused_with (handle_gen authz e cx r) 421.
Proof. exact (case_unknown_caller authz). Qed.

Theorem C01_case_lookup_failure_500 : forall e cx r ip port c,
  e_counter_ok e = true -> has_traversal r = false -> is_provision r = false ->
  cx_dest cx = Some (ip, port) -> cx_claims cx = Some c -> e_claims_json_ok e c = true ->
  rules_for e (ipv4_text ip) port = RErr ->
  refused_with (handle_gen authz e cx r) 500.
Proof. exact (case_lookup_failure authz). Qed.

Theorem C01_case_enforced_denial_403 : forall e cx r ip port c rs,
  e_counter_ok e = true -> has_traversal r = false -> is_provision r = false ->
  cx_dest cx = Some (ip, port) -> cx_claims cx = Some c -> e_claims_json_ok e c = true ->
  rules_for e (ipv4_text ip) port = ROk rs ->
  authz (ipv4_text ip) port c (url_of r) rs = AForbidden ->
  refused_with (handle_gen authz e cx r) 403.
Proof. exact (case_enforced_denial authz). Qed.

(* A connection made directly to the listener (no record under its source port) is never relayed
   and writes nothing upstream, whatever the request, the rules and the authorizer. *)
Theorem C01_direct_never_relayed : forall os fr e m p r,
  alookup N.eqb p m = None ->
  is_relay (fst (handle_gen authz e (fst (accept os fr m p)) r)) = false /\
  writes_upstream (snd (handle_gen authz e (fst (accept os fr m p)) r)) = false.
Proof. exact (served_direct_refused authz). Qed.

(* Mediation is exact: the forward step is entered precisely when every check passes (so no check
   can be skipped or reordered without changing this function). *)
Theorem C01_relay_iff_all_checks_pass : forall e cx r,
  is_relay (fst (handle_gen authz e cx r)) = passes authz e cx r.
Proof. exact (relay_iff_passes authz). Qed.

Theorem C01_upstream_write_iff_relay : forall e cx r,
  writes_upstream (snd (handle_gen authz e cx r)) = is_relay (fst (handle_gen authz e cx r)).
Proof. exact (write_iff_relay authz). Qed.
End AnyAuthorizer.

Print Assumptions C01_relay_implies_attributed_and_authorized.
Print Assumptions C01_relay_implies_kernel_record.
Print Assumptions C01_no_upstream_byte_otherwise.
Print Assumptions C01_only_the_relayed_request_is_written.
Print Assumptions C01_error_status.
Print Assumptions C01_case_traversal_404.
Print Assumptions C01_case_direct_421.
Print Assumptions C01_case_unknown_caller_421.
Print Assumptions C01_case_lookup_failure_500.
Print Assumptions C01_case_enforced_denial_403.
Print Assumptions C01_direct_never_relayed.
Print Assumptions C01_relay_iff_all_checks_pass.
Print Assumptions C01_upstream_write_iff_relay.

(* The connection context comes from the kernel's record and from nothing else: whenever an
   accepted connection has claims or a destination, a record existed under its source port and
   the context is the image of that record. *)
Theorem C01_ctx_from_kernel_only : forall os fr m p cx m',
  accept os fr m p = (cx, m') ->
  cx_claims cx <> None \/ cx_dest cx <> None ->
  exists e, alookup N.eqb p m = Some e /\ cx = ctx_of os e.
Proof. exact ctx_from_kernel_only. Qed.
Print Assumptions C01_ctx_from_kernel_only.

(* records under other source ports cannot influence it *)
Theorem C01_ctx_ignores_other_ports : forall os fr m1 m2 p,
  alookup N.eqb p m1 = alookup N.eqb p m2 ->
  fst (accept os fr m1 p) = fst (accept os fr m2 p).
Proof. exact accept_local. Qed.
Print Assumptions C01_ctx_ignores_other_ports.

(* With the policy of Model/Authorizer.v: a relayed request is one that policy forwards. *)
Theorem C01_relayed_is_forwarded_by_policy : forall e cx r u fx,
  handle e cx r = (Relay u, fx) ->
  exists rs, rules_for e (ipv4_text (up_ip u)) (up_port u) = ROk rs /\
             forwards (authorize_at (ipv4_text (up_ip u)) (up_port u) (up_claims u) (url_of r) rs) = true.
Proof. exact handle_relay_policy. Qed.
Print Assumptions C01_relayed_is_forwarded_by_policy.

(* "/provision" is compared with the WHOLE request target (an origin-form target equals it iff its
   path is "/provision" and its query is absent or empty) ... *)
Theorem C01_provision_compares_whole_uri : forall m path q,
  is_provision {| rq_method := m; rq_uri := origin_uri path q |} = true <->
  path = Consts.provision_url_path /\ (q = None \/ q = Some []).
Proof. exact is_provision_origin. Qed.
Print Assumptions C01_provision_compares_whole_uri.

(* ... and the kernel-side address constants denote the addresses the authorizer compares as text. *)
Theorem C01_address_constants_consistent :
  ipv4_text Consts.wire_server_ip_network_byte_order = Consts.wire_server_ip /\
  ipv4_text Consts.ga_plugin_ip_network_byte_order = Consts.ga_plugin_ip /\
  ipv4_text Consts.imds_ip_network_byte_order = Consts.imds_ip /\
  ipv4_text Consts.proxy_agent_ip_network_byte_order = Consts.proxy_agent_ip.
Proof. exact ip_constants_consistent. Qed.
Print Assumptions C01_address_constants_consistent.

(* ---------------------------------------------------------------------------------------------- *)
(* Non-vacuity: concrete requests through accept + handle with the real policy model               *)
(* ---------------------------------------------------------------------------------------------- *)
Module C01_examples.
  Import Coq.Strings.String.
  Definition os : os_view := fun uid pid =>
    Some (if uid =? 0 then B"root" else B"nobody", [if uid =? 0 then B"root" else B"nogroup"],
          B"curl", B"/usr/bin/curl").
  Definition rec_ws (uid : N) : audit_entry :=
    {| ae_logon := uid; ae_pid := 4242; ae_is_admin := if uid =? 0 then 1%Z else 0%Z;
       ae_ip := Consts.wire_server_ip_network_byte_order; ae_port := 80 |}.
  Definition rec_imds (uid : N) : audit_entry :=
    {| ae_logon := uid; ae_pid := 4242; ae_is_admin := if uid =? 0 then 1%Z else 0%Z;
       ae_ip := Consts.imds_ip_network_byte_order; ae_port := 80 |}.
  Definition deny_all : computed :=
    {| c_default := false; c_mode := Enforce; c_privs := []; c_assign := []; c_ids := [] |}.
  Definition env0 (imds : rules_result) : env :=
    {| e_counter_ok := true; e_claims_json_ok := fun _ => true;
       e_ws := ROk None; e_ga := ROk None; e_imds := imds |}.
  Definition get (path : bytes) (q : option bytes) : request :=
    {| rq_method := B"GET"; rq_uri := origin_uri path q |}.
  Definition m : audit_map := [(40001, rec_ws 0); (40002, rec_ws 1000); (40003, rec_imds 1000)].
  Definition run (e : env) (port : N) (r : request) := result_codes (serve os false e m port r).

(* relayed: root to WireServer; non-root to IMDS without rules *)
Example C01_nonvacuous_relayed :
  run (env0 (ROk None)) 40001 (get (B"/machine") (Some (B"comp=goalstate"))) = ((2, 0), [(0, 0)]) /\
  run (env0 (ROk None)) 40003 (get (B"/metadata/instance") None) = ((2, 0), [(0, 0)]).
Proof. split; vm_compute; reflexivity. Qed.

(* refused: non-root to WireServer -> 403; enforced deny-all on IMDS -> 403; no record -> 421;
   ".." in the path -> 404; rules lookup failure -> 500; none of them writes upstream *)
Example C01_nonvacuous_refused :
  run (env0 (ROk None)) 40002 (get (B"/machine") None) = ((0, 403), [(1, 403); (2, 403)]) /\
  run (env0 (ROk (Some deny_all))) 40003 (get (B"/metadata/instance") None) = ((0, 403), [(1, 403); (2, 403)]) /\
  run (env0 (ROk None)) 50000 (get (B"/metadata/instance") None) = ((0, 421), [(2, 421)]) /\
  run (env0 (ROk None)) 40001 (get (B"/a/../b") None) = ((0, 404), [(2, 404)]) /\
  run (env0 RErr) 40003 (get (B"/metadata/instance") None) = ((0, 500), [(2, 500)]).
Proof. repeat split; vm_compute; reflexivity. Qed.

(* ".." is tested on the path only; "/provision" with a non-empty query is not the provision URL *)
Example C01_nonvacuous_path_only :
  run (env0 (ROk None)) 40001 (get (B"/a") (Some (B"x=../y"))) = ((2, 0), [(0, 0)]) /\
  run (env0 (ROk None)) 50000 (get (B"/provision") None) = ((1, 0), []) /\
  run (env0 (ROk None)) 50000 (get (B"/provision") (Some [])) = ((1, 0), []) /\
  run (env0 (ROk None)) 50000 (get (B"/provision") (Some (B"x"))) = ((0, 421), [(2, 421)]).
Proof. repeat split; vm_compute; reflexivity. Qed.

(* audit mode relays a denied request and records it (C11 builds on this) *)
Example C01_nonvacuous_audit :
  run (env0 (ROk (Some {| c_default := false; c_mode := Audit; c_privs := []; c_assign := []; c_ids := [] |})))
      40003 (get (B"/metadata/instance") None) = ((2, 0), [(1, 403); (0, 0)]).
Proof. vm_compute. reflexivity. Qed.
End C01_examples.
