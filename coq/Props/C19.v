(* C19 -- Disk usage by logs, events and rule dumps stays within configured bounds.
   Property theorems only: each is closed by [exact lemma] and followed by Print Assumptions.
   Model: Model/Disk.v (tied to rolling_logger.rs, event_logger.rs, authorization_rules.rs by the
   correspondence check tools/checks/c19.py).

   Vocabulary (Proofs/DiskProofs.v):
     wf_dir d      the names in the directory are pairwise different
     wf_cfg c      the logger's current file name starts with its configured name (true for every
                   name ending in ".log" or without a dot) and max_count >= 1
     lfiles c d    the entries get_log_files selects for logger c;  lcount c d  their number
     Inv c d       wf_dir d, lcount c d <= max_count with room for the current file when it does not
                   exist yet, and every selected file was below max_size (or empty) before its last
                   write  -- the empty directory satisfies it, and so does every directory left by an
                   earlier run with the same settings (it is preserved by every step)
     compat c o    o is a write of c itself (with or without a failing rename), a write of a logger whose name is not prefix-related to
                   c's, or a rule dump (c's name not prefix-related to "AuthorizationRules_")
     trace d ops   the directory after EVERY step of the history ops started on d
   A restart is the explicit operation [ORestart c] (model of service::setup_loggers /
   RollingLogger::create_new: no file-system access, nothing cached), admitted by compat and dcompat:
   every history theorem below quantifies over writes AND restarts. *)
From GPA Require Import Disk DiskProofs.

(* -------- rolling logs: file count -------- *)
Theorem C19_log_count : forall (c : logcfg) (ops : list op) (d0 : dir),
  wf_cfg c -> Inv c d0 -> Forall (compat c) ops ->
  Forall (fun d => lcount c d <= lmax_count c) (trace d0 ops).
Proof. exact log_count_history. Qed.
Print Assumptions C19_log_count.

Theorem C19_log_count_from_empty : forall (c : logcfg) (ops : list op),
  wf_cfg c -> Forall (compat c) ops ->
  Forall (fun d => lcount c d <= lmax_count c) (trace [] ops).
Proof. exact log_count_from_empty. Qed.
Print Assumptions C19_log_count_from_empty.

(* the invariant itself is inductive: whatever state an earlier run (same settings) left behind *)
Theorem C19_log_invariant_step : forall (c : logcfg) (o : op) (d : dir),
  wf_cfg c -> compat c o -> Inv c d -> Inv c (step d o).
Proof. exact step_inv. Qed.
Print Assumptions C19_log_invariant_step.

(* -------- restarts; the agent's two loggers in their shared directory -------- *)
Theorem C19_restart_is_noop : forall (c : logcfg) (d : dir), step d (ORestart c) = d.
Proof. exact restart_noop. Qed.
Print Assumptions C19_restart_is_noop.

(* every history of writes (also under a failing rename / a failing listing) and RESTARTS of the
   agent logger and the connection logger and of rule dumps, from every directory that satisfies the
   invariant of both (the empty one does: C19_agent_from_empty): after every step both counts are
   within the configured 5 and every file of either log is within 10 MiB + its last write *)
Theorem C19_agent_two_loggers_history : forall (ops : list op) (d0 : dir),
  Inv agent_logger d0 -> Inv connection_logger d0 -> Forall agent_op ops ->
  Forall (fun d => lcount agent_logger d <= lmax_count agent_logger /\
                   lcount connection_logger d <= lmax_count connection_logger /\
                   (forall e, In e (lfiles agent_logger d) \/ In e (lfiles connection_logger d) ->
                              esize e <= Consts.max_log_file_size + elast e))
         (trace d0 ops).
Proof. exact agent_two_loggers_history. Qed.
Print Assumptions C19_agent_two_loggers_history.

Theorem C19_agent_from_empty : Inv agent_logger [] /\ Inv connection_logger [].
Proof. exact agent_from_empty. Qed.
Print Assumptions C19_agent_from_empty.

(* -------- rolling logs: no file exceeds the size limit by more than one write -------- *)
(* [elast e] is the number of bytes of the last write appended to e (C19_log_write_effect) *)
Theorem C19_log_size : forall (c : logcfg) (ops : list op) (d0 : dir),
  wf_cfg c -> Inv c d0 -> Forall (compat c) ops ->
  Forall (fun d => forall e, In e (lfiles c d) ->
            esize e <= lmax_size c + elast e /\ (0 < lmax_size c -> esize e < lmax_size c + elast e))
         (trace d0 ops).
Proof. exact log_size_history. Qed.
Print Assumptions C19_log_size.

Theorem C19_log_write_effect : forall (c : logcfg) (ts : bytes) (lens : list N) (d : dir),
  wf_cfg c -> wf_dir d ->
  exists e, dfind (cur_name c) (write_many c ts lens d) = Some e /\
            elast e = total_bytes lens /\ total_bytes lens <= esize e /\
            (esize e - total_bytes lens < lmax_size c \/ esize e = total_bytes lens).
Proof. exact write_many_effect. Qed.
Print Assumptions C19_log_write_effect.

(* when archiving fails (rename error: [OWriteRF] in the histories above, covered by C19_log_count and
   C19_log_size like any other step) a file at or beyond the limit is never appended to: the write
   is refused, the directory is unchanged *)
Theorem C19_log_roll_failure_refuses : forall (c : logcfg) (lens : list N) (d : dir) (e : ent),
  dfind (cur_name c) d = Some e -> lmax_size c <= esize e -> write_many_rf c lens d = d.
Proof. exact write_many_rf_refuses. Qed.
Print Assumptions C19_log_roll_failure_refuses.

(* -------- rolling logs: the files removed are the (lexicographically) oldest -------- *)
Theorem C19_log_oldest_first : forall (c : logcfg) (ts : bytes) (lens : list N) (d : dir) (r k : bytes),
  wf_cfg c -> wf_dir d ->
  let d' := write_many c ts lens d in
  In r (names d) -> lmatch c r = true -> r <> cur_name c -> ~ In r (names d') ->
  In k (names d') -> lmatch c k = true -> k <> cur_name c ->
  bytes_ltb k r = false.
Proof. exact write_many_oldest. Qed.
Print Assumptions C19_log_oldest_first.

(* -------- convergence from an over-limit directory (left by a run with larger settings) -------- *)
(* a write that rolls brings ANY directory within the bound ... *)
Theorem C19_log_converges_on_roll : forall (c : logcfg) (ts : bytes) (lens : list N) (d : dir),
  wf_cfg c -> wf_dir d -> lmax_size c <= cur_size c (open_file c d) ->
  lcount c (write_many c ts lens d) <= lmax_count c.
Proof. exact log_converges_on_roll. Qed.
Print Assumptions C19_log_converges_on_roll.

(* ... and a roll happens within max_size + 1 non-empty writes, whatever the directory *)
Theorem C19_log_converges_within : forall (c : logcfg) (ws : list (bytes * list N)) (d : dir),
  wf_cfg c -> wf_dir d -> Forall (fun w => snd w <> []) ws ->
  lmax_size c + 1 <= N.of_nat (length ws) ->
  lcount c (own_writes c ws d) <= lmax_count c.
Proof. exact log_converges_within. Qed.
Print Assumptions C19_log_converges_within.

(* but NOT within one operation: the trim only happens on a roll (DESIGN's one-step statement is
   true for the rule dumps, false for the logs) *)
Theorem C19_log_one_op_convergence_refuted :
  exists c d ts lens, wf_cfg c /\ wf_dir d /\ lmax_count c < lcount c (write_many c ts lens d).
Proof. exact log_one_op_convergence_refuted. Qed.
Print Assumptions C19_log_one_op_convergence_refuted.

(* -------- loggers sharing one directory -------- *)
Theorem C19_loggers_do_not_interfere : forall (c c' : logcfg) (ts : bytes) (lens : list N) (d : dir),
  lmatch c' (cur_name c') = true -> incomparable (lname c) (lname c') = true ->
  lfiles c (write_many c' ts lens d) = lfiles c d.
Proof. exact loggers_do_not_interfere. Qed.
Print Assumptions C19_loggers_do_not_interfere.

Theorem C19_dumps_do_not_disturb_logs : forall (c : logcfg) (maxc : N) (ts : bytes) (sz : N) (d : dir),
  incomparable (lname c) Consts.rules_dump_search_prefix = true ->
  lfiles c (write_all maxc ts sz d) = lfiles c d.
Proof. exact dumps_do_not_disturb_logs. Qed.
Print Assumptions C19_dumps_do_not_disturb_logs.

Theorem C19_logs_do_not_disturb_dumps : forall (c : logcfg) (ts : bytes) (lens : list N) (d : dir),
  lmatch c (cur_name c) = true -> incomparable (lname c) Consts.rules_dump_search_prefix = true ->
  filter (fun e => is_dump (ename e)) (write_many c ts lens d) = filter (fun e => is_dump (ename e)) d.
Proof. exact logs_do_not_disturb_dumps. Qed.
Print Assumptions C19_logs_do_not_disturb_dumps.

(* the names the agent (service.rs) and the extension really use satisfy the hypotheses above;
   re-proved from the regenerated constants *)
Theorem C19_agent_loggers_ok :
  wf_cfg agent_logger /\ wf_cfg connection_logger /\
  incomparable (lname agent_logger) (lname connection_logger) = true /\
  incomparable (lname agent_logger) Consts.rules_dump_search_prefix = true /\
  incomparable (lname connection_logger) Consts.rules_dump_search_prefix = true /\
  1 <= Consts.rules_dump_max_files /\
  incomparable Consts.ext_handler_log_file Consts.ext_service_log_file = true.
Proof. exact agent_loggers_ok. Qed.
Print Assumptions C19_agent_loggers_ok.

(* get_log_files selects by starts_with(name): a logger named by a PREFIX of another logger's name
   (e.g. "ProxyAgent" next to "ProxyAgent.Connection") counts and deletes the other's files *)
Theorem C19_prefix_related_loggers_interfere :
  exists ca cb d ts lens,
    starts_with (lname cb) (lname ca) = true /\ wf_dir d /\
    lfiles cb d <> [] /\ lfiles cb (write_many ca ts lens d) = [].
Proof. exact prefix_related_loggers_interfere. Qed.
Print Assumptions C19_prefix_related_loggers_interfere.

(* -------- rule dumps -------- *)
(* one write_all brings ANY directory to at most max dumps *)
Theorem C19_dumps_cap : forall (maxc : N) (ts : bytes) (sz : N) (d : dir),
  wf_dir d -> 1 <= maxc -> dcount (write_all maxc ts sz d) <= maxc.
Proof. exact write_all_count. Qed.
Print Assumptions C19_dumps_cap.

Theorem C19_dumps_cap_history : forall (maxc : N) (ops : list op) (d : dir),
  1 <= maxc -> Forall (dcompat maxc) ops -> wf_dir d -> dcount d <= maxc ->
  Forall (fun d' => dcount d' <= maxc) (trace d ops).
Proof. exact dumps_cap_history. Qed.
Print Assumptions C19_dumps_cap_history.

Theorem C19_dumps_oldest_first : forall (maxc : N) (ts : bytes) (sz : N) (d : dir) (r k : bytes),
  let d' := write_all maxc ts sz d in
  In r (names d) -> is_dump r = true -> ~ In r (names d') ->
  In k (names d') -> is_dump k = true -> k <> dump_name ts ->
  bytes_ltb k r = false.
Proof. exact write_all_oldest. Qed.
Print Assumptions C19_dumps_oldest_first.

(* oldest first over the AGE order.  The code's name is <fixed prefix><time stamp><suffix>
   (C19_dump_name_is_timestamp_prefixed, from the regenerated constants), so for fixed-width stamps name
   order IS stamp order, and no dump that survives a write_all is older than one it removed: the removed
   set is an initial segment of the age order.  Chronological = stamp order is the clock's business
   (monotone clock). *)
Theorem C19_dump_name_is_timestamp_prefixed : forall ts : bytes,
  dump_name ts = Consts.rules_dump_search_prefix ++ colon_to_dot ts ++ Consts.rules_dump_search_suffix.
Proof. exact dump_name_eq. Qed.
Print Assumptions C19_dump_name_is_timestamp_prefixed.

Theorem C19_dump_name_order_is_age_order : forall t1 t2 : bytes,
  length t1 = length t2 ->
  bytes_ltb (dump_name t1) (dump_name t2) = bytes_ltb (colon_to_dot t1) (colon_to_dot t2).
Proof. exact dump_name_order. Qed.
Print Assumptions C19_dump_name_order_is_age_order.

Theorem C19_dumps_oldest_first_by_age : forall (maxc : N) (ts : bytes) (sz : N) (d : dir) (tr tk : bytes),
  length tr = length tk ->
  let d' := write_all maxc ts sz d in
  In (dump_name tr) (names d) -> ~ In (dump_name tr) (names d') ->
  In (dump_name tk) (names d') -> dump_name tk <> dump_name ts ->
  bytes_ltb (colon_to_dot tk) (colon_to_dot tr) = false.
Proof. exact dumps_oldest_by_age. Qed.
Print Assumptions C19_dumps_oldest_first_by_age.

(* why the hypothesis is needed: the same trimming with a tag in front of the stamp (seeded change s1)
   removes the dump written third and keeps the one written second *)
Theorem C19_tagged_names_oldest_first_refuted :
  exists tag1 tag2 d,
    let w := fun tag ts d => write_all_with (dump_name_tagged tag ts) 2 7 d in
    d = w tag2 [52] (w tag2 [51] (w tag1 [50] (w tag1 [49] []))) /\
    ~ In (dump_name_tagged tag2 [51]) (names d) /\
    In (dump_name_tagged tag1 [50]) (names d) /\
    bytes_ltb [50] [51] = true.
Proof. exact tagged_names_break_oldest_first. Qed.
Print Assumptions C19_tagged_names_oldest_first_refuted.

Theorem C19_dump_written : forall (maxc : N) (ts : bytes) (sz : N) (d : dir),
  dfind (dump_name ts) (write_all maxc ts sz d) = Some (dump_name ts, sz, 0) /\
  is_dump (dump_name ts) = true.
Proof. intros. split; [exact (write_all_keeps_new maxc ts sz d) | exact (is_dump_dump_name ts)]. Qed.
Print Assumptions C19_dump_written.

(* -------- event files -------- *)
(* every history, flushes in a directory whose listing fails ([ETickLF]) included *)
Theorem C19_event_cap : forall (cap : N) (ops : list evop) (s : evstate),
  ev_count s <= cap -> evq s <= Consts.event_queue_bound ->
  Forall (fun s' => ev_count s' <= cap /\ evq s' <= Consts.event_queue_bound) (ev_trace cap s ops).
Proof. exact event_cap_history. Qed.
Print Assumptions C19_event_cap.

(* at the cap, a flush -- the periodic one and the one of the pass that sees stop() -- drops the
   queued events and leaves the directory alone *)
Theorem C19_event_drop_at_cap : forall (cap : N) (ts : bytes) (s : evstate),
  cap <= ev_count s ->
  evdir (ev_tick cap ts s) = evdir s /\ (evphase s <> Done -> evq (ev_tick cap ts s) = 0).
Proof. exact ev_tick_drop. Qed.
Print Assumptions C19_event_drop_at_cap.

Theorem C19_event_written_below_cap : forall (cap : N) (ts : bytes) (s : evstate),
  ev_count s < cap -> evq s <> 0 -> evphase s <> Done ->
  dfind (ts ++ ev_ext) (evdir (ev_tick cap ts s)) = Some (ts ++ ev_ext, evq s, 0) /\
  evq (ev_tick cap ts s) = 0.
Proof. exact ev_tick_write. Qed.
Print Assumptions C19_event_written_below_cap.

(* once the loop has seen stop() and left, no operation but a restart changes anything *)
Theorem C19_event_done_frozen : forall (cap : N) (s : evstate) (o : evop),
  evphase s = Done -> o <> ERestart -> ev_step cap s o = s.
Proof. exact ev_done_frozen. Qed.
Print Assumptions C19_event_done_frozen.

(* from an over-limit event directory: the logger never deletes (the reader does), and never adds *)
Theorem C19_event_never_grows_over : forall (cap : N) (ops : list evop) (s : evstate),
  evq s <= Consts.event_queue_bound ->
  Forall (fun s' => ev_count s' <= N.max (ev_count s) cap) (ev_trace cap s ops).
Proof. exact event_never_grows_over. Qed.
Print Assumptions C19_event_never_grows_over.

(* -------- a directory entry that cannot be stat()-ed (dangling link, link loop), sub-directories -------- *)
(* Since /repo 9e49374 / 7e4ec27 (findings F-C19a, F-C19b, fixed): get_log_files ignores such entries,
   so a logger's write there ([OWriteLF], admitted by compat like any own write: C19_log_count,
   C19_log_size cover it) is the ordinary write; the event logger drops the drained events and never
   touches the directory.  The behaviour before the repairs and why it broke both bounds:
   DiskProofs.log_count_unstatable_refuted_before_fix, event_cap_unstatable_refuted_before_fix. *)
Theorem C19_log_listing_failure_harmless : forall (c : logcfg) (ts : bytes) (lens : list N) (d : dir),
  write_many_lf c ts lens d = write_many c ts lens d.
Proof. exact write_many_lf_is_write_many. Qed.
Print Assumptions C19_log_listing_failure_harmless.

Theorem C19_event_listing_failure_fails_closed : forall (ts : bytes) (s : evstate),
  evdir (ev_tick_lf ts s) = evdir s.
Proof. exact ev_tick_lf_dir. Qed.
Print Assumptions C19_event_listing_failure_fails_closed.

(* the rule dumps fail closed: a failing listing skips the dump (ODumpLF is admitted by dcompat) *)
Theorem C19_dump_listing_failure_skips : forall d : dir, step d ODumpLF = d.
Proof. exact dump_listing_failure_skips. Qed.
Print Assumptions C19_dump_listing_failure_skips.

(* the cap handed to event_logger::start is the CONFIGURED maxEventFileCount whenever one is configured
   (0 included: then nothing is ever written) *)
Theorem C19_configured_cap : forall (o : option N) (n : N), o = Some n -> configured_cap o = n.
Proof. exact configured_cap_spec. Qed.
Print Assumptions C19_configured_cap.

(* -------- non-vacuity -------- *)
Definition nv_cfg : logcfg := {| lname := [97; 46; 108; 111; 103]; lmax_size := 10; lmax_count := 2 |}.
Definition nv_ops : list op :=
  [OWrite nv_cfg [49] [11]; OWrite nv_cfg [50] [3]; OWrite nv_cfg [51] [20]; OWrite nv_cfg [52] [0];
   ODump 1 [49] 7; ODump 1 [50] 7; OWriteRF nv_cfg [30]; OWriteRF nv_cfg [30]; OWriteRF nv_cfg [30]].

(* a reachable state at the limit: two log files (the archive has 25 bytes > max_size 10: it had 4 < 10
   bytes before its last write of 21), the second roll deleted the oldest archive, the second dump replaced the first *)
Example C19_nonvacuous :
  wf_cfg nv_cfg /\ Forall (compat nv_cfg) nv_ops /\
  map (fun d => lcount nv_cfg d) (trace [] nv_ops) = [1; 2; 2; 2; 2; 2; 2; 2; 2] /\
  map dcount (trace [] nv_ops) = [0; 0; 0; 0; 1; 1; 1; 1; 1] /\
  map (fun e => esize e) (lfiles nv_cfg (run [] nv_ops)) = [32; 25].
Proof.
  split; [split; vm_compute; [reflexivity|discriminate]|].
  split; [repeat (apply Forall_cons; [simpl; first [left; reflexivity | vm_compute; reflexivity]|]); apply Forall_nil|].
  vm_compute. repeat split.
Qed.

Example C19_event_nonvacuous :
  map (fun s => (ev_count s, evq s))
      (ev_trace 2 {| evdir := []; evq := 0; evphase := Running |}
         [EPush 3; ETick [49]; EPush 1; ETick [50]; EPush 1200; ETick [51]; ETick [52];
          EPush 5; EStop; EPush 1; ETick [53]; EPush 4; ETick [54]])
  = [(0, 3); (1, 0); (1, 1); (2, 0); (2, 1000); (2, 0); (2, 0);
     (2, 5); (2, 5); (2, 6); (2, 0); (2, 0); (2, 0)].
Proof. vm_compute. reflexivity. Qed.
