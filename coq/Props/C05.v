(* C05 -- Proxy-owned headers cannot be spoofed or duplicated by the client.  Property theorems
   only: each is closed by [exact lemma] and followed by Print Assumptions.
   Model: Model/Headers.v on top of Model/Canon.v (tied to proxy_server.rs
   handle_new_http_request / handle_request_with_signature by the end-to-end correspondence).

   Reading guide.  [c_wire c] is the list of header lines exactly as the client sent them: any
   length, any name any number of times, any letter case.  [proxy_forward mac a now kv kg c] is
   what the proxy sends upstream for an authorized request attributed the kernel record [a],
   at proxy time [now], with key state [kv]/[kg]; [mac] is HMAC-SHA256, about which nothing is
   assumed.  [hm_get_all n hs] are ALL values stored under name n, [wire_values n wire] all
   values the client sent under n in any letter case. *)
From GPA Require Import Headers HeadersProofs.

(* exactly one claims header, and it states the attributed caller's elevation *)
Theorem C05_exactly_one_claims :
  forall (mac : bytes -> bytes -> bytes) (a : audit) (now : bytes) (kv kg : option bytes)
         (c : client_request) (out : request),
  proxy_forward mac a now kv kg c = Forwarded out ->
  hm_get_all claims_header (r_headers out) = [claims_text (run_as_elevated a)].
Proof. exact exactly_one_claims. Qed.
Print Assumptions C05_exactly_one_claims.

(* exactly one date header, the proxy's current time *)
Theorem C05_exactly_one_date :
  forall (mac : bytes -> bytes -> bytes) (a : audit) (now : bytes) (kv kg : option bytes)
         (c : client_request) (out : request),
  proxy_forward mac a now kv kg c = Forwarded out ->
  hm_get_all date_header (r_headers out) = [now].
Proof. exact exactly_one_date. Qed.
Print Assumptions C05_exactly_one_date.

(* whatever the client supplied under those names -- once or many times, any case -- is gone:
   every header the host receives whose name equals one of them case-insensitively carries the
   proxy's value *)
Theorem C05_client_values_gone :
  forall (mac : bytes -> bytes -> bytes) (a : audit) (now : bytes) (kv kg : option bytes)
         (c : client_request) (out : request) (n v : bytes),
  proxy_forward mac a now kv kg c = Forwarded out ->
  In (n, v) (r_headers out) ->
  (lower n = claims_header -> v = claims_text (run_as_elevated a)) /\
  (lower n = date_header -> v = now).
Proof. exact client_values_gone. Qed.
Print Assumptions C05_client_values_gone.

(* on a request the proxy signs, exactly one authorization header reaches the host: the
   proxy's, whose signature is computed over the request as forwarded (claims and date
   included); no client-supplied authorization value survives in any letter case *)
Theorem C05_auth_replaced_when_signed :
  forall (mac : bytes -> bytes -> bytes) (a : audit) (now : bytes) (kv kg : option bytes)
         (c : client_request) (out : request),
  proxy_forward mac a now kv kg c = Forwarded out ->
  is_signed kv kg c = true ->
  exists key guid sig,
    kv = Some key /\ kg = Some guid /\
    compute_signature mac key (as_sig_input (c_method c) (c_body c) (required a now c) (c_uri c)) = Some sig /\
    hm_get_all auth_header (r_headers out) = [auth_value guid sig] /\
    forall n v, In (n, v) (r_headers out) -> lower n = auth_header -> v = auth_value guid sig.
Proof. exact auth_replaced_when_signed. Qed.
Print Assumptions C05_auth_replaced_when_signed.

(* on a request the proxy does not sign (exempt upload, no key latched) the name is not the
   proxy's: the client's values pass like any other header *)
Theorem C05_auth_untouched_when_unsigned :
  forall (mac : bytes -> bytes -> bytes) (a : audit) (now : bytes) (kv kg : option bytes)
         (c : client_request) (out : request),
  proxy_forward mac a now kv kg c = Forwarded out ->
  is_signed kv kg c = false ->
  hm_get_all auth_header (r_headers out) = wire_values auth_header (c_wire c).
Proof. exact auth_untouched_when_unsigned. Qed.
Print Assumptions C05_auth_untouched_when_unsigned.

(* all other headers: the same values in the same order as sent (link to C14) *)
Theorem C05_others_untouched :
  forall (mac : bytes -> bytes -> bytes) (a : audit) (now : bytes) (kv kg : option bytes)
         (c : client_request) (out : request) (n : bytes),
  proxy_forward mac a now kv kg c = Forwarded out ->
  owned n = false ->
  hm_get_all n (r_headers out) = wire_values n (c_wire c).
Proof. exact others_untouched. Qed.
Print Assumptions C05_others_untouched.

(* the claims value is a function of the kernel-attested record alone: nothing in the request
   (headers included) or in the key state influences it *)
Theorem C05_claims_from_kernel :
  forall (mac : bytes -> bytes -> bytes) (a : audit) (now now' : bytes) (kv kv' kg kg' : option bytes)
         (c c' : client_request) (out out' : request),
  proxy_forward mac a now kv kg c = Forwarded out ->
  proxy_forward mac a now' kv' kg' c' = Forwarded out' ->
  hm_get_all claims_header (r_headers out) = hm_get_all claims_header (r_headers out') /\
  hm_get_all claims_header (r_headers out) = [claims_text (Z.eqb (a_is_admin a) 1)].
Proof. exact claims_from_kernel. Qed.
Print Assumptions C05_claims_from_kernel.

(* the two claims texts differ, so the host can tell an elevated caller from another one *)
Theorem C05_claims_distinguish : claims_text true <> claims_text false.
Proof. exact claims_text_inj. Qed.
Print Assumptions C05_claims_distinguish.

(* non-vacuity: a non-elevated caller sends three spoofed claims headers in mixed case, two
   dates and an authorization value; a key is latched.  The forwarded request has exactly one
   of each, none of them the client's.  And: [append] instead of [insert] would let a client
   copy through (so the theorems above do distinguish the two). *)
Module Lit.
  Import Coq.Strings.String.
  Definition get := B"GET".
  Definition path := B"/metadata/instance".
  Definition n1 := B"X-MS-Azure-Host-Claims".
  Definition n2 := B"x-ms-azure-host-CLAIMS".
  Definition n3 := B"X-MS-AZURE-HOST-DATE".
  Definition n4 := B"X-Ms-Azure-Host-Authorization".
  Definition accept := B"accept".
  Definition any := B"*/*".
  Definition yesterday := B"yesterday".
  Definition tomorrow := B"tomorrow".
  Definition client_auth := B"Azure-HMAC-SHA256 g 00".
  Definition now := B"now".
  Definition key := B"00ff".
  Definition guid := B"guid-1".
End Lit.

Example C05_nonvacuous :
  let a := {| a_logon_id := 1000; a_process_id := 7; a_is_admin := 0%Z;
              a_destination_ipv4 := 0; a_destination_port := 80 |} in
  let spoof := claims_text true in
  let c := {| c_method := Lit.get; c_uri := {| u_path := Lit.path; u_query := None |};
              c_wire := [(Lit.n1, spoof); (Lit.accept, Lit.any);
                         (claims_header, spoof); (Lit.n3, Lit.yesterday);
                         (Lit.n2, spoof); (date_header, Lit.tomorrow);
                         (Lit.n4, Lit.client_auth)];
              c_body := [] |} in
  match proxy_forward zero_mac a Lit.now (Some Lit.key) (Some Lit.guid) c with
  | Forwarded out =>
      hm_get_all claims_header (r_headers out) = [claims_text false] /\
      hm_get_all date_header (r_headers out) = [Lit.now] /\
      hm_get_all auth_header (r_headers out) = [auth_value Lit.guid []] /\
      hm_get_all Lit.accept (r_headers out) = [Lit.any] /\
      length (r_headers out) = 4%nat /\
      is_signed (Some Lit.key) (Some Lit.guid) c = true
  | BadGateway => False
  end /\
  hm_get_all claims_header (add_required_headers_append false [] (of_wire [(claims_header, spoof)]))
  = [spoof; claims_text false].
Proof. vm_compute. repeat split. Qed.

(* ---------------------------------------------------------------------------------------- *)
(* the request's TRAILER section (Model/Trailers.v): everything the host receives            *)
(* ---------------------------------------------------------------------------------------- *)
From GPA Require Import Trailers TrailersProofs.

(* for every client request -- any head fields, any trailer fields, any duplicates and letter
   cases -- claims and date occur exactly once in EVERYTHING the host receives (head section and
   trailer section) and carry the proxy's values; the relayed message has no trailer section *)
Theorem C05_owned_once_in_head_and_trailers :
  forall (mac : bytes -> bytes -> bytes) (a : audit) (now : bytes) (kv kg : option bytes)
         (w : wire_request) (u : upstream_message),
  forward_wire mac a now kv kg w = Some u ->
  hm_get_all claims_header (all_fields u) = [claims_text (run_as_elevated a)] /\
  hm_get_all date_header (all_fields u) = [now] /\
  (forall n v, In (n, v) (all_fields u) ->
     (lower n = claims_header -> v = claims_text (run_as_elevated a)) /\ (lower n = date_header -> v = now)) /\
  u_trailers u = [].
Proof. exact owned_once_everywhere. Qed.
Print Assumptions C05_owned_once_in_head_and_trailers.

(* on a request the proxy signs, the authorization name too *)
Theorem C05_auth_once_in_head_and_trailers_when_signed :
  forall (mac : bytes -> bytes -> bytes) (a : audit) (now : bytes) (kv kg : option bytes)
         (w : wire_request) (u : upstream_message),
  forward_wire mac a now kv kg w = Some u ->
  is_signed kv kg (w_req w) = true ->
  exists key guid sig,
    kv = Some key /\ kg = Some guid /\
    hm_get_all auth_header (all_fields u) = [auth_value guid sig] /\
    forall n v, In (n, v) (all_fields u) -> lower n = auth_header -> v = auth_value guid sig.
Proof. exact auth_once_everywhere_when_signed. Qed.
Print Assumptions C05_auth_once_in_head_and_trailers_when_signed.

(* non-vacuity / contrast: a non-elevated caller announces `Trailer: x-ms-azure-host-claims` and
   sends `X-MS-AZURE-HOST-CLAIMS: { "isRoot": "true"}` behind the body; a proxy that forwarded the
   trailer section would show the host two claims values, the code shows one -- its own *)
Example C05_trailers_nonvacuous :
  let a := {| a_logon_id := 1000; a_process_id := 7; a_is_admin := 0%Z; a_destination_ipv4 := 0; a_destination_port := 80 |} in
  let w := {| w_req := {| c_method := [80; 79; 83; 84]; c_uri := {| u_path := [47; 120]; u_query := None |};
                          c_wire := [([84; 114; 97; 105; 108; 101; 114], claims_header)]; c_body := [1; 2; 3] |};
              w_trailers := [(upper claims_header, claims_text true)] |} in
  (match forward_wire_with zero_mac kept_trailers a [110] None None w with
   | Some u => hm_get_all claims_header (all_fields u) = [claims_text false; claims_text true]
   | None => False
   end) /\
  (match forward_wire zero_mac a [110] None None w with
   | Some u => hm_get_all claims_header (all_fields u) = [claims_text false] /\ u_trailers u = []
   | None => False
   end).
Proof. exact forwarding_trailers_refuted. Qed.

(* ---------------------------------------------------------------------------------------- *)
(* the code since /repo c9df24c: the transfer-encoding header of an EMPTY collected body is   *)
(* dropped before the request is signed (Headers.proxy_forward_c9, Canon.hyper_wire)          *)
(* ---------------------------------------------------------------------------------------- *)
From GPA Require Import HeadersWireProofs.

Theorem C05_c9_exactly_one_claims :
  forall (mac : bytes -> bytes -> bytes) (a : audit) (now : bytes) (kv kg : option bytes)
         (c : client_request) (out : request),
  proxy_forward_c9 mac a now kv kg c = Forwarded out ->
  hm_get_all claims_header (r_headers out) = [claims_text (run_as_elevated a)].
Proof. exact c9_exactly_one_claims. Qed.
Print Assumptions C05_c9_exactly_one_claims.

Theorem C05_c9_exactly_one_date :
  forall (mac : bytes -> bytes -> bytes) (a : audit) (now : bytes) (kv kg : option bytes)
         (c : client_request) (out : request),
  proxy_forward_c9 mac a now kv kg c = Forwarded out ->
  hm_get_all date_header (r_headers out) = [now].
Proof. exact c9_exactly_one_date. Qed.
Print Assumptions C05_c9_exactly_one_date.

(* exactly one authorization value on a signed request, computed over the head as it is sent:
   required headers in place, no transfer-encoding header when the body is empty *)
Theorem C05_c9_auth_replaced_when_signed :
  forall (mac : bytes -> bytes -> bytes) (a : audit) (now : bytes) (kv kg : option bytes)
         (c : client_request) (out : request),
  proxy_forward_c9 mac a now kv kg c = Forwarded out ->
  is_signed kv kg c = true ->
  exists key guid sig,
    kv = Some key /\ kg = Some guid /\
    compute_signature mac key (as_sig_input (c_method c) (c_body c) (wire_head a now c) (c_uri c)) = Some sig /\
    hm_get_all auth_header (r_headers out) = [auth_value guid sig].
Proof. exact c9_auth_replaced_when_signed. Qed.
Print Assumptions C05_c9_auth_replaced_when_signed.

Theorem C05_c9_empty_body_signs_no_transfer_encoding :
  forall (a : audit) (now : bytes) (c : client_request),
  c_body c = [] -> hm_get_all te (wire_head a now c) = [].
Proof. exact c9_empty_body_signs_no_te. Qed.
Print Assumptions C05_c9_empty_body_signs_no_transfer_encoding.
