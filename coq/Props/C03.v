(* C03 -- WireServer/HostGAPlugin are root-only under every policy; no self-proxying.
   Property theorems only: each is closed by [exact lemma] and followed by Print Assumptions.
   Model: Model/Authorizer.v (proxy_authorizer.rs) over Model/Rbac.v (the rules decision), tied to
   the code by the correspondence check tools/checks/c03.py.  [fixed] ranges over both behaviours
   of Privilege::is_match (finding F1 of C02): C03 holds for either. *)
From GPA Require Import Rbac Authorizer AuthorizerProofs.

(* A caller that is not running elevated is refused on the WireServer and HostGAPlugin
   authorizers for EVERY rule set [rs] (absent, Disabled, Audit, default allow, rules that name
   the caller), every URL and every other attribute of the caller. *)
Theorem C03_root_only : forall (fixed : bool) (kd : kind) (k : claims) (u : url) (rs : option computed),
  kd = KWireServer \/ kd = KGAPlugin -> k_elevated k = false ->
  authorize_gen fixed kd k u rs = AForbidden.
Proof. exact root_only. Qed.
Print Assumptions C03_root_only.

(* the same at the two endpoint addresses as the regenerated constants give them *)
Theorem C03_root_only_endpoints : forall (k : claims) (u : url) (rs : option computed),
  k_elevated k = false ->
  authorize_at Consts.wire_server_ip Consts.wire_server_port k u rs = AForbidden /\
  authorize_at Consts.ga_plugin_ip Consts.ga_plugin_port k u rs = AForbidden.
Proof. exact root_only_endpoints. Qed.
Print Assumptions C03_root_only_endpoints.

(* ... and for the behaviour of the pinned commit (before the C02 F1 repair) *)
Theorem C03_root_only_endpoints_current : forall (k : claims) (u : url) (rs : option computed),
  k_elevated k = false ->
  authorize_current (kind_of Consts.wire_server_ip Consts.wire_server_port) k u rs = AForbidden /\
  authorize_current (kind_of Consts.ga_plugin_ip Consts.ga_plugin_port) k u rs = AForbidden.
Proof. exact root_only_current. Qed.
Print Assumptions C03_root_only_endpoints_current.

(* never relayed: the handler forwards exactly when the result is not Forbidden *)
Theorem C03_never_forwarded : forall (fixed : bool) (kd : kind) (k : claims) (u : url) (rs : option computed),
  kd = KWireServer \/ kd = KGAPlugin -> k_elevated k = false ->
  forwards (authorize_gen fixed kd k u rs) = false.
Proof. exact never_forwarded. Qed.
Print Assumptions C03_never_forwarded.

(* a request whose recorded destination is the proxy's own listener is always refused *)
Theorem C03_self_refused : forall (fixed : bool) (k : claims) (u : url) (rs : option computed),
  authorize_gen fixed KProxyAgent k u rs = AForbidden.
Proof. exact self_refused. Qed.
Print Assumptions C03_self_refused.

Theorem C03_self_refused_at : forall (k : claims) (u : url) (rs : option computed),
  authorize_at Consts.proxy_agent_ip Consts.proxy_agent_port k u rs = AForbidden.
Proof. exact self_refused_at. Qed.
Print Assumptions C03_self_refused_at.

(* the four (ip, port) constants are pairwise distinct (re-proved whenever Consts.v changes) ... *)
Theorem C03_kinds_distinct : pairwise_distinct endpoints = true.
Proof. exact kinds_distinct. Qed.
Print Assumptions C03_kinds_distinct.

(* ... hence the order of get_authorizer's if-chain is immaterial: each kind is chosen exactly
   at its own endpoint, Default exactly elsewhere *)
Theorem C03_kind_of_spec : forall (ip : bytes) (p : N),
  (kind_of ip p = KWireServer <-> ip = Consts.wire_server_ip /\ p = Consts.wire_server_port) /\
  (kind_of ip p = KGAPlugin <-> ip = Consts.ga_plugin_ip /\ p = Consts.ga_plugin_port) /\
  (kind_of ip p = KImds <-> ip = Consts.imds_ip /\ p = Consts.imds_port) /\
  (kind_of ip p = KProxyAgent <-> ip = Consts.proxy_agent_ip /\ p = Consts.proxy_agent_port) /\
  (kind_of ip p = KDefault <->
     (ip, p) <> (Consts.wire_server_ip, Consts.wire_server_port) /\
     (ip, p) <> (Consts.ga_plugin_ip, Consts.ga_plugin_port) /\
     (ip, p) <> (Consts.imds_ip, Consts.imds_port) /\
     (ip, p) <> (Consts.proxy_agent_ip, Consts.proxy_agent_port)).
Proof. exact kind_of_spec. Qed.
Print Assumptions C03_kind_of_spec.

(* the elevation bit is the audit record's is_admin == 1 *)
Theorem C03_elevated_iff_admin_flag : forall a : Z, elevated_of_audit a = true <-> a = 1%Z.
Proof. exact elevated_iff_admin_flag. Qed.
Print Assumptions C03_elevated_iff_admin_flag.

(* what the elevation test does NOT decide: an elevated caller (and any IMDS caller) gets exactly
   the rules decision, which forbids only an Enforce-mode denial *)
Theorem C03_elevated_rules_decide : forall (fixed : bool) (kd : kind) (k : claims) (u : url) (rs : option computed),
  kd = KWireServer \/ kd = KGAPlugin -> k_elevated k = true ->
  authorize_gen fixed kd k u rs = rules_decision_gen fixed k u rs.
Proof. exact elevated_rules_decide. Qed.
Print Assumptions C03_elevated_rules_decide.

Theorem C03_rules_forbid_only_enforced_denial : forall (fixed : bool) (k : claims) (u : url) (rs : option computed),
  rules_decision_gen fixed k u rs = AForbidden <->
  exists r, rs = Some r /\ is_allowed_gen fixed r u k = false /\ c_mode r = Enforce.
Proof. exact rules_decision_forbidden. Qed.
Print Assumptions C03_rules_forbid_only_enforced_denial.

(* non-vacuity: a rule set that explicitly grants the caller (Disabled mode, default allow, a
   privilege "/" assigned to an identity with the caller's user name) still yields Forbidden for
   the non-elevated caller and Ok for the same caller when elevated; the proxy's own address is
   refused even for an elevated caller with no rules. *)
Definition ex_user : bytes := [117]%N.                       (* "u" *)
Definition ex_claims (el : bool) : claims :=
  {| k_user := ex_user; k_groups := []; k_proc := []; k_exe := []; k_elevated := el |}.
Definition ex_item (mode : bytes) : item :=
  {| it_default := Lit.allow; it_mode := mode;
     it_rules := Some {|
       s_privileges := Some [ {| p_name := [112]; p_path := [47]; p_query := None |} ];
       s_roles := Some [ {| r_name := [114]; r_privs := [[112]] |} ];
       s_identities := Some [ {| i_name := [105]; i_user := Some ex_user; i_group := None;
                                 i_exe := None; i_proc := None |} ];
       s_assignments := Some [ {| a_role := [114]; a_ids := [[105]] |} ] |} |}.
Definition ex_url : url := {| u_path := [47]; u_query := [] |}.

Example C03_nonvacuous :
  map (fun m => authorize_at Consts.wire_server_ip Consts.wire_server_port (ex_claims false) ex_url
                  (Some (compute (ex_item m)))) [Lit.disabled; Lit.audit; Lit.enforce]
    = [AForbidden; AForbidden; AForbidden] /\
  map (fun m => authorize_at Consts.ga_plugin_ip Consts.ga_plugin_port (ex_claims true) ex_url
                  (Some (compute (ex_item m)))) [Lit.disabled; Lit.audit; Lit.enforce]
    = [AOk; AOk; AOk] /\
  authorize_at Consts.wire_server_ip Consts.wire_server_port (ex_claims false) ex_url None = AForbidden /\
  authorize_at Consts.proxy_agent_ip Consts.proxy_agent_port (ex_claims true) ex_url None = AForbidden /\
  authorize_at Consts.imds_ip Consts.imds_port (ex_claims false) ex_url (Some (compute (ex_item Lit.enforce))) = AOk.
Proof. vm_compute. repeat split. Qed.
