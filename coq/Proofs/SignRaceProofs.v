(* C10 -- proofs about Model/SignRace.v, for EVERY schedule, every behaviour of the other tasks
   (any number of keepers and signers, in fact arbitrary programs over the actor's messages) and
   every initial content of the key slot.

   The one invariant everything follows from is PROVENANCE ("every reply is a whole key"): whatever
   a signer holds as secret (resp. id) together with ghost epoch n is the [value] (resp. [guid])
   of the content the slot had at epoch n.  Two fields recorded at the SAME epoch are therefore the
   two fields of one key -- which is the case by construction for a whole-key read, and for two
   reads exactly when no SetKey was processed in between. *)
From Coq Require Import List Arith Lia Bool.
Import ListNotations.
From GPA Require Import Sched SchedProofs SignRace.

Notation cfg := (config world amsg areply loc).
Notation run := (@Sched.run world amsg areply loc handle).

(* ---------------- the slot's history only grows ---------------- *)
Lemma history_len : forall w, length (history w) = S (epoch w).
Proof. intros. unfold history, epoch. rewrite rev_length. reflexivity. Qed.

Lemma key_at_cur : forall w, key_at w (epoch w) = Some (cur w).
Proof.
  intros. unfold key_at, history, epoch. simpl.
  rewrite nth_error_app2 by (rewrite rev_length; lia).
  rewrite rev_length, Nat.sub_diag. reflexivity.
Qed.

Lemma history_step : forall t w m,
  history (fst (handle t w m)) = history w \/ exists k, history (fst (handle t w m)) = history w ++ [k].
Proof.
  intros t w [k|]; simpl; auto. right. exists k. reflexivity.
Qed.

Lemma key_at_step : forall t w m n x,
  key_at w n = Some x -> key_at (fst (handle t w m)) n = Some x.
Proof.
  intros t w m n x H. unfold key_at in *.
  destruct (history_step t w m) as [->|[k ->]]; auto.
  rewrite nth_error_app1; auto. apply nth_error_Some. congruence.
Qed.

Lemma in_history_step : forall t w m x,
  In x (history w) -> In x (history (fst (handle t w m))).
Proof.
  intros t w m x H. destruct (history_step t w m) as [->|[k ->]]; auto.
  apply in_or_app. auto.
Qed.

(* ---------------- provenance of a signer's locals ---------------- *)
Definition prov (w : world) (l : loc) : Prop :=
  (forall x n, lv l = Some (x, n) -> exists c, key_at w n = Some c /\ x = option_map value c) /\
  (forall x n, lg l = Some (x, n) -> exists c, key_at w n = Some c /\ x = option_map guid c).

Lemma prov_loc0 : forall w, prov w loc0.
Proof. split; intros; discriminate. Qed.

Lemma prov_step : forall t w m l, prov w l -> prov (fst (handle t w m)) l.
Proof.
  intros t w m l [Hv Hg]. split; intros x n H.
  - destruct (Hv x n H) as (c & Hc & ->). exists c. split; auto. now apply key_at_step.
  - destruct (Hg x n H) as (c & Hc & ->). exists c. split; auto. now apply key_at_step.
Qed.

Lemma prov_absorb : forall w r l, prov w l -> prov w (absorb r (cur w, epoch w) l).
Proof.
  intros w r l [Hv Hg]. destruct r; split; simpl; intros x n H;
    try (inversion H; subst; exists (cur w); split; [apply key_at_cur|reflexivity]); auto.
Qed.

(* both fields present with the same epoch: the two fields of one key of the history *)
Definition same_epoch (l : loc) : Prop :=
  match lv l, lg l with
  | Some (_, a), Some (_, b) => a = b
  | _, _ => True
  end.

Lemma same_epoch_class : forall l, setkey_between_reads l = false <-> same_epoch l.
Proof.
  intros [[[x a]|] [[y b]|]]; unfold setkey_between_reads, same_epoch; simpl; try tauto.
  rewrite negb_false_iff. apply Nat.eqb_eq.
Qed.

Lemma prov_same_epoch_paired : forall w l g v,
  prov w l -> same_epoch l -> hdr l = Some (g, v) ->
  exists k n, key_at w n = Some (Some k) /\ guid k = g /\ value k = v /\
              lv l = Some (Some v, n) /\ lg l = Some (Some g, n).
Proof.
  intros w [[[[xv|] a]|] [[[xg|] b]|]] g v [Hv Hg] Hs Hh; unfold hdr in Hh; simpl in *; try discriminate.
  inversion Hh; subst. unfold same_epoch in Hs; simpl in Hs; subst b.
  destruct (Hv _ _ eq_refl) as (c1 & H1 & E1). destruct (Hg _ _ eq_refl) as (c2 & H2 & E2).
  rewrite H1 in H2. inversion H2; subst c2.
  destruct c1 as [k|]; simpl in *; try discriminate.
  inversion E1; inversion E2; subst. exists k, a. auto.
Qed.

(* ---------------- monitors: what each task has seen ---------------- *)
(* QAny: an arbitrary program (keeper, other signer, anything); QS safe rds l: the signer with
   remaining reads rds and locals l; safe = "the whole program ends with a whole-key read". *)
Inductive q := QAny | QS (safe : bool) (rds : list read) (l : loc).

Definition mon (s : q) (m : amsg) (r : areply) : option q :=
  match s with
  | QAny => Some QAny
  | QS safe rds l =>
      match rds, m with
      | r0 :: tl, GetKey => Some (QS safe tl (absorb r0 r l))
      | _, _ => None
      end
  end.

Definition retP (s : q) (a : loc) : Prop :=
  match s with
  | QAny => True
  | QS _ [] l => a = l
  | QS _ (_ :: _) _ => False
  end.

Notation follows := (@Sched.follows amsg areply loc q mon retP).

Lemma follows_any : forall p : task, follows QAny p.
Proof.
  induction p as [a|m k IH].
  - constructor. exact I.
  - constructor. intros r. exists QAny. split; auto.
Qed.

Lemma follows_signer : forall safe rds l, follows (QS safe rds l) (signer rds l).
Proof.
  intros safe rds. induction rds as [|r tl IH]; intros l; simpl.
  - constructor. reflexivity.
  - constructor. intros rep. exists (QS safe tl (absorb r rep l)). split; auto.
Qed.

Definition whole_inv (rds : list read) (l : loc) : Prop :=
  match rds with
  | [] => same_epoch l
  | _ => ends_whole rds = true
  end.

Definition linv (w : world) (s : q) : Prop :=
  match s with
  | QAny => True
  | QS safe rds l => prov w l /\ (safe = true -> whole_inv rds l)
  end.

(* J: every task's locals have provenance, and task t is still the signer we started *)
Definition J (t : nat) (safe : bool) (w : world) (qs : list q) : Prop :=
  Forall (linv w) qs /\ exists rds l, nth_error qs t = Some (QS safe rds l).

Lemma linv_step : forall t w m s, linv w s -> linv (fst (handle t w m)) s.
Proof.
  intros t w m [|safe rds l]; simpl; auto. intros [Hp Hw]. split; auto. now apply prov_step.
Qed.

Lemma whole_inv_absorb : forall r tl rep l,
  whole_inv (r :: tl) l -> whole_inv tl (absorb r rep l).
Proof.
  intros r tl rep l H. unfold whole_inv in *. destruct tl as [|r' tl'].
  - simpl in H. destruct r; try discriminate. unfold same_epoch. simpl. reflexivity.
  - exact H.
Qed.

Lemma J_step : forall t0 safe0 s qs t s1 m s1',
  J t0 safe0 s qs -> nth_error qs t = Some s1 ->
  mon s1 m (snd (handle t s m)) = Some s1' ->
  J t0 safe0 (fst (handle t s m)) (set_nth t s1' qs).
Proof.
  intros t0 safe0 s qs t s1 m s1' [HF (rds0 & l0 & Ht0)] Hn Hmon. split.
  - apply Forall_set_nth.
    + eapply Forall_impl; [|exact HF]. intros a Ha. now apply linv_step.
    + rewrite Forall_forall in HF. pose proof (HF _ (nth_error_In _ _ Hn)) as Hl.
      destruct s1 as [|safe rds l]; simpl in Hmon.
      * inversion Hmon; subst. exact I.
      * destruct rds as [|r0 tl]; try discriminate. destruct m; try discriminate.
        inversion Hmon; subst. simpl in *. destruct Hl as [Hp Hw]. split.
        -- now apply prov_absorb.
        -- intros Hs. apply whole_inv_absorb. exact (Hw Hs).
  - destruct (Nat.eq_dec t t0) as [->|Hne].
    + rewrite Ht0 in Hn. inversion Hn; subst s1. simpl in Hmon.
      destruct rds0 as [|r0 tl]; try discriminate. destruct m; try discriminate.
      inversion Hmon; subst. eexists _, _.
      apply nth_error_set_nth_same. eapply nth_error_lt; eauto.
    + exists rds0, l0. rewrite nth_error_set_nth_other; auto.
Qed.

Lemma set_nth_self : forall {X} (l : list X) n x, nth_error l n = Some x -> set_nth n x l = l.
Proof.
  induction l; destruct n; simpl; intros; try discriminate; auto.
  - inversion H; reflexivity.
  - f_equal. auto.
Qed.

Lemma Forall2_any : forall ps : list task, Forall2 follows (map (fun _ => QAny) ps) ps.
Proof. induction ps; simpl; constructor; auto. apply follows_any. Qed.

(* the invariant at the end of any schedule, for the designated signer t *)
Lemma signer_invariant : forall (w0 : world) (ps : list task) (t : nat) (rds : list read) (sched : list nat) (l : loc),
  nth_error ps t = Some (signer0 rds) ->
  result_of (run (init w0 ps) sched) t = Some l ->
  prov (shared (run (init w0 ps) sched)) l /\ (ends_whole rds = true -> same_epoch l).
Proof.
  intros w0 ps t rds sched l Hp Hr.
  set (safe := ends_whole rds).
  set (qs0 := set_nth t (QS safe rds loc0) (map (fun _ => QAny) ps)).
  assert (HF0 : Forall2 follows qs0 (tasks (init w0 ps))).
  { assert (E : Forall2 follows qs0 (set_nth t (signer0 rds) ps)).
    { apply Forall2_set_nth; [apply Forall2_any|apply follows_signer]. }
    rewrite (set_nth_self ps t _ Hp) in E. exact E. }
  assert (HJ0 : J t safe (shared (init w0 ps)) qs0).
  { split.
    - apply Forall_set_nth.
      + apply Forall_forall. intros x Hx. apply in_map_iff in Hx. destruct Hx as (? & <- & _). exact I.
      + simpl. split; [apply prov_loc0|]. intros Hs. unfold whole_inv.
        destruct rds; [unfold safe in Hs; discriminate|exact Hs].
    - exists rds, loc0. apply nth_error_set_nth_same. rewrite map_length. eapply nth_error_lt; eauto. }
  destruct (monitored_invariant handle mon retP (J t safe) (init w0 ps) qs0 HF0 HJ0
              (J_step t safe) sched) as (qs & HF & HF' & (rds' & l' & Hq)).
  destruct (follows_result mon retP qs _ t l HF Hr) as (s & Hs & Hret).
  rewrite Hq in Hs. inversion Hs; subst s. simpl in Hret.
  destruct rds' as [|]; [|contradiction]. subst l'.
  rewrite Forall_forall in HF'. pose proof (HF' _ (nth_error_In _ _ Hq)) as [Hpr Hw].
  split; auto.
Qed.

(* ---------------- the slot's history in terms of the messages processed ---------------- *)
(* arguments of the SetKey messages in a trace (newest first) *)
Fixpoint set_args (tr : list (event amsg areply)) : list (option key) :=
  match tr with
  | [] => []
  | e :: tl => match ev_msg e with SetKey k => k :: set_args tl | GetKey => set_args tl end
  end.

Lemma history_is_trace : forall k0 ps sched,
  let c := run (init (w_init k0) ps) sched in
  cur (shared c) :: past (shared c) = set_args (trace c) ++ [k0].
Proof.
  intros k0 ps sched.
  apply (invariant_rule_calls handle (fun c => cur (shared c) :: past (shared c) = set_args (trace c) ++ [k0])).
  - reflexivity.
  - intros c t m k IH Hn. destruct m as [kk|]; simpl.
    + rewrite IH. reflexivity.
    + exact IH.
Qed.

Lemma epoch_counts_setkeys : forall k0 ps sched,
  let c := run (init (w_init k0) ps) sched in
  epoch (shared c) = length (set_args (trace c)).
Proof.
  intros. pose proof (history_is_trace k0 ps sched) as H. simpl in H.
  apply (f_equal (@length _)) in H. rewrite app_length in H. simpl in H.
  unfold epoch. subst c. lia.
Qed.

Lemma key_at_in_history : forall w n x, key_at w n = Some x -> In x (cur w :: past w).
Proof.
  intros w n x H. apply nth_error_In in H. unfold history in H. now apply in_rev in H.
Qed.

(* ---------------- the theorems ---------------- *)
Section Mac.
Context {M : Type} (mac : bytes -> bytes -> M).

(* (1) torn-free pairing: ANY reader program, any other tasks, any schedule.  If no SetKey was
   processed between the read that supplied the secret and the read that supplied the id, the
   header pairs the id of a key with a MAC under that key's secret, and that key was the content
   of the slot at the moment of those reads (so: the old key or the new key, never a stale one). *)
Theorem pairing_without_rotation : forall w0 ps t rds sched l input g m,
  nth_error ps t = Some (signer0 rds) ->
  result_of (run (init w0 ps) sched) t = Some l ->
  setkey_between_reads l = false ->
  header mac input l = Some (g, m) ->
  exists k n, key_at (shared (run (init w0 ps) sched)) n = Some (Some k) /\
              guid k = g /\ m = mac (value k) input /\
              lv l = Some (Some (value k), n) /\ lg l = Some (Some g, n).
Proof.
  intros w0 ps t rds sched l input g m Hp Hr Hc Hh.
  destruct (signer_invariant w0 ps t rds sched l Hp Hr) as [Hprov _].
  unfold header in Hh. destruct (hdr l) as [[g' v']|] eqn:E; simpl in Hh; try discriminate.
  inversion Hh; subst.
  destruct (prov_same_epoch_paired _ l g v' Hprov (proj1 (same_epoch_class l) Hc) E)
    as (k & n & Hk & Hg & Hv & Hlv & Hlg).
  exists k, n. subst. auto.
Qed.

(* (2) single-read pairing: a reader whose last round trip takes both fields from one reply
   satisfies the full statement under every schedule *)
Theorem single_read_pairing : forall w0 ps t rds sched l input g m,
  nth_error ps t = Some (signer0 rds) -> ends_whole rds = true ->
  result_of (run (init w0 ps) sched) t = Some l ->
  header mac input l = Some (g, m) ->
  exists k n, key_at (shared (run (init w0 ps) sched)) n = Some (Some k) /\
              guid k = g /\ m = mac (value k) input /\
              lv l = Some (Some (value k), n) /\ lg l = Some (Some g, n).
Proof.
  intros w0 ps t rds sched l input g m Hp Hw Hr Hh.
  destruct (signer_invariant w0 ps t rds sched l Hp Hr) as [_ Hs].
  eapply pairing_without_rotation; eauto.
  apply same_epoch_class. auto.
Qed.

(* the same with "keys ever set" spelled out through the trace of processed messages *)
Corollary single_read_pairing_ever_set : forall k0 ps t rds sched l input g m,
  nth_error ps t = Some (signer0 rds) -> ends_whole rds = true ->
  result_of (run (init (w_init k0) ps) sched) t = Some l ->
  header mac input l = Some (g, m) ->
  exists k, In (Some k) (k0 :: set_args (trace (run (init (w_init k0) ps) sched))) /\
            guid k = g /\ m = mac (value k) input.
Proof.
  intros k0 ps t rds sched l input g m Hp Hw Hr Hh.
  destruct (single_read_pairing _ ps t rds sched l input g m Hp Hw Hr Hh) as (k & n & Hk & Hg & Hm & _).
  exists k. split; [|auto].
  apply key_at_in_history in Hk. rewrite history_is_trace in Hk.
  apply in_app_or in Hk. destruct Hk as [Hk|[Hk|[]]]; [right; auto|left; auto].
Qed.

(* (3) all or nothing, any reader: a header exists only when BOTH reads found a key, and then its
   id and its secret are genuine fields of contents the slot had when they were read *)
Theorem all_or_nothing : forall w0 ps t rds sched l,
  nth_error ps t = Some (signer0 rds) ->
  result_of (run (init w0 ps) sched) t = Some l ->
  let w := shared (run (init w0 ps) sched) in
  hdr l = None \/
  exists kv kg nv ng, key_at w nv = Some (Some kv) /\ key_at w ng = Some (Some kg) /\
                      lv l = Some (Some (value kv), nv) /\ lg l = Some (Some (guid kg), ng) /\
                      hdr l = Some (guid kg, value kv).
Proof.
  intros w0 ps t rds sched l Hp Hr w.
  destruct (signer_invariant w0 ps t rds sched l Hp Hr) as [[Hv Hg] _].
  destruct l as [[[[xv|] a]|] [[[xg|] b]|]]; unfold hdr; simpl in *; auto.
  right.
  destruct (Hv _ _ eq_refl) as ([kv|] & H1 & E1); simpl in E1; try discriminate.
  destruct (Hg _ _ eq_refl) as ([kg|] & H2 & E2); simpl in E2; try discriminate.
  inversion E1; inversion E2; subst. exists kv, kg, a, b. auto.
Qed.

(* a read that found the slot empty means no header *)
Theorem none_on_either_read_no_header : forall w0 ps t rds sched l n,
  nth_error ps t = Some (signer0 rds) ->
  result_of (run (init w0 ps) sched) t = Some l ->
  key_at (shared (run (init w0 ps) sched)) n = Some None ->
  (option_map snd (lv l) = Some n \/ option_map snd (lg l) = Some n) ->
  header mac [] l = None /\ hdr l = None.
Proof.
  intros w0 ps t rds sched l n Hp Hr Hk Hn.
  destruct (signer_invariant w0 ps t rds sched l Hp Hr) as [[Hv Hg] _].
  assert (hdr l = None).
  { destruct Hn as [Hn|Hn].
    - destruct (lv l) as [[x a]|] eqn:E; simpl in Hn; try discriminate. inversion Hn; subst a.
      destruct (Hv _ _ eq_refl) as (c & H1 & ->). rewrite Hk in H1. inversion H1; subst c.
      unfold hdr. rewrite E. reflexivity.
    - destruct (lg l) as [[x a]|] eqn:E; simpl in Hn; try discriminate. inversion Hn; subst a.
      destruct (Hg _ _ eq_refl) as (c & H1 & ->). rewrite Hk in H1. inversion H1; subst c.
      unfold hdr. rewrite E. destruct (lv l) as [[[?|] ?]|]; reflexivity. }
  split; auto. unfold header. rewrite H. reflexivity.
Qed.

End Mac.

(* ---------------- the full statement for the signing call sites ---------------- *)
(* for a call site whose program ends with a whole-key read *)
Theorem route_pairing_if_single : forall (reads : route -> list read),
  (forall r, reads r = [] \/ ends_whole (reads r) = true) ->
  forall (M : Type) (mac : bytes -> bytes -> M) k0 ps t r sched l input g m,
  nth_error ps t = Some (signer0 (reads r)) ->
  result_of (run (init (w_init k0) ps) sched) t = Some l ->
  header mac input l = Some (g, m) ->
  exists k, In (Some k) (k0 :: set_args (trace (run (init (w_init k0) ps) sched))) /\
            guid k = g /\ m = mac (value k) input.
Proof.
  intros reads Hall M mac k0 ps t r sched l input g m Hp Hr Hh.
  destruct (Hall r) as [He|Hw].
  - (* no read at all: no header *)
    rewrite He in Hp. exfalso.
    pose proof (task_replay handle (w_init k0) ps sched t _ Hp) as Ht.
    unfold result_of in Hr. rewrite Ht in Hr. unfold signer0 in Hr. simpl in Hr.
    rewrite replay_ret in Hr. inversion Hr; subst l. discriminate.
  - eapply single_read_pairing_ever_set; eauto.
Qed.

Lemma single_read_route_ok : forall r, single_read_route r = [] \/ ends_whole (single_read_route r) = true.
Proof. destruct r; simpl; auto. Qed.

(* ---------------- what leaves the agent ---------------- *)
Lemma route_outcome_sent : forall usable r l g v,
  route_outcome usable r l = Sent (Some (g, v)) -> hdr l = Some (g, v) /\ usable v = true.
Proof.
  intros usable r l g v H. unfold route_outcome in H.
  destruct (hdr l) as [[g' v']|]; [|discriminate].
  destruct (usable v') eqn:E.
  - inversion H; subst. auto.
  - destruct r; discriminate.
Qed.

Lemma route_outcome_unusable : forall usable r l g v,
  hdr l = Some (g, v) -> usable v = false ->
  route_outcome usable r l = match r with ProxiedRequest => Sent None | _ => NotSent end.
Proof. intros usable r l g v H E. unfold route_outcome. rewrite H, E. reflexivity. Qed.

Lemma forwarded_auth_own : forall {X} (client : list X) h, forwarded_auth client (Some h) = [h].
Proof. reflexivity. Qed.

(* ---------------- pairing at latch time ---------------- *)
Lemma fetch_local_in : forall f g d, fetch_local f g = Some d -> exists n, In (n, d) f.
Proof.
  unfold fetch_local. induction f as [|[n d'] tl IH]; simpl; intros g d H; try discriminate.
  destruct (beq g n).
  - inversion H; subst. eauto.
  - destruct (IH _ _ H) as [n' Hn]. eauto.
Qed.

Lemma latch_ops_issued : forall (issued : list key) ls f k,
  (forall n d, In (n, d) f -> In d issued) ->
  (forall d, In (LatchAcquired d) ls -> In d issued) ->
  In (Some k) (latch_ops f ls) -> In k issued.
Proof.
  intros issued ls. induction ls as [|l tl IH]; simpl; intros f k Hf Ha Hin; [contradiction|].
  apply in_app_or in Hin. destruct Hin as [Hin|Hin].
  - destruct l as [g|d|]; simpl in Hin.
    + destruct (fetch_local f g) as [d|] eqn:E; simpl in Hin; [|contradiction].
      destruct Hin as [Hin|[]]. inversion Hin; subst. destruct (fetch_local_in _ _ _ E) as [n Hn]. eauto.
    + destruct Hin as [Hin|[]]. inversion Hin; subst. apply Ha. auto.
    + destruct Hin as [Hin|[]]. discriminate.
  - apply (IH (folder_after f l) k); auto.
    intros n d Hd. destruct l as [g|d'|]; simpl in Hd; eauto.
    destruct Hd as [Hd|Hd]; eauto. inversion Hd; subst. apply Ha. auto.
Qed.

Definition only_sets (ops : list (option key)) (m : amsg) : Prop :=
  forall o, m = SetKey o -> In o ops.

Lemma all_calls_keeper : forall ops ops', incl ops' ops -> all_calls (only_sets ops) (keeper ops').
Proof.
  intros ops ops'. induction ops' as [|o tl IH]; intros Hi; simpl.
  - constructor.
  - constructor.
    + intros o' E. inversion E; subst. apply Hi. simpl. auto.
    + intros _. apply IH. intros x Hx. apply Hi. simpl. auto.
Qed.

Lemma all_calls_signer : forall ops rds l, all_calls (only_sets ops) (signer rds l).
Proof.
  intros ops rds. induction rds as [|r tl IH]; intros l; simpl.
  - constructor.
  - constructor; [intros o E; discriminate|]. intros rep. apply IH.
Qed.

Lemma set_args_only : forall ops (tr : list (event amsg areply)),
  Forall (fun e => only_sets ops (ev_msg e)) tr -> incl (set_args tr) ops.
Proof.
  intros ops tr H. induction H as [|e tl He Htl IH]; simpl; intros x Hx; [contradiction|].
  destruct (ev_msg e) as [k|] eqn:E.
  - destruct Hx as [<-|Hx]; auto.
  - auto.
Qed.

(* the key keeper as it is (every SetKey argument is a whole document from the key folder or from the
   host) racing any number of signing call sites: every header pairs the id of an ISSUED key document
   with the MAC under that document's secret *)
Theorem latch_pairing : forall (M : Type) (mac : bytes -> bytes -> M) (issued : list key) f ls k0 rs t r sched l input g m,
  (forall n d, In (n, d) f -> In d issued) ->
  (forall d, In (LatchAcquired d) ls -> In d issued) ->
  (forall k, k0 = Some k -> In k issued) ->
  let ps := keeper (latch_ops f ls) :: map (fun r => signer0 (route_reads r)) rs in
  nth_error ps t = Some (signer0 (route_reads r)) ->
  result_of (run (init (w_init k0) ps) sched) t = Some l ->
  header mac input l = Some (g, m) ->
  exists k, In k issued /\ guid k = g /\ m = mac (value k) input.
Proof.
  intros M mac issued f ls k0 rs t r sched l input g m Hf Ha H0 ps Hp Hr Hh.
  destruct (route_pairing_if_single route_reads single_read_route_ok M mac k0 ps t r sched l input g m Hp Hr Hh)
    as (k & Hin & Hg & Hm).
  exists k. split; [|auto].
  destruct Hin as [Hin|Hin]; [apply H0; auto|].
  assert (HF : Forall (all_calls (only_sets (latch_ops f ls))) ps).
  { subst ps. constructor.
    - apply all_calls_keeper. apply incl_refl.
    - apply Forall_forall. intros p Hin'. apply in_map_iff in Hin'. destruct Hin' as (r' & <- & _).
      apply all_calls_signer. }
  pose proof (trace_all_calls handle _ (w_init k0) ps sched HF) as Htr.
  apply (set_args_only _ _ Htr) in Hin.
  eapply latch_ops_issued; eauto.
Qed.

(* ---------------- the refutation for the two-read call sites (finding F5) ---------------- *)
Definition k1 : key := Key [1%N] [11%N].
Definition k2 : key := Key [2%N] [22%N].

(* proxied route: secret of k1, SetKey k2, id of k2 *)
Lemma torn_read_proxied :
  let c := run (init (w_init (Some k1)) [keeper [Some k2]; signer0 (two_read_route ProxiedRequest)]) ([1; 0; 1]%nat) in
  exists l, result_of c 1%nat = Some l /\ hdr l = Some (guid k2, value k1) /\
            setkey_between_reads l = true /\ ~ paired (cur (shared c) :: past (shared c)) l.
Proof.
  eexists. split; [vm_compute; reflexivity|]. split; [reflexivity|]. split; [reflexivity|].
  intros H. destruct (H _ _ eq_refl) as (k & Hin & Hg & Hv). vm_compute in Hin.
  destruct Hin as [E|[E|[]]]; inversion E; subst k; discriminate.
Qed.

(* host clients: id of k1, SetKey k2, secret of k2 *)
Lemma torn_read_host :
  let c := run (init (w_init (Some k1)) [keeper [Some k2]; signer0 (two_read_route WsGoalState)]) ([1; 0; 1]%nat) in
  exists l, result_of c 1%nat = Some l /\ hdr l = Some (guid k1, value k2) /\
            setkey_between_reads l = true /\ ~ paired (cur (shared c) :: past (shared c)) l.
Proof.
  eexists. split; [vm_compute; reflexivity|]. split; [reflexivity|]. split; [reflexivity|].
  intros H. destruct (H _ _ eq_refl) as (k & Hin & Hg & Hv). vm_compute in Hin.
  destruct Hin as [E|[E|[]]]; inversion E; subst k; discriminate.
Qed.

(* the full statement fails for some MAC function: no key ever set has the announced id and
   produces the emitted MAC *)
Lemma torn_read_mac :
  exists (M : Type) (mac : bytes -> bytes -> M) k0 ops r sched l input g m,
    let c := run (init (w_init k0) [keeper ops; signer0 (two_read_route r)]) sched in
    result_of c 1%nat = Some l /\ header mac input l = Some (g, m) /\
    ~ exists k, In (Some k) (k0 :: set_args (trace c)) /\ guid k = g /\ m = mac (value k) input.
Proof.
  exists bytes, (fun v _ => v), (Some k1), [Some k2], ProxiedRequest, ([1; 0; 1]%nat).
  eexists. exists [], (guid k2), (value k1). simpl.
  split; [vm_compute; reflexivity|]. split; [reflexivity|].
  intros (k & Hin & Hg & Hv). vm_compute in Hin.
  destruct Hin as [E|[E|[]]]; inversion E; subst k; discriminate.
Qed.
