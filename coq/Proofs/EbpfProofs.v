(* C06 -- lemmas about Model/Ebpf.v. *)
From GPA Require Import Ebpf.
From Coq Require Import Lia ZifyBool ZifyN.
Arguments N.add : simpl never. Arguments N.sub : simpl never. Arguments N.mul : simpl never.
Arguments N.div : simpl never. Arguments N.modulo : simpl never. Arguments N.shiftr : simpl never.
Arguments N.ltb : simpl never. Arguments N.leb : simpl never. Arguments N.eqb : simpl never.
Arguments N.of_nat : simpl never.

(* ======================================================================================== *)
(* fixed-width arithmetic                                                                    *)
(* ======================================================================================== *)
Lemma two32_pos : two32 <> 0. Proof. discriminate. Qed.
Lemma two32_pow : two32 = 2 ^ 32. Proof. reflexivity. Qed.

Lemma u32_lt x : u32 x < two32.
Proof. unfold u32. apply N.mod_lt. discriminate. Qed.
Lemma u16_lt x : u16 x < two16.
Proof. unfold u16. apply N.mod_lt. discriminate. Qed.
Lemma u32_small x : x < two32 -> u32 x = x.
Proof. intros. unfold u32. apply N.mod_small; assumption. Qed.
Lemma u16_small x : x < two16 -> u16 x = x.
Proof. intros. unfold u16. apply N.mod_small; assumption. Qed.
Lemma u32_idem x : u32 (u32 x) = u32 x.
Proof. apply u32_small, u32_lt. Qed.
Lemma u16_idem x : u16 (u16 x) = u16 x.
Proof. apply u16_small, u16_lt. Qed.

(* hi * 2^32 + lo with lo < 2^32 *)
Lemma pack_hi hi lo : lo < two32 -> (hi * two32 + lo) / two32 = hi.
Proof.
  intros. rewrite N.add_comm, N.div_add by discriminate.
  rewrite N.div_small by assumption. reflexivity.
Qed.
Lemma pack_lo hi lo : lo < two32 -> (hi * two32 + lo) mod two32 = lo.
Proof.
  intros. rewrite N.add_comm, N.mod_add by discriminate.
  apply N.mod_small; assumption.
Qed.

Lemma pid_of_eq t : pid_of t = u32 (tgid t).
Proof.
  unfold pid_of, get_current_pid_tgid. rewrite N.shiftr_div_pow2, <- two32_pow.
  rewrite pack_hi by apply u32_lt. apply u32_idem.
Qed.
Lemma uid_at_32 t : uid_at 32 t = u32 (gid t).
Proof.
  unfold uid_at, get_current_uid_gid. rewrite N.shiftr_div_pow2, <- two32_pow.
  rewrite pack_hi by apply u32_lt. apply u32_idem.
Qed.
Lemma uid_at_0 t : uid_at 0 t = u32 (uid t).
Proof.
  unfold uid_at, get_current_uid_gid. rewrite N.shiftr_0_r.
  unfold u32 at 1. rewrite pack_lo by apply u32_lt. reflexivity.
Qed.
Lemma key64_pid_tgid t : key64 (get_current_pid_tgid t) = [u32 (tid t); u32 (tgid t)].
Proof.
  unfold key64, get_current_pid_tgid.
  rewrite pack_lo, pack_hi by apply u32_lt. fold (u32 (u32 (tgid t))). rewrite u32_idem. reflexivity.
Qed.

Lemma wf_task_bounds t : wf_task t = true ->
  tgid t < two32 /\ tid t < two32 /\ uid t < two32 /\ gid t < two32.
Proof. unfold wf_task. intros H. repeat (apply andb_true_iff in H; destruct H as [H ?]). lia. Qed.

(* base-256 digits *)
Lemma digit_lo a r : a < 256 -> (a + 256 * r) mod 256 = a.
Proof. intros. rewrite (N.mul_comm 256 r), N.mod_add by discriminate. apply N.mod_small; assumption. Qed.
Lemma digit_hi a r : a < 256 -> (a + 256 * r) / 256 = r.
Proof. intros. rewrite (N.mul_comm 256 r), N.div_add by discriminate. rewrite N.div_small by assumption. reflexivity. Qed.

Lemma u16_digits x : u16 x = x mod 256 + 256 * ((x / 256) mod 256).
Proof. unfold u16, two16. change 65536 with (256 * 256). apply N.mod_mul_r; discriminate. Qed.

Lemma bswap16_digits lo hi : lo < 256 -> hi < 256 -> bswap16 (lo + 256 * hi) = hi + 256 * lo.
Proof.
  intros. unfold bswap16. rewrite digit_lo, digit_hi by assumption.
  rewrite (N.mod_small hi) by assumption. lia.
Qed.

Lemma bswap16_lt x : bswap16 x < two16.
Proof.
  unfold bswap16, two16.
  assert (x mod 256 < 256) by (apply N.mod_lt; discriminate).
  assert ((x / 256) mod 256 < 256) by (apply N.mod_lt; discriminate). lia.
Qed.

Lemma bswap16_involutive x : bswap16 (bswap16 (u16 x)) = u16 x.
Proof.
  rewrite u16_digits.
  assert (x mod 256 < 256) by (apply N.mod_lt; discriminate).
  assert ((x / 256) mod 256 < 256) by (apply N.mod_lt; discriminate).
  rewrite bswap16_digits by assumption. rewrite bswap16_digits by assumption. reflexivity.
Qed.

Lemma to_be16_lt p : to_be16 p < two16.
Proof. apply bswap16_lt. Qed.

(* four base-256 digits *)
Definition quad (a b c d : N) : N := a + 256 * (b + 256 * (c + 256 * d)).
Lemma quad_digits a b c d : a < 256 -> b < 256 -> c < 256 -> d < 256 ->
  quad a b c d mod 256 = a /\ (quad a b c d / 256) mod 256 = b /\
  (quad a b c d / 65536) mod 256 = c /\ (quad a b c d / 16777216) mod 256 = d.
Proof.
  intros. unfold quad.
  change 65536 with (256 * 256). change 16777216 with (256 * (256 * 256)).
  rewrite <- !N.div_div by discriminate.
  rewrite !digit_hi by assumption. rewrite !digit_lo by assumption.
  rewrite (N.mod_small d) by assumption. auto.
Qed.
Lemma quad_of x : x < two32 ->
  x = quad (x mod 256) ((x / 256) mod 256) ((x / 65536) mod 256) ((x / 16777216) mod 256).
Proof.
  intros. unfold quad.
  change 65536 with (256 * 256). change 16777216 with (256 * (256 * 256)).
  rewrite <- !N.div_div by discriminate.
  assert (x / 256 / 256 / 256 < 256).
  { apply N.div_lt_upper_bound; [discriminate|]. apply N.div_lt_upper_bound; [discriminate|].
    apply N.div_lt_upper_bound; [discriminate|]. exact H. }
  rewrite (N.mod_small (x / 256 / 256 / 256)) by assumption.
  assert (dm : forall y, y mod 256 + 256 * (y / 256) = y).
  { intros y. rewrite N.add_comm. symmetry. apply N.div_mod. discriminate. }
  rewrite (dm (x / 256 / 256)), (dm (x / 256)), (dm x). reflexivity.
Qed.
Lemma quad_lt a b c d : a < 256 -> b < 256 -> c < 256 -> d < 256 -> quad a b c d < two32.
Proof. intros. unfold quad, two32. lia. Qed.

Lemma bswap32_quad a b c d : a < 256 -> b < 256 -> c < 256 -> d < 256 ->
  bswap32 (quad a b c d) = quad d c b a.
Proof.
  intros. unfold bswap32. destruct (quad_digits a b c d) as (E1 & E2 & E3 & E4); try assumption.
  rewrite E1, E2, E3, E4. unfold quad. lia.
Qed.

(* ======================================================================================== *)
(* word lists and maps                                                                        *)
(* ======================================================================================== *)
Lemma beq_refl a : beq a a = true.
Proof. induction a as [|x a IH]; cbn [beq]; [reflexivity|]. rewrite N.eqb_refl, IH. reflexivity. Qed.
Lemma beq_eq a b : beq a b = true <-> a = b.
Proof.
  split.
  - revert b; induction a as [|x a IH]; intros [|y b] H; cbn [beq] in H; try discriminate; [reflexivity|].
    apply andb_true_iff in H. destruct H as [H1 H2]. apply N.eqb_eq in H1. apply IH in H2. congruence.
  - intros ->. apply beq_refl.
Qed.
Lemma beq_neq a b : beq a b = false <-> a <> b.
Proof.
  split.
  - intros H E. apply beq_eq in E. congruence.
  - intros H. destruct (beq a b) eqn:E; [|reflexivity]. apply beq_eq in E. contradiction.
Qed.
Lemma beq_sym a b : beq a b = beq b a.
Proof.
  destruct (beq a b) eqn:E.
  - apply beq_eq in E. subst. symmetry. apply beq_refl.
  - symmetry. apply beq_neq. apply beq_neq in E. congruence.
Qed.

Lemma wlookup_wremove_same k m : wlookup k (wremove k m) = None.
Proof.
  induction m as [|[k' v] m IH]; cbn [wremove filter wlookup fst]; [reflexivity|].
  destruct (beq k k') eqn:E; cbn [negb]; [exact IH|].
  cbn [wlookup]. rewrite E. exact IH.
Qed.
Lemma wlookup_wremove_other k k' m : beq k k' = false -> wlookup k (wremove k' m) = wlookup k m.
Proof.
  intros Hn. induction m as [|[k2 v] m IH]; cbn [wremove filter wlookup fst]; [reflexivity|].
  destruct (beq k' k2) eqn:E; cbn [negb].
  - apply beq_eq in E. subst k2. rewrite Hn. exact IH.
  - cbn [wlookup]. destruct (beq k k2); [reflexivity|exact IH].
Qed.
Lemma wlookup_wreplace_same k v m : wmem k m = true -> wlookup k (wreplace k v m) = Some v.
Proof.
  unfold wmem. induction m as [|[k2 v2] m IH]; cbn [wlookup wreplace]; [discriminate|].
  destruct (beq k k2) eqn:E; cbn [wlookup]; rewrite E; [reflexivity|exact IH].
Qed.
Lemma wlookup_wreplace_other k k' v m : beq k k' = false -> wlookup k (wreplace k' v m) = wlookup k m.
Proof.
  intros Hn. induction m as [|[k2 v2] m IH]; cbn [wlookup wreplace]; [reflexivity|].
  destruct (beq k' k2) eqn:E; cbn [wlookup].
  - apply beq_eq in E. subst k2. rewrite Hn. reflexivity.
  - destruct (beq k k2); [reflexivity|exact IH].
Qed.
Lemma wlookup_app k m m2 :
  wlookup k (m ++ m2) = match wlookup k m with Some x => Some x | None => wlookup k m2 end.
Proof.
  induction m as [|[k2 v2] m IH]; cbn [app wlookup]; [reflexivity|].
  destruct (beq k k2); [reflexivity|exact IH].
Qed.
Lemma wlookup_removelast_some k m e : wlookup k (removelast m) = Some e -> wlookup k m = Some e.
Proof.
  induction m as [|[k2 v2] m IH]; [cbn; discriminate|].
  destruct m as [|p m']; [cbn; discriminate|].
  change (removelast ((k2, v2) :: p :: m')) with ((k2, v2) :: removelast (p :: m')).
  cbn [wlookup]. destruct (beq k k2); [auto|exact IH].
Qed.
Lemma wlookup_removelast_none k m : wlookup k m = None -> wlookup k (removelast m) = None.
Proof.
  intros H. destruct (wlookup k (removelast m)) eqn:E; [|reflexivity].
  apply wlookup_removelast_some in E. congruence.
Qed.
Lemma length_wremove_le k m : (length (wremove k m) <= length m)%nat.
Proof. unfold wremove. induction m as [|x m IH]; cbn [filter length]; [lia|]. destruct (negb _); cbn [length]; lia. Qed.
Lemma length_wremove_lt k m v : wlookup k m = Some v -> (S (length (wremove k m)) <= length m)%nat.
Proof.
  induction m as [|[k2 v2] m IH]; cbn [wlookup wremove filter fst length]; [discriminate|].
  destruct (beq k k2) eqn:E; cbn [negb].
  - intros _. pose proof (length_wremove_le k m). unfold wremove in H. lia.
  - intros H. apply IH in H. unfold wremove in H. cbn [length]. lia.
Qed.
Lemma wmem_true k m : wmem k m = true <-> exists v, wlookup k m = Some v.
Proof. unfold wmem. destruct (wlookup k m); split; intros; eauto; try discriminate. destruct H; discriminate. Qed.
Lemma wmem_false k m : wmem k m = false <-> wlookup k m = None.
Proof. unfold wmem. destruct (wlookup k m); split; intros; eauto; discriminate. Qed.

(* ---- LRU update ---- *)
Lemma lru_update_same cap k v m : wlookup k (fst (lru_update cap k v m)) = Some v.
Proof.
  unfold lru_update. destruct (wmem k m); [|destruct (cap <=? wlen m)]; cbn [fst wlookup]; rewrite beq_refl; reflexivity.
Qed.
Lemma lru_update_other_room cap k k' v m :
  beq k k' = false -> wlen m < cap ->
  wlookup k (fst (lru_update cap k' v m)) = wlookup k m.
Proof.
  intros Hn Hroom. unfold lru_update. destruct (wmem k' m).
  - cbn [fst wlookup]. rewrite Hn. apply wlookup_wremove_other; assumption.
  - destruct (cap <=? wlen m) eqn:E; [lia|]. cbn [fst wlookup]. rewrite Hn. reflexivity.
Qed.
Lemma lru_update_provenance cap k k' v m e :
  wlookup k (fst (lru_update cap k' v m)) = Some e -> (k = k' /\ e = v) \/ wlookup k m = Some e.
Proof.
  unfold lru_update. destruct (wmem k' m); [|destruct (cap <=? wlen m)]; cbn [fst wlookup];
    destruct (beq k k') eqn:E; intros H.
  all: try (apply beq_eq in E; left; split; congruence).
  - right. rewrite wlookup_wremove_other in H by assumption. exact H.
  - right. apply wlookup_removelast_some; assumption.
  - right. exact H.
Qed.
Lemma lru_update_absent cap k k' v m :
  beq k k' = false -> wlookup k m = None -> wlookup k (fst (lru_update cap k' v m)) = None.
Proof.
  intros Hn Hnone. destruct (wlookup k (fst (lru_update cap k' v m))) eqn:E; [|reflexivity].
  apply lru_update_provenance in E. destruct E as [[E _]|E]; [|congruence].
  subst. rewrite beq_refl in Hn. discriminate.
Qed.
Lemma lru_update_len cap k v m : wlen (fst (lru_update cap k v m)) <= wlen m + 1.
Proof.
  unfold lru_update, wlen. destruct (wmem k m) eqn:Em.
  - cbn [fst length]. pose proof (length_wremove_le k m). lia.
  - destruct (cap <=? N.of_nat (length m)); cbn [fst length].
    + destruct m as [|x m]; [cbn; lia|]. rewrite removelast_firstn_len, firstn_length. cbn [length]. lia.
    + lia.
Qed.
Lemma lru_update_ret cap k v m : snd (lru_update cap k v m) = 0.
Proof. unfold lru_update. destruct (wmem k m); [|destruct (cap <=? wlen m)]; reflexivity. Qed.

(* ---- LRU touch, delete ---- *)
Lemma lru_touch_lookup k k' m : wlookup k (lru_touch k' m) = wlookup k m.
Proof.
  unfold lru_touch. destruct (wlookup k' m) eqn:E; [|reflexivity].
  cbn [wlookup]. destruct (beq k k') eqn:E2.
  - apply beq_eq in E2. subst. symmetry. exact E.
  - apply wlookup_wremove_other; assumption.
Qed.
Lemma lru_touch_len k m : wlen (lru_touch k m) <= wlen m.
Proof.
  unfold lru_touch, wlen. destruct (wlookup k m) eqn:E; [|lia].
  apply length_wremove_lt in E. cbn [length]. lia.
Qed.
Lemma map_delete_lookup_same k m : wlookup k (fst (map_delete k m)) = None.
Proof.
  unfold map_delete. destruct (wmem k m) eqn:E; cbn [fst].
  - apply wlookup_wremove_same.
  - apply wmem_false; assumption.
Qed.
Lemma map_delete_lookup_other k k' m : beq k k' = false -> wlookup k (fst (map_delete k' m)) = wlookup k m.
Proof.
  intros. unfold map_delete. destruct (wmem k' m); cbn [fst]; [apply wlookup_wremove_other; assumption|reflexivity].
Qed.
Lemma map_delete_len k m : wlen (fst (map_delete k m)) <= wlen m.
Proof.
  unfold map_delete, wlen. destruct (wmem k m); cbn [fst]; [|lia]. pose proof (length_wremove_le k m). lia.
Qed.

(* ---- HASH update ---- *)
Lemma hash_update_other cap k k' v m : beq k k' = false -> wlookup k (fst (hash_update cap k' v m)) = wlookup k m.
Proof.
  intros Hn. unfold hash_update. destruct (wmem k' m); cbn [fst].
  - apply wlookup_wreplace_other; assumption.
  - destruct (cap <=? wlen m); cbn [fst]; [reflexivity|].
    rewrite wlookup_app. destruct (wlookup k m); [reflexivity|]. cbn [wlookup]. rewrite Hn. reflexivity.
Qed.
Lemma hash_update_same_ok cap k v m :
  snd (hash_update cap k v m) = 0 -> wlookup k (fst (hash_update cap k v m)) = Some v.
Proof.
  unfold hash_update. destruct (wmem k m) eqn:E; cbn [fst snd].
  - intros _. apply wlookup_wreplace_same; assumption.
  - destruct (cap <=? wlen m); cbn [fst snd]; [discriminate|]. intros _.
    rewrite wlookup_app. apply wmem_false in E. rewrite E. cbn [wlookup]. rewrite beq_refl. reflexivity.
Qed.

(* ======================================================================================== *)
(* the program, with the destructuring lets resolved                                          *)
(* ======================================================================================== *)
Lemma update_local_map_entry_eq sh s t ctx :
  update_local_map_entry sh s t ctx =
  if check_skip_process_map_entry s (pid_of t) =? 1 then (s, 1)
  else (set_local s (fst (lru_update local_cap (thread_key t) (local_entry_of sh t ctx) (local s))), 0).
Proof.
  unfold update_local_map_entry, thread_key.
  destruct (check_skip_process_map_entry s (pid_of t) =? 1); [reflexivity|].
  destruct (lru_update _ _ _ _); reflexivity.
Qed.

Definition rewritten (pol : words) (ctx : sockaddr) : sockaddr :=
  {| sa_ip := de_ipv4 pol; sa_port := de_port pol; sa_proto := sa_proto ctx |}.

Lemma authorize_v4_eq sh s t ctx :
  authorize_v4 sh s t ctx =
  match wlookup (c_destination_entry (sa_ip ctx) (sa_port ctx) (sa_proto ctx)) (policy s) with
  | Some pol =>
      if check_skip_process_map_entry s (pid_of t) =? 1 then (s, ctx, PROCEED)
      else (set_local s (fst (lru_update local_cap (thread_key t) (local_entry_of sh t ctx) (local s))),
            rewritten pol ctx, PROCEED)
  | None => (s, ctx, PROCEED)
  end.
Proof.
  unfold authorize_v4. destruct (wlookup _ (policy s)); [|reflexivity].
  rewrite update_local_map_entry_eq.
  destruct (check_skip_process_map_entry s (pid_of t) =? 1); reflexivity.
Qed.

Definition audit_after (s : kstate) (num : N) (le : words) : wmap :=
  fst (lru_update audit_cap (c_audit_key (le_proto le) num)
         (c_audit_entry (le_logon le) (le_pid le) (le_is_root le) (le_ip le) (le_port le)) (audit s)).
Definition fallback_entry (sh : shifts) (t : task) (skc : sock) : words :=
  let uid := uid_at (sh_tcp_connect sh) t in
  c_audit_entry uid (pid_of t) (if uid =? 0 then 1 else 0) (skc_daddr skc) (skc_dport skc).

Lemma trace_v4_eq sh s t skc :
  trace_v4 sh s t skc =
  if negb (skc_family skc =? AF_INET) then (s, 0)
  else if check_skip_process_map_entry s (pid_of t) =? 1 then (s, 0)
  else match wlookup (thread_key t) (local s) with
       | Some le =>
           (set_local (set_audit s (audit_after s (skc_num skc) le))
                      (fst (map_delete (thread_key t) (lru_touch (thread_key t) (local s)))), 0)
       | None =>
           match wlookup (c_destination_entry (skc_daddr skc) (skc_dport skc) IPPROTO_TCP) (policy s) with
           | Some _ =>
               (set_audit s (fst (lru_update audit_cap (c_audit_key IPPROTO_TCP (skc_num skc))
                                   (fallback_entry sh t skc) (audit s))), 0)
           | None => (s, 0)
           end
       end.
Proof.
  unfold trace_v4, thread_key, audit_after, fallback_entry, update_audit_map_entry_sk.
  destruct (negb (skc_family skc =? AF_INET)); [reflexivity|].
  destruct (check_skip_process_map_entry s (pid_of t) =? 1); [reflexivity|].
  destruct (wlookup (key64 (get_current_pid_tgid t)) (local s)) as [le|].
  - cbn [audit set_local]. destruct (lru_update audit_cap _ _ (audit s)) as [m r].
    cbn [local set_audit set_local fst]. destruct (map_delete _ _) as [m2 r2]. reflexivity.
  - destruct (wlookup _ (policy s)); [|reflexivity].
    destruct (lru_update _ _ _ _); reflexivity.
Qed.

Lemma kstep_connect4 sh s t sa :
  kstep sh s (EConnect4 t sa) =
  (fst (fst (connect4 sh s t sa)),
   [snd (connect4 sh s t sa); sa_ip (snd (fst (connect4 sh s t sa))); sa_port (snd (fst (connect4 sh s t sa)))]).
Proof. cbn [kstep]. destruct (connect4 sh s t sa) as [[a b] c]. reflexivity. Qed.
Lemma kstep_tcp_connect sh s t f n d p :
  kstep sh s (ETcpConnect t f n d p) =
  (fst (tcp_v4_connect sh s t (mk_sock f n d p)), [snd (tcp_v4_connect sh s t (mk_sock f n d p))]).
Proof. cbn [kstep]. destruct (tcp_v4_connect _ _ _ _) as [a b]. reflexivity. Qed.

(* the skip check in terms of the key the agent inserts *)
Lemma check_skip_skipped s t :
  (check_skip_process_map_entry s (pid_of t) =? 1) = skipped s t.
Proof.
  unfold check_skip_process_map_entry, skipped, wmem, c_skip_entry, skip_entry_from_pid.
  rewrite pid_of_eq. destruct (wlookup _ _); reflexivity.
Qed.

(* ======================================================================================== *)
(* frames: what a step leaves alone                                                            *)
(* ======================================================================================== *)
Ltac user_event :=
  cbn [kstep];
  repeat match goal with
         | |- context [if ?c then _ else _] => destruct c
         | |- context [let '(_, _) := ?x in _] => destruct x
         | |- context [match wlookup ?k ?m with _ => _ end] => destruct (wlookup k m)
         end; cbn [fst local skip policy audit set_policy set_skip set_audit set_local]; try reflexivity.

Lemma kstep_local_frame sh s ev K :
  other_thread K ev = true -> (is_connect4 ev = true -> wlen (local s) < local_cap) ->
  wlookup K (local (fst (kstep sh s ev))) = wlookup K (local s).
Proof.
  intros Hq Hroom. destruct ev; try solve [user_event].
  - (* connect4 by another thread *)
    rewrite kstep_connect4. cbn [fst]. unfold connect4. rewrite authorize_v4_eq.
    unfold other_thread in Hq. cbn [ev_thread] in Hq. apply negb_true_iff in Hq.
    destruct (wlookup _ (policy s)); [|reflexivity].
    destruct (check_skip_process_map_entry s (pid_of t) =? 1); [reflexivity|].
    cbn [fst local set_local]. apply lru_update_other_room; [assumption|]. apply Hroom. reflexivity.
  - (* tcp_connect by another thread *)
    rewrite kstep_tcp_connect. cbn [fst]. unfold tcp_v4_connect. rewrite trace_v4_eq.
    unfold other_thread in Hq. cbn [ev_thread] in Hq. apply negb_true_iff in Hq.
    destruct (negb _); [reflexivity|].
    destruct (check_skip_process_map_entry s (pid_of t) =? 1); [reflexivity|].
    destruct (wlookup (thread_key t) (local s)).
    + cbn [fst local set_local]. rewrite map_delete_lookup_other by assumption. apply lru_touch_lookup.
    + destruct (wlookup _ (policy s)); reflexivity.
Qed.

(* absence needs no capacity bound: an eviction never creates an entry *)
Lemma kstep_local_absent sh s ev K :
  other_thread K ev = true -> wlookup K (local s) = None ->
  wlookup K (local (fst (kstep sh s ev))) = None.
Proof.
  intros Hq Hnone. destruct ev; try solve [user_event; assumption].
  - rewrite kstep_connect4. cbn [fst]. unfold connect4. rewrite authorize_v4_eq.
    unfold other_thread in Hq. cbn [ev_thread] in Hq. apply negb_true_iff in Hq.
    destruct (wlookup _ (policy s)); [|assumption].
    destruct (check_skip_process_map_entry s (pid_of t) =? 1); [assumption|].
    cbn [fst local set_local]. apply lru_update_absent; assumption.
  - rewrite kstep_tcp_connect. cbn [fst]. unfold tcp_v4_connect. rewrite trace_v4_eq.
    unfold other_thread in Hq. cbn [ev_thread] in Hq. apply negb_true_iff in Hq.
    destruct (negb _); [assumption|].
    destruct (check_skip_process_map_entry s (pid_of t) =? 1); [assumption|].
    destruct (wlookup (thread_key t) (local s)).
    + cbn [fst local set_local]. rewrite map_delete_lookup_other by assumption.
      rewrite lru_touch_lookup. assumption.
    + destruct (wlookup _ (policy s)); assumption.
Qed.

Lemma kstep_local_len sh s ev :
  wlen (local (fst (kstep sh s ev))) <= wlen (local s) + (if is_connect4 ev then 1 else 0).
Proof.
  destruct ev; try solve [user_event; cbn [is_connect4]; lia].
  - rewrite kstep_connect4. cbn [fst is_connect4]. unfold connect4. rewrite authorize_v4_eq.
    destruct (wlookup _ (policy s)); [|cbn [fst]; lia].
    destruct (check_skip_process_map_entry s (pid_of t) =? 1); [cbn [fst]; lia|].
    cbn [fst local set_local]. apply lru_update_len.
  - rewrite kstep_tcp_connect. cbn [fst is_connect4]. unfold tcp_v4_connect. rewrite trace_v4_eq.
    destruct (negb _); [cbn [fst]; lia|].
    destruct (check_skip_process_map_entry s (pid_of t) =? 1); [cbn [fst]; lia|].
    destruct (wlookup (thread_key t) (local s)).
    + cbn [fst local set_local].
      pose proof (map_delete_len (thread_key t) (lru_touch (thread_key t) (local s))).
      pose proof (lru_touch_len (thread_key t) (local s)). lia.
    + destruct (wlookup _ (policy s)); cbn [fst local set_audit]; lia.
Qed.

Lemma kstep_skip_frame sh s ev P :
  adds_skip P ev = false -> wlookup P (skip (fst (kstep sh s ev))) = wlookup P (skip s).
Proof.
  intros Ha. destruct ev; try solve [user_event].
  - (* ESkipUpdate *)
    cbn [adds_skip] in Ha. cbn [kstep]. destruct (sized _ _ && sized _ _); [|reflexivity].
    destruct (hash_update skip_cap k v (skip s)) as [m r] eqn:E. cbn [fst skip set_skip].
    replace m with (fst (hash_update skip_cap k v (skip s))) by (rewrite E; reflexivity).
    apply hash_update_other; assumption.
  - rewrite kstep_connect4. cbn [fst]. unfold connect4. rewrite authorize_v4_eq.
    destruct (wlookup _ (policy s)); [|reflexivity].
    destruct (check_skip_process_map_entry s (pid_of t) =? 1); reflexivity.
  - rewrite kstep_tcp_connect. cbn [fst]. unfold tcp_v4_connect. rewrite trace_v4_eq.
    destruct (negb _); [reflexivity|].
    destruct (check_skip_process_map_entry s (pid_of t) =? 1); [reflexivity|].
    destruct (wlookup (thread_key t) (local s)); [reflexivity|].
    destruct (wlookup _ (policy s)); reflexivity.
Qed.

(* ---- over runs ---- *)
Lemma count_connect4_cons ev evs :
  count_connect4 (ev :: evs) = (if is_connect4 ev then 1 else 0) + count_connect4 evs.
Proof. unfold count_connect4. cbn [filter]. destruct (is_connect4 ev); cbn [length]; lia. Qed.
Lemma count_tcp_connect_cons ev evs :
  count_tcp_connect (ev :: evs) = (if is_tcp_connect ev then 1 else 0) + count_tcp_connect evs.
Proof. unfold count_tcp_connect. cbn [filter]. destruct (is_tcp_connect ev); cbn [length]; lia. Qed.

Lemma krun_local_frame sh K mid : forall s,
  forallb (other_thread K) mid = true ->
  wlen (local s) + count_connect4 mid <= local_cap ->
  wlookup K (local (krun sh s mid)) = wlookup K (local s).
Proof.
  induction mid as [|ev mid IH]; intros s Hq Hcap; [reflexivity|].
  cbn [forallb] in Hq. apply andb_true_iff in Hq. destruct Hq as [Hq1 Hq2].
  rewrite count_connect4_cons in Hcap. cbn [krun].
  pose proof (kstep_local_len sh s ev) as Hlen.
  rewrite IH; [|assumption|lia].
  apply kstep_local_frame; [assumption|]. intros Hc. rewrite Hc in Hcap. lia.
Qed.

Lemma krun_local_absent sh K mid : forall s,
  forallb (other_thread K) mid = true -> wlookup K (local s) = None ->
  wlookup K (local (krun sh s mid)) = None.
Proof.
  induction mid as [|ev mid IH]; intros s Hq Hn; [assumption|].
  cbn [forallb] in Hq. apply andb_true_iff in Hq. destruct Hq as [Hq1 Hq2].
  cbn [krun]. apply IH; [assumption|]. apply kstep_local_absent; assumption.
Qed.

Lemma krun_skip_frame sh P mid : forall s,
  forallb (fun ev => negb (adds_skip P ev)) mid = true ->
  wlookup P (skip (krun sh s mid)) = wlookup P (skip s).
Proof.
  induction mid as [|ev mid IH]; intros s Hq; [reflexivity|].
  cbn [forallb] in Hq. apply andb_true_iff in Hq. destruct Hq as [Hq1 Hq2].
  cbn [krun]. rewrite IH by assumption. apply kstep_skip_frame. apply negb_true_iff. assumption.
Qed.

(* ======================================================================================== *)
(* the two hooks                                                                              *)
(* ======================================================================================== *)
Lemma connect4_redirects sh s t ctx pol :
  wlookup (c_destination_entry (sa_ip ctx) (sa_port ctx) (sa_proto ctx)) (policy s) = Some pol ->
  skipped s t = false ->
  connect4 sh s t ctx =
  (set_local s (fst (lru_update local_cap (thread_key t) (local_entry_of sh t ctx) (local s))),
   rewritten pol ctx, PROCEED).
Proof.
  intros Hp Hs. unfold connect4. rewrite authorize_v4_eq, Hp, check_skip_skipped, Hs. reflexivity.
Qed.

Lemma connect4_untouched sh s t ctx :
  wlookup (c_destination_entry (sa_ip ctx) (sa_port ctx) (sa_proto ctx)) (policy s) = None \/
  skipped s t = true ->
  connect4 sh s t ctx = (s, ctx, PROCEED).
Proof.
  intros H. unfold connect4. rewrite authorize_v4_eq, check_skip_skipped.
  destruct (wlookup _ (policy s)); [|reflexivity].
  destruct H as [H|H]; [discriminate|]. rewrite H. reflexivity.
Qed.

Lemma af_inet_kernel : u16 KERNEL_AF_INET = AF_INET.
Proof. reflexivity. Qed.

Lemma tcp_connect_pending sh s t f n d p le :
  u16 f = AF_INET -> skipped s t = false ->
  wlookup (thread_key t) (local s) = Some le ->
  tcp_v4_connect sh s t (mk_sock f n d p) =
  (set_local (set_audit s (audit_after s (u16 n) le))
             (fst (map_delete (thread_key t) (lru_touch (thread_key t) (local s)))), 0).
Proof.
  intros Hf Hs Hl. unfold tcp_v4_connect. rewrite trace_v4_eq, check_skip_skipped, Hs, Hl.
  cbn [skc_family skc_num mk_sock]. rewrite Hf, N.eqb_refl. reflexivity.
Qed.

Lemma tcp_connect_untouched sh s t f n d p :
  u16 f <> AF_INET \/ skipped s t = true \/
  (wlookup (thread_key t) (local s) = None /\
   wlookup (c_destination_entry (u32 d) (u16 p) IPPROTO_TCP) (policy s) = None) ->
  tcp_v4_connect sh s t (mk_sock f n d p) = (s, 0).
Proof.
  intros H. unfold tcp_v4_connect. rewrite trace_v4_eq, check_skip_skipped.
  cbn [skc_family skc_num skc_daddr skc_dport mk_sock].
  destruct (u16 f =? AF_INET) eqn:Ef; [|reflexivity]. cbn [negb].
  destruct (skipped s t) eqn:Es; [reflexivity|].
  destruct H as [H|[H|[H1 H2]]]; [apply N.eqb_eq in Ef; contradiction|discriminate|].
  rewrite H1, H2. reflexivity.
Qed.

(* word level: the record of the redirected connect *)
Lemma redirect_and_record_words sh s t ctx pol mid num :
  wlookup (c_destination_entry (sa_ip ctx) (sa_port ctx) (sa_proto ctx)) (policy s) = Some pol ->
  skipped s t = false ->
  forallb (other_thread (thread_key t)) mid = true ->
  forallb (fun ev => negb (adds_skip (skip_entry_from_pid (tgid t)) ev)) mid = true ->
  wlen (local (fst (fst (connect4 sh s t ctx)))) + count_connect4 mid <= local_cap ->
  let s2 := krun sh (fst (fst (connect4 sh s t ctx))) mid in
  let s3 := fst (kstep sh s2 (ETcpConnect t KERNEL_AF_INET num (de_ipv4 pol) (de_port pol))) in
  wlookup (c_audit_key (sa_proto ctx) (u16 num)) (audit s3) =
    Some (c_audit_entry (uid_at (sh_connect4 sh) t) (pid_of t)
            (if uid_at (sh_connect4 sh) t =? 0 then 1 else 0) (sa_ip ctx) (sa_port ctx)) /\
  wlookup (thread_key t) (local s3) = None /\
  snd (kstep sh s2 (ETcpConnect t KERNEL_AF_INET num (de_ipv4 pol) (de_port pol))) = [0].
Proof.
  intros Hp Hs Hq Hsk.
  rewrite (connect4_redirects sh s t ctx pol Hp Hs).
  change (fst (fst (?a, ?b, ?c))) with a.
  set (s1 := set_local s _).
  intros Hcap s2 s3.
  assert (Hl : wlookup (thread_key t) (local s2) = Some (local_entry_of sh t ctx)).
  { unfold s2. rewrite krun_local_frame by assumption. unfold s1. cbn [local set_local].
    apply lru_update_same. }
  assert (Hs2 : skipped s2 t = false).
  { unfold skipped, wmem, s2. rewrite krun_skip_frame by assumption. unfold s1. cbn [skip set_local].
    exact Hs. }
  unfold s3. rewrite kstep_tcp_connect.
  rewrite (tcp_connect_pending sh s2 t _ num _ _ _ af_inet_kernel Hs2 Hl). cbn [fst snd].
  cbn [audit local set_audit set_local]. split; [|split; [|reflexivity]].
  - unfold audit_after. rewrite lru_update_same. reflexivity.
  - apply map_delete_lookup_same.
Qed.

(* ======================================================================================== *)
(* layout agreement between the agent's encoders and the program's structs                    *)
(* ======================================================================================== *)
Lemma proto_consts_agree : RUST_IPPROTO_TCP = IPPROTO_TCP /\ u32 IPPROTO_TCP = IPPROTO_TCP.
Proof. split; reflexivity. Qed.

(* the key the agent inserts for ip:port is the key connect4 looks up for a TCP connect to ip:port *)
Lemma layout_policy_key ip port :
  let ctx := connect_ctx ip port IPPROTO_TCP in
  destination_entry_from_ipv4 ip port = c_destination_entry (sa_ip ctx) (sa_port ctx) (sa_proto ctx).
Proof. reflexivity. Qed.
(* ... and the key the kprobe's fallback path looks up for a socket connected to ip:port *)
Lemma layout_policy_key_sock ip port f n :
  let skc := mk_sock f n ip (to_be16 port) in
  destination_entry_from_ipv4 ip port = c_destination_entry (skc_daddr skc) (skc_dport skc) IPPROTO_TCP.
Proof.
  cbn [mk_sock skc_daddr skc_dport]. unfold destination_entry_from_ipv4, c_destination_entry.
  rewrite (u16_small (to_be16 port)) by apply to_be16_lt. reflexivity.
Qed.
(* the key the agent looks up for source port p is the key the kprobe writes for a TCP connect
   whose socket has skc_num = p *)
Lemma layout_audit_key p :
  audit_key_from_source_port p = c_audit_key (sa_proto (connect_ctx 0 0 IPPROTO_TCP)) (skc_num (mk_sock 0 p 0 0)).
Proof. reflexivity. Qed.
(* the key the agent inserts for its own pid is the key both hooks look up for a task of that tgid *)
Lemma layout_skip_key t : skip_entry_from_pid (tgid t) = c_skip_entry (pid_of t).
Proof. unfold skip_entry_from_pid, c_skip_entry. rewrite pid_of_eq. reflexivity. Qed.
Lemma layout_sizes ip port pid p :
  sized POLICY_WORDS (destination_entry_from_ipv4 ip port) = true /\
  sized SKIP_WORDS (skip_entry_from_pid pid) = true /\
  sized AUDIT_KEY_WORDS (audit_key_from_source_port p) = true.
Proof. repeat split. Qed.

Lemma audit_entry_of_array_c a b c d e :
  audit_entry_of_array (c_audit_entry a b c d e) =
  {| ae_logon_id := a; ae_process_id := b; ae_is_admin := as_i32 c;
     ae_destination_ipv4 := d; ae_destination_port := u16 e |}.
Proof. reflexivity. Qed.

(* ======================================================================================== *)
(* decoding                                                                                   *)
(* ======================================================================================== *)
Lemma octets_bswap32 x : x < two32 -> ipv4_octets_of_bits (bswap32 x) = octets_of_ip x.
Proof.
  intros Hx. unfold octets_of_ip.
  set (a := x mod 256). set (b := (x / 256) mod 256). set (c := (x / 65536) mod 256).
  set (d := (x / 16777216) mod 256).
  assert (a < 256 /\ b < 256 /\ c < 256 /\ d < 256) as (Ha & Hb & Hc & Hd)
    by (repeat split; apply N.mod_lt; discriminate).
  rewrite (quad_of x Hx). fold a b c d. rewrite bswap32_quad by assumption.
  unfold ipv4_octets_of_bits.
  destruct (quad_digits d c b a) as (E1 & E2 & E3 & E4); try assumption.
  rewrite E1, E2, E3, E4. reflexivity.
Qed.

Lemma decode_expected t ip port :
  destination_ipv4_addr (expected_audit t ip port) = octets_of_ip (u32 ip) /\
  destination_port_in_host_byte_order (expected_audit t ip port) = u16 port.
Proof.
  unfold destination_ipv4_addr, destination_port_in_host_byte_order, expected_audit.
  cbn [ae_destination_ipv4 ae_destination_port]. split.
  - apply octets_bswap32, u32_lt.
  - unfold to_be16. apply bswap16_involutive.
Qed.

Lemma octets_of_quad a b c d : a < 256 -> b < 256 -> c < 256 -> d < 256 ->
  octets_of_ip (quad a b c d) = [a; b; c; d].
Proof.
  intros. unfold octets_of_ip. destruct (quad_digits a b c d) as (E1 & E2 & E3 & E4); try assumption.
  rewrite E1, E2, E3, E4. reflexivity.
Qed.

(* ======================================================================================== *)
(* agent level: redirect and record                                                           *)
(* ======================================================================================== *)
Lemma is_root_i32 u : as_i32 (if u =? 0 then 1 else 0) = if u =? 0 then 1%Z else 0%Z.
Proof. destruct (u =? 0); reflexivity. Qed.

Lemma redirect_and_record_agent sh s t ip port pol mid num :
  wf_task t = true ->
  uid_at (sh_connect4 sh) t = uid t ->
  wlookup (destination_entry_from_ipv4 ip port) (policy s) = Some pol ->
  skipped s t = false ->
  let ctx := connect_ctx ip port IPPROTO_TCP in
  let s1 := fst (fst (connect4 sh s t ctx)) in
  let ctx' := snd (fst (connect4 sh s t ctx)) in
  snd (connect4 sh s t ctx) = PROCEED /\
  sa_ip ctx' = de_ipv4 pol /\ sa_port ctx' = de_port pol /\ sa_proto ctx' = sa_proto ctx /\
  (forallb (other_thread (thread_key t)) mid = true ->
   forallb (fun ev => negb (adds_skip (skip_entry_from_pid (tgid t)) ev)) mid = true ->
   wlen (local s1) + count_connect4 mid <= local_cap ->
   let s3 := fst (kstep sh (krun sh s1 mid) (ETcpConnect t KERNEL_AF_INET num (sa_ip ctx') (sa_port ctx'))) in
   lookup_audit s3 num = Some (expected_audit t ip port) /\
   wlookup (thread_key t) (local s3) = None).
Proof.
  intros Hwf Huid Hp Hs ctx s1 ctx'.
  rewrite (layout_policy_key ip port) in Hp. fold ctx in Hp.
  pose proof (connect4_redirects sh s t ctx pol Hp Hs) as Hc.
  unfold ctx', s1. rewrite Hc. cbn [fst snd rewritten sa_ip sa_port sa_proto].
  repeat split.
  - pose proof (redirect_and_record_words sh s t ctx pol mid num Hp Hs H H0) as Hw.
    rewrite Hc in Hw. cbn [fst] in Hw. specialize (Hw H1). cbv zeta in Hw. destruct Hw as (Hw & _ & _).
    unfold lookup_audit.
    change (audit_key_from_source_port num) with (c_audit_key (sa_proto ctx) (u16 num)).
    rewrite Hw. rewrite audit_entry_of_array_c. unfold expected_audit. f_equal.
    rewrite Huid, pid_of_eq, is_root_i32.
    destruct (wf_task_bounds t Hwf) as (Ht & _).
    rewrite (u32_small (tgid t)) by assumption.
    cbn [ctx connect_ctx sa_ip sa_port]. rewrite (u16_small (bswap16 (u16 port))) by apply bswap16_lt.
    reflexivity.
  - pose proof (redirect_and_record_words sh s t ctx pol mid num Hp Hs H H0) as Hw.
    rewrite Hc in Hw. cbn [fst] in Hw. specialize (Hw H1). cbv zeta in Hw. destruct Hw as (_ & Hw & _).
    exact Hw.
Qed.

(* a policy value inserted by the agent sends the connect to the proxy listener *)
Lemma proxy_ip_const : string_to_ip PROXY_AGENT_IP = Consts.proxy_agent_ip_network_byte_order.
Proof. vm_compute. reflexivity. Qed.
Lemma rewritten_is_proxy ip port local_port :
  rewritten (destination_entry_from_ipv4 (string_to_ip PROXY_AGENT_IP) local_port) (connect_ctx ip port IPPROTO_TCP)
  = connect_ctx Consts.proxy_agent_ip_network_byte_order local_port IPPROTO_TCP.
Proof. rewrite proxy_ip_const. reflexivity. Qed.

(* the user id the current program records, outside the known class *)
Lemma cur_shift_connect4_cases : sh_connect4 cur_sh = 0 \/ sh_connect4 cur_sh = 32.
Proof. vm_compute. auto. Qed.
Lemma cur_shift_tcp_connect_cases : sh_tcp_connect cur_sh = 0 \/ sh_tcp_connect cur_sh = 32.
Proof. vm_compute. auto. Qed.

Lemma uid_at_cur_connect4 t :
  wf_task t = true -> KnownClass_F4_connect4 t = false -> uid_at (sh_connect4 cur_sh) t = uid t.
Proof.
  intros Hwf Hk. destruct (wf_task_bounds t Hwf) as (_ & _ & Hu & Hg). unfold KnownClass_F4_connect4 in Hk.
  destruct cur_shift_connect4_cases as [E|E]; rewrite E in *.
  - rewrite uid_at_0. apply u32_small; assumption.
  - rewrite uid_at_32. cbn [N.eqb negb andb] in Hk. change (32 =? 0) with false in Hk. cbn [negb andb] in Hk.
    apply negb_false_iff, N.eqb_eq in Hk. rewrite <- Hk. apply u32_small; assumption.
Qed.
Lemma uid_at_cur_tcp_connect t :
  wf_task t = true -> KnownClass_F4_tcp_connect t = false -> uid_at (sh_tcp_connect cur_sh) t = uid t.
Proof.
  intros Hwf Hk. destruct (wf_task_bounds t Hwf) as (_ & _ & Hu & Hg). unfold KnownClass_F4_tcp_connect in Hk.
  destruct cur_shift_tcp_connect_cases as [E|E]; rewrite E in *.
  - rewrite uid_at_0. apply u32_small; assumption.
  - rewrite uid_at_32. change (32 =? 0) with false in Hk. cbn [negb andb] in Hk.
    apply negb_false_iff, N.eqb_eq in Hk. rewrite <- Hk. apply u32_small; assumption.
Qed.
Lemma uid_at_repaired t : wf_task t = true -> uid_at (sh_connect4 sh_repaired) t = uid t.
Proof.
  intros Hwf. destruct (wf_task_bounds t Hwf) as (_ & _ & Hu & _). cbn [sh_connect4 sh_repaired].
  rewrite uid_at_0. apply u32_small; assumption.
Qed.

(* ======================================================================================== *)
(* untouched otherwise                                                                        *)
(* ======================================================================================== *)
Lemma wlookup_in k m v : wlookup k m = Some v -> In (k, v) m.
Proof.
  induction m as [|[k2 v2] m IH]; cbn [wlookup]; [discriminate|].
  destruct (beq k k2) eqn:E; intros H.
  - apply beq_eq in E. inversion H. subst. left. reflexivity.
  - right. auto.
Qed.

Lemma untouched_connect4_agent sh s t ip port proto :
  (u32 proto = IPPROTO_TCP -> wlookup (destination_entry_from_ipv4 ip port) (policy s) = None \/ skipped s t = true) ->
  (u32 proto <> IPPROTO_TCP -> policy_keys_tcp s \/ skipped s t = true) ->
  kstep sh s (EConnect4 t (connect_ctx ip port proto)) =
  (s, [PROCEED; sa_ip (connect_ctx ip port proto); sa_port (connect_ctx ip port proto)]).
Proof.
  intros Htcp Hother. rewrite kstep_connect4.
  rewrite connect4_untouched; [reflexivity|].
  destruct (N.eq_dec (u32 proto) IPPROTO_TCP) as [E|E].
  - destruct (Htcp E) as [H|H]; [left|right; assumption].
    rewrite (layout_policy_key ip port) in H. cbn [connect_ctx sa_ip sa_port sa_proto] in *.
    rewrite E. exact H.
  - destruct (Hother E) as [H|H]; [left|right; assumption].
    clear Htcp Hother.
    destruct (wlookup (c_destination_entry _ _ _) (policy s)) eqn:El; [|reflexivity].
    apply wlookup_in, H in El. cbn [connect_ctx sa_ip sa_port sa_proto c_destination_entry nth] in El.
    destruct proto_consts_agree as [Ea _]. rewrite Ea in El. contradiction.
Qed.

Lemma untouched_tcp_connect sh s t f n d p :
  u16 f <> AF_INET \/ skipped s t = true \/
  (wlookup (thread_key t) (local s) = None /\
   wlookup (c_destination_entry (u32 d) (u16 p) IPPROTO_TCP) (policy s) = None) ->
  kstep sh s (ETcpConnect t f n d p) = (s, [0]).
Proof. intros H. rewrite kstep_tcp_connect, tcp_connect_untouched by assumption. reflexivity. Qed.

(* a connect that was left alone leaves no record: nothing pending before, hook untouched, other
   threads (and any policy / skip traffic) in between, then the kprobe on the unchanged address *)
Lemma untouched_no_record sh s t ip port proto mid num :
  wlookup (thread_key t) (local s) = None ->
  fst (kstep sh s (EConnect4 t (connect_ctx ip port proto))) = s ->
  forallb (other_thread (thread_key t)) mid = true ->
  let s2 := krun sh s mid in
  wlookup (destination_entry_from_ipv4 ip port) (policy s2) = None ->
  kstep sh s2 (ETcpConnect t KERNEL_AF_INET num ip (to_be16 port)) = (s2, [0]).
Proof.
  intros Hn _ Hq s2 Hp. apply untouched_tcp_connect. right. right. split.
  - apply krun_local_absent; assumption.
  - rewrite (u16_small (to_be16 port)) by apply to_be16_lt. exact Hp.
Qed.

(* ---- the agent only ever inserts TCP keys ---- *)
Lemma in_wreplace k v m k0 v0 : In (k0, v0) (wreplace k v m) -> exists v', In (k0, v') m.
Proof.
  induction m as [|[k2 v2] m IH]; cbn [wreplace]; [intros []|].
  destruct (beq k k2); intros [H|H].
  - inversion H; subst. exists v2. left. reflexivity.
  - exists v0. right. assumption.
  - inversion H; subst. exists v0. left. reflexivity.
  - destruct (IH H) as [v' Hv]. exists v'. right. assumption.
Qed.

Lemma kstep_policy_keys_tcp sh s ev :
  policy_update_tcp ev = true -> policy_keys_tcp s -> policy_keys_tcp (fst (kstep sh s ev)).
Proof.
  intros Hu Hinv. destruct ev; try solve [user_event; assumption].
  - (* EPolicyUpdate *)
    cbn [policy_update_tcp] in Hu. apply N.eqb_eq in Hu.
    cbn [kstep]. destruct (sized _ _ && sized _ _); [|assumption].
    unfold hash_update. destruct (wmem k (policy s)); cbn [fst].
    + intros k0 v0 Hin. cbn [policy set_policy] in Hin. apply in_wreplace in Hin. destruct Hin as [v' Hin].
      apply (Hinv k0 v'). assumption.
    + destruct (policy_cap <=? wlen (policy s)); cbn [fst]; [assumption|].
      intros k0 v0 Hin. cbn [policy set_policy] in Hin. apply in_app_or in Hin. destruct Hin as [Hin|[Hin|[]]].
      * apply (Hinv k0 v0). assumption.
      * inversion Hin; subst. assumption.
  - (* EPolicyDelete *)
    cbn [kstep]. destruct (sized _ _); [|assumption]. unfold map_delete.
    destruct (wmem k (policy s)); cbn [fst]; [|assumption].
    intros k0 v0 Hin. cbn [policy set_policy] in Hin. unfold wremove in Hin. apply filter_In in Hin.
    apply (Hinv k0 v0). tauto.
  - rewrite kstep_connect4. cbn [fst]. unfold connect4. rewrite authorize_v4_eq.
    destruct (wlookup _ (policy s)); [|assumption].
    destruct (check_skip_process_map_entry s (pid_of t) =? 1); assumption.
  - rewrite kstep_tcp_connect. cbn [fst]. unfold tcp_v4_connect. rewrite trace_v4_eq.
    destruct (negb _); [assumption|].
    destruct (check_skip_process_map_entry s (pid_of t) =? 1); [assumption|].
    destruct (wlookup (thread_key t) (local s)); [assumption|].
    destruct (wlookup _ (policy s)); assumption.
Qed.

Lemma krun_policy_keys_tcp sh evs : forall s,
  forallb policy_update_tcp evs = true -> policy_keys_tcp s -> policy_keys_tcp (krun sh s evs).
Proof.
  induction evs as [|ev evs IH]; intros s Hu Hinv; [assumption|].
  cbn [forallb] in Hu. apply andb_true_iff in Hu. destruct Hu as [H1 H2].
  cbn [krun]. apply IH; [assumption|]. apply kstep_policy_keys_tcp; assumption.
Qed.
Lemma kinit_policy_keys_tcp : policy_keys_tcp kinit.
Proof. intros k v []. Qed.
Lemma agent_events_tcp a b c : policy_update_tcp (agent_policy_add a b c) = true /\
  policy_update_tcp (agent_policy_remove a b) = true /\ policy_update_tcp (agent_skip a) = true /\
  policy_update_tcp (agent_remove_audit a) = true.
Proof. repeat split. Qed.

(* ======================================================================================== *)
(* threads do not mix: where a pending entry comes from                                       *)
(* ======================================================================================== *)
Lemma kstep_local_provenance sh s ev K e :
  wlookup K (local (fst (kstep sh s ev))) = Some e ->
  wlookup K (local s) = Some e \/
  exists t sa, ev = EConnect4 t sa /\ K = thread_key t /\ e = local_entry_of sh t sa.
Proof.
  destruct ev; try solve [user_event; intros H; left; assumption].
  - rewrite kstep_connect4. cbn [fst]. unfold connect4. rewrite authorize_v4_eq.
    destruct (wlookup _ (policy s)); [|left; assumption].
    destruct (check_skip_process_map_entry s (pid_of t) =? 1); [left; assumption|].
    cbn [fst local set_local]. intros H. apply lru_update_provenance in H.
    destruct H as [[H1 H2]|H]; [right|left; assumption]. exists t, sa. auto.
  - rewrite kstep_tcp_connect. cbn [fst]. unfold tcp_v4_connect. rewrite trace_v4_eq.
    destruct (negb _); [left; assumption|].
    destruct (check_skip_process_map_entry s (pid_of t) =? 1); [left; assumption|].
    destruct (wlookup (thread_key t) (local s)) eqn:El.
    + cbn [fst local set_local]. intros H. left. destruct (beq K (thread_key t)) eqn:E.
      * apply beq_eq in E. subst K. rewrite map_delete_lookup_same in H. discriminate.
      * rewrite map_delete_lookup_other, lru_touch_lookup in H by assumption. exact H.
    + destruct (wlookup _ (policy s)); left; assumption.
Qed.

Lemma krun_local_provenance sh evs : forall s K e,
  wlookup K (local (krun sh s evs)) = Some e ->
  wlookup K (local s) = Some e \/
  exists t sa, In (EConnect4 t sa) evs /\ K = thread_key t /\ e = local_entry_of sh t sa.
Proof.
  induction evs as [|ev evs IH]; intros s K e H; [left; assumption|].
  cbn [krun] in H. apply IH in H. destruct H as [H|(t & sa & Hin & Hk & He)].
  - apply kstep_local_provenance in H. destruct H as [H|(t & sa & Hev & Hk & He)]; [left; assumption|].
    right. exists t, sa. subst ev. split; [left; reflexivity|auto].
  - right. exists t, sa. split; [right; assumption|auto].
Qed.

Lemma thread_key_inj t t' : wf_task t = true -> wf_task t' = true ->
  thread_key t' = thread_key t -> tgid t' = tgid t /\ tid t' = tid t.
Proof.
  intros Hw Hw' H. unfold thread_key in H. rewrite !key64_pid_tgid in H.
  destruct (wf_task_bounds t Hw) as (X1 & X2 & _). destruct (wf_task_bounds t' Hw') as (Y1 & Y2 & _).
  rewrite !u32_small in H by assumption. inversion H. auto.
Qed.

(* the record the kprobe writes for a thread with a pending entry is that entry, field by field *)
Lemma tcp_connect_writes_pending sh s t f n d p le :
  u16 f = AF_INET -> skipped s t = false -> wlookup (thread_key t) (local s) = Some le ->
  wlookup (c_audit_key (le_proto le) (u16 n)) (audit (fst (kstep sh s (ETcpConnect t f n d p)))) =
  Some (c_audit_entry (le_logon le) (le_pid le) (le_is_root le) (le_ip le) (le_port le)).
Proof.
  intros Hf Hs Hl. rewrite kstep_tcp_connect, (tcp_connect_pending sh s t f n d p le Hf Hs Hl).
  cbn [fst audit set_local set_audit]. unfold audit_after. apply lru_update_same.
Qed.

(* ======================================================================================== *)
(* the record persists until consumed                                                         *)
(* ======================================================================================== *)
Lemma beq_audit_key proto p x y : (y =? p) = false -> beq [proto; p] [x; y] = false.
Proof. intros H. cbn [beq]. rewrite (N.eqb_sym p y), H. cbn [andb]. apply andb_false_r. Qed.

Lemma kstep_audit_frame sh s ev proto p :
  touches_port p ev = false -> (is_tcp_connect ev = true -> wlen (audit s) < audit_cap) ->
  wlookup [proto; p] (audit (fst (kstep sh s ev))) = wlookup [proto; p] (audit s).
Proof.
  intros Ht Hroom. destruct ev; try solve [user_event].
  - (* EAuditDelete *)
    cbn [touches_port] in Ht. cbn [kstep]. destruct (sized _ _); [|reflexivity].
    destruct (map_delete k (audit s)) as [m r] eqn:E. cbn [fst audit set_audit].
    replace m with (fst (map_delete k (audit s))) by (rewrite E; reflexivity).
    apply map_delete_lookup_other. apply beq_neq. intros Hk. subst k. cbn [nth] in Ht.
    rewrite N.eqb_refl in Ht. discriminate.
  - rewrite kstep_connect4. cbn [fst]. unfold connect4. rewrite authorize_v4_eq.
    destruct (wlookup _ (policy s)); [|reflexivity].
    destruct (check_skip_process_map_entry s (pid_of t) =? 1); reflexivity.
  - cbn [touches_port] in Ht. specialize (Hroom eq_refl).
    rewrite kstep_tcp_connect. cbn [fst]. unfold tcp_v4_connect. rewrite trace_v4_eq.
    cbn [mk_sock skc_family skc_num skc_daddr skc_dport].
    destruct (negb _); [reflexivity|].
    destruct (check_skip_process_map_entry s (pid_of t) =? 1); [reflexivity|].
    destruct (wlookup (thread_key t) (local s)).
    + cbn [fst audit set_local set_audit]. unfold audit_after.
      apply lru_update_other_room; [|assumption]. apply beq_audit_key. assumption.
    + destruct (wlookup _ (policy s)); [|reflexivity]. cbn [fst audit set_audit].
      apply lru_update_other_room; [|assumption]. apply beq_audit_key. assumption.
Qed.

Lemma kstep_audit_len sh s ev :
  wlen (audit (fst (kstep sh s ev))) <= wlen (audit s) + (if is_tcp_connect ev then 1 else 0).
Proof.
  destruct ev; try solve [user_event; cbn [is_tcp_connect]; lia].
  - cbn [kstep is_tcp_connect]. destruct (sized _ _); [|cbn [fst]; lia].
    destruct (map_delete k (audit s)) as [m r] eqn:E. cbn [fst audit set_audit].
    replace m with (fst (map_delete k (audit s))) by (rewrite E; reflexivity).
    pose proof (map_delete_len k (audit s)). lia.
  - rewrite kstep_connect4. cbn [fst is_tcp_connect]. unfold connect4. rewrite authorize_v4_eq.
    destruct (wlookup _ (policy s)); [|cbn [fst]; lia].
    destruct (check_skip_process_map_entry s (pid_of t) =? 1); cbn [fst audit set_local]; lia.
  - rewrite kstep_tcp_connect. cbn [fst is_tcp_connect]. unfold tcp_v4_connect. rewrite trace_v4_eq.
    destruct (negb _); [cbn [fst]; lia|].
    destruct (check_skip_process_map_entry s (pid_of t) =? 1); [cbn [fst]; lia|].
    destruct (wlookup (thread_key t) (local s)).
    + cbn [fst audit set_local set_audit]. apply lru_update_len.
    + destruct (wlookup _ (policy s)); [|cbn [fst]; lia]. cbn [fst audit set_audit]. apply lru_update_len.
Qed.

Lemma krun_audit_frame sh proto p post : forall s,
  forallb (fun ev => negb (touches_port p ev)) post = true ->
  wlen (audit s) + count_tcp_connect post <= audit_cap ->
  wlookup [proto; p] (audit (krun sh s post)) = wlookup [proto; p] (audit s).
Proof.
  induction post as [|ev post IH]; intros s Hq Hcap; [reflexivity|].
  cbn [forallb] in Hq. apply andb_true_iff in Hq. destruct Hq as [Hq1 Hq2].
  apply negb_true_iff in Hq1.
  rewrite count_tcp_connect_cons in Hcap. cbn [krun].
  pose proof (kstep_audit_len sh s ev) as Hlen.
  rewrite IH; [|assumption|lia].
  apply kstep_audit_frame; [assumption|]. intros Hc. rewrite Hc in Hcap. lia.
Qed.

Lemma record_persists sh s p post r :
  lookup_audit s p = Some r ->
  forallb (fun ev => negb (touches_port (u16 p) ev)) post = true ->
  wlen (audit s) + count_tcp_connect post <= audit_cap ->
  lookup_audit (krun sh s post) p = Some r.
Proof.
  unfold lookup_audit, audit_key_from_source_port. intros H Hq Hcap.
  rewrite krun_audit_frame by assumption. exact H.
Qed.

(* consuming it: remove_audit_map_entry(p) removes exactly that record *)
Lemma remove_audit_removes sh s p :
  lookup_audit (fst (kstep sh s (agent_remove_audit p))) p = None.
Proof.
  unfold lookup_audit, agent_remove_audit. cbn [kstep].
  change (sized AUDIT_KEY_WORDS (audit_key_from_source_port p)) with true. cbn iota.
  destruct (map_delete _ (audit s)) as [m r] eqn:E. cbn [fst audit set_audit].
  replace m with (fst (map_delete (audit_key_from_source_port p) (audit s))) by (rewrite E; reflexivity).
  rewrite map_delete_lookup_same. reflexivity.
Qed.

(* the kprobe's fallback path: no pending entry, but the socket's destination is in the policy *)
Lemma tcp_connect_fallback_agent sh s t ip port num pol :
  wf_task t = true -> uid_at (sh_tcp_connect sh) t = uid t ->
  skipped s t = false -> wlookup (thread_key t) (local s) = None ->
  wlookup (destination_entry_from_ipv4 ip port) (policy s) = Some pol ->
  lookup_audit (fst (kstep sh s (ETcpConnect t KERNEL_AF_INET num ip (to_be16 port)))) num =
  Some (expected_audit t ip port).
Proof.
  intros Hwf Huid Hs Hl Hp.
  rewrite (layout_policy_key_sock ip port KERNEL_AF_INET num) in Hp.
  rewrite kstep_tcp_connect. unfold tcp_v4_connect. rewrite trace_v4_eq, check_skip_skipped, Hs, Hl, Hp.
  cbn [mk_sock skc_family skc_num skc_daddr skc_dport].
  rewrite af_inet_kernel, N.eqb_refl. cbn [negb fst].
  unfold lookup_audit. cbn [audit set_audit].
  change (audit_key_from_source_port num) with (c_audit_key IPPROTO_TCP (u16 num)).
  rewrite lru_update_same. unfold fallback_entry. cbn [skc_daddr skc_dport].
  rewrite audit_entry_of_array_c. unfold expected_audit. f_equal.
  rewrite Huid, pid_of_eq, is_root_i32.
  destruct (wf_task_bounds t Hwf) as (Ht & _).
  rewrite (u32_small (tgid t)) by assumption.
  cbn [mk_sock skc_daddr skc_dport]. rewrite u16_idem.
  rewrite (u16_small (to_be16 port)) by apply to_be16_lt. reflexivity.
Qed.

(* ======================================================================================== *)
(* ip_to_string / string_to_ip                                                                *)
(* ======================================================================================== *)
Definition bytes256 : list N := map N.of_nat (seq 0 256).
Lemma in_bytes256 n : n < 256 -> In n bytes256.
Proof.
  intros H. unfold bytes256. apply in_map_iff. exists (N.to_nat n). split; [lia|].
  apply in_seq. lia.
Qed.
Lemma parse_dec_table :
  forallb (fun n => match parse_u8 (dec n) with Some m => m =? n | None => false end) bytes256 = true.
Proof. vm_compute. reflexivity. Qed.
Lemma dec_nodot_table : forallb (fun n => negb (existsb (N.eqb dot) (dec n))) bytes256 = true.
Proof. vm_compute. reflexivity. Qed.
Lemma parse_dec n : n < 256 -> parse_u8 (dec n) = Some n.
Proof.
  intros H. pose proof parse_dec_table as T. rewrite forallb_forall in T.
  specialize (T n (in_bytes256 n H)). destruct (parse_u8 (dec n)); [|discriminate].
  apply N.eqb_eq in T. congruence.
Qed.
Lemma dec_nodot n : n < 256 -> existsb (N.eqb dot) (dec n) = false.
Proof.
  intros H. pose proof dec_nodot_table as T. rewrite forallb_forall in T.
  specialize (T n (in_bytes256 n H)). apply negb_true_iff in T. exact T.
Qed.

Lemma split_on_nosep x : existsb (N.eqb dot) x = false -> split_on dot x = [x].
Proof.
  induction x as [|a x IH]; cbn [existsb split_on]; [reflexivity|].
  intros H. apply orb_false_iff in H. destruct H as [H1 H2].
  rewrite N.eqb_sym, H1. rewrite (IH H2). reflexivity.
Qed.
Lemma split_on_app_sep x rest :
  existsb (N.eqb dot) x = false -> split_on dot (x ++ dot :: rest) = x :: split_on dot rest.
Proof.
  induction x as [|a x IH]; cbn [existsb split_on app].
  - intros _. rewrite N.eqb_refl. reflexivity.
  - intros H. apply orb_false_iff in H. destruct H as [H1 H2].
    rewrite N.eqb_sym, H1. rewrite (IH H2). reflexivity.
Qed.

Lemma string_to_ip_loop4 a b c d sa sb sc sd :
  parse_u8 sa = Some a -> parse_u8 sb = Some b -> parse_u8 sc = Some c -> parse_u8 sd = Some d ->
  a < 256 -> b < 256 -> c < 256 -> d < 256 ->
  string_to_ip_loop [sa; sb; sc; sd] 0 1 = quad a b c d.
Proof.
  intros Pa Pb Pc Pd Ha Hb Hc Hd. cbn [string_to_ip_loop]. rewrite Pa.
  assert (E1 : (1 <? 16777216) = true) by reflexivity. rewrite E1. rewrite Pb.
  assert (E2 : (1 * 256 <? 16777216) = true) by reflexivity. rewrite E2. rewrite Pc.
  assert (E3 : (1 * 256 * 256 <? 16777216) = true) by reflexivity. rewrite E3. rewrite Pd.
  unfold u32, quad, two32.
  rewrite (N.mod_small (0 + a * 1)) by lia.
  rewrite (N.mod_small (0 + a * 1 + b * (1 * 256))) by lia.
  rewrite (N.mod_small (0 + a * 1 + b * (1 * 256) + c * (1 * 256 * 256))) by lia.
  rewrite N.mod_small by lia. lia.
Qed.

Lemma ip_string_roundtrip ip : ip < two32 -> string_to_ip (ip_to_string ip) = ip.
Proof.
  intros Hip. unfold string_to_ip, ip_to_string.
  set (a := ip mod 256). set (b := (ip / 256) mod 256). set (c := (ip / 256 / 256) mod 256).
  set (d := (ip / 256 / 256 / 256) mod 256).
  assert (a < 256 /\ b < 256 /\ c < 256 /\ d < 256) as (Ha & Hb & Hc & Hd)
    by (repeat split; apply N.mod_lt; discriminate).
  cbn [app].
  rewrite (split_on_app_sep (dec a)) by (apply dec_nodot; assumption).
  rewrite (split_on_app_sep (dec b)) by (apply dec_nodot; assumption).
  rewrite (split_on_app_sep (dec c)) by (apply dec_nodot; assumption).
  rewrite (split_on_nosep (dec d)) by (apply dec_nodot; assumption).
  cbn [length Nat.eqb negb].
  rewrite (string_to_ip_loop4 a b c d) by (try apply parse_dec; assumption).
  unfold a, b, c, d. rewrite !N.div_div by discriminate.
  change (256 * 256) with 65536. change (65536 * 256) with 16777216.
  symmetry. apply (quad_of ip Hip).
Qed.

Lemma endpoint_strings :
  string_to_ip Consts.wire_server_ip = Consts.wire_server_ip_network_byte_order /\
  string_to_ip Consts.ga_plugin_ip = Consts.ga_plugin_ip_network_byte_order /\
  string_to_ip Consts.imds_ip = Consts.imds_ip_network_byte_order /\
  string_to_ip Consts.proxy_agent_ip = Consts.proxy_agent_ip_network_byte_order /\
  ip_to_string Consts.wire_server_ip_network_byte_order = Consts.wire_server_ip /\
  ip_to_string Consts.imds_ip_network_byte_order = Consts.imds_ip.
Proof. vm_compute. repeat split. Qed.

(* ======================================================================================== *)
(* F4: the program as pinned records the group id                                             *)
(* ======================================================================================== *)
Lemma uid_refuted :
  witness_run sh_pinned {| tgid := 100; tid := 101; uid := 1000; gid := 0 |} =
    Some {| ae_logon_id := 0; ae_process_id := 100; ae_is_admin := 1;
            ae_destination_ipv4 := Consts.wire_server_ip_network_byte_order;
            ae_destination_port := to_be16 Consts.wire_server_port |} /\
  witness_run sh_pinned {| tgid := 100; tid := 101; uid := 0; gid := 1000 |} =
    Some {| ae_logon_id := 1000; ae_process_id := 100; ae_is_admin := 0;
            ae_destination_ipv4 := Consts.wire_server_ip_network_byte_order;
            ae_destination_port := to_be16 Consts.wire_server_port |}.
Proof. vm_compute. split; reflexivity. Qed.
Lemma uid_repaired_witness :
  witness_run sh_repaired {| tgid := 100; tid := 101; uid := 1000; gid := 0 |} =
    Some (expected_audit {| tgid := 100; tid := 101; uid := 1000; gid := 0 |}
            Consts.wire_server_ip_network_byte_order Consts.wire_server_port) /\
  witness_run sh_repaired {| tgid := 100; tid := 101; uid := 0; gid := 1000 |} =
    Some (expected_audit {| tgid := 100; tid := 101; uid := 0; gid := 1000 |}
            Consts.wire_server_ip_network_byte_order Consts.wire_server_port).
Proof. vm_compute. split; reflexivity. Qed.

Lemma decode_roundtrip a b c d port logon pid root :
  a < 256 -> b < 256 -> c < 256 -> d < 256 -> port < 65536 ->
  let ctx := connect_ctx (a + 256 * (b + 256 * (c + 256 * d))) port IPPROTO_TCP in
  let e := audit_entry_of_array (c_audit_entry logon pid root (sa_ip ctx) (sa_port ctx)) in
  destination_ipv4_addr e = [a; b; c; d] /\ destination_port_in_host_byte_order e = port /\
  ae_logon_id e = logon /\ ae_process_id e = pid /\ ae_is_admin e = as_i32 root.
Proof.
  intros Ha Hb Hc Hd Hp ctx e. unfold e. rewrite audit_entry_of_array_c.
  unfold destination_ipv4_addr, destination_port_in_host_byte_order.
  cbn [ae_destination_ipv4 ae_destination_port ae_logon_id ae_process_id ae_is_admin ctx connect_ctx sa_ip sa_port].
  repeat split.
  - fold (quad a b c d). rewrite (u32_small (quad a b c d)) by (apply quad_lt; assumption).
    rewrite octets_bswap32 by (apply quad_lt; assumption). apply octets_of_quad; assumption.
  - rewrite (u16_small (bswap16 (u16 port))) by apply bswap16_lt.
    rewrite bswap16_involutive. apply u16_small. exact Hp.
Qed.
