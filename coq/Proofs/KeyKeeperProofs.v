(* Lemmas about Model/KeyKeeper.v (C09, and the poll-level part of C08). *)
From GPA Require Import KeyKeeper.
From Coq Require Import Lia.

(* ------------------------------------------------------------------ byte-string equality *)
Lemma kk_beq_refl : forall a, beq a a = true.
Proof. induction a as [|x a IH]; cbn; [reflexivity|]. rewrite N.eqb_refl, IH. reflexivity. Qed.

Lemma kk_beq_eq : forall a b, beq a b = true -> a = b.
Proof.
  induction a as [|x a IH]; destruct b as [|y b]; cbn; intros H; try discriminate; [reflexivity|].
  apply andb_true_iff in H. destruct H as [H1 H2]. apply N.eqb_eq in H1. subst. f_equal. auto.
Qed.

Lemma kk_beq_neq : forall a b, beq a b = false -> a <> b.
Proof. intros a b H E. subst. rewrite kk_beq_refl in H. discriminate. Qed.

(* constants, re-proved against the regenerated Consts.v *)
Lemma unknown_not_disabled : beq UNKNOWN_STATE DISABLE_STATE = false.
Proof. vm_compute. reflexivity. Qed.

(* ------------------------------------------------------------------ install_rules *)
Lemma install_key : forall s d, k_key (fst (install_rules s d)) = k_key s.
Proof.
  intros. unfold install_rules.
  destruct (upd_ep (k_ws_id s) (k_ws s) (ep_item WS d)) as [[? ?] ?].
  destruct (upd_ep (k_imds_id s) (k_imds s) (ep_item IMDS d)) as [[? ?] ?].
  destruct (upd_ep (k_ga_id s) (k_ga s) (ep_item GA d)) as [[? ?] ?]. reflexivity.
Qed.

Lemma install_state : forall s d, k_state (fst (install_rules s d)) = k_state s.
Proof.
  intros. unfold install_rules.
  destruct (upd_ep (k_ws_id s) (k_ws s) (ep_item WS d)) as [[? ?] ?].
  destruct (upd_ep (k_imds_id s) (k_imds s) (ep_item IMDS d)) as [[? ?] ?].
  destruct (upd_ep (k_ga_id s) (k_ga s) (ep_item GA d)) as [[? ?] ?]. reflexivity.
Qed.

Lemma install_ep : forall s d ep,
  (kid ep (fst (install_rules s d)), krules ep (fst (install_rules s d))) =
  if beq (kid ep s) (ep_id ep d) then (kid ep s, krules ep s) else (ep_id ep d, ep_item ep d).
Proof.
  intros s d ep. unfold install_rules, upd_ep, ep_id.
  destruct ep; cbn [kid krules];
    destruct (beq (k_ws_id s) match ep_item WS d with Some i => it_id i | None => [] end);
    destruct (beq (k_imds_id s) match ep_item IMDS d with Some i => it_id i | None => [] end);
    destruct (beq (k_ga_id s) match ep_item GA d with Some i => it_id i | None => [] end);
    reflexivity.
Qed.

Lemma install_ep_rules : forall s d ep,
  krules ep (fst (install_rules s d)) =
  if beq (kid ep s) (ep_id ep d) then krules ep s else ep_item ep d.
Proof.
  intros. pose proof (install_ep s d ep) as H.
  destruct (beq (kid ep s) (ep_id ep d)); inversion H; reflexivity.
Qed.

Lemma install_ep_id : forall s d ep,
  kid ep (fst (install_rules s d)) =
  if beq (kid ep s) (ep_id ep d) then kid ep s else ep_id ep d.
Proof.
  intros. pose proof (install_ep s d ep) as H.
  destruct (beq (kid ep s) (ep_id ep d)); inversion H; reflexivity.
Qed.

(* after installing, every endpoint's stored id is the document's id *)
Lemma install_ep_id_doc : forall s d ep, kid ep (fst (install_rules s d)) = ep_id ep d.
Proof.
  intros. rewrite install_ep_id. destruct (beq (kid ep s) (ep_id ep d)) eqn:E; [|reflexivity].
  apply kk_beq_eq. exact E.
Qed.

(* ------------------------------------------------------------------ finish / set_* frame facts *)
Lemma set_key_rules : forall s k ep, krules ep (set_key s k) = krules ep s /\ kid ep (set_key s k) = kid ep s.
Proof. intros s k []; split; reflexivity. Qed.
Lemma set_state_rules : forall s st ep, krules ep (set_state s st) = krules ep s /\ kid ep (set_state s st) = kid ep s.
Proof. intros s k []; split; reflexivity. Qed.

Lemma finish_rules : forall s d e ep,
  krules ep (fst (finish s d e)) = krules ep s /\ kid ep (fst (finish s d e)) = kid ep s.
Proof.
  intros. unfold finish. destruct (beq (k_state s) (channel_state d)); [split; reflexivity|].
  destruct (beq (channel_state d) DISABLE_STATE); cbn [fst].
  - destruct ep; split; reflexivity.
  - destruct ep; split; reflexivity.
Qed.

Lemma finish_state : forall s d e, k_state (fst (finish s d e)) = channel_state d.
Proof.
  intros. unfold finish. destruct (beq (k_state s) (channel_state d)) eqn:E.
  - cbn. apply kk_beq_eq. exact E.
  - destruct (beq (channel_state d) DISABLE_STATE); reflexivity.
Qed.

Lemma finish_key : forall s d e,
  k_key (fst (finish s d e)) =
  if beq (k_state s) (channel_state d) then k_key s
  else if beq (channel_state d) DISABLE_STATE then None else k_key s.
Proof.
  intros. unfold finish. destruct (beq (k_state s) (channel_state d)); [reflexivity|].
  destruct (beq (channel_state d) DISABLE_STATE); reflexivity.
Qed.

(* ------------------------------------------------------------------ shape of one poll *)
Lemma poll_failed : forall s a, status_failed a = true -> poll s a = (s, [EStatus]).
Proof.
  intros s a H. unfold poll, status_failed in *. destruct (a_status a) as [|d]; [reflexivity|].
  rewrite H. reflexivity.
Qed.

(* the rules after a poll with a valid document are those of install_rules, whatever the key step did *)
Lemma poll_rules : forall s a d ep,
  a_status a = StatusDoc d -> validate d = true ->
  krules ep (fst (poll s a)) = krules ep (fst (install_rules s d)) /\
  kid ep (fst (poll s a)) = kid ep (fst (install_rules s d)).
Proof.
  intros s a d ep Ha Hv. unfold poll. rewrite Ha, Hv. cbn [negb].
  destruct (install_rules s d) as [s1 ch] eqn:Ei. cbn [fst].
  destruct (need_key s1 d).
  - destruct (key_step d a) as [[k|] e].
    + destruct (finish_rules (set_key s1 (Some k)) d
                  ((EStatus :: (if ch then [EDumpRules] else [])) ++ e) ep) as [H1 H2].
      rewrite H1, H2. apply set_key_rules.
    + split; reflexivity.
  - apply finish_rules.
Qed.

Lemma poll_rules_explicit : forall s a d ep,
  a_status a = StatusDoc d -> validate d = true ->
  krules ep (fst (poll s a)) =
  if beq (kid ep s) (ep_id ep d) then krules ep s else ep_item ep d.
Proof.
  intros. destruct (poll_rules s a d ep H H0) as [H1 _]. rewrite H1. apply install_ep_rules.
Qed.

(* the key step's outcomes *)
Lemma key_step_set_in : forall d a k e, key_step d a = (KeySet k, e) -> In k (keys_of_ans a).
Proof.
  intros d a k e H. unfold key_step, keys_of_ans in *.
  destruct (d_guid d) as [g|].
  - destruct (a_local a) as [kl|].
    + inversion H; subst. apply in_or_app. left. left. reflexivity.
    + destruct (a_acquire a) as [ka|]; [|discriminate].
      destruct (negb (hex_ok (key_value ka))); [discriminate|].
      destruct (negb (a_store a)); [discriminate|].
      destruct (negb (check_ok ka (a_readback a))); [discriminate|].
      destruct (negb (a_attest a)); [discriminate|].
      inversion H; subst. cbn. left. reflexivity.
  - destruct (a_acquire a) as [ka|]; [|discriminate].
    destruct (negb (hex_ok (key_value ka))); [discriminate|].
    destruct (negb (a_store a)); [discriminate|].
    destruct (negb (check_ok ka (a_readback a))); [discriminate|].
    destruct (negb (a_attest a)); [discriminate|].
    inversion H; subst. apply in_or_app. right. left. reflexivity.
Qed.

Lemma key_step_no_policy : forall d a, policies (snd (key_step d a)) = [].
Proof.
  intros. unfold key_step.
  destruct (d_guid d) as [g|]; cbn [app].
  - destruct (a_local a); [reflexivity|].
    destruct (a_acquire a); [|reflexivity].
    destruct (negb (hex_ok (key_value k))); [reflexivity|].
    destruct (negb (a_store a)); [reflexivity|].
    destruct (negb (check_ok k (a_readback a))); [reflexivity|].
    destruct (negb (a_attest a)); reflexivity.
  - destruct (a_acquire a); [|reflexivity].
    destruct (negb (hex_ok (key_value k))); [reflexivity|].
    destruct (negb (a_store a)); [reflexivity|].
    destruct (negb (check_ok k (a_readback a))); [reflexivity|].
    destruct (negb (a_attest a)); reflexivity.
Qed.

Lemma policies_app : forall a b, policies (a ++ b) = policies a ++ policies b.
Proof. intros. unfold policies. apply filter_app. Qed.

Lemma policies_policy_effects : forall d, policies (policy_effects d) = policy_effects d.
Proof. reflexivity. Qed.

Lemma finish_policies : forall s d e,
  policies (snd (finish s d e)) =
  policies e ++ (if beq (k_state s) (channel_state d) then [] else policy_effects d).
Proof.
  intros. unfold finish. destruct (beq (k_state s) (channel_state d)).
  - cbn [snd]. symmetry. apply app_nil_r.
  - destruct (beq (channel_state d) DISABLE_STATE); cbn [snd].
    + rewrite !policies_app. rewrite policies_policy_effects.
      replace (policies [EClearKey]) with (@nil effect) by reflexivity.
      rewrite app_nil_r. reflexivity.
    + rewrite policies_app. reflexivity.
Qed.

Lemma e1_no_policy : forall (ch : bool), policies (EStatus :: (if ch then [EDumpRules] else [])) = [].
Proof. destruct ch; reflexivity. Qed.

(* ------------------------------------------------------------------ C09: policy follows modes *)
Lemma policy_follows_modes : forall s a,
  policies (snd (poll s a)) =
  if beq (k_state s) (k_state (fst (poll s a))) then []
  else match a_status a with StatusDoc d => policy_effects d | StatusErr => [] end.
Proof.
  intros s a. unfold poll. destruct (a_status a) as [|d].
  - cbn. rewrite kk_beq_refl. reflexivity.
  - destruct (negb (validate d)).
    + cbn. rewrite kk_beq_refl. reflexivity.
    + destruct (install_rules s d) as [s1 ch] eqn:Ei.
      assert (Hst : k_state s1 = k_state s).
      { pose proof (install_state s d) as H. rewrite Ei in H. exact H. }
      destruct (need_key s1 d).
      * destruct (key_step d a) as [[k|] e] eqn:Ek.
        -- rewrite finish_policies, finish_state. cbn [set_key k_state].
           rewrite policies_app, e1_no_policy.
           pose proof (key_step_no_policy d a) as Hn. rewrite Ek in Hn. cbn [snd] in Hn. rewrite Hn.
           cbn [app]. rewrite Hst. reflexivity.
        -- cbn [fst snd]. rewrite Hst, kk_beq_refl. rewrite policies_app, e1_no_policy.
           pose proof (key_step_no_policy d a) as Hn. rewrite Ek in Hn. exact Hn.
      * rewrite finish_policies, finish_state, e1_no_policy. cbn [app]. rewrite Hst. reflexivity.
Qed.

(* ------------------------------------------------------------------ C09: a failed key step changes neither state nor key *)
Lemma failed_key_step_keeps : forall s a d,
  a_status a = StatusDoc d -> validate d = true ->
  need_key (fst (install_rules s d)) d = true ->
  fst (key_step d a) = KeyFailed ->
  k_state (fst (poll s a)) = k_state s /\ k_key (fst (poll s a)) = k_key s /\
  policies (snd (poll s a)) = [].
Proof.
  intros s a d Ha Hv Hn Hk. unfold poll. rewrite Ha, Hv. cbn [negb].
  pose proof (install_state s d) as Hs. pose proof (install_key s d) as Hkk.
  destruct (install_rules s d) as [s1 ch]. cbn [fst] in *. rewrite Hn.
  destruct (key_step d a) as [[k|] e] eqn:Ek; cbn [fst] in Hk; [discriminate|].
  cbn [fst snd]. repeat split; try assumption.
  rewrite policies_app, e1_no_policy.
  pose proof (key_step_no_policy d a) as H. rewrite Ek in H. exact H.
Qed.

(* ------------------------------------------------------------------ C09: disabled means no key *)
Definition dis_inv (s : kk) : Prop := k_state s = DISABLE_STATE -> k_key s = None.

Lemma finish_dis_inv : forall s d e, dis_inv s -> dis_inv (fst (finish s d e)).
Proof.
  intros s d e Hs. unfold dis_inv. rewrite finish_state, finish_key. intros Hd.
  destruct (beq (k_state s) (channel_state d)) eqn:E.
  - apply Hs. apply kk_beq_eq in E. congruence.
  - rewrite Hd, kk_beq_refl. reflexivity.
Qed.

Lemma finish_dis_inv_enabled : forall s d e,
  beq (channel_state d) DISABLE_STATE = false -> dis_inv (fst (finish s d e)).
Proof.
  intros s d e Hne. unfold dis_inv. rewrite finish_state. intros Hd.
  rewrite Hd, kk_beq_refl in Hne. discriminate.
Qed.

Lemma poll_dis_inv : forall s a, dis_inv s -> dis_inv (fst (poll s a)).
Proof.
  intros s a Hs. unfold poll. destruct (a_status a) as [|d]; [exact Hs|].
  destruct (negb (validate d)); [exact Hs|].
  pose proof (install_state s d) as Hst. pose proof (install_key s d) as Hk.
  destruct (install_rules s d) as [s1 ch]. cbn [fst] in *.
  assert (H1 : dis_inv s1). { unfold dis_inv. rewrite Hst, Hk. exact Hs. }
  destruct (need_key s1 d) eqn:En.
  - destruct (key_step d a) as [[k|] e]; [|exact H1].
    apply finish_dis_inv_enabled.
    unfold need_key in En. apply andb_true_iff in En. destruct En as [En _].
    destruct (beq (channel_state d) DISABLE_STATE); [discriminate|reflexivity].
  - apply finish_dis_inv. exact H1.
Qed.

Lemma notify_dis_inv : forall s, dis_inv s -> dis_inv (notify s).
Proof.
  intros s Hs. unfold notify.
  destruct (beq (k_state s) DISABLE_STATE || beq (k_state s) UNKNOWN_STATE); [|exact Hs].
  unfold dis_inv. cbn. intros H. pose proof unknown_not_disabled as U.
  rewrite H, kk_beq_refl in U. discriminate.
Qed.

Lemma run_from_dis_inv : forall h s, dis_inv s -> dis_inv (run_from s h).
Proof.
  induction h as [|e h IH]; intros s Hs; [exact Hs|].
  cbn. apply IH. destruct e; cbn; [apply poll_dis_inv|apply notify_dis_inv]; exact Hs.
Qed.

Lemma disabled_means_no_key : forall h, k_state (run h) = DISABLE_STATE -> k_key (run h) = None.
Proof.
  intros h. apply (run_from_dis_inv h kk_init). unfold dis_inv. reflexivity.
Qed.

(* ------------------------------------------------------------------ history invariants *)
Definition rules_inv (ds : list doc) (s : kk) : Prop :=
  forall ep, exists d, In d ds /\ kid ep s = ep_id ep d /\ krules ep s = ep_item ep d.

Definition key_inv (ks : list key) (s : kk) : Prop :=
  forall k, k_key s = Some k -> In k ks.

Lemma rules_inv_incl : forall ds ds' s, incl ds ds' -> rules_inv ds s -> rules_inv ds' s.
Proof. intros ds ds' s Hi H ep. destruct (H ep) as [d [Hd R]]. exists d. split; [apply Hi; exact Hd|exact R]. Qed.

Lemma key_inv_incl : forall ks ks' s, incl ks ks' -> key_inv ks s -> key_inv ks' s.
Proof. intros ks ks' s Hi H k Hk. apply Hi. apply H. exact Hk. Qed.

Lemma rules_inv_init : rules_inv [empty_doc] kk_init.
Proof. intros ep. exists empty_doc. split; [left; reflexivity|]. destruct ep; split; reflexivity. Qed.

Lemma key_inv_init : forall ks, key_inv ks kk_init.
Proof. intros ks k H. discriminate. Qed.

Lemma poll_rules_inv : forall ds s a d,
  a_status a = StatusDoc d -> validate d = true ->
  rules_inv ds s -> rules_inv (ds ++ [d]) (fst (poll s a)).
Proof.
  intros ds s a d Ha Hv H ep. destruct (poll_rules s a d ep Ha Hv) as [Hr Hi].
  pose proof (install_ep s d ep) as He.
  destruct (beq (kid ep s) (ep_id ep d)) eqn:E.
  - destruct (H ep) as [d0 [Hd0 [I0 R0]]]. exists d0. split; [apply in_or_app; left; exact Hd0|].
    inversion He as [[Hi' Hr']]. rewrite Hr, Hi, Hi', Hr'. split; assumption.
  - exists d. split; [apply in_or_app; right; left; reflexivity|].
    inversion He as [[Hi' Hr']]. rewrite Hr, Hi, Hi', Hr'. split; reflexivity.
Qed.

Lemma notify_rules : forall s ep, krules ep (notify s) = krules ep s /\ kid ep (notify s) = kid ep s.
Proof.
  intros. unfold notify. destruct (beq (k_state s) DISABLE_STATE || beq (k_state s) UNKNOWN_STATE).
  - apply set_state_rules.
  - split; reflexivity.
Qed.

Lemma notify_key : forall s, k_key (notify s) = k_key s.
Proof.
  intros. unfold notify. destruct (beq (k_state s) DISABLE_STATE || beq (k_state s) UNKNOWN_STATE); reflexivity.
Qed.

Lemma poll_key_cases : forall s a k,
  k_key (fst (poll s a)) = Some k -> k_key s = Some k \/ In k (keys_of_ans a).
Proof.
  intros s a k. unfold poll. destruct (a_status a) as [|d]; [left; assumption|].
  destruct (negb (validate d)); [left; assumption|].
  pose proof (install_key s d) as Hk.
  destruct (install_rules s d) as [s1 ch]. cbn [fst] in *.
  destruct (need_key s1 d).
  - destruct (key_step d a) as [[k'|] e] eqn:Ek.
    + rewrite finish_key. cbn [set_key k_key k_state].
      intros H. right.
      assert (Some k' = Some k) as E.
      { destruct (beq (k_state s1) (channel_state d)); [exact H|].
        destruct (beq (channel_state d) DISABLE_STATE); [discriminate|exact H]. }
      inversion E; subst. eapply key_step_set_in. exact Ek.
    + cbn [fst]. rewrite Hk. left. assumption.
  - rewrite finish_key. intros H. left. rewrite <- Hk.
    destruct (beq (k_state s1) (channel_state d)); [exact H|].
    destruct (beq (channel_state d) DISABLE_STATE); [discriminate|exact H].
Qed.

Lemma run_from_invs : forall h s ds ks,
  rules_inv ds s -> key_inv ks s ->
  rules_inv (ds ++ docs_of h) (run_from s h) /\ key_inv (ks ++ keys_of h) (run_from s h).
Proof.
  induction h as [|e h IH]; intros s ds ks Hr Hk.
  - cbn. rewrite !app_nil_r. split; assumption.
  - destruct e as [a|]; cbn [run_from fold_left step docs_of keys_of].
    + assert (Hk' : key_inv (ks ++ keys_of_ans a) (fst (poll s a))).
      { intros k Hs. destruct (poll_key_cases s a k Hs) as [H|H].
        - apply in_or_app. left. apply Hk. exact H.
        - apply in_or_app. right. exact H. }
      destruct (a_status a) as [|d] eqn:Ea.
      * assert (fst (poll s a) = s) as Es.
        { rewrite poll_failed; [reflexivity|]. unfold status_failed. rewrite Ea. reflexivity. }
        destruct (IH (fst (poll s a)) ds (ks ++ keys_of_ans a)) as [HA HB].
        { rewrite Es. exact Hr. } { exact Hk'. }
        split; [exact HA|]. rewrite <- app_assoc in HB. exact HB.
      * destruct (validate d) eqn:Ev.
        -- destruct (IH (fst (poll s a)) (ds ++ [d]) (ks ++ keys_of_ans a)) as [HA HB].
           { apply poll_rules_inv; assumption. } { exact Hk'. }
           rewrite <- !app_assoc in *. split; assumption.
        -- assert (fst (poll s a) = s) as Es.
           { rewrite poll_failed; [reflexivity|]. unfold status_failed. rewrite Ea, Ev. reflexivity. }
           destruct (IH (fst (poll s a)) ds (ks ++ keys_of_ans a)) as [HA HB].
           { rewrite Es. exact Hr. } { exact Hk'. }
           split; [exact HA|]. rewrite <- app_assoc in HB. exact HB.
    + apply IH.
      * intros ep. destruct (Hr ep) as [d [Hd [I R]]]. exists d.
        destruct (notify_rules s ep) as [N1 N2]. rewrite N1, N2. auto.
      * intros k H. rewrite notify_key in H. apply Hk. exact H.
Qed.

Lemma run_invs : forall h,
  rules_inv (empty_doc :: docs_of h) (run h) /\ key_inv (keys_of h) (run h).
Proof.
  intros h. destruct (run_from_invs h kk_init [empty_doc] []) as [HA HB].
  - apply rules_inv_init. - apply key_inv_init.
  - split; assumption.
Qed.

(* ------------------------------------------------------------------ C09: convergence *)
Lemma clean_valid : forall d a, clean d a = true -> validate d = true.
Proof. intros d a H. unfold clean in H. apply andb_true_iff in H. tauto. Qed.

(* rules after one poll with a valid document, under id_functional *)
Lemma converge_rules : forall ds s a d ep,
  a_status a = StatusDoc d -> validate d = true ->
  rules_inv ds s -> id_functional (ds ++ [d]) ->
  krules ep (fst (poll s a)) = ep_item ep d.
Proof.
  intros ds s a d ep Ha Hv Hr Hf. rewrite (poll_rules_explicit s a d ep Ha Hv).
  destruct (beq (kid ep s) (ep_id ep d)) eqn:E; [|reflexivity].
  apply kk_beq_eq in E. destruct (Hr ep) as [d0 [Hd0 [I0 R0]]].
  rewrite R0. apply Hf.
  - apply in_or_app. left. exact Hd0.
  - apply in_or_app. right. left. reflexivity.
  - congruence.
Qed.

Lemma relatch_key_step : forall d a,
  relatch_ok a = true ->
  (match d_guid d with Some _ => a_local a | None => None end) = None ->
  exists k e, a_acquire a = Some k /\ key_step d a = (KeySet k, e).
Proof.
  intros d a Hr Hl. unfold relatch_ok in Hr. unfold key_step. rewrite Hl.
  destruct (a_acquire a) as [k|]; [|discriminate].
  apply andb_true_iff in Hr. destruct Hr as [Hr H4].
  apply andb_true_iff in Hr. destruct Hr as [Hr H3].
  apply andb_true_iff in Hr. destruct Hr as [H1 H2].
  rewrite H3, H1, H2, H4. cbn [negb]. eexists. eexists. split; reflexivity.
Qed.

Lemma opt_beq_eq : forall a b, opt_beq a b = true -> a = b.
Proof.
  intros [x|] [y|] H; cbn in H; try discriminate; [|reflexivity].
  apply kk_beq_eq in H. subst. reflexivity.
Qed.

Lemma converge_key_state : forall h s a d,
  s = run h ->
  a_status a = StatusDoc d -> clean d a = true ->
  guid_functional (keys_of h ++ keys_of_ans a) ->
  mem_backed s d a ->
  k_key (fst (poll s a)) = F_key d a /\ k_state (fst (poll s a)) = channel_state d.
Proof.
  intros h s a d Hs Ha Hc Hg Hm.
  assert (Hv : validate d = true) by (eapply clean_valid; eauto).
  assert (Hdis : dis_inv s). { subst s. unfold dis_inv. apply disabled_means_no_key. }
  assert (Hki : key_inv (keys_of h) s). { subst s. apply run_invs. }
  unfold poll. rewrite Ha, Hv. cbn [negb].
  pose proof (install_state s d) as Hst. pose proof (install_key s d) as Hk.
  destruct (install_rules s d) as [s1 ch]. cbn [fst] in *.
  unfold clean in Hc. rewrite Hv in Hc. cbn [andb] in Hc.
  unfold F_key.
  destruct (need_key s1 d) eqn:En.
  - (* key step taken: the channel is not disabled *)
    assert (Hnd : disabled d = false).
    { unfold need_key in En. apply andb_true_iff in En. destruct En as [En _]. unfold disabled.
      destruct (beq (channel_state d) DISABLE_STATE); [discriminate|reflexivity]. }
    rewrite Hnd in *. cbn [orb] in Hc.
    assert (Hks : exists k e, key_step d a = (KeySet k, e) /\
               match d_guid d, a_local a with Some _, Some k0 => Some k0 | _, _ => a_acquire a end = Some k).
    { destruct (d_guid d) as [g|] eqn:Eg.
      - destruct (a_local a) as [kl|] eqn:El.
        + exists kl. eexists. split; [|reflexivity]. unfold key_step. rewrite Eg, El. reflexivity.
        + destruct (relatch_key_step d a Hc) as [k [e [HA HB]]]. { rewrite Eg. exact El. }
          exists k, e. split; [exact HB|exact HA].
      - destruct (relatch_key_step d a) as [k [e [HA HB]]].
        { destruct (a_local a); exact Hc. } { rewrite Eg. reflexivity. }
        exists k, e. split; [exact HB|]. destruct (a_local a); exact HA. }
    destruct Hks as [k [e [Hks Hf]]]. rewrite Hks, Hf.
    split; [|apply finish_state].
    rewrite finish_key. cbn [set_key k_key k_state].
    unfold disabled in Hnd. rewrite Hnd.
    destruct (beq (k_state s1) (channel_state d)); reflexivity.
  - split; [|apply finish_state].
    rewrite finish_key, Hst, Hk.
    destruct (disabled d) eqn:Ed.
    + (* disabled: no key afterwards *)
      unfold disabled in Ed. rewrite Ed.
      destruct (beq (k_state s) (channel_state d)) eqn:E; [|reflexivity].
      apply Hdis. apply kk_beq_eq in E. apply kk_beq_eq in Ed. congruence.
    + (* enabled and the named guid is the one in memory *)
      unfold disabled in Ed. rewrite Ed.
      assert (k_key s = match d_guid d, a_local a with Some _, Some k0 => Some k0 | _, _ => a_acquire a end) as G.
      { unfold need_key in En. rewrite Ed in En. cbn [negb andb] in En.
        apply orb_false_iff in En. destruct En as [E1 E2].
        destruct (d_guid d) as [g|] eqn:Eg; [|discriminate].
        apply negb_false_iff in E2. apply opt_beq_eq in E2.
        assert (Hcg : cur_guid s = Some g).
        { unfold cur_guid in *. rewrite Hk in E2. symmetry. exact E2. }
        cbn [orb] in Hc.
        destruct (a_local a) as [kl|] eqn:El.
        - apply kk_beq_eq in Hc.
          unfold cur_guid in Hcg. destruct (k_key s) as [k0|] eqn:Ek0; [|discriminate].
          inversion Hcg as [Hg0]. f_equal. apply Hg.
          + apply in_or_app. left. apply Hki. exact Ek0.
          + apply in_or_app. right. unfold keys_of_ans. rewrite El. apply in_or_app. left. left. reflexivity.
          + congruence.
        - exfalso. apply (Hm g); auto. }
      rewrite G. destruct (beq (k_state s) (channel_state d)); reflexivity.
Qed.

Theorem converges : forall h a d,
  a_status a = StatusDoc d -> clean d a = true ->
  id_functional (empty_doc :: docs_of h ++ [d]) ->
  guid_functional (keys_of h ++ keys_of_ans a) ->
  mem_backed (run h) d a ->
  observe (fst (poll (run h) a)) = F d a.
Proof.
  intros h a d Ha Hc Hf Hg Hm.
  assert (Hv : validate d = true) by (eapply clean_valid; eauto).
  destruct (run_invs h) as [Hr _].
  destruct (converge_key_state h (run h) a d eq_refl Ha Hc Hg Hm) as [Hk Hs].
  unfold observe, F. rewrite Hk, Hs.
  pose proof (converge_rules (empty_doc :: docs_of h) (run h) a d WS Ha Hv Hr Hf) as Hw.
  pose proof (converge_rules (empty_doc :: docs_of h) (run h) a d IMDS Ha Hv Hr Hf) as Hi.
  pose proof (converge_rules (empty_doc :: docs_of h) (run h) a d GA Ha Hv Hr Hf) as Hga.
  cbn [krules] in Hw, Hi, Hga. rewrite Hw, Hi, Hga. reflexivity.
Qed.

(* ------------------------------------------------------------------ the same-id refutation (F9) *)
Definition f9_item (mode : bytes) : item := {| it_id := [120]; it_mode := mode; it_body := 0 |}.
Definition f9_doc (mode : bytes) : doc :=
  {| d_version := V20; d_state := None; d_enabled := Some false; d_guid := None;
     d_rules := Some {| r_imds := None; r_ws := Some (f9_item mode); r_ga := None |} |}.
Definition f9_ans (mode : bytes) : answers :=
  {| a_status := StatusDoc (f9_doc mode); a_local := None; a_acquire := None; a_store := false;
     a_readback := None; a_attest := false |}.

Lemma converges_same_id_refuted :
  exists h a d,
    a_status a = StatusDoc d /\ clean d a = true /\
    guid_functional (keys_of h ++ keys_of_ans a) /\ mem_backed (run h) d a /\
    observe (fst (poll (run h) a)) <> F d a.
Proof.
  exists [Poll (f9_ans ENFORCE_MODE)], (f9_ans AUDIT_MODE), (f9_doc AUDIT_MODE).
  split; [reflexivity|]. split; [vm_compute; reflexivity|].
  split; [intros k1 k2 H; destruct H|].
  split; [intros g H; discriminate|].
  vm_compute. intros H. discriminate H.
Qed.

(* and the same for key guids: a host that re-issues a different key under the guid the agent holds *)
Definition g2_key (v : bytes) : key :=
  {| key_scheme := []; key_inc := None; key_guid := [103]; key_issued := []; key_value := v |}.
Definition g2_doc : doc :=
  {| d_version := V10; d_state := Some MUST_SIG_WIRESERVER; d_enabled := None; d_guid := Some [103];
     d_rules := None |}.
Definition g2_ans (v : bytes) : answers :=
  {| a_status := StatusDoc g2_doc; a_local := Some (g2_key v); a_acquire := None; a_store := false;
     a_readback := None; a_attest := false |}.

Lemma converges_same_guid_refuted :
  exists h a d,
    a_status a = StatusDoc d /\ clean d a = true /\
    id_functional (empty_doc :: docs_of h ++ [d]) /\ mem_backed (run h) d a /\
    observe (fst (poll (run h) a)) <> F d a.
Proof.
  exists [Poll (g2_ans [48; 48])], (g2_ans [49; 49]), g2_doc.
  split; [reflexivity|]. split; [vm_compute; reflexivity|].
  split.
  { intros ep d1 d2 H1 H2 _.
    assert (forall x, In x (empty_doc :: docs_of [Poll (g2_ans [48; 48])] ++ [g2_doc]) -> ep_item ep x = None) as HA.
    { intros x Hx. vm_compute in Hx. destruct Hx as [Hx|[Hx|[Hx|[]]]]; subst x; destruct ep; reflexivity. }
    rewrite (HA d1 H1), (HA d2 H2). reflexivity. }
  split; [intros g _ _ H; discriminate|].
  vm_compute. intros H. discriminate H.
Qed.

(* ------------------------------------------------------------------ non-vacuity witnesses *)
Definition nv_item : item := {| it_id := [105; 100]; it_mode := ENFORCE_MODE; it_body := 7 |}.
Definition nv_key : key :=
  {| key_scheme := []; key_inc := Some 1; key_guid := [103; 49]; key_issued := []; key_value := [52; 65] |}.
Definition nv_doc_enabled : doc :=
  {| d_version := V20; d_state := None; d_enabled := Some true; d_guid := None;
     d_rules := Some {| r_imds := None; r_ws := Some nv_item; r_ga := None |} |}.
Definition nv_ans_latch : answers :=
  {| a_status := StatusDoc nv_doc_enabled; a_local := None; a_acquire := Some nv_key; a_store := true;
     a_readback := Some nv_key; a_attest := true |}.
Definition nv_ans_attest_fails : answers :=
  {| a_status := StatusDoc nv_doc_enabled; a_local := None; a_acquire := Some nv_key; a_store := true;
     a_readback := Some nv_key; a_attest := false |}.
Definition nv_doc_disabled : doc :=
  {| d_version := V20; d_state := None; d_enabled := Some false; d_guid := Some [103; 49]; d_rules := None |}.
Definition nv_ans_disabled : answers :=
  {| a_status := StatusDoc nv_doc_disabled; a_local := None; a_acquire := None; a_store := false;
     a_readback := None; a_attest := false |}.
