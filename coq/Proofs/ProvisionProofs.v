(* Lemmas about Model/Provision.v (C16).  Structure:
   1. bit lemmas for the flags;
   2. the history predicates are stable when time moves on;
   3. no lost update: the flags are the fold of OR / AND-NOT over the trace in actor order;
   4. the monitor (abstract local state of each task) and "every client program follows it";
   5. the invariant J relating the world to what each task has seen, preserved by every step of
      every task -- hence true under every schedule (SchedProofs.monitored_invariant);
   6. the consequences: tick justified, finished truthful (under the two class hypotheses, and
      unconditionally for the repaired variant), error text exact, status.tag atomic (under the
      no-overlap hypothesis);
   7. the refutation witnesses (F10, F12, F11) by computation. *)
From Coq Require Import List NArith ZArith Bool Arith Lia.
Import ListNotations.
From GPA Require Import Provision SchedProofs.

Local Open Scope Z_scope.

(* ========================================================================================== *)
(* 1. flags                                                                                     *)
(* ========================================================================================== *)
Lemma fcontains_iff : forall fl m,
  fcontains fl m = true <-> (forall i, N.testbit m i = true -> N.testbit fl i = true).
Proof.
  intros fl m. unfold fcontains. rewrite N.eqb_eq. split.
  - intros H i Hi. rewrite <- H in Hi. rewrite N.land_spec in Hi.
    apply andb_true_iff in Hi. tauto.
  - intros H. apply N.bits_inj. intro i. rewrite N.land_spec.
    destruct (N.testbit m i) eqn:E.
    + rewrite (H i E). reflexivity.
    + apply andb_false_r.
Qed.

Lemma fcontains_lor : forall fl a b,
  fcontains fl (N.lor a b) = fcontains fl a && fcontains fl b.
Proof.
  intros. apply eq_true_iff_eq. rewrite andb_true_iff, !fcontains_iff. split.
  - intros H. split; intros i Hi; apply H; rewrite N.lor_spec, Hi; auto using orb_true_r.
  - intros [Ha Hb] i Hi. rewrite N.lor_spec in Hi. apply orb_true_iff in Hi. destruct Hi; auto.
Qed.

Lemma fcontains_ldiff_false : forall fl k m i,
  N.testbit k i = true -> N.testbit m i = true -> fcontains (N.ldiff fl k) m = false.
Proof.
  intros fl k m i Hk Hm. destruct (fcontains (N.ldiff fl k) m) eqn:E; auto.
  rewrite fcontains_iff in E. specialize (E i Hm). rewrite N.ldiff_spec, Hk in E.
  rewrite andb_false_r in E. discriminate.
Qed.

(* ALL_READY is the union of the three flags -- re-checked against the regenerated constants *)
Lemma all_is_union : F_ALL = N.lor F_R (N.lor F_K F_L).
Proof. reflexivity. Qed.

Lemma line_order_ok : Consts.provision_line_order = map mod_flag all_modules.
Proof. reflexivity. Qed.

(* key_latch_ready_state_reset can never leave the flags ALL_READY *)
Lemma reset_never_all : forall fl, fcontains (N.ldiff fl F_K) F_ALL = false.
Proof. intro fl. apply (fcontains_ldiff_false fl F_K F_ALL 1%N); reflexivity. Qed.

Lemma missing_nil_iff : forall fl, missing fl = [] <-> fcontains fl F_ALL = true.
Proof.
  intro fl. rewrite all_is_union, !fcontains_lor. unfold missing, all_modules. simpl.
  destruct (fcontains fl F_R), (fcontains fl F_K), (fcontains fl F_L); simpl; split; intro H;
    try reflexivity; try discriminate.
Qed.

Lemma line_nonempty : forall m s, line m s <> [].
Proof. intros m s. unfold line. destruct m; simpl; discriminate. Qed.

(* ========================================================================================== *)
(* 2. history                                                                                   *)
(* ========================================================================================== *)
Definition hist_bounded (h : list hentry) (now : Z) : Prop :=
  Forall (fun e => 0 < fst (fst e) <= now) h.

Lemma flags_at_newer : forall t0 fl b h t, t < t0 -> flags_at ((t0, fl, b) :: h) t = flags_at h t.
Proof. intros. simpl. destruct (Z.leb_spec t0 t); auto; lia. Qed.

Lemma flags_at_head : forall t0 fl b h t, t0 <= t -> flags_at ((t0, fl, b) :: h) t = fl.
Proof. intros. simpl. destruct (Z.leb_spec t0 t); auto; lia. Qed.

Lemma timeup_at_newer : forall t0 fl b h t, t < t0 -> timeup_at ((t0, fl, b) :: h) t = timeup_at h t.
Proof.
  intros. unfold timeup_at. simpl. destruct (Z.eqb_spec t0 t); simpl; auto; lia.
Qed.

Lemma timeup_at_head : forall t0 fl h, timeup_at ((t0, fl, true) :: h) t0 = true.
Proof. intros. unfold timeup_at. simpl. rewrite Z.eqb_refl. reflexivity. Qed.

(* after the last recorded instant the flags do not change *)
Lemma flags_at_late : forall h now t, hist_bounded h now -> now <= t -> flags_at h t = flags_at h now.
Proof.
  intros h now t Hb Ht. destruct h as [|[[t0 fl] b] h']; simpl; auto.
  inversion Hb; subst. simpl in *.
  destruct (Z.leb_spec t0 t), (Z.leb_spec t0 now); auto; lia.
Qed.

(* the strong justification of a tick value: it is zero, or it is an instant at which all three
   were ready or the deadline handler stamped *)
Definition jstrong (h : list hentry) (now tk : Z) : Prop :=
  tk = 0 \/ (0 < tk <= now /\ (all_ready_at h tk = true \/ timeup_at h tk = true)).

(* the weak one: some past instant at which all three were ready or the deadline passed *)
Definition jweak (h : list hentry) (now tk : Z) : Prop :=
  tk = 0 \/ exists t, 0 < t <= now /\ (all_ready_at h t = true \/ timeup_at h t = true).

(* how the ghost part of the world may evolve in one step *)
Definition ext (w w' : world) : Prop :=
  w_now w < w_now w' /\
  (w_hist w' = w_hist w \/ exists fl b, w_hist w' = (w_now w', fl, b) :: w_hist w) /\
  (w_stale w' = false -> w_stale w = false) /\
  (w_overlap w' = false -> w_overlap w = false).

Lemma ext_ar : forall w w' t, ext w w' -> t <= w_now w ->
  all_ready_at (w_hist w') t = all_ready_at (w_hist w) t.
Proof.
  intros w w' t (Hn & [Hh|(fl & b & Hh)] & _) Ht; rewrite Hh; auto.
  unfold all_ready_at. rewrite flags_at_newer; auto. lia.
Qed.

Lemma ext_tu : forall w w' t, ext w w' -> t <= w_now w ->
  timeup_at (w_hist w') t = timeup_at (w_hist w) t.
Proof.
  intros w w' t (Hn & [Hh|(fl & b & Hh)] & _) Ht; rewrite Hh; auto.
  rewrite timeup_at_newer; auto. lia.
Qed.

Lemma ext_jstrong : forall w w' tk, ext w w' ->
  jstrong (w_hist w) (w_now w) tk -> jstrong (w_hist w') (w_now w') tk.
Proof.
  intros w w' tk He [->|[Hr Hj]]; [left; auto|right].
  pose proof He as (Hn & _). split; [lia|].
  rewrite (ext_ar w w'), (ext_tu w w') by (auto; lia). exact Hj.
Qed.

Lemma ext_jweak : forall w w' tk, ext w w' ->
  jweak (w_hist w) (w_now w) tk -> jweak (w_hist w') (w_now w') tk.
Proof.
  intros w w' tk He [->|(t & Hr & Hj)]; [left; auto|right].
  pose proof He as (Hn & _). exists t. split; [lia|].
  rewrite (ext_ar w w'), (ext_tu w w') by (auto; lia). exact Hj.
Qed.

Lemma jstrong_weak : forall h now tk, jstrong h now tk -> jweak h now tk.
Proof. intros h now tk [->|[Hr Hj]]; [left; auto|right; eauto]. Qed.

(* well-formedness of the clock / history / tick *)
Definition wt (w : world) : Prop :=
  0 <= w_now w /\ hist_bounded (w_hist w) (w_now w) /\
  (w_tick w = 0 \/ 0 < w_tick w <= w_now w) /\
  flags_at (w_hist w) (w_now w) = w_flags w.

Lemma hist_bounded_mono : forall h n n', hist_bounded h n -> n <= n' -> hist_bounded h n'.
Proof.
  unfold hist_bounded. intros h n n' H Hn. rewrite Forall_forall in *. intros e He.
  specialize (H e He). lia.
Qed.

(* case analysis over the message, opening the three file-system handlers *)
Ltac handle_open w :=
  simpl;
  try (progress unfold h_open_tmp;
       destruct (v_lock _ && match w_owner w with Some _ => true | None => false end);
       [|destruct (f_tmp (w_fs w))]);
  try (progress unfold h_write_next; destruct (lookupN _ (f_fds (w_fs w))) as [[[? ?] ?]|];
       [destruct (nth_error _ _)|]);
  try (progress unfold h_rename; destruct (f_tmp (w_fs w)));
  simpl.
Ltac handle_cases w m := destruct m; handle_open w.

Lemma handle_ext : forall v tid w m, ext w (fst (handle v tid w m)).
Proof.
  intros v tid w m. unfold ext.
  handle_cases w m; repeat split; try lia; eauto;
    try (intro H; apply orb_false_iff in H; tauto).
Qed.

Lemma handle_now : forall v tid w m, w_now (fst (handle v tid w m)) = w_now w + 4.
Proof.
  intros v tid w m.
  handle_cases w m; reflexivity.
Qed.

Lemma wt_step : forall v tid w m, wt w -> wt (fst (handle v tid w m)).
Proof.
  intros v tid w m (Hn & Hb & Htk & Hfl).
  assert (Hb' : hist_bounded (w_hist w) (w_now w + 4)) by (eapply hist_bounded_mono; eauto; lia).
  assert (Hfl' : flags_at (w_hist w) (w_now w + 4) = w_flags w)
    by (rewrite (flags_at_late _ (w_now w)); auto; lia).
  assert (Htk' : w_tick w = 0 \/ 0 < w_tick w <= w_now w + 4) by lia.
  unfold wt.
  handle_cases w m; repeat split; auto; try lia;
    try (constructor; simpl; [lia|assumption]);
    try (destruct (Z.leb_spec (w_now w + 4) (w_now w + 4)); [reflexivity|lia]).
  - destruct (v_atomic v && fcontains (N.lor (w_flags w) f) F_ALL); lia.
  - destruct (v_atomic v && negb (fcontains (N.ldiff (w_flags w) f) F_ALL)); lia.
  - destruct b; lia.
Qed.

Lemma wt_init : forall evt msgs chan tag0, wt (init_world evt msgs chan tag0).
Proof. intros. unfold wt; simpl. repeat split; try lia; auto. constructor. Qed.

(* ========================================================================================== *)
(* 3. no lost update                                                                            *)
(* ========================================================================================== *)
(* the effect of one message on the flags: UpdateState = OR, ResetState = AND-NOT *)
Definition apply_flags (m : msg) (fl : N) : N :=
  match m with
  | UpdateState f => N.lor fl f
  | ResetState f => N.ldiff fl f
  | _ => fl
  end.

Definition flags_of_trace (tr : list (event msg reply)) : N :=
  fold_right (fun e fl => apply_flags (ev_msg e) fl) 0%N tr.

Lemma handle_flags : forall v tid w m, w_flags (fst (handle v tid w m)) = apply_flags m (w_flags w).
Proof.
  intros v tid w m.
  handle_cases w m; reflexivity.
Qed.

Lemma state_after_flags : forall v w0 tr,
  w_flags w0 = 0%N ->
  w_flags (state_after (handle v) w0 tr) = flags_of_trace tr.
Proof.
  intros v w0 tr H0. induction tr as [|e tr IH]; simpl; auto.
  rewrite handle_flags, IH. reflexivity.
Qed.

(* flags in every reachable configuration = OR of the reports minus the resets, in actor order;
   for ANY client programs, not only the code's *)
Theorem no_lost_update : forall v w0 (ps : list pprog) sched,
  w_flags w0 = 0%N ->
  let c := run (handle v) (init w0 ps) sched in
  w_flags (shared c) = flags_of_trace (trace c).
Proof.
  intros v w0 ps sched H0 c. unfold c.
  rewrite (shared_is_fold (handle v)). now apply state_after_flags.
Qed.

(* ... and the value returned to the caller of UpdateState / ResetState / GetState is exactly the
   flags after that message: the ALL_READY test is made on an atomic snapshot *)
Theorem reply_is_flags_then : forall v w0 (ps : list pprog) sched tr1 e tr2,
  w_flags w0 = 0%N ->
  trace (run (handle v) (init w0 ps) sched) = tr1 ++ e :: tr2 ->
  match ev_msg e with
  | UpdateState _ | ResetState _ | GetState => ev_reply e = RFlags (flags_of_trace (e :: tr2))
  | _ => True
  end.
Proof.
  intros v w0 ps sched tr1 e tr2 H0 Htr.
  pose proof (valid_trace_run (handle v) w0 ps sched) as Hv.
  pose proof (valid_trace_inv (handle v) _ _ _ Hv _ _ _ Htr) as Hr.
  pose proof (state_after_flags v w0 tr2 H0) as Hf.
  destruct e as [t m r]; simpl in *. subst r.
  destruct m; simpl; auto; rewrite <- Hf; reflexivity.
Qed.

(* a report is never lost: a flag reported by a processed UpdateState stays set until a later
   ResetState names it *)
Fixpoint no_reset_of (f : N) (tr : list (event msg reply)) : Prop :=
  match tr with
  | [] => True
  | e :: tl => match ev_msg e with
               | ResetState g => N.land g f = 0%N
               | _ => True
               end /\ no_reset_of f tl
  end.

Lemma fcontains_lor_r : forall fl f, fcontains (N.lor fl f) f = true.
Proof.
  intros. rewrite fcontains_iff. intros i Hi. rewrite N.lor_spec, Hi. apply orb_true_r.
Qed.

Lemma fcontains_ldiff_keep : forall fl g f,
  N.land g f = 0%N -> fcontains fl f = true -> fcontains (N.ldiff fl g) f = true.
Proof.
  intros fl g f Hd Hc. rewrite fcontains_iff in *. intros i Hi.
  rewrite N.ldiff_spec, (Hc i Hi). simpl.
  assert (N.testbit (N.land g f) i = false) by (rewrite Hd; apply N.bits_0).
  rewrite N.land_spec, Hi, andb_true_r in H. now rewrite H.
Qed.

Lemma fcontains_lor_keep : forall fl g f, fcontains fl f = true -> fcontains (N.lor fl g) f = true.
Proof.
  intros fl g f Hc. rewrite fcontains_iff in *. intros i Hi. rewrite N.lor_spec, (Hc i Hi). reflexivity.
Qed.

Theorem report_survives : forall tr1 e tr2 f,
  ev_msg e = UpdateState f -> no_reset_of f tr1 ->
  fcontains (flags_of_trace (tr1 ++ e :: tr2)) f = true.
Proof.
  induction tr1 as [|e1 tr1 IH]; intros e tr2 f He Hn; simpl.
  - rewrite He. simpl. apply fcontains_lor_r.
  - destruct Hn as [H1 Hn]. specialize (IH e tr2 f He Hn).
    destruct (ev_msg e1); simpl; auto.
    + now apply fcontains_lor_keep.
    + now apply fcontains_ldiff_keep.
Qed.

(* ========================================================================================== *)
(* 4. the monitor: abstract local state of a client task                                        *)
(* ========================================================================================== *)
Inductive wk := WUpdate | WTimeup.                     (* who called write_provision_state *)
Inductive fctx := FQuery (q tk : Z) | FWrite (w : wk). (* who called get_provision_failed_state_message *)

Inductive lstate :=
| LDone
| LUpd0                                   (* update_provision_state: before UpdateState *)
| LUpdSawAll                              (* saw ALL_READY, SetProvisionFinished(true) not yet sent *)
| LProv (w : wk)                          (* write_provision_state: before creating provisioned.tag *)
| LGetState (c : fctx)                    (* get_provision_failed_state_message: before GetState *)
| LLines (c : fctx) (fl : N) (ms : list module) (acc : bytes)      (* before GetState of module hd ms *)
| LLines2 (c : fctx) (fl : N) (m : module) (ms : list module) (acc : bytes) (* before GetStatusMessage *)
| LWriting (w : wk) (fd : N) (n : nat)    (* status.tag.tmp open, n bytes still to write, then rename *)
| LEvt0 | LEvt1                           (* start_event_threads *)
| LReset0 | LReset1 (b : bool)
| LTimeup0 | LTimeup1
| LQCreate (k : qkind) | LQ1 (q : Z)
| LQDone (q tk : Z) (fl : N) (err : bytes) (la : bool)
| LSetChan0 (c : bytes) | LSetChan1
| LSetMsg0.

Definition after_write (w : wk) : lstate := match w with WUpdate => LEvt0 | WTimeup => LDone end.

Definition mon_lines (c : fctx) (fl : N) (ms : list module) (acc : bytes) (m : msg) (r : reply)
  : option lstate :=
  match ms with
  | m1 :: ms' =>
      match m with
      | GetModState m' => if module_eqb m1 m' then Some (LLines2 c fl m1 ms' acc) else None
      | _ => None
      end
  | [] =>
      match c, m with
      | FWrite w, FsOpenTmp content =>
          match r with RFd fd => Some (LWriting w fd (length content)) | _ => Some LDone end
      | FQuery q tk, GetChan => Some (LQDone q tk fl acc (latched (as_bytes r)))
      | _, _ => None
      end
  end.

Definition mon (v : variant) (q : lstate) (m : msg) (r : reply) : option lstate :=
  match q, m with
  | LUpd0, UpdateState _ =>
      if fcontains (as_flags r) F_ALL
      then (if v_atomic v then Some (LProv WUpdate) else Some LUpdSawAll)
      else Some LDone
  | LUpdSawAll, SetFinished true OUpdate => Some (LProv WUpdate)
  | LProv w, FsCreateProvisioned => Some (LGetState (FWrite w))
  | LGetState c, GetState => Some (LLines c (as_flags r) (missing (as_flags r)) [])
  | LLines c fl ms acc, _ => mon_lines c fl ms acc m r
  | LLines2 c fl m1 ms acc, GetModMsg m' =>
      if module_eqb m1 m' then Some (LLines c fl ms (acc ++ line m1 (as_bytes r))) else None
  | LWriting w fd (S n), FsWriteNext fd' => if N.eqb fd fd' then Some (LWriting w fd n) else None
  | LWriting w fd O, FsRenameTmpTag => Some (after_write w)
  | LEvt0, GetEvtInit => Some (if as_bool r then LDone else LEvt1)
  | LEvt1, SetEvtInit => Some LDone
  | LReset0, ResetState f =>
      if N.eqb f F_K
      then (if v_atomic v then Some LDone else Some (LReset1 (fcontains (as_flags r) F_ALL)))
      else None
  | LReset1 b, SetFinished b' OReset => if Bool.eqb b b' then Some LDone else None
  | LTimeup0, GetState => if fcontains (as_flags r) F_ALL then Some LDone else Some LTimeup1
  | LTimeup1, SetFinished true OTimeup => Some (LProv WTimeup)
  | LQCreate (QConst q), ClockRead => Some (LQ1 q)
  | LQCreate QNow, ClockRead => Some (LQ1 (as_tick r))
  | LQCreate (QTick d), GetFinished => Some (LQ1 (as_tick r + d))
  | LQ1 q, GetFinished => Some (LGetState (FQuery q (as_tick r)))
  | LSetChan0 c, GetChan => if beq (as_bytes r) c then Some LDone else Some LSetChan1
  | LSetChan1, SetChan _ => Some LDone
  | LSetMsg0, SetModMsg _ _ => Some LDone
  | _, _ => None
  end.

(* what a returned result must be in each final abstract state *)
Definition retP (v : variant) (q : lstate) (a : result) : Prop :=
  match q, a with
  | LDone, RDone => True
  | LQDone q tk fl err la, RQuery fin err' q' tk' fl' la' =>
      fin = finished_formula v tk q la /\ err' = err /\ q' = q /\ tk' = tk /\ fl' = fl /\ la' = la
  | _, _ => False
  end.

Definition lstate_of (o : op) : lstate :=
  match o with
  | OpReport _ => LUpd0
  | OpReset => LReset0
  | OpTimeup => LTimeup0
  | OpQuery k => LQCreate k
  | OpSetChan c => LSetChan0 c
  | OpSetMsg _ _ => LSetMsg0
  end.

Notation pfollows v := (follows (mon v) (retP v)).

Lemma module_eqb_refl : forall m, module_eqb m m = true.
Proof. destruct m; reflexivity. Qed.

Lemma module_eqb_eq : forall a b, module_eqb a b = true -> a = b.
Proof. destruct a, b; simpl; congruence. Qed.

Ltac fstep := apply fo_call; intro; eexists; split; [simpl; try reflexivity|].

Lemma follows_lines : forall v c fl ms acc (k : bytes -> pprog),
  (forall acc', pfollows v (LLines c fl [] acc') (k acc')) ->
  pfollows v (LLines c fl ms acc) (p_lines ms acc k).
Proof.
  intros v c fl ms. induction ms as [|m ms IH]; intros acc k Hk; simpl; auto.
  fstep. { rewrite module_eqb_refl. reflexivity. }
  fstep. { rewrite module_eqb_refl. reflexivity. }
  apply IH. exact Hk.
Qed.

Lemma follows_failed_msg : forall v c (k : N -> bytes -> pprog),
  (forall fl acc, pfollows v (LLines c fl [] acc) (k fl acc)) ->
  pfollows v (LGetState c) (p_failed_msg k).
Proof.
  intros v c k Hk. unfold p_failed_msg. fstep. apply follows_lines. intro. apply Hk.
Qed.

Lemma follows_write_loop : forall v w fd n (k : pprog),
  pfollows v (after_write w) k -> pfollows v (LWriting w fd n) (p_write_loop fd n k).
Proof.
  intros v w fd n k Hk. induction n; simpl.
  - fstep. exact Hk.
  - fstep. { rewrite N.eqb_refl. reflexivity. } exact IHn.
Qed.

Lemma follows_write_state : forall v w (k : pprog),
  pfollows v (after_write w) k -> pfollows v (LProv w) (p_write_state k).
Proof.
  intros v w k Hk. unfold p_write_state. fstep.
  apply follows_failed_msg. intros fl acc. apply fo_call. intro ro.
  destruct ro; eexists; (split; [reflexivity|]); try (apply fo_ret; exact I).
  apply follows_write_loop. exact Hk.
Qed.

Lemma follows_evt : forall v, pfollows v LEvt0 (p_start_event_threads (Ret RDone)).
Proof.
  intro v. unfold p_start_event_threads. fstep.
  destruct (as_bool r).
  - apply fo_ret. exact I.
  - fstep. apply fo_ret. exact I.
Qed.

Lemma follows_query_body : forall v q, pfollows v (LQ1 q) (p_query_body v q).
Proof.
  intros v q. unfold p_query_body. fstep.
  apply follows_failed_msg. intros fl acc. fstep.
  apply fo_ret. simpl. repeat split; reflexivity.
Qed.

Theorem follows_prog_of : forall v o, pfollows v (lstate_of o) (prog_of v o).
Proof.
  intros v o. destruct o; simpl.
  - (* report *) unfold p_update. apply fo_call. intro r. simpl.
    destruct (fcontains (as_flags r) F_ALL).
    + destruct (v_atomic v); eexists; (split; [reflexivity|]).
      * apply follows_write_state. apply follows_evt.
      * fstep. apply follows_write_state. apply follows_evt.
    + eexists; split; [reflexivity|]. apply fo_ret. exact I.
  - (* reset *) unfold p_reset. apply fo_call. intro r. simpl. try rewrite N.eqb_refl.
    destruct (v_atomic v); eexists; (split; [reflexivity|]).
    + apply fo_ret. exact I.
    + fstep. { rewrite Bool.eqb_reflx. reflexivity. } apply fo_ret. exact I.
  - (* timeup *) unfold p_timeup. apply fo_call. intro r. simpl.
    destruct (fcontains (as_flags r) F_ALL); eexists; (split; [reflexivity|]).
    + apply fo_ret. exact I.
    + fstep. apply follows_write_state. apply fo_ret. exact I.
  - (* query *) destruct k; simpl; fstep; apply follows_query_body.
  - (* setchan *) unfold p_setchan. apply fo_call. intro r. simpl.
    destruct (beq (as_bytes r) c); eexists; (split; [reflexivity|]).
    + apply fo_ret. exact I.
    + fstep. apply fo_ret. exact I.
  - (* setmsg *) unfold p_setmsg. fstep. apply fo_ret. exact I.
Qed.

Lemma follows_start : forall v ops,
  Forall2 (pfollows v) (map lstate_of ops) (map (prog_of v) ops).
Proof.
  intros v ops. induction ops; simpl; constructor; auto. apply follows_prog_of.
Qed.

(* ========================================================================================== *)
(* 5. the invariant                                                                             *)
(* ========================================================================================== *)
(* a tick value some task holds is (as long as no stale stamp happened) zero or the instant of an
   all-ready / deadline event *)
Definition tk_ok (w : world) (tk : Z) : Prop :=
  w_stale w = false -> jstrong (w_hist w) (w_now w) tk.

(* a flags value some task holds was the flags in effect at some past instant *)
Definition snap_ok (w : world) (fl : N) : Prop :=
  exists t0, 0 < t0 <= w_now w /\ flags_at (w_hist w) t0 = fl.

(* the text accumulated so far consists of the lines of the modules already read, which together
   with the modules still to read are exactly the modules missing in the snapshot, in order *)
Definition text_of (reads : list (module * bytes)) : bytes :=
  flat_map (fun p => line (fst p) (snd p)) reads.

Definition reads_ok (fl : N) (ms : list module) (acc : bytes) : Prop :=
  exists reads, map fst reads ++ ms = missing fl /\ acc = text_of reads.

Definition ctx_ok (w : world) (c : fctx) : Prop :=
  match c with FQuery _ tk => tk_ok w tk | FWrite _ => True end.

Definition local_ok (v : variant) (w : world) (q : lstate) : Prop :=
  match q with
  | LUpdSawAll =>
      v_atomic v = false /\
      exists t0, 0 < t0 <= w_now w /\ all_ready_at (w_hist w) t0 = true
  | LReset1 b => b = false
  | LGetState c => ctx_ok w c
  | LLines c fl ms acc => ctx_ok w c /\ snap_ok w fl /\ reads_ok fl ms acc
  | LLines2 c fl m ms acc => ctx_ok w c /\ snap_ok w fl /\ reads_ok fl (m :: ms) acc
  | LQDone _ tk fl err _ => tk_ok w tk /\ snap_ok w fl /\ reads_ok fl [] err
  | _ => True
  end.

Definition wtick (v : variant) (w : world) : Prop :=
  wt w /\ tk_ok w (w_tick w) /\ jweak (w_hist w) (w_now w) (w_tick w) /\
  (v_atomic v = true -> w_stale w = false).

Lemma ext_flags_at : forall w w' t, ext w w' -> t <= w_now w ->
  flags_at (w_hist w') t = flags_at (w_hist w) t.
Proof.
  intros w w' t (Hn & [Hh|(fl & b & Hh)] & _) Ht; rewrite Hh; auto.
  rewrite flags_at_newer; auto. lia.
Qed.

Lemma ext_tk_ok : forall w w' tk, ext w w' -> tk_ok w tk -> tk_ok w' tk.
Proof.
  intros w w' tk He H Hs. pose proof He as (_ & _ & Hst & _).
  eapply ext_jstrong; eauto.
Qed.

Lemma ext_snap_ok : forall w w' fl, ext w w' -> snap_ok w fl -> snap_ok w' fl.
Proof.
  intros w w' fl He (t0 & Hr & Hf). pose proof He as (Hn & _).
  exists t0. split; [lia|]. rewrite (ext_flags_at w w'); auto. lia.
Qed.

Lemma ext_ctx_ok : forall w w' c, ext w w' -> ctx_ok w c -> ctx_ok w' c.
Proof. intros w w' [q tk|wk] He H; simpl in *; auto. eapply ext_tk_ok; eauto. Qed.

Lemma local_ok_ext : forall v w w' q, ext w w' -> local_ok v w q -> local_ok v w' q.
Proof.
  intros v w w' q He H. pose proof He as (Hn & _).
  destruct q; simpl in *; auto.
  - destruct H as (Ha & t0 & Hr & Har). split; auto. exists t0. split; [lia|].
    rewrite (ext_ar w w'); auto. lia.
  - eauto using ext_ctx_ok.
  - destruct H as (H1 & H2 & H3). eauto using ext_ctx_ok, ext_snap_ok.
  - destruct H as (H1 & H2 & H3). eauto using ext_ctx_ok, ext_snap_ok.
  - destruct H as (H1 & H2 & H3). eauto using ext_tk_ok, ext_snap_ok.
Qed.

(* the snapshot a GetState-like reply hands out *)
Lemma snap_now : forall v tid w m, wt w ->
  snap_ok (fst (handle v tid w m)) (w_flags (fst (handle v tid w m))).
Proof.
  intros v tid w m Hw. pose proof (wt_step v tid w m Hw) as (Hn & Hb & _ & Hf).
  exists (w_now (fst (handle v tid w m))). split; auto.
  rewrite handle_now in *. destruct Hw as (Hn0 & _). lia.
Qed.

(* steps that leave tick and stale alone *)
Lemma wtick_frame : forall v w w',
  wt w' -> ext w w' -> w_tick w' = w_tick w -> w_stale w' = w_stale w ->
  wtick v w -> wtick v w'.
Proof.
  intros v w w' Hw' He Htk Hst (Hw & Hok & Hjw & Hat).
  unfold wtick. split; [exact Hw'|]. unfold tk_ok. rewrite Htk, Hst. split; [|split]; auto.
  - intro Hs. eapply ext_jstrong; eauto.
  - eapply ext_jweak; eauto.
Qed.

Lemma all_ready_head : forall t fl b h, fcontains fl F_ALL = true -> all_ready_at ((t, fl, b) :: h) t = true.
Proof. intros. unfold all_ready_at. rewrite flags_at_head; auto. lia. Qed.

(* eliminate the impossible (state, message) pairs *)
Ltac mon_kill Hmon :=
  simpl in Hmon; try discriminate; try (unfold mon_lines in Hmon);
  repeat match type of Hmon with
         | context [match ?x with _ => _ end] =>
             (is_var x; destruct x) || destruct x eqn:?; simpl in Hmon; try discriminate
         end.

(* (A) the world part *)
Ltac proj := cbn [w_now w_hist w_tick w_stale w_flags w_fs w_owner w_intent w_overlap w_pub w_evt w_msg w_chan].

Lemma wtick_step : forall v tid w q m q',
  wtick v w -> local_ok v w q ->
  mon v q m (snd (handle v tid w m)) = Some q' ->
  wtick v (fst (handle v tid w m)).
Proof.
  intros v tid w q m q' HW Hq Hmon.
  pose proof HW as (Hw & Hok & Hjw & Hat).
  pose proof (wt_step v tid w m Hw) as Hw'.
  pose proof (handle_ext v tid w m) as He.
  pose proof Hw as (Hn0 & _).
  destruct m;
    try (apply (wtick_frame v w); auto; handle_open w; reflexivity).
  - (* UpdateState *)
    unfold wtick. split; [exact Hw'|]. simpl in *.
    destruct (v_atomic v && fcontains (N.lor (w_flags w) f) F_ALL) eqn:E.
    + apply andb_true_iff in E. destruct E as [_ E].
      split; [|split]; auto.
      * intros _. right. cbn [w_now w_hist w_tick w_stale w_flags]. split; [lia|]. left. now apply all_ready_head.
      * right. exists (w_now w + 4). cbn [w_now w_hist w_tick w_stale w_flags]. split; [lia|]. left. now apply all_ready_head.
    + split; [|split]; auto.
      * intro Hs. exact (ext_jstrong w _ _ He (Hok Hs)).
      * exact (ext_jweak w _ _ He Hjw).
  - (* ResetState *)
    unfold wtick. split; [exact Hw'|]. simpl in *.
    destruct (v_atomic v && negb (fcontains (N.ldiff (w_flags w) f) F_ALL)) eqn:E.
    + split; [|split]; auto; intros; left; reflexivity.
    + split; [|split]; auto.
      * intro Hs. exact (ext_jstrong w _ _ He (Hok Hs)).
      * exact (ext_jweak w _ _ He Hjw).
  - (* SetFinished *)
    unfold wtick. split; [exact Hw'|]. unfold tk_ok.
    destruct q; mon_kill Hmon.
    + (* the update path stamps *)
      simpl in Hq. destruct Hq as (Hna & t0 & Hr & Har). simpl.
      split; [|split].
      * intro Hs. apply orb_false_iff in Hs. destruct Hs as [_ Hs].
        apply negb_false_iff in Hs.
        right. split; [lia|]. left. now apply all_ready_head.
      * right. exists t0. split; [lia|]. left.
        unfold all_ready_at in *. rewrite flags_at_newer; auto. lia.
      * congruence.
    + (* the reset path zeroes *)
      simpl in Hq. subst b0. destruct b; simpl in *; try discriminate.
      split; [|split]; try (intros; left; reflexivity).
      rewrite orb_false_r. exact Hat.
    + (* the deadline handler stamps *)
      simpl.
      split; [|split].
      * intros _. right. split; [lia|]. right. apply timeup_at_head.
      * right. exists (w_now w + 4). split; [lia|]. right. apply timeup_at_head.
      * rewrite orb_false_r. exact Hat.
Qed.

Lemma text_of_snoc : forall reads m s, text_of (reads ++ [(m, s)]) = text_of reads ++ line m s.
Proof. intros. unfold text_of. rewrite flat_map_app. simpl. now rewrite app_nil_r. Qed.

(* (B) the stepping task's own abstract state *)
Lemma local_step : forall v tid w q m q',
  wtick v w -> local_ok v w q ->
  mon v q m (snd (handle v tid w m)) = Some q' ->
  local_ok v (fst (handle v tid w m)) q'.
Proof.
  intros v tid w q m q' HW Hq Hmon.
  pose proof HW as (Hw & Hok & Hjw & Hat).
  pose proof (handle_ext v tid w m) as He.
  pose proof (snap_now v tid w m Hw) as Hsnap.
  pose proof Hw as (Hn0 & _).
  destruct q; mon_kill Hmon; inversion Hmon; subst; clear Hmon; try exact I.
  all: try (destruct w0; exact I).
  - (* saw ALL_READY *)
    simpl. split.
    + match goal with H : v_atomic v = false |- _ => exact H end.
    + exists (w_now w + 4). split; [lia|]. apply all_ready_head.
      match goal with H : fcontains _ F_ALL = true |- _ => exact H end.
  - (* the single flags snapshot *)
    simpl in Hq. simpl. split; [|split].
    + exact (ext_ctx_ok w _ c He Hq).
    + exact Hsnap.
    + exists []. split; reflexivity.
  - (* query done *)
    simpl in Hq. destruct Hq as (H1 & H2 & H3). simpl. split; [|split].
    + exact (ext_tk_ok w _ tk He H1).
    + exact (ext_snap_ok w _ fl He H2).
    + exact H3.
  - (* module state read *)
    simpl in Hq. destruct Hq as (H1 & H2 & H3).
    match goal with H : module_eqb _ _ = true |- _ => apply module_eqb_eq in H; subst end.
    simpl. split; [|split].
    + exact (ext_ctx_ok w _ c He H1).
    + exact (ext_snap_ok w _ fl He H2).
    + exact H3.
  - (* module message read *)
    simpl in Hq. destruct Hq as (H1 & H2 & (reads & Hr1 & Hr2)).
    match goal with H : module_eqb _ _ = true |- _ => apply module_eqb_eq in H; subst end.
    simpl. split; [|split].
    + exact (ext_ctx_ok w _ c He H1).
    + exact (ext_snap_ok w _ fl He H2).
    + exists (reads ++ [(m, w_msg w m)]). split.
      * rewrite map_app, <- app_assoc. exact Hr1.
      * now rewrite text_of_snoc.
  - (* a reset never yields ALL_READY *)
    simpl.
    match goal with H : N.eqb _ _ = true |- _ => apply N.eqb_eq in H; subst end.
    apply reset_never_all.
  - (* the tick a query reads *)
    simpl. exact (ext_tk_ok w _ _ He Hok).
Qed.

(* ---------------- the files ---------------- *)
Lemma lookupN_set_data_same : forall i d l, lookupN i (set_data i d l) = Some d.
Proof.
  intros i d l. induction l as [|[k x] tl IH]; simpl.
  - now rewrite N.eqb_refl.
  - destruct (N.eqb i k) eqn:E; simpl; rewrite ?N.eqb_refl, ?E; auto.
Qed.

Lemma lookupN_set_data_other : forall i j d l, i <> j -> lookupN i (set_data j d l) = lookupN i l.
Proof.
  intros i j d l Hne. induction l as [|[k x] tl IH]; simpl.
  - destruct (N.eqb_spec i j); congruence.
  - destruct (N.eqb_spec j k); simpl.
    + subst. destruct (N.eqb_spec i k); congruence.
    + destruct (N.eqb_spec i k); auto.
Qed.

Lemma firstn_S_nth : forall {X} (l : list X) n x, nth_error l n = Some x -> firstn (S n) l = firstn n l ++ [x].
Proof.
  induction l; intros n x H; destruct n; simpl in *; try discriminate.
  - inversion H; reflexivity.
  - f_equal. now apply IHl.
Qed.

Lemma write_at_firstn : forall buf off b,
  nth_error buf off = Some b -> write_at (firstn off buf) off b = firstn (S off) buf.
Proof.
  intros buf off b H. unfold write_at.
  assert (Hl : (off < length buf)%nat) by (apply nth_error_Some; congruence).
  rewrite firstn_length_le by lia. rewrite Nat.ltb_irrefl, Nat.sub_diag. simpl.
  symmetry. now apply firstn_S_nth.
Qed.

Definition is_writing (q : lstate) : bool := match q with LWriting _ _ _ => true | _ => false end.

(* while no two writers overlapped: status.tag shows the last published complete content; the one
   writer in progress owns a temp inode distinct from status.tag holding a prefix of its content *)
Definition fs_ok (w : world) (qs : list lstate) : Prop :=
  w_overlap w = false ->
  tag_content w = w_pub w /\
  (forall t wk fd n, nth_error qs t = Some (LWriting wk fd n) ->
     w_owner w = Some t /\
     exists j off,
       lookupN fd (f_fds (w_fs w)) = Some (j, off, w_intent w) /\
       f_tmp (w_fs w) = Some j /\ f_tag (w_fs w) <> Some j /\
       lookupN j (f_data (w_fs w)) = Some (firstn off (w_intent w)) /\
       (off + n = length (w_intent w))%nat) /\
  (forall t, w_owner w = Some t -> exists wk fd n, nth_error qs t = Some (LWriting wk fd n)) /\
  (forall j, f_tmp (w_fs w) = Some j -> f_tag (w_fs w) <> Some j /\ (j < f_next (w_fs w))%N) /\
  (forall i, f_tag (w_fs w) = Some i -> (i < f_next (w_fs w))%N).

Definition fs_same (w w' : world) : Prop :=
  f_tmp (w_fs w') = f_tmp (w_fs w) /\ f_tag (w_fs w') = f_tag (w_fs w) /\
  f_data (w_fs w') = f_data (w_fs w) /\ f_fds (w_fs w') = f_fds (w_fs w) /\
  f_next (w_fs w') = f_next (w_fs w) /\
  w_owner w' = w_owner w /\ w_intent w' = w_intent w /\ w_overlap w' = w_overlap w /\
  w_pub w' = w_pub w.

Lemma fs_frame : forall w w' qs tid q q',
  fs_same w w' -> is_writing q = false -> is_writing q' = false ->
  nth_error qs tid = Some q ->
  fs_ok w qs -> fs_ok w' (set_nth tid q' qs).
Proof.
  intros w w' qs tid q q' (E1 & E2 & E3 & E4 & E5 & E6 & E7 & E8 & E9) Hq Hq' Hn H Hov.
  rewrite E8 in Hov. destruct (H Hov) as (F1 & F2 & F3 & F4 & F5).
  unfold tag_content, file_content. rewrite E1, E2, E3, E4, E5, E6, E7, E9.
  split; [exact F1|]. split; [|split; [|split]]; auto.
  - intros t wk fd n Ht. destruct (Nat.eq_dec tid t) as [->|Hne].
    + rewrite nth_error_set_nth_same in Ht by (eapply nth_error_lt; eauto).
      inversion Ht; subst. discriminate.
    + rewrite nth_error_set_nth_other in Ht by assumption. eauto.
  - intros t Ht. destruct (F3 t Ht) as (wk & fd & n & Hw).
    destruct (Nat.eq_dec tid t) as [->|Hne].
    + rewrite Hn in Hw. inversion Hw; subst. discriminate.
    + exists wk, fd, n. now rewrite nth_error_set_nth_other.
Qed.

Lemma handle_fs_same : forall v tid w m,
  is_sync m = false \/ m = FsCreateProvisioned -> fs_same w (fst (handle v tid w m)).
Proof.
  intros v tid w m [H| ->]; [destruct m; try discriminate|]; simpl; unfold fs_same; simpl;
    repeat split; reflexivity.
Qed.

(* (C) the files *)
Lemma fs_step : forall v tid w qs q m q',
  fs_ok w qs -> nth_error qs tid = Some q ->
  mon v q m (snd (handle v tid w m)) = Some q' ->
  fs_ok (fst (handle v tid w m)) (set_nth tid q' qs).
Proof.
  intros v tid w qs q m q' Hfs Hn Hmon.
  assert (Hframe : is_sync m = false \/ m = FsCreateProvisioned ->
                   fs_ok (fst (handle v tid w m)) (set_nth tid q' qs)).
  { intro Hm. eapply fs_frame; eauto using handle_fs_same.
    - destruct q; try reflexivity. destruct n; mon_kill Hmon; destruct Hm; discriminate.
    - destruct q; mon_kill Hmon; inversion Hmon; subst; try reflexivity;
        try (destruct w0; reflexivity); destruct Hm; discriminate. }
  destruct m; try (apply Hframe; left; reflexivity); try (apply Hframe; right; reflexivity);
    clear Hframe.
  - (* open(status.tag.tmp, O_CREAT|O_TRUNC) *)
    destruct (v_lock v && match w_owner w with Some _ => true | None => false end) eqn:Eblk.
    { (* refused: another writer holds the lock; nothing changes, the task stops *)
      assert (Hh : handle v tid w (FsOpenTmp content) = (w_time w (w_now w + 4), RBool false)).
      { simpl. unfold h_open_tmp. rewrite Eblk. reflexivity. }
      rewrite Hh in *. simpl in Hmon.
      eapply fs_frame; eauto.
      - unfold fs_same; simpl; repeat split; reflexivity.
      - destruct q; try reflexivity. destruct n; simpl in Hmon; discriminate.
      - destruct q; mon_kill Hmon; inversion Hmon; reflexivity. }
    assert (Hr : snd (handle v tid w (FsOpenTmp content)) = RFd (f_next (w_fs w))).
    { simpl. unfold h_open_tmp. rewrite Eblk. destruct (f_tmp (w_fs w)); reflexivity. }
    rewrite Hr in Hmon.
    destruct q; mon_kill Hmon. inversion Hmon; subst; clear Hmon.
    intro Hov.
    assert (Hov0 : w_overlap w = false /\ w_owner w = None).
    { simpl in Hov. unfold h_open_tmp in Hov. rewrite Eblk in Hov.
      destruct (f_tmp (w_fs w)); simpl in Hov;
        apply orb_false_iff in Hov; destruct Hov as [Ho1 Ho2]; split; auto;
        destruct (w_owner w); [discriminate|reflexivity|discriminate|reflexivity]. }
    destruct Hov0 as [Hov0 Hown]. destruct (Hfs Hov0) as (F1 & F2 & F3 & F4 & F5).
    assert (Hnow : forall t wk fd n, nth_error qs t = Some (LWriting wk fd n) -> False).
    { intros t wk fd n Ht. destruct (F2 _ _ _ _ Ht) as [Ho _]. congruence. }
    (* the inode the open yields, and what we know about it *)
    set (ino := match f_tmp (w_fs w) with Some i => i | None => (f_next (w_fs w) + 1)%N end).
    set (nx := match f_tmp (w_fs w) with Some _ => (f_next (w_fs w) + 1)%N | None => (f_next (w_fs w) + 2)%N end).
    assert (Hw' : fst (handle v tid w (FsOpenTmp content)) =
                  w_files w (w_now w + 4)
                    {| f_prov := f_prov (w_fs w); f_tmp := Some ino; f_tag := f_tag (w_fs w);
                       f_data := set_data ino [] (f_data (w_fs w));
                       f_fds := (f_next (w_fs w), (ino, O, content)) :: f_fds (w_fs w); f_next := nx |}
                    (Some tid) content (w_overlap w || false) (w_pub w)).
    { simpl. unfold h_open_tmp, ino, nx. rewrite Eblk, Hown. destruct (f_tmp (w_fs w)); reflexivity. }
    assert (Hino_tag : f_tag (w_fs w) <> Some ino).
    { unfold ino. destruct (f_tmp (w_fs w)) as [i|] eqn:Et.
      - apply (F4 i eq_refl).
      - intro Ht. specialize (F5 _ Ht). lia. }
    assert (Hino_nx : (ino < nx)%N).
    { unfold ino, nx. destruct (f_tmp (w_fs w)) as [i|] eqn:Et; [|lia].
      destruct (F4 i eq_refl). lia. }
    assert (Hnx : (f_next (w_fs w) < nx)%N).
    { unfold nx. destruct (f_tmp (w_fs w)); lia. }
    rewrite Hw'. clearbody ino nx. clear Hw'.
    unfold tag_content, file_content. proj. simpl.
    split; [|split; [|split; [|split]]].
    + unfold tag_content, file_content in F1.
      destruct (f_tag (w_fs w)) as [k|] eqn:Etag; [|exact F1].
      rewrite lookupN_set_data_other by congruence. exact F1.
    + intros t wk fd n Ht. destruct (Nat.eq_dec tid t) as [->|Hne].
      * rewrite nth_error_set_nth_same in Ht by (eapply nth_error_lt; eauto).
        inversion Ht; subst. split; [reflexivity|].
        exists ino, O. rewrite N.eqb_refl, lookupN_set_data_same. repeat split; auto.
      * rewrite nth_error_set_nth_other in Ht by assumption. exfalso. eauto.
    + intros t Ht. inversion Ht; subst. eexists _, _, _.
      apply nth_error_set_nth_same. eapply nth_error_lt; eauto.
    + intros j Hj. inversion Hj; subst. split; auto.
    + intros k Hk. specialize (F5 _ Hk). lia.
  - (* write: the next byte of the buffer at this descriptor's offset *)
    destruct q; mon_kill Hmon. inversion Hmon; subst; clear Hmon.
    match goal with H : N.eqb _ _ = true |- _ => apply N.eqb_eq in H; subst end.
    intro Hov.
    assert (Hov0 : w_overlap w = false).
    { pose proof (handle_ext v tid w (FsWriteNext fd)) as (_ & _ & _ & Ho). auto. }
    destruct (Hfs Hov0) as (F1 & F2 & F3 & F4 & F5).
    destruct (F2 _ _ _ _ Hn) as (Hown & j & off & Hfd & Htmp & Htag & Hdata & Hlen).
    assert (Hb : exists b, nth_error (w_intent w) off = Some b).
    { destruct (nth_error (w_intent w) off) eqn:E; eauto.
      apply nth_error_None in E. lia. }
    destruct Hb as [b Hb].
    assert (Hw' : fst (handle v tid w (FsWriteNext fd)) =
                  w_files w (w_now w + 4)
                    {| f_prov := f_prov (w_fs w); f_tmp := f_tmp (w_fs w); f_tag := f_tag (w_fs w);
                       f_data := set_data j (firstn (S off) (w_intent w)) (f_data (w_fs w));
                       f_fds := (fd, (j, S off, w_intent w)) :: f_fds (w_fs w);
                       f_next := f_next (w_fs w) |}
                    (w_owner w) (w_intent w) (w_overlap w) (w_pub w)).
    { simpl. unfold h_write_next. rewrite Hfd, Hb, Hdata. rewrite (write_at_firstn _ _ _ Hb).
      reflexivity. }
    rewrite Hw'. clear Hw'.
    unfold tag_content, file_content. proj. simpl.
    split; [|split; [|split; [|split]]]; auto.
    + unfold tag_content, file_content in F1.
      destruct (f_tag (w_fs w)) as [k|] eqn:Etag; [|exact F1].
      rewrite lookupN_set_data_other by congruence. exact F1.
    + intros t wk fd' n' Ht. destruct (Nat.eq_dec tid t) as [->|Hne].
      * rewrite nth_error_set_nth_same in Ht by (eapply nth_error_lt; eauto).
        inversion Ht; subst. split; [exact Hown|].
        exists j, (S off). rewrite N.eqb_refl, lookupN_set_data_same. repeat split; auto. lia.
      * rewrite nth_error_set_nth_other in Ht by assumption.
        destruct (F2 _ _ _ _ Ht) as [Ho _]. congruence.
    + intros t Ht. rewrite Hown in Ht. inversion Ht; subst. eexists _, _, _.
      apply nth_error_set_nth_same. eapply nth_error_lt; eauto.
  - (* rename(status.tag.tmp, status.tag) *)
    destruct q; mon_kill Hmon. inversion Hmon; subst; clear Hmon.
    intro Hov.
    assert (Hov0 : w_overlap w = false).
    { pose proof (handle_ext v tid w FsRenameTmpTag) as (_ & _ & _ & Ho). auto. }
    destruct (Hfs Hov0) as (F1 & F2 & F3 & F4 & F5).
    destruct (F2 _ _ _ _ Hn) as (Hown & j & off & Hfd & Htmp & Htag & Hdata & Hlen).
    assert (Hw' : fst (handle v tid w FsRenameTmpTag) =
                  w_files w (w_now w + 4)
                    {| f_prov := f_prov (w_fs w); f_tmp := None; f_tag := Some j;
                       f_data := f_data (w_fs w); f_fds := f_fds (w_fs w);
                       f_next := f_next (w_fs w) |}
                    None (w_intent w) (w_overlap w) (Some (w_intent w))).
    { simpl. unfold h_rename. rewrite Htmp. reflexivity. }
    rewrite Hw'. clear Hw'.
    unfold tag_content, file_content. proj. simpl.
    split; [|split; [|split; [|split]]].
    + rewrite Hdata. f_equal. apply firstn_all2. lia.
    + intros t wk fd' n' Ht. exfalso. destruct (Nat.eq_dec tid t) as [->|Hne].
      * rewrite nth_error_set_nth_same in Ht by (eapply nth_error_lt; eauto).
        destruct w0; discriminate.
      * rewrite nth_error_set_nth_other in Ht by assumption.
        destruct (F2 _ _ _ _ Ht) as [Ho _]. congruence.
    + intros t Ht. discriminate.
    + intros k Hk. discriminate.
    + intros k Hk. inversion Hk; subst. apply (F4 k Htmp).
Qed.

(* ---------------- J and its preservation ---------------- *)
Definition J (v : variant) (w : world) (qs : list lstate) : Prop :=
  wtick v w /\ (forall t q, nth_error qs t = Some q -> local_ok v w q) /\ fs_ok w qs.

Lemma J_step : forall v s qs t q m q',
  J v s qs -> nth_error qs t = Some q ->
  mon v q m (snd (handle v t s m)) = Some q' ->
  J v (fst (handle v t s m)) (set_nth t q' qs).
Proof.
  intros v s qs t q m q' (HW & HL & HF) Hn Hmon. split; [|split].
  - eapply wtick_step; eauto.
  - intros t' q0 Ht'. destruct (Nat.eq_dec t t') as [->|Hne].
    + rewrite nth_error_set_nth_same in Ht' by (eapply nth_error_lt; eauto).
      inversion Ht'; subst. eapply local_step; eauto.
    + rewrite nth_error_set_nth_other in Ht' by assumption.
      eapply local_ok_ext; [apply handle_ext|]. eauto.
  - eapply fs_step; eauto.
Qed.

Lemma J_init : forall v evt msgs chan tag0 ops,
  J v (init_world evt msgs chan tag0) (map lstate_of ops).
Proof.
  intros. split; [|split].
  - split; [apply wt_init|]. split; [|split].
    + intros _. left. reflexivity.
    + left. reflexivity.
    + reflexivity.
  - intros t q Hn. apply nth_error_In in Hn. apply in_map_iff in Hn.
    destruct Hn as (o & <- & _). destruct o; exact I.
  - intros _. unfold tag_content, file_content. simpl.
    assert (Hnw : forall t wk fd n, nth_error (map lstate_of ops) t <> Some (LWriting wk fd n)).
    { intros t wk fd n Hn. apply nth_error_In in Hn. apply in_map_iff in Hn.
      destruct Hn as (o & Ho & _). destruct o; discriminate. }
    destruct tag0; simpl; (split; [|split; [|split; [|split]]]);
      try reflexivity; try (intros; discriminate);
      try (intros t wk fd n Hn; exfalso; eapply Hnw; eauto).
    intros i Hi. inversion Hi. lia.
Qed.

(* THE invariant theorem: under every schedule, for every list of client operations *)
Theorem J_holds : forall v evt msgs chan tag0 ops sched,
  let c := prun v (start v (init_world evt msgs chan tag0) ops) sched in
  exists qs, Forall2 (pfollows v) qs (tasks c) /\ J v (shared c) qs.
Proof.
  intros. unfold c, prun, start.
  apply (monitored_invariant (handle v) (mon v) (retP v) (J v)
           (init (init_world evt msgs chan tag0) (map (prog_of v) ops)) (map lstate_of ops)).
  - apply follows_start.
  - apply J_init.
  - intros. eapply J_step; eauto.
Qed.

(* ========================================================================================== *)
(* 6. consequences                                                                              *)
(* ========================================================================================== *)
Section Consequences.
  Context (v : variant) (evt : bool) (msgs : module -> bytes) (chan : bytes) (tag0 : option bytes).
  Context (ops : list op) (sched : list nat).
  Let c := prun v (start v (init_world evt msgs chan tag0) ops) sched.
  Let w := shared c.

  (* a non-zero finished tick always has a cause in the past: at some instant all three subsystems
     were ready, or the deadline handler ran *)
  Theorem tick_justified :
    w_tick w <> 0 ->
    exists t, 0 < t <= w_now w /\
              (all_ready_at (w_hist w) t = true \/ timeup_at (w_hist w) t = true).
  Proof.
    intro Hne. destruct (J_holds v evt msgs chan tag0 ops sched) as (qs & _ & HW & _).
    destruct HW as (_ & _ & [H0|H] & _); [contradiction|exact H].
  Qed.

  (* as long as no stale stamp happened the tick IS such an instant *)
  Theorem tick_justified_strong :
    w_stale w = false -> w_tick w <> 0 ->
    0 < w_tick w <= w_now w /\
    (all_ready_at (w_hist w) (w_tick w) = true \/ timeup_at (w_hist w) (w_tick w) = true).
  Proof.
    intros Hs Hne. destruct (J_holds v evt msgs chan tag0 ops sched) as (qs & _ & HW & _).
    destruct HW as (_ & Hok & _ & _). destruct (Hok Hs) as [H0|H]; [contradiction|exact H].
  Qed.

  (* with the tick stamped inside the actor there is never a stale stamp *)
  Theorem atomic_never_stale : v_atomic v = true -> w_stale w = false.
  Proof.
    intro Ha. destruct (J_holds v evt msgs chan tag0 ops sched) as (qs & _ & HW & _).
    destruct HW as (_ & _ & _ & H). auto.
  Qed.

  (* what a finished query looks like *)
  Lemma query_result : forall t fin err q tk fl la,
    result_of c t = Some (RQuery fin err q tk fl la) ->
    fin = finished_formula v tk q la /\
    tk_ok w tk /\ snap_ok w fl /\ reads_ok fl [] err.
  Proof.
    intros t fin err q tk fl la Hr.
    destruct (J_holds v evt msgs chan tag0 ops sched) as (qs & HF & _ & HL & _).
    destruct (follows_result (mon v) (retP v) qs c t _ HF Hr) as (lq & Hq & Hret).
    destruct lq; simpl in Hret; try contradiction.
    destruct Hret as (-> & -> & -> & -> & -> & ->).
    specialize (HL _ _ Hq). simpl in HL. tauto.
  Qed.

  (* FINISHED IS TRUTHFUL, for every variant, given the two class conditions *)
  Theorem finished_truthful_gen : forall t res,
    result_of c t = Some res ->
    w_stale w = false ->
    (v_guard v = true \/ match res with RQuery _ _ q _ _ _ => 0 < q | RDone => True end) ->
    truthful w res.
  Proof.
    intros t res Hr Hs Hq. destruct res as [|fin err q tk fl la]; simpl; auto.
    destruct fin; auto.
    destruct (query_result _ _ _ _ _ _ _ Hr) as (Hfin & Hok & _ & _).
    destruct la; [left; reflexivity|right].
    unfold finished_formula in Hfin. rewrite orb_false_r in Hfin.
    symmetry in Hfin. apply andb_true_iff in Hfin. destruct Hfin as [Hg Hle].
    apply Z.leb_le in Hle.
    assert (Hne : tk <> 0).
    { destruct Hq as [Hg'|Hpos]; [|lia]. rewrite Hg' in Hg.
      apply negb_true_iff in Hg. apply Z.eqb_neq in Hg. exact Hg. }
    destruct (Hok Hs) as [H0|[Hr' Hj]]; [contradiction|].
    exists tk. split; [lia|exact Hj].
  Qed.

  (* THE ERROR TEXT names exactly the subsystems missing in the single flags snapshot the query
     took, in the fixed order, each with the status message it read; empty iff ALL_READY *)
  Theorem error_text_exact : forall t fin err q tk fl la,
    result_of c t = Some (RQuery fin err q tk fl la) ->
    (exists reads, map fst reads = missing fl /\ err = text_of reads) /\
    (err = [] <-> fcontains fl F_ALL = true) /\
    (exists t0, 0 < t0 <= w_now w /\ flags_at (w_hist w) t0 = fl).
  Proof.
    intros t fin err q tk fl la Hr.
    destruct (query_result _ _ _ _ _ _ _ Hr) as (_ & _ & Hsnap & (reads & Hm & He)).
    rewrite app_nil_r in Hm. split; [eauto|]. split; [|exact Hsnap].
    rewrite <- missing_nil_iff, <- Hm, He. split.
    - destruct reads as [|[m s] tl]; auto. simpl. intro H.
      apply app_eq_nil in H. destruct H as [H _]. exfalso. eapply line_nonempty; eauto.
    - destruct reads; simpl; [reflexivity|discriminate].
  Qed.

  (* STATUS.TAG: as long as no two writers overlapped, status.tag shows the last complete content
     published by a rename (or what was there at the start) -- at every instant, i.e. at every
     crash point *)
  Theorem status_tag_atomic : w_overlap w = false -> tag_content w = w_pub w.
  Proof.
    intro Ho. destruct (J_holds v evt msgs chan tag0 ops sched) as (qs & _ & _ & _ & HF).
    destruct (HF Ho) as (F1 & _). exact F1.
  Qed.
End Consequences.

(* every step either leaves status.tag's content alone or replaces it by the complete content the
   renaming writer intended: "every crash prefix shows the old or the new content" *)
Lemma handle_pub : forall v tid w m,
  w_pub (fst (handle v tid w m)) = w_pub w \/ w_pub (fst (handle v tid w m)) = Some (w_intent w).
Proof. intros v tid w m. handle_cases w m; auto. Qed.

Theorem status_tag_old_or_new : forall v evt msgs chan tag0 ops sched t,
  let c := prun v (start v (init_world evt msgs chan tag0) ops) sched in
  let c' := sstep (handle v) c t in
  w_overlap (shared c') = false ->
  tag_content (shared c') = tag_content (shared c) \/
  tag_content (shared c') = Some (w_intent (shared c)).
Proof.
  intros v evt msgs chan tag0 ops sched t c c' Ho.
  assert (Hc' : c' = prun v (start v (init_world evt msgs chan tag0) ops) (sched ++ [t])).
  { unfold c', c, prun. now rewrite run_snoc. }
  assert (Ho0 : w_overlap (shared c) = false).
  { destruct (sstep_cases (handle v) c t) as [E|(m & k & Hn & E)]; fold c' in E.
    - now rewrite <- E.
    - rewrite E in Ho. simpl in Ho.
      pose proof (handle_ext v t (shared c) m) as (_ & _ & _ & H). auto. }
  pose proof (status_tag_atomic v evt msgs chan tag0 ops sched Ho0) as H0. fold c in H0.
  pose proof (status_tag_atomic v evt msgs chan tag0 ops (sched ++ [t])) as H1.
  rewrite <- Hc' in H1. specialize (H1 Ho).
  rewrite H0, H1.
  destruct (sstep_cases (handle v) c t) as [E|(m & k & Hn & E)]; fold c' in E.
  - left. now rewrite E.
  - rewrite E. simpl. apply handle_pub.
Qed.

(* ========================================================================================== *)
(* 7. refutation witnesses                                                                      *)
(* ========================================================================================== *)
(* a decision procedure for "from instant q on, never all ready and never a deadline stamp" *)
Definition never_since (h : list hentry) (q : Z) : bool :=
  forallb (fun e => if q <=? fst (fst e) then negb (fcontains (snd (fst e)) F_ALL) && negb (snd e) else true) h
  && negb (fcontains (flags_at h q) F_ALL).

Lemma never_since_tu : forall h q,
  forallb (fun e : hentry => if q <=? fst (fst e) then negb (fcontains (snd (fst e)) F_ALL) && negb (snd e) else true) h = true ->
  forall t, q <= t -> timeup_at h t = false.
Proof.
  intros h q H t Ht. unfold timeup_at.
  induction h as [|[[t0 fl] b] h IH]; simpl in *; auto.
  apply andb_true_iff in H. destruct H as [He Hall]. rewrite (IH Hall), orb_false_r.
  destruct (Z.eqb_spec t0 t) as [->|Hne]; simpl; auto.
  destruct (Z.leb_spec q t) as [_|Hx]; [|lia].
  apply andb_true_iff in He. destruct He as [_ He]. now apply negb_true_iff in He.
Qed.

Lemma never_since_ar : forall h q,
  forallb (fun e : hentry => if q <=? fst (fst e) then negb (fcontains (snd (fst e)) F_ALL) && negb (snd e) else true) h = true ->
  fcontains (flags_at h q) F_ALL = false ->
  forall t, q <= t -> fcontains (flags_at h t) F_ALL = false.
Proof.
  intros h q H Hq t Ht.
  induction h as [|[[t0 fl] b] h IH]; simpl in *; auto.
  apply andb_true_iff in H. destruct H as [He Hall].
  destruct (Z.leb_spec t0 t) as [Hle|Hgt].
  - destruct (Z.leb_spec q t0) as [Hq0|Hq0].
    + apply andb_true_iff in He. destruct He as [He _]. now apply negb_true_iff in He.
    + destruct (Z.leb_spec t0 q) as [_|Hx]; [exact Hq|lia].
  - destruct (Z.leb_spec t0 q) as [Hx|_]; [lia|]. now apply IH.
Qed.

Lemma never_since_sound : forall h q, never_since h q = true ->
  forall t, q <= t -> all_ready_at h t = false /\ timeup_at h t = false.
Proof.
  intros h q H t Ht. unfold never_since in H. apply andb_true_iff in H. destruct H as [Hall Hq].
  apply negb_true_iff in Hq. split.
  - unfold all_ready_at. eapply never_since_ar; eauto.
  - eapply never_since_tu; eauto.
Qed.

Lemma not_truthful : forall w err q tk fl,
  never_since (w_hist w) q = true -> ~ truthful w (RQuery true err q tk fl false).
Proof.
  intros w err q tk fl H [Hl|(t & [Ht _] & Hj)]; [discriminate|].
  destruct (never_since_sound _ _ H t Ht) as [H1 H2]. rewrite H1, H2 in Hj. destruct Hj; discriminate.
Qed.

(* F10: K and L report; R completes ALL_READY (message 1); the key keeper resets (flags lose
   KEY_LATCH_READY, tick := 0); a query is created; R's SetProvisionFinished(true) (message 2)
   stamps a fresh tick; the query is answered finished = true, key latch not ready, no deadline *)
Definition f10_world : world :=
  init_world true (set_msg default_msgs MKeyKeeper [107; 109]%N) Consts.kk_disable_state None.
Definition f10_ops : list op := [OpReport F_K; OpReport F_L; OpReport F_R; OpReset; OpQuery QNow].
Definition f10_sched : list nat := [0; 1; 2; 3; 3; 4; 2; 4; 4; 4; 4; 4]%nat.

Theorem stale_finish_refuted :
  let c := prun original_code (start original_code f10_world f10_ops) f10_sched in
  exists res, result_of c 4 = Some res /\
    match res with RQuery fin _ q _ fl la =>
      fin = true /\ la = false /\ 0 < q /\ fcontains fl F_K = false | RDone => False end /\
    ~ truthful (shared c) res /\
    KnownClass_C16_stale_stamp original_code f10_world f10_ops f10_sched = true.
Proof.
  eexists. split; [vm_compute; reflexivity|]. split; [|split].
  - vm_compute. repeat split; reflexivity.
  - apply not_truthful. vm_compute. reflexivity.
  - vm_compute. reflexivity.
Qed.

(* the same schedule on the repaired code: the query is answered finished = false *)
Theorem stale_finish_repaired :
  let c := prun repaired_code (start repaired_code f10_world f10_ops) f10_sched in
  exists err q tk fl la, result_of c 4 = Some (RQuery false err q tk fl la).
Proof. vm_compute. repeat eexists. Qed.

(* F12: a query naming instant 0 (missing / unparsable x-ms-azure-time_tick) on a fresh agent *)
Definition f12_ops : list op := [OpQuery (QConst 0)].
Definition f12_sched : list nat := repeat 0%nat 10.

Theorem zero_tick_refuted :
  let c := prun original_code (start original_code world0 f12_ops) f12_sched in
  exists res, result_of c 0 = Some res /\
    match res with RQuery fin _ q tk fl la =>
      fin = true /\ la = false /\ q = 0 /\ tk = 0 /\ fl = 0%N | RDone => False end /\
    ~ truthful (shared c) res /\
    KnownClass_C16_stale_stamp original_code world0 f12_ops f12_sched = false.
Proof.
  eexists. split; [vm_compute; reflexivity|]. split; [|split].
  - vm_compute. repeat split; reflexivity.
  - apply not_truthful. vm_compute. reflexivity.
  - vm_compute. reflexivity.
Qed.

Theorem zero_tick_repaired :
  let c := prun repaired_code (start repaired_code world0 f12_ops) f12_sched in
  exists err q tk fl la, result_of c 0 = Some (RQuery false err q tk fl la).
Proof. vm_compute. repeat eexists. Qed.

(* F11: two deadline-path writers overlap on status.tag.tmp.  T0 opens the temp file; the key
   keeper's status message changes; T1 opens (truncating the same inode), writes its content and
   renames it to status.tag; T0 then writes 60 bytes of ITS content -- straight into status.tag. *)
Definition f11_ops : list op := [OpTimeup; OpTimeup; OpSetMsg MKeyKeeper [120]%N].
Definition f11_sched : list nat := repeat 0%nat 11 ++ [2%nat] ++ repeat 1%nat 108 ++ repeat 0%nat 60.

Theorem shared_tmp_refuted :
  let c := prun original_code (start original_code world0 f11_ops) f11_sched in
  KnownClass_C16_overlapping_writers original_code world0 f11_ops f11_sched = true /\
  tag_content (shared c) <> w_pub (shared c) /\
  (exists published, w_pub (shared c) = Some published /\
     exists mixed, tag_content (shared c) = Some mixed /\
       firstn 60 mixed <> firstn 60 published /\ skipn 60 mixed = skipn 60 published).
Proof.
  split; [vm_compute; reflexivity|]. split.
  - vm_compute. discriminate.
  - eexists. split; [vm_compute; reflexivity|]. eexists. split; [vm_compute; reflexivity|].
    split; [vm_compute; discriminate|vm_compute; reflexivity].
Qed.

(* provision.rs still takes a mutex (regenerated on every run: 1 = recognisably before the temp file is
   touched, 2 = a lock exists in a shape the translator does not recognise, 0 = no lock at all): this is
   what licenses [v_lock repaired_code = true]; the thread-race leg of the check is the behavioural tie *)
Lemma writers_serialized_in_source :
  Consts.provision_status_tag_writers_serialized <> 0%N /\ v_lock repaired_code = true.
Proof. split; [discriminate|reflexivity]. Qed.

(* with the writers serialized (v_lock) two writers never overlap *)
Lemma handle_lock_overlap : forall v tid w m,
  v_lock v = true -> w_overlap w = false -> w_overlap (fst (handle v tid w m)) = false.
Proof.
  intros v tid w m Hv Ho. destruct m; simpl; auto.
  - unfold h_open_tmp. rewrite Hv. destruct (w_owner w); simpl; auto.
    destruct (f_tmp (w_fs w)); simpl; rewrite Ho; reflexivity.
  - unfold h_write_next. destruct (lookupN fd (f_fds (w_fs w))) as [[[? ?] ?]|]; simpl; auto.
    destruct (nth_error _ _); simpl; auto.
  - unfold h_rename. destruct (f_tmp (w_fs w)); simpl; auto.
Qed.

Theorem lock_never_overlap : forall v evt msgs chan tag0 (ps : list pprog) sched,
  v_lock v = true ->
  w_overlap (shared (run (handle v) (init (init_world evt msgs chan tag0) ps) sched)) = false.
Proof.
  intros v evt msgs chan tag0 ps sched Hv.
  apply (invariant_rule_calls (handle v) (fun c => w_overlap (shared c) = false)).
  - reflexivity.
  - intros c t m k Hc _. simpl. now apply handle_lock_overlap.
Qed.

(* ========================================================================================== *)
(* 8. the property-level corollaries                                                            *)
(* ========================================================================================== *)
Lemma finished_truthful_each_repair : forall v evt msgs chan tag0 ops sched t fin err q tk fl la,
  let w0 := init_world evt msgs chan tag0 in
  let c := prun v (start v w0 ops) sched in
  result_of c t = Some (RQuery fin err q tk fl la) ->
  (v_atomic v = true \/ KnownClass_C16_stale_stamp v w0 ops sched = false) ->
  (v_guard v = true \/ KnownClass_C16_nonpositive_query_tick q = false) ->
  truthful (shared c) (RQuery fin err q tk fl la).
Proof.
  intros v evt msgs chan tag0 ops sched t fin err q tk fl la w0 c Hr Hs Hq.
  apply (finished_truthful_gen v evt msgs chan tag0 ops sched t _ Hr).
  - destruct Hs as [Ha|Hs]; [now apply atomic_never_stale|exact Hs].
  - destruct Hq as [Hg|Hq]; [left; exact Hg|right; apply Z.leb_gt in Hq; exact Hq].
Qed.

Lemma finished_truthful_partial : forall evt msgs chan tag0 ops sched t fin err q tk fl la,
  let w0 := init_world evt msgs chan tag0 in
  let c := prun original_code (start original_code w0 ops) sched in
  result_of c t = Some (RQuery fin err q tk fl la) ->
  KnownClass_C16_stale_stamp original_code w0 ops sched = false ->
  KnownClass_C16_nonpositive_query_tick q = false ->
  truthful (shared c) (RQuery fin err q tk fl la).
Proof.
  intros evt msgs chan tag0 ops sched t fin err q tk fl la w0 c Hr Hs Hq.
  apply (finished_truthful_each_repair original_code evt msgs chan tag0 ops sched t); auto.
Qed.

Lemma finished_truthful_repaired : forall evt msgs chan tag0 ops sched t res,
  let c := prun repaired_code (start repaired_code (init_world evt msgs chan tag0) ops) sched in
  result_of c t = Some res -> truthful (shared c) res.
Proof.
  intros evt msgs chan tag0 ops sched t res c Hr.
  apply (finished_truthful_gen repaired_code evt msgs chan tag0 ops sched t _ Hr).
  - apply atomic_never_stale. reflexivity.
  - left. reflexivity.
Qed.

Lemma polls_are_schedules : forall v w0 ops polls,
  exists sched, fold_left (ppoll v) polls (start v w0 ops) = prun v (start v w0 ops) sched.
Proof. intros. apply (run_polls_p_is_run (handle v) is_sync poll_bound). Qed.

(* the code as it is now: status.tag always shows the last complete published content *)
Lemma status_tag_atomic_repaired : forall evt msgs chan tag0 ops sched,
  let w := shared (prun repaired_code (start repaired_code (init_world evt msgs chan tag0) ops) sched) in
  tag_content w = w_pub w.
Proof.
  intros. apply status_tag_atomic. apply lock_never_overlap. reflexivity.
Qed.

Lemma status_tag_old_or_new_repaired : forall evt msgs chan tag0 ops sched t,
  let c := prun repaired_code (start repaired_code (init_world evt msgs chan tag0) ops) sched in
  let c' := sstep (handle repaired_code) c t in
  tag_content (shared c') = tag_content (shared c) \/
  tag_content (shared c') = Some (w_intent (shared c)).
Proof.
  intros. apply status_tag_old_or_new.
  unfold c', c, prun, start. rewrite <- run_snoc. apply lock_never_overlap. reflexivity.
Qed.

(* the F11 schedule on the code as it is now: the second writer's open is refused, status.tag is
   the first writer's complete content, no overlap *)
Lemma shared_tmp_repaired :
  let c := prun repaired_code (start repaired_code world0 f11_ops) f11_sched in
  w_overlap (shared c) = false /\ tag_content (shared c) = w_pub (shared c) /\
  result_of c 1 = Some RDone /\ w_owner (shared c) = Some 0%nat.
Proof. vm_compute. repeat split; reflexivity. Qed.
