(* C19 -- lemmas about Model/Disk.v *)
From GPA Require Import Disk.
From Coq Require Import Permutation Sorted Lia.
Arguments N.add : simpl never.
Arguments N.sub : simpl never.
Arguments N.leb : simpl never.
Arguments N.ltb : simpl never.
Arguments N.eqb : simpl never.

(* ------------------------------------------------------------------ byte strings *)
Lemma beq_refl : forall a, beq a a = true.
Proof. induction a; simpl; auto. rewrite N.eqb_refl. auto. Qed.

Lemma beq_eq : forall a b, beq a b = true <-> a = b.
Proof.
  induction a; destruct b; simpl; split; intros H; try discriminate; auto.
  - apply andb_true_iff in H. destruct H as [H1 H2]. apply N.eqb_eq in H1. apply IHa in H2. congruence.
  - inversion H; subst. rewrite N.eqb_refl. simpl. apply IHa. auto.
Qed.

Lemma beq_neq : forall a b, beq a b = false <-> a <> b.
Proof.
  intros. split; intros H.
  - intros E. apply beq_eq in E. congruence.
  - destruct (beq a b) eqn:E; auto. apply beq_eq in E. contradiction.
Qed.

Lemma beq_sym : forall a b, beq a b = beq b a.
Proof.
  intros. destruct (beq a b) eqn:E.
  - apply beq_eq in E. subst. symmetry. apply beq_refl.
  - symmetry. apply beq_neq. apply beq_neq in E. congruence.
Qed.

Lemma starts_with_app : forall p s, starts_with (p ++ s) p = true.
Proof.
  induction p; intros s.
  - destruct s; reflexivity.
  - simpl. rewrite N.eqb_refl. simpl. auto.
Qed.

Lemma starts_with_refl : forall s, starts_with s s = true.
Proof. intros. rewrite <- (app_nil_r s) at 1. apply starts_with_app. Qed.

Lemma starts_with_nil : forall s, starts_with s [] = true.
Proof. destruct s; reflexivity. Qed.

Lemma starts_with_iff : forall s p, starts_with s p = true <-> exists r, s = p ++ r.
Proof.
  intros s p. revert s. induction p; intros s.
  - rewrite starts_with_nil. split; [intros _; exists s; reflexivity | reflexivity].
  - destruct s as [|x s]; simpl.
    + split; [discriminate|]. intros [r H]. discriminate.
    + rewrite andb_true_iff, N.eqb_eq, IHp. split.
      * intros [-> [r ->]]. eauto.
      * intros [r H]. inversion H; subst. eauto.
Qed.

(* two prefixes of one string are comparable *)
Lemma starts_with_both : forall n a b,
  starts_with n a = true -> starts_with n b = true ->
  starts_with a b = true \/ starts_with b a = true.
Proof.
  induction n as [|c0 n IHn]; intros a b Ha Hb.
  - destruct a; [|discriminate]. destruct b; [|discriminate]. auto.
  - destruct a as [|x a]; [right; apply starts_with_nil|].
    destruct b as [|y b]; [left; apply starts_with_nil|].
    simpl in *. apply andb_true_iff in Ha. apply andb_true_iff in Hb.
    destruct Ha as [Ha1 Ha2]. destruct Hb as [Hb1 Hb2].
    apply N.eqb_eq in Ha1. apply N.eqb_eq in Hb1. subst.
    rewrite N.eqb_refl. simpl. eauto.
Qed.

Definition incomparable (a b : bytes) : bool :=
  negb (starts_with a b) && negb (starts_with b a).

Lemma incomparable_disjoint : forall a b n,
  incomparable a b = true -> starts_with n a = true -> starts_with n b = false.
Proof.
  intros a b n H Ha. destruct (starts_with n b) eqn:Hb; auto.
  destruct (starts_with_both _ _ _ Ha Hb) as [E|E];
    unfold incomparable in H; rewrite E in H; simpl in H; try discriminate.
  rewrite andb_false_r in H. discriminate.
Qed.

Lemma incomparable_sym : forall a b, incomparable a b = incomparable b a.
Proof. intros. unfold incomparable. apply andb_comm. Qed.

(* ------------------------------------------------------------------ lexicographic order *)
Lemma ltb_irrefl : forall a, bytes_ltb a a = false.
Proof. induction a; simpl; auto. rewrite N.ltb_irrefl, N.eqb_refl. simpl. auto. Qed.

Lemma ltb_trans : forall a b c, bytes_ltb a b = true -> bytes_ltb b c = true -> bytes_ltb a c = true.
Proof.
  induction a; intros b c H1 H2; destruct b; destruct c; simpl in *; try discriminate; auto.
  apply orb_true_iff in H1. apply orb_true_iff in H2. apply orb_true_iff.
  destruct H1 as [H1|H1]; destruct H2 as [H2|H2].
  - left. apply N.ltb_lt in H1. apply N.ltb_lt in H2. apply N.ltb_lt. lia.
  - apply andb_true_iff in H2. destruct H2 as [E _]. apply N.eqb_eq in E. subst. auto.
  - apply andb_true_iff in H1. destruct H1 as [E _]. apply N.eqb_eq in E. subst. auto.
  - apply andb_true_iff in H1. apply andb_true_iff in H2.
    destruct H1 as [E1 L1]. destruct H2 as [E2 L2].
    apply N.eqb_eq in E1. apply N.eqb_eq in E2. subst. right.
    rewrite N.eqb_refl. simpl. eauto.
Qed.

Lemma ltb_total : forall a b, bytes_ltb a b = false -> bytes_ltb b a = false -> a = b.
Proof.
  induction a; destruct b; simpl; intros H1 H2; try discriminate; auto.
  apply orb_false_iff in H1. apply orb_false_iff in H2.
  destruct H1 as [A1 B1]. destruct H2 as [A2 B2].
  apply N.ltb_ge in A1. apply N.ltb_ge in A2. assert (a = n) by lia. subst.
  rewrite N.eqb_refl in *. simpl in *. f_equal. auto.
Qed.

(* a <= b  :=  bytes_ltb b a = false *)
Definition leb_names (a b : bytes) : Prop := bytes_ltb b a = false.

Lemma le_lt_trans : forall a b c, leb_names a b -> bytes_ltb b c = true -> bytes_ltb c a = false.
Proof.
  unfold leb_names. intros a b c H1 H2. destruct (bytes_ltb c a) eqn:E; auto.
  assert (bytes_ltb b a = true) by (eapply ltb_trans; eauto). congruence.
Qed.

Lemma le_trans : forall a b c, leb_names a b -> leb_names b c -> leb_names a c.
Proof.
  unfold leb_names. intros a b c H1 H2. destruct (bytes_ltb c a) eqn:E; auto.
  destruct (bytes_ltb c b) eqn:E2; [congruence|].
  destruct (bytes_ltb b c) eqn:E3.
  - assert (bytes_ltb b a = true) by (eapply ltb_trans; eauto). congruence.
  - assert (b = c) by (apply ltb_total; auto). subst. congruence.
Qed.

(* ------------------------------------------------------------------ insertion sort *)
Lemma insert_perm : forall x l, Permutation (insert_sorted bytes_ltb x l) (x :: l).
Proof.
  induction l; simpl; auto.
  destruct (bytes_ltb x a); auto.
  eapply perm_trans; [apply perm_skip; apply IHl|]. apply perm_swap.
Qed.

Lemma isort_perm : forall l, Permutation (sort_names l) l.
Proof.
  unfold sort_names, isort. induction l; simpl; auto.
  eapply perm_trans; [apply insert_perm|]. auto.
Qed.

Lemma isort_length : forall l, length (sort_names l) = length l.
Proof. intros. apply Permutation_length. apply isort_perm. Qed.

Lemma isort_in : forall l x, In x (sort_names l) <-> In x l.
Proof.
  intros. split; apply Permutation_in; [apply isort_perm | apply Permutation_sym, isort_perm].
Qed.

Lemma insert_sorted_ok : forall x l,
  StronglySorted leb_names l -> StronglySorted leb_names (insert_sorted bytes_ltb x l).
Proof.
  induction l; intros H; simpl.
  - constructor; constructor.
  - inversion H; subst. destruct (bytes_ltb x a) eqn:E.
    + constructor; auto. constructor.
      * unfold leb_names. destruct (bytes_ltb a x) eqn:E2; auto.
        assert (bytes_ltb x x = true) by (eapply ltb_trans; eauto). rewrite ltb_irrefl in H0. discriminate.
      * rewrite Forall_forall in *. intros z Hz. specialize (H3 z Hz).
        unfold leb_names in *. destruct (bytes_ltb z x) eqn:E3; auto.
        assert (bytes_ltb z a = true) by (eapply ltb_trans; eauto). congruence.
    + constructor; auto. rewrite Forall_forall in *. intros z Hz.
      apply (Permutation_in _ (insert_perm x l)) in Hz. destruct Hz as [<-|Hz]; auto.
Qed.

Lemma isort_sorted : forall l, StronglySorted leb_names (sort_names l).
Proof.
  unfold sort_names, isort. induction l; simpl; [constructor|]. apply insert_sorted_ok. auto.
Qed.

Lemma skipn_in : forall {A} k (l : list A) x, In x (skipn k l) -> In x l.
Proof.
  induction k; destruct l; simpl; intros; auto.
Qed.

Lemma firstn_in : forall {A} k (l : list A) x, In x (firstn k l) -> In x l.
Proof.
  induction k; destruct l; simpl; intros; auto; try contradiction.
  destruct H; auto.
Qed.

Lemma sorted_firstn_skipn : forall l k r x,
  StronglySorted leb_names l -> In r (firstn k l) -> In x (skipn k l) -> leb_names r x.
Proof.
  induction l; intros k r x H Hr Hx.
  - destruct k; simpl in *; contradiction.
  - destruct k; simpl in *; [contradiction|]. inversion H; subst.
    destruct Hr as [<-|Hr].
    + rewrite Forall_forall in H3. apply H3. eapply skipn_in; eauto.
    + eapply IHl; eauto.
Qed.

(* ------------------------------------------------------------------ directories *)
Definition wf_dir (d : dir) : Prop := NoDup (names d).
Definition memb (n : bytes) (R : list bytes) : bool := existsb (beq n) R.
Definition dremove_list (R : list bytes) (d : dir) : dir :=
  fold_left (fun d n => dremove n d) R d.

Lemma memb_in : forall n R, memb n R = true <-> In n R.
Proof.
  intros. unfold memb. rewrite existsb_exists. split.
  - intros [x [H1 H2]]. apply beq_eq in H2. subst. auto.
  - intros H. exists n. split; auto. apply beq_refl.
Qed.

Lemma memb_not_in : forall n R, memb n R = false <-> ~ In n R.
Proof.
  intros. split; intros H.
  - intros Hin. apply memb_in in Hin. congruence.
  - destruct (memb n R) eqn:E; auto. apply memb_in in E. contradiction.
Qed.

Lemma filter_map_comm : forall {X Y} (f : X -> Y) (p : Y -> bool) l,
  map f (filter (fun x => p (f x)) l) = filter p (map f l).
Proof.
  induction l; simpl; auto. destruct (p (f a)); simpl; congruence.
Qed.

Lemma names_filter : forall p d, names (filter (fun e => p (ename e)) d) = filter p (names d).
Proof. intros. apply filter_map_comm. Qed.

Lemma names_dremove : forall n d,
  names (dremove n d) = filter (fun m => negb (beq m n)) (names d).
Proof. intros. unfold dremove. apply (names_filter (fun m => negb (beq m n))). Qed.

Lemma filter_filter : forall {A} (p q : A -> bool) l,
  filter p (filter q l) = filter (fun x => q x && p x) l.
Proof.
  induction l; simpl; auto. destruct (q a); simpl; auto. destruct (p a); simpl; congruence.
Qed.

Lemma filter_ext_in' : forall {A} (p q : A -> bool) l,
  (forall x, In x l -> p x = q x) -> filter p l = filter q l.
Proof.
  induction l; simpl; intros H; auto. rewrite (H a) by auto.
  destruct (q a); rewrite IHl; auto.
Qed.

Lemma names_dremove_list : forall R d,
  names (dremove_list R d) = filter (fun m => negb (memb m R)) (names d).
Proof.
  induction R; intros d; simpl.
  - unfold dremove_list, memb. simpl. induction (names d) as [|x l IH]; simpl; [auto|f_equal; auto].
  - unfold dremove_list in *. simpl. rewrite IHR. rewrite names_dremove. rewrite filter_filter.
    apply filter_ext_in'. intros x _. rewrite (beq_sym x a).
    destruct (beq a x); simpl; auto.
Qed.

Lemma in_names_dremove : forall m n d, In m (names (dremove n d)) <-> In m (names d) /\ m <> n.
Proof.
  intros. rewrite names_dremove, filter_In, negb_true_iff, beq_neq. tauto.
Qed.

Lemma NoDup_filter : forall {A} (p : A -> bool) l, NoDup l -> NoDup (filter p l).
Proof.
  induction l; simpl; intros H; auto. inversion H; subst.
  destruct (p a); auto. constructor; auto. rewrite filter_In. tauto.
Qed.

Lemma wf_dremove : forall n d, wf_dir d -> wf_dir (dremove n d).
Proof. unfold wf_dir. intros. rewrite names_dremove. apply NoDup_filter. auto. Qed.

Lemma wf_dput : forall n s l d, wf_dir d -> wf_dir (dput n s l d).
Proof.
  unfold wf_dir, dput. intros. simpl. constructor.
  - rewrite in_names_dremove. tauto.
  - apply wf_dremove. auto.
Qed.

Lemma wf_dremove_list : forall R d, wf_dir d -> wf_dir (dremove_list R d).
Proof.
  induction R; simpl; intros; auto. unfold dremove_list in *. simpl. apply IHR. apply wf_dremove. auto.
Qed.

Lemma dfind_some : forall n d e, dfind n d = Some e -> In e d /\ ename e = n.
Proof.
  unfold dfind. intros n d e H. apply find_some in H. destruct H as [H1 H2].
  apply beq_eq in H2. auto.
Qed.

Lemma dfind_none : forall n d, dfind n d = None <-> ~ In n (names d).
Proof.
  unfold dfind, names. intros. split.
  - intros H Hin. apply in_map_iff in Hin. destruct Hin as [e [E Hin]].
    eapply find_none in H; eauto. simpl in H. subst. rewrite beq_refl in H. discriminate.
  - intros H. destruct (find _ d) eqn:E; auto. apply find_some in E. destruct E as [E1 E2].
    apply beq_eq in E2. exfalso. apply H. apply in_map_iff. eauto.
Qed.

Lemma dhas_in : forall n d, dhas n d = true <-> In n (names d).
Proof.
  unfold dhas. intros. destruct (dfind n d) eqn:E.
  - apply dfind_some in E. destruct E as [E1 E2]. split; auto. intros _.
    unfold names. apply in_map_iff. eauto.
  - apply dfind_none in E. split; [discriminate|contradiction].
Qed.

Lemma dhas_not_in : forall n d, dhas n d = false <-> ~ In n (names d).
Proof.
  intros. split; intros H.
  - intros Hin. apply dhas_in in Hin. congruence.
  - destruct (dhas n d) eqn:E; auto. apply dhas_in in E. contradiction.
Qed.

(* ------------------------------------------------------------------ the deletion loop *)
Lemma del_loop_spec : forall files count fc d,
  count <= fc ->
  del_loop files count fc d = dremove_list (firstn (N.to_nat (fc - count) + 1) files) d.
Proof.
  induction files; intros count fc d H.
  - rewrite firstn_nil. reflexivity.
  - simpl. replace (N.to_nat (fc - count) + 1)%nat with (S (N.to_nat (fc - count))) by lia.
    simpl. destruct (fc <? count + 1) eqn:E.
    + apply N.ltb_lt in E. replace (N.to_nat (fc - count)) with 0%nat by lia. reflexivity.
    + apply N.ltb_ge in E. rewrite IHfiles by lia.
      replace (N.to_nat (fc - (count + 1)) + 1)%nat with (N.to_nat (fc - count)) by lia.
      reflexivity.
Qed.

Lemma filter_length_perm : forall {A} (f : A -> bool) l l',
  Permutation l l' -> length (filter f l) = length (filter f l').
Proof.
  induction 1; simpl; auto.
  - destruct (f x); simpl; auto.
  - destruct (f x); destruct (f y); simpl; auto.
  - congruence.
Qed.

Lemma filter_none : forall {A} (f : A -> bool) l, (forall x, In x l -> f x = false) -> filter f l = [].
Proof.
  induction l; simpl; intros H; auto. rewrite (H a) by auto. auto.
Qed.

Lemma filter_all : forall {A} (f : A -> bool) l, (forall x, In x l -> f x = true) -> filter f l = l.
Proof.
  induction l; simpl; intros H; auto. rewrite (H a) by auto. f_equal. auto.
Qed.

Lemma NoDup_app_disjoint : forall {A} (l1 l2 : list A) x, NoDup (l1 ++ l2) -> In x l1 -> ~ In x l2.
Proof.
  induction l1; simpl; intros l2 x H Hin; [contradiction|]. inversion H; subst.
  destruct Hin as [<-|Hin].
  - intros Hx. apply H2. apply in_or_app. auto.
  - eapply IHl1; eauto.
Qed.

(* removing the first k names of the sorted listing of a duplicate-free list leaves exactly the rest *)
Lemma count_after_remove : forall (M : list bytes) k,
  NoDup M -> (k <= length M)%nat ->
  length (filter (fun m => negb (memb m (firstn k (sort_names M)))) M) = (length M - k)%nat.
Proof.
  intros M k ND Hk.
  set (L := sort_names M). set (R := firstn k L).
  assert (PL : Permutation L M) by apply isort_perm.
  rewrite <- (filter_length_perm _ _ _ PL).
  assert (NDL : NoDup L) by (eapply Permutation_NoDup; [apply Permutation_sym; eauto|auto]).
  rewrite <- (firstn_skipn k L) at 1. fold R. rewrite filter_app, app_length.
  rewrite filter_none, filter_all.
  - simpl. rewrite skipn_length. rewrite (Permutation_length PL). reflexivity.
  - intros x Hx. apply negb_true_iff. apply memb_not_in. intros Hr.
    rewrite <- (firstn_skipn k L) in NDL. eapply NoDup_app_disjoint; eauto.
  - intros x Hx. apply negb_false_iff. apply memb_in. auto.
Qed.

(* ------------------------------------------------------------------ "trim": list, sort, delete the oldest *)
Definition trim (p : bytes -> bool) (maxc : N) (d : dir) : dir :=
  let files := sort_names (filter p (names d)) in
  let fc := N.of_nat (length files) in
  if maxc <=? fc then del_loop files maxc fc d else d.

Definition trim_removed (p : bytes -> bool) (maxc : N) (d : dir) : list bytes :=
  let files := sort_names (filter p (names d)) in
  let fc := N.of_nat (length files) in
  if maxc <=? fc then firstn (N.to_nat (fc - maxc) + 1) files else [].

Lemma trim_spec : forall p maxc d, trim p maxc d = dremove_list (trim_removed p maxc d) d.
Proof.
  intros. unfold trim, trim_removed. destruct (maxc <=? _) eqn:E; [|reflexivity].
  apply N.leb_le in E. apply del_loop_spec. auto.
Qed.

Lemma trim_removed_p : forall p maxc d n, In n (trim_removed p maxc d) -> p n = true /\ In n (names d).
Proof.
  intros p maxc d n H. unfold trim_removed in H. destruct (maxc <=? _); [|contradiction].
  apply firstn_in in H. apply (proj1 (isort_in _ _)) in H. apply filter_In in H. tauto.
Qed.

Lemma names_trim : forall p maxc d,
  names (trim p maxc d) = filter (fun m => negb (memb m (trim_removed p maxc d))) (names d).
Proof. intros. rewrite trim_spec. apply names_dremove_list. Qed.

Lemma trim_wf : forall p maxc d, wf_dir d -> wf_dir (trim p maxc d).
Proof. intros. rewrite trim_spec. apply wf_dremove_list. auto. Qed.

Lemma trim_names_in : forall p maxc d n, In n (names (trim p maxc d)) -> In n (names d).
Proof. intros p maxc d n H. rewrite names_trim in H. apply filter_In in H. tauto. Qed.

Lemma trim_count : forall p maxc d,
  wf_dir d -> 1 <= maxc ->
  N.of_nat (length (filter p (names (trim p maxc d)))) + 1 <= maxc.
Proof.
  intros p maxc d WF H1. rewrite names_trim. rewrite filter_filter.
  rewrite (filter_ext_in' _ (fun x => p x && negb (memb x (trim_removed p maxc d))))
    by (intros; apply andb_comm).
  rewrite <- filter_filter. unfold trim_removed.
  set (M := filter p (names d)). rewrite isort_length.
  destruct (maxc <=? N.of_nat (length M)) eqn:E.
  - apply N.leb_le in E. rewrite count_after_remove.
    + lia.
    + apply NoDup_filter. auto.
    + lia.
  - apply N.leb_gt in E. unfold memb. simpl. rewrite filter_all by auto. lia.
Qed.

Lemma dremove_list_in : forall R d e, In e (dremove_list R d) -> In e d.
Proof.
  induction R; simpl; intros d e H; auto. unfold dremove_list in *. simpl in H.
  apply IHR in H. unfold dremove in H. apply filter_In in H. tauto.
Qed.

Lemma trim_in : forall p maxc d e, In e (trim p maxc d) -> In e d.
Proof. intros p maxc d e H. rewrite trim_spec in H. eapply dremove_list_in; eauto. Qed.

(* frame: entries whose names the operation cannot select are untouched *)
Lemma filter_dremove_frame : forall (q : bytes -> bool) n d,
  q n = false -> filter (fun e => q (ename e)) (dremove n d) = filter (fun e => q (ename e)) d.
Proof.
  intros q n d H. unfold dremove. rewrite filter_filter. apply filter_ext_in'. intros e _.
  destruct (beq (ename e) n) eqn:E; simpl; auto. apply beq_eq in E. rewrite E, H. reflexivity.
Qed.

Lemma filter_dput_frame : forall (q : bytes -> bool) n s l d,
  q n = false -> filter (fun e => q (ename e)) (dput n s l d) = filter (fun e => q (ename e)) d.
Proof.
  intros. unfold dput. simpl. unfold ename at 1. simpl. rewrite H. apply filter_dremove_frame. auto.
Qed.

Lemma filter_dremove_list_frame : forall (q : bytes -> bool) R d,
  (forall n, In n R -> q n = false) ->
  filter (fun e => q (ename e)) (dremove_list R d) = filter (fun e => q (ename e)) d.
Proof.
  induction R; simpl; intros d H; auto. unfold dremove_list in *. simpl.
  rewrite IHR by auto. apply filter_dremove_frame. auto.
Qed.

Lemma trim_frame : forall p q maxc d,
  (forall n, p n = true -> q n = false) ->
  filter (fun e => q (ename e)) (trim p maxc d) = filter (fun e => q (ename e)) d.
Proof.
  intros. rewrite trim_spec. apply filter_dremove_list_frame.
  intros n Hn. apply trim_removed_p in Hn. apply H. tauto.
Qed.

(* the removed names are the smallest: every removed name is <= every surviving selected name *)
Lemma trim_oldest : forall p maxc d r k,
  In r (names d) -> p r = true -> ~ In r (names (trim p maxc d)) ->
  In k (names (trim p maxc d)) -> p k = true ->
  leb_names r k.
Proof.
  intros p maxc d r k Hr Pr Nr Hk Pk. rewrite names_trim in *.
  assert (Rr : In r (trim_removed p maxc d)).
  { apply memb_in. destruct (memb r (trim_removed p maxc d)) eqn:E; auto.
    exfalso. apply Nr. apply filter_In. rewrite E. auto. }
  apply filter_In in Hk. destruct Hk as [Hk1 Hk2]. apply negb_true_iff, memb_not_in in Hk2.
  unfold trim_removed in *. destruct (maxc <=? _); [|contradiction].
  set (L := sort_names (filter p (names d))) in *.
  eapply sorted_firstn_skipn; [apply isort_sorted | exact Rr |].
  assert (HkL : In k L) by (apply isort_in, filter_In; auto).
  rewrite <- (firstn_skipn (N.to_nat (N.of_nat (length L) - maxc) + 1) L) in HkL.
  apply in_app_or in HkL. destruct HkL; [contradiction|auto].
Qed.

(* ------------------------------------------------------------------ set_extension *)
Lemma split_once_len : forall c s a b, split_once c s = (a, Some b) -> length s = (length a + 1 + length b)%nat.
Proof.
  induction s; simpl; intros x y H; [discriminate|].
  destruct (a =? c).
  - inversion H; subst. simpl. lia.
  - destruct (split_once c s) as [a' b'] eqn:E. inversion H; subst. simpl.
    rewrite (IHs a' y) by reflexivity. lia.
Qed.

Lemma file_stem_length : forall n, (length (file_stem n) <= length n)%nat.
Proof.
  intros. unfold file_stem. destruct (split_once dot (rev n)) as [a [b|]] eqn:E; auto.
  destruct b; auto. apply split_once_len in E. rewrite rev_length in *. simpl in *. lia.
Qed.

Lemma arch_suffix_val : arch_suffix = dot :: log_ext.
Proof. reflexivity. Qed.

Lemma log_ext_val : log_ext = [108; 111; 103].
Proof. reflexivity. Qed.

Lemma file_stem_ext : forall x, x <> [] -> file_stem (x ++ dot :: log_ext) = x.
Proof.
  intros x Hx. unfold file_stem. rewrite rev_app_distr. rewrite log_ext_val. simpl.
  destruct (rev x) eqn:E.
  - exfalso. apply Hx. rewrite <- (rev_involutive x), E. reflexivity.
  - rewrite <- E. apply rev_involutive.
Qed.

Lemma arch_name_eq : forall c ts,
  arch_name c ts = lname c ++ dot :: colon_to_dot ts ++ arch_suffix.
Proof.
  intros. unfold arch_name, set_extension. rewrite arch_suffix_val.
  replace (lname c ++ dot :: colon_to_dot ts ++ dot :: log_ext)
    with ((lname c ++ dot :: colon_to_dot ts) ++ dot :: log_ext)
    by (rewrite <- app_assoc; reflexivity).
  rewrite file_stem_ext; auto. destruct (lname c); discriminate.
Qed.

Lemma arch_matches : forall c ts, lmatch c (arch_name c ts) = true.
Proof. intros. rewrite arch_name_eq. unfold lmatch. apply starts_with_app. Qed.

Lemma arch_neq_cur : forall c ts, arch_name c ts <> cur_name c.
Proof.
  intros c ts E. apply (f_equal (@length N)) in E. rewrite arch_name_eq in E.
  unfold cur_name, set_extension in E. rewrite arch_suffix_val, log_ext_val in E.
  pose proof (file_stem_length (lname c)). unfold colon_to_dot in E.
  rewrite !app_length in E. simpl in E. rewrite app_length, map_length in E. simpl in E. lia.
Qed.

(* ------------------------------------------------------------------ counting selected names *)
Definition cnt (p : bytes -> bool) (d : dir) : nat := length (filter p (names d)).
Definition b2n (b : bool) : nat := if b then 1%nat else 0%nat.

Lemma dremove_notin : forall n d, ~ In n (names d) -> dremove n d = d.
Proof.
  intros n d H. unfold dremove. apply filter_all. intros e He. apply negb_true_iff, beq_neq.
  intros E. apply H. subst. unfold names. apply in_map. auto.
Qed.

Lemma cnt_filter_neq : forall (p : bytes -> bool) n l,
  NoDup l -> In n l ->
  (length (filter p (filter (fun m => negb (beq m n)) l)) + b2n (p n) = length (filter p l))%nat.
Proof.
  induction l; simpl; intros ND Hin; [contradiction|]. inversion ND; subst.
  destruct Hin as [->|Hin].
  - rewrite beq_refl. simpl.
    rewrite (filter_all (fun m => negb (beq m n)) l).
    + destruct (p n); simpl; lia.
    + intros x Hx. apply negb_true_iff, beq_neq. intros ->. contradiction.
  - assert (a <> n) by (intros ->; contradiction).
    apply beq_neq in H. rewrite H. simpl. specialize (IHl H2 Hin).
    destruct (p a); simpl; lia.
Qed.

Lemma cnt_dremove_in : forall p n d,
  wf_dir d -> In n (names d) -> (cnt p (dremove n d) + b2n (p n) = cnt p d)%nat.
Proof. intros. unfold cnt. rewrite names_dremove. apply cnt_filter_neq; auto. Qed.

Lemma cnt_dremove_le : forall p n d, (cnt p (dremove n d) <= cnt p d)%nat.
Proof.
  intros. unfold cnt. rewrite names_dremove. induction (names d); simpl; auto.
  destruct (negb (beq a n)); simpl; destruct (p a); simpl; lia.
Qed.

Lemma cnt_dput : forall p n s l d, cnt p (dput n s l d) = (b2n (p n) + cnt p (dremove n d))%nat.
Proof. intros. unfold cnt, dput. simpl. unfold ename at 1. simpl. destruct (p n); reflexivity. Qed.

Lemma cnt_dput_existing : forall p n s l d,
  wf_dir d -> In n (names d) -> cnt p (dput n s l d) = cnt p d.
Proof. intros. rewrite cnt_dput. rewrite <- (cnt_dremove_in p n d); auto. lia. Qed.

Lemma cnt_dput_le : forall p n s l d, (cnt p (dput n s l d) <= cnt p d + 1)%nat.
Proof. intros. rewrite cnt_dput. pose proof (cnt_dremove_le p n d). destruct (p n); simpl; lia. Qed.

Lemma names_dput : forall n s l d, names (dput n s l d) = n :: names (dremove n d).
Proof. reflexivity. Qed.

Lemma dhas_dput_same : forall n s l d, dhas n (dput n s l d) = true.
Proof. intros. apply dhas_in. rewrite names_dput. left. auto. Qed.

(* ------------------------------------------------------------------ RollingLogger invariants *)
Definition lcount (c : logcfg) (d : dir) : N := N.of_nat (cnt (lmatch c) d).
Definition lfiles (c : logcfg) (d : dir) : dir := filter (fun e => lmatch c (ename e)) d.
Definition wf_cfg (c : logcfg) : Prop := lmatch c (cur_name c) = true /\ 1 <= lmax_count c.
Definition LInv (c : logcfg) (d : dir) : Prop :=
  wf_dir d /\ lcount c d + (if dhas (cur_name c) d then 0 else 1) <= lmax_count c.

Lemma archive_file_eq : forall c ts d,
  archive_file c ts d = trim (lmatch c) (lmax_count c) (drename (cur_name c) (arch_name c ts) d).
Proof. reflexivity. Qed.

Lemma write_all_eq : forall maxc ts sz d,
  write_all maxc ts sz d = dput (dump_name ts) sz 0 (trim is_dump maxc d).
Proof. reflexivity. Qed.

Lemma open_file_wf : forall c d, wf_dir d -> wf_dir (open_file c d).
Proof. intros. unfold open_file. destruct (dhas _ d); auto. apply wf_dput. auto. Qed.

Lemma open_file_has : forall c d, dhas (cur_name c) (open_file c d) = true.
Proof. intros. unfold open_file. destruct (dhas _ d) eqn:E; auto. apply dhas_dput_same. Qed.

Lemma open_file_count : forall c d,
  lcount c (open_file c d) <= lcount c d + (if dhas (cur_name c) d then 0 else 1).
Proof.
  intros. unfold open_file, lcount. destruct (dhas _ d) eqn:E; [lia|].
  pose proof (cnt_dput_le (lmatch c) (cur_name c) 0 0 d). lia.
Qed.

Lemma drename_wf : forall a b d, wf_dir d -> wf_dir (drename a b d).
Proof.
  intros. unfold drename. destruct (dfind a d); auto. apply wf_dput, wf_dremove. auto.
Qed.

Lemma drename_not_in : forall a b d, a <> b -> ~ In a (names (drename a b d)) \/ dfind a d = None.
Proof.
  intros a b d Hab. unfold drename. destruct (dfind a d) eqn:E; auto. left.
  rewrite names_dput. intros [H|H]; [congruence|].
  apply in_names_dremove in H. destruct H as [H _]. apply in_names_dremove in H. tauto.
Qed.

(* after archive_file (whatever the directory looked like): the current file is gone and at most
   max_count - 1 files of the logger remain *)
Lemma archive_file_post : forall c ts d,
  wf_cfg c -> wf_dir d -> dhas (cur_name c) d = true ->
  let d2 := archive_file c ts d in
  wf_dir d2 /\ dhas (cur_name c) d2 = false /\ lcount c d2 + 1 <= lmax_count c.
Proof.
  intros c ts d [Wm W1] WF Hc. rewrite archive_file_eq. cbv zeta.
  set (d1 := drename (cur_name c) (arch_name c ts) d).
  assert (WF1 : wf_dir d1) by (apply drename_wf; auto).
  split; [apply trim_wf; auto|]. split.
  - apply dhas_not_in. intros H. apply trim_names_in in H.
    destruct (drename_not_in (cur_name c) (arch_name c ts) d) as [Hn|Hn].
    + intros E. eapply arch_neq_cur; eauto.
    + contradiction.
    + unfold dhas in Hc. rewrite Hn in Hc. discriminate.
  - unfold lcount, cnt. apply trim_count; auto.
Qed.

Lemma dappend_names_perm : forall n w d, wf_dir d ->
  wf_dir (dappend n w d) /\ (forall p, cnt p (dappend n w d) = cnt p d) /\
  (forall m, dhas m (dappend n w d) = dhas m d).
Proof.
  intros n w d WF. unfold dappend. destruct (dfind n d) eqn:E; [|auto].
  assert (Hin : In n (names d)).
  { apply dhas_in. unfold dhas. rewrite E. auto. }
  split; [apply wf_dput; auto|]. split.
  - intros. apply cnt_dput_existing; auto.
  - intros m. destruct (dhas m d) eqn:Hm.
    + apply dhas_in. apply dhas_in in Hm. rewrite names_dput.
      destruct (beq m n) eqn:Bq; [apply beq_eq in Bq; left; auto|].
      right. apply in_names_dremove. apply beq_neq in Bq. auto.
    + apply dhas_not_in. apply dhas_not_in in Hm. rewrite names_dput. intros [H|H].
      * subst. contradiction.
      * apply in_names_dremove in H. tauto.
Qed.

Lemma roll_if_needed_post : forall c ts d,
  wf_cfg c -> LInv c d ->
  let d1 := roll_if_needed c ts d in
  wf_dir d1 /\ dhas (cur_name c) d1 = true /\ lcount c d1 <= lmax_count c.
Proof.
  intros c ts d W [WF H]. unfold roll_if_needed. cbv zeta.
  pose proof (open_file_wf c d WF) as WF0. pose proof (open_file_has c d) as H0.
  pose proof (open_file_count c d) as C0.
  destruct (lmax_size c <=? cur_size c (open_file c d)).
  - destruct (archive_file_post c ts (open_file c d) W WF0 H0) as [WF2 [H2 C2]].
    split; [apply open_file_wf; auto|]. split; [apply open_file_has|].
    pose proof (open_file_count c (archive_file c ts (open_file c d))) as C3.
    rewrite H2 in C3. lia.
  - split; auto. split; auto. lia.
Qed.

Lemma open_file_id : forall c d, dhas (cur_name c) d = true -> open_file c d = d.
Proof. intros. unfold open_file. rewrite H. reflexivity. Qed.

Lemma write_many_inv : forall c ts lens d,
  wf_cfg c -> LInv c d ->
  LInv c (write_many c ts lens d) /\ dhas (cur_name c) (write_many c ts lens d) = true.
Proof.
  intros c ts lens d W I. destruct (roll_if_needed_post c ts d W I) as [WF1 [H1 C1]].
  unfold write_many. cbv zeta. rewrite (open_file_id c _ H1).
  destruct (dappend_names_perm (cur_name c) (total_bytes lens) _ WF1) as [WF2 [C2 H2]].
  split; [split; auto|].
  - unfold lcount in *. rewrite C2, H2, H1. lia.
  - rewrite H2. auto.
Qed.

(* ------------------------------------------------------------------ well-formedness is preserved *)
Lemma dappend_wf : forall n w d, wf_dir d -> wf_dir (dappend n w d).
Proof. intros. apply dappend_names_perm. auto. Qed.

Lemma archive_file_wf : forall c ts d, wf_dir d -> wf_dir (archive_file c ts d).
Proof. intros. rewrite archive_file_eq. apply trim_wf, drename_wf. auto. Qed.

Lemma roll_if_needed_wf : forall c ts d, wf_dir d -> wf_dir (roll_if_needed c ts d).
Proof.
  intros. unfold roll_if_needed. cbv zeta. destruct (_ <=? _).
  - apply open_file_wf, archive_file_wf, open_file_wf. auto.
  - apply open_file_wf. auto.
Qed.

Lemma write_many_wf : forall c ts lens d, wf_dir d -> wf_dir (write_many c ts lens d).
Proof. intros. unfold write_many. apply dappend_wf, open_file_wf, roll_if_needed_wf. auto. Qed.

Lemma write_all_wf : forall maxc ts sz d, wf_dir d -> wf_dir (write_all maxc ts sz d).
Proof. intros. rewrite write_all_eq. apply wf_dput, trim_wf. auto. Qed.

Lemma write_many_rf_wf : forall c lens d, wf_dir d -> wf_dir (write_many_rf c lens d).
Proof.
  intros. unfold write_many_rf. cbv zeta. destruct (_ <=? _).
  - apply open_file_wf. auto.
  - apply dappend_wf, open_file_wf, open_file_wf. auto.
Qed.

Lemma write_many_lf_wf : forall c ts lens d, wf_dir d -> wf_dir (write_many_lf c ts lens d).
Proof. intros. unfold write_many_lf. apply write_many_wf. auto. Qed.

Lemma step_wf : forall d o, wf_dir d -> wf_dir (step d o).
Proof.
  intros d [c ts lens|c lens|c ts lens|m ts sz| |c] H; simpl; auto;
    [apply write_many_wf | apply write_many_rf_wf | apply write_many_lf_wf | apply write_all_wf]; auto.
Qed.

(* ------------------------------------------------------------------ frame lemmas *)
Section Frame.
Context (q : bytes -> bool).
Notation fq := (filter (fun e => q (ename e))).

Lemma open_file_frame : forall c d, q (cur_name c) = false -> fq (open_file c d) = fq d.
Proof. intros. unfold open_file. destruct (dhas _ d); auto. apply filter_dput_frame. auto. Qed.

Lemma drename_frame : forall a b d, q a = false -> q b = false -> fq (drename a b d) = fq d.
Proof.
  intros. unfold drename. destruct (dfind a d); auto.
  rewrite filter_dput_frame by auto. apply filter_dremove_frame. auto.
Qed.

Lemma dappend_frame : forall n w d, q n = false -> fq (dappend n w d) = fq d.
Proof. intros. unfold dappend. destruct (dfind n d); auto. apply filter_dput_frame. auto. Qed.

Lemma write_many_frame : forall c ts lens d,
  lmatch c (cur_name c) = true ->
  (forall n, lmatch c n = true -> q n = false) ->
  fq (write_many c ts lens d) = fq d.
Proof.
  intros c ts lens d Hc Hq.
  assert (Qc : q (cur_name c) = false) by auto.
  assert (Qa : q (arch_name c ts) = false) by (apply Hq, arch_matches).
  unfold write_many. cbv zeta. rewrite dappend_frame, open_file_frame by auto.
  unfold roll_if_needed. cbv zeta. destruct (_ <=? _).
  - rewrite open_file_frame by auto. rewrite archive_file_eq, trim_frame by auto.
    rewrite drename_frame by auto. apply open_file_frame. auto.
  - apply open_file_frame. auto.
Qed.

Lemma write_many_rf_frame : forall c lens d,
  q (cur_name c) = false -> fq (write_many_rf c lens d) = fq d.
Proof.
  intros c lens d Qc. unfold write_many_rf. cbv zeta. destruct (_ <=? _).
  - apply open_file_frame. auto.
  - rewrite dappend_frame, !open_file_frame by auto. reflexivity.
Qed.

Lemma write_all_frame : forall maxc ts sz d,
  q (dump_name ts) = false ->
  (forall n, is_dump n = true -> q n = false) ->
  fq (write_all maxc ts sz d) = fq d.
Proof.
  intros. rewrite write_all_eq. rewrite filter_dput_frame by auto. apply trim_frame. auto.
Qed.
End Frame.

Lemma skipn_app_exact : forall {A} (a b : list A), skipn (length a) (a ++ b) = b.
Proof. induction a; simpl; auto. Qed.

Lemma dump_name_eq : forall ts,
  dump_name ts = Consts.rules_dump_search_prefix ++ colon_to_dot ts ++ Consts.rules_dump_search_suffix.
Proof. intros. unfold dump_name, colon_to_dot. rewrite !map_app. reflexivity. Qed.

Lemma dump_name_prefix : forall ts, starts_with (dump_name ts) Consts.rules_dump_search_prefix = true.
Proof. intros. rewrite dump_name_eq. apply starts_with_app. Qed.

Lemma is_dump_dump_name : forall ts, is_dump (dump_name ts) = true.
Proof.
  intros. unfold is_dump. apply andb_true_iff. split; [apply dump_name_prefix|].
  rewrite dump_name_eq. rewrite skipn_app_exact. unfold ends_with. rewrite rev_app_distr. apply starts_with_app.
Qed.

Lemma is_dump_prefix : forall n, is_dump n = true -> starts_with n Consts.rules_dump_search_prefix = true.
Proof. intros n H. unfold is_dump in H. apply andb_true_iff in H. tauto. Qed.

(* counting through entries instead of names *)
Lemma cnt_entries : forall p d, cnt p d = length (filter (fun e => p (ename e)) d).
Proof. intros. unfold cnt. rewrite <- names_filter. unfold names. apply map_length. Qed.

Lemma frame_dhas : forall (q : bytes -> bool) d d' n,
  filter (fun e => q (ename e)) d' = filter (fun e => q (ename e)) d ->
  q n = true -> dhas n d' = dhas n d.
Proof.
  intros q d d' n H Hq.
  assert (E : forall x, In n (names x) <-> In n (names (filter (fun e => q (ename e)) x))).
  { intros x. rewrite names_filter, filter_In. tauto. }
  destruct (dhas n d) eqn:Hd.
  - apply dhas_in. apply dhas_in in Hd. rewrite E, H, <- E. auto.
  - apply dhas_not_in. apply dhas_not_in in Hd. rewrite E, H, <- E. auto.
Qed.

(* ------------------------------------------------------------------ size invariant *)
(* [sz_ok ms e]: before its last write the file was below the limit (or empty) *)
Definition sz_ok (ms : N) (e : ent) : Prop :=
  elast e <= esize e /\ (esize e - elast e < ms \/ esize e = elast e).
Definition SInv (c : logcfg) (d : dir) : Prop := Forall (sz_ok (lmax_size c)) (lfiles c d).

Lemma sz_ok_bound : forall ms e, sz_ok ms e -> esize e <= ms + elast e.
Proof. unfold sz_ok. intros. lia. Qed.

Lemma sz_ok_strict : forall ms e, sz_ok ms e -> 0 < ms -> esize e < ms + elast e.
Proof. unfold sz_ok. intros. lia. Qed.

Section Size.
Context (c : logcfg).
Let P (e : ent) : Prop := lmatch c (ename e) = true -> sz_ok (lmax_size c) e.

Lemma SInv_iff : forall d, SInv c d <-> Forall P d.
Proof.
  intros. unfold SInv, lfiles. rewrite !Forall_forall. split.
  - intros H e He Hm. apply H. apply filter_In. auto.
  - intros H e He. apply filter_In in He. destruct He. apply H; auto.
Qed.

Lemma P_dremove : forall n d, Forall P d -> Forall P (dremove n d).
Proof.
  intros n d H. rewrite Forall_forall in *. intros e He. unfold dremove in He.
  apply filter_In in He. apply H. tauto.
Qed.

Lemma P_dput : forall n s l d, Forall P d -> P (n, s, l) -> Forall P (dput n s l d).
Proof. intros. unfold dput. constructor; auto. apply P_dremove. auto. Qed.

Lemma P_trim : forall p m d, Forall P d -> Forall P (trim p m d).
Proof.
  intros p m d H. rewrite Forall_forall in *. intros e He. apply trim_in in He. auto.
Qed.

Lemma P_open_file : forall d, Forall P d -> Forall P (open_file c d).
Proof.
  intros. unfold open_file. destruct (dhas _ d); auto. apply P_dput; auto.
  intros _. unfold sz_ok, esize, elast. simpl. lia.
Qed.

Lemma P_drename : forall b d,
  lmatch c (cur_name c) = true -> Forall P d -> Forall P (drename (cur_name c) b d).
Proof.
  intros b d Hc H. unfold drename. destruct (dfind (cur_name c) d) eqn:E; auto.
  apply dfind_some in E. destruct E as [Hin En].
  apply P_dput; [apply P_dremove; auto|].
  intros _. rewrite Forall_forall in H. specialize (H e Hin). unfold P in H.
  rewrite En in H. specialize (H Hc). unfold sz_ok, esize, elast in *. simpl. auto.
Qed.

Lemma dfind_dput_same : forall n s l d, dfind n (dput n s l d) = Some (n, s, l).
Proof. intros. unfold dfind, dput. simpl. unfold ename at 1. simpl. rewrite beq_refl. reflexivity. Qed.

(* the size test happens BEFORE the write: after roll_if_needed the current file is below the
   limit or empty *)
Lemma roll_cur_size : forall ts d,
  wf_cfg c -> wf_dir d ->
  let d1 := roll_if_needed c ts d in
  cur_size c d1 < lmax_size c \/ cur_size c d1 = 0.
Proof.
  intros ts d W WF. unfold roll_if_needed. cbv zeta.
  destruct (lmax_size c <=? cur_size c (open_file c d)) eqn:E.
  - right. destruct (archive_file_post c ts (open_file c d) W (open_file_wf c d WF) (open_file_has c d))
      as [_ [H2 _]].
    unfold open_file at 1. rewrite H2. unfold cur_size. rewrite dfind_dput_same. reflexivity.
  - left. apply N.leb_gt in E. auto.
Qed.

Lemma P_roll : forall ts d, lmatch c (cur_name c) = true -> Forall P d -> Forall P (roll_if_needed c ts d).
Proof.
  intros ts d Hc H. unfold roll_if_needed. cbv zeta. destruct (_ <=? _).
  - apply P_open_file. rewrite archive_file_eq. apply P_trim. apply P_drename; auto. apply P_open_file. auto.
  - apply P_open_file. auto.
Qed.

Lemma P_write_many : forall ts lens d,
  wf_cfg c -> wf_dir d -> Forall P d -> Forall P (write_many c ts lens d).
Proof.
  intros ts lens d W WF H. pose proof W as [Hc _].
  unfold write_many. cbv zeta.
  pose proof (roll_cur_size ts d W WF) as Hs. cbv zeta in Hs.
  pose proof (P_open_file _ (P_roll ts d Hc H)) as H1.
  set (d1 := open_file c (roll_if_needed c ts d)) in *.
  assert (Hs1 : cur_size c d1 < lmax_size c \/ cur_size c d1 = 0).
  { unfold d1. unfold open_file. destruct (dhas (cur_name c) (roll_if_needed c ts d)) eqn:Hd; auto.
    right. unfold cur_size. rewrite dfind_dput_same. reflexivity. }
  unfold dappend. destruct (dfind (cur_name c) d1) eqn:E; auto.
  apply P_dput; auto. intros _. unfold cur_size in Hs1. rewrite E in Hs1.
  unfold sz_ok, esize, elast in *. simpl in *. lia.
Qed.
End Size.

(* a write whose archiving fails: refused at the limit, a plain append below it *)
Lemma write_many_rf_linv : forall c lens d, LInv c d -> LInv c (write_many_rf c lens d).
Proof.
  intros c lens d [WF H]. unfold write_many_rf. cbv zeta.
  pose proof (open_file_wf c d WF) as WF0. pose proof (open_file_has c d) as H0.
  pose proof (open_file_count c d) as C0.
  destruct (_ <=? _).
  - split; auto. rewrite H0. lia.
  - rewrite (open_file_id c (open_file c d)) by auto.
    destruct (dappend_names_perm (cur_name c) (total_bytes lens) _ WF0) as [WF2 [C2 H2]].
    split; auto. unfold lcount in *. rewrite C2, H2, H0. lia.
Qed.

Lemma write_many_rf_sinv : forall c lens d, SInv c d -> SInv c (write_many_rf c lens d).
Proof.
  intros c lens d S. apply SInv_iff. apply SInv_iff in S.
  unfold write_many_rf. cbv zeta. pose proof (P_open_file c d S) as S0.
  destruct (lmax_size c <=? cur_size c (open_file c d)) eqn:E; auto.
  apply N.leb_gt in E. rewrite (open_file_id c (open_file c d)) by apply open_file_has.
  unfold dappend. destruct (dfind (cur_name c) (open_file c d)) eqn:F; auto.
  apply P_dput; auto. intros _. unfold cur_size in E. rewrite F in E.
  unfold sz_ok, esize, elast in *. simpl in *. lia.
Qed.

(* with a failing rename a file at or beyond the limit is never appended to *)
Lemma write_many_rf_refuses : forall c lens d e,
  dfind (cur_name c) d = Some e -> lmax_size c <= esize e -> write_many_rf c lens d = d.
Proof.
  intros c lens d e F H. unfold write_many_rf. cbv zeta.
  assert (Hh : dhas (cur_name c) d = true) by (unfold dhas; rewrite F; auto).
  rewrite (open_file_id c d Hh). unfold cur_size. rewrite F.
  apply N.leb_le in H. rewrite H. reflexivity.
Qed.

(* what one write does to the current file: [last] is the number of bytes of this write, and the
   file was below the limit (or empty) before it *)
Lemma write_many_effect : forall c ts lens d,
  wf_cfg c -> wf_dir d ->
  exists e, dfind (cur_name c) (write_many c ts lens d) = Some e /\
            elast e = total_bytes lens /\ total_bytes lens <= esize e /\
            (esize e - total_bytes lens < lmax_size c \/ esize e = total_bytes lens).
Proof.
  intros c ts lens d W WF. unfold write_many. cbv zeta.
  pose proof (roll_cur_size c ts d W WF) as Hs. cbv zeta in Hs.
  set (d1 := open_file c (roll_if_needed c ts d)).
  assert (Hs1 : cur_size c d1 < lmax_size c \/ cur_size c d1 = 0).
  { unfold d1. unfold open_file. destruct (dhas (cur_name c) (roll_if_needed c ts d)) eqn:Hd; auto.
    right. unfold cur_size. rewrite dfind_dput_same. reflexivity. }
  assert (Hh : dhas (cur_name c) d1 = true) by apply open_file_has.
  unfold dhas in Hh. unfold dappend. destruct (dfind (cur_name c) d1) eqn:E; [|discriminate].
  rewrite dfind_dput_same. eexists. split; [reflexivity|].
  unfold cur_size in Hs1. rewrite E in Hs1. unfold esize, elast in *. simpl in *. lia.
Qed.

(* ------------------------------------------------------------------ histories *)
(* operations that logger c may see on its directory: its own writes (same settings), writes of
   loggers whose names are not prefix-related to its own, and rule dumps *)
Definition compat (c : logcfg) (o : op) : Prop :=
  match o with
  | OWrite c' _ _ | OWriteRF c' _ | OWriteLF c' _ _ =>
      c' = c \/ (lmatch c' (cur_name c') = true /\ incomparable (lname c) (lname c') = true)
  | ODump _ _ _ => incomparable (lname c) Consts.rules_dump_search_prefix = true
  | ODumpLF => True
  | ORestart _ => True
  end.

Definition Inv (c : logcfg) (d : dir) : Prop := LInv c d /\ SInv c d.

Lemma foreign_frame : forall c o d,
  compat c o -> (match o with OWrite c' _ _ | OWriteRF c' _ | OWriteLF c' _ _ => c' <> c | _ => True end) ->
  lfiles c (step d o) = lfiles c d.
Proof.
  intros c [c' ts lens|c' lens|c' ts lens|m ts sz| |c'] d Hc Hne; simpl in *; auto.
  - destruct Hc as [->|[Hw Hi]]; [contradiction|].
    unfold lfiles. apply (write_many_frame (lmatch c)); auto.
    intros n Hn. unfold lmatch in *. rewrite incomparable_sym in Hi.
    eapply incomparable_disjoint; eauto.
  - destruct Hc as [->|[Hw Hi]]; [contradiction|].
    unfold lfiles. apply (write_many_rf_frame (lmatch c)).
    unfold lmatch in *. rewrite incomparable_sym in Hi.
    eapply incomparable_disjoint; eauto.
  - destruct Hc as [->|[Hw Hi]]; [contradiction|].
    unfold lfiles, write_many_lf. apply (write_many_frame (lmatch c)); auto.
    intros n Hn. unfold lmatch in *. rewrite incomparable_sym in Hi.
    eapply incomparable_disjoint; eauto.
  - unfold lfiles. apply (write_all_frame (lmatch c)).
    + unfold lmatch. rewrite incomparable_sym in Hc.
      eapply incomparable_disjoint; eauto. apply dump_name_prefix.
    + intros n Hn. unfold lmatch. rewrite incomparable_sym in Hc.
      eapply incomparable_disjoint; eauto. apply is_dump_prefix. auto.
Qed.

Lemma frame_inv : forall c d d',
  wf_cfg c -> wf_dir d' -> lfiles c d' = lfiles c d -> Inv c d -> Inv c d'.
Proof.
  intros c d d' [Wc W1] WF' E [[WF L] S]. split; [split; auto|].
  - unfold lcount in *. rewrite !cnt_entries in *. unfold lfiles in E. rewrite E.
    rewrite (frame_dhas (lmatch c) d d' (cur_name c) E Wc). auto.
  - unfold SInv in *. rewrite E. auto.
Qed.

Lemma cfg_eq_dec : forall c c' : logcfg, {c = c'} + {c <> c'}.
Proof.
  intros [n1 s1 k1] [n2 s2 k2].
  destruct (list_eq_dec N.eq_dec n1 n2); [|right; congruence].
  destruct (N.eq_dec s1 s2); [|right; congruence].
  destruct (N.eq_dec k1 k2); [|right; congruence].
  left. congruence.
Qed.

Lemma step_inv : forall c o d, wf_cfg c -> compat c o -> Inv c d -> Inv c (step d o).
Proof.
  intros c o d W Hc I.
  assert (Own : forall ts lens, Inv c (write_many c ts lens d)).
  { intros. destruct I as [L S]. split.
    - apply write_many_inv; auto.
    - apply SInv_iff. apply P_write_many; auto. apply L. apply SInv_iff. auto. }
  destruct o as [c' ts lens|c' lens|c' ts lens|m ts sz| |c'].
  - destruct (cfg_eq_dec c' c) as [->|Hne]; [apply Own|].
    apply (frame_inv c d); auto.
    + apply step_wf. apply I.
    + apply foreign_frame; auto.
  - destruct (cfg_eq_dec c' c) as [->|Hne].
    + destruct I as [L S]. split; [apply write_many_rf_linv | apply write_many_rf_sinv]; auto.
    + apply (frame_inv c d); auto.
      * apply step_wf. apply I.
      * apply foreign_frame; auto.
  - destruct (cfg_eq_dec c' c) as [->|Hne]; [apply Own|].
    apply (frame_inv c d); auto.
    + apply step_wf. apply I.
    + apply foreign_frame; auto.
  - apply (frame_inv c d); auto.
    + apply step_wf. apply I.
    + apply foreign_frame; simpl; auto.
  - simpl. auto.
  - simpl. auto.
Qed.

Lemma trace_inv : forall c ops d,
  wf_cfg c -> Forall (compat c) ops -> Inv c d -> Forall (Inv c) (trace d ops).
Proof.
  induction ops; intros d W H I; simpl; constructor; inversion H; subst.
  - apply step_inv; auto.
  - apply IHops; auto. apply step_inv; auto.
Qed.

Lemma Inv_empty : forall c, 1 <= lmax_count c -> Inv c [].
Proof.
  intros. split; [split|].
  - constructor.
  - unfold lcount, cnt. simpl. lia.
  - constructor.
Qed.

(* ------------------------------------------------------------------ oldest removed first (logs) *)
Lemma in_open_file : forall c d n, In n (names d) -> In n (names (open_file c d)).
Proof.
  intros c d n H. unfold open_file. destruct (dhas (cur_name c) d) eqn:E; auto.
  rewrite names_dput. apply dhas_not_in in E. right. rewrite dremove_notin; auto.
Qed.

Lemma in_open_file_inv : forall c d n, In n (names (open_file c d)) -> n = cur_name c \/ In n (names d).
Proof.
  intros c d n H. unfold open_file in H. destruct (dhas (cur_name c) d); auto.
  rewrite names_dput in H. destruct H as [H|H]; auto. apply in_names_dremove in H. tauto.
Qed.

Lemma in_dappend : forall n w d m, wf_dir d -> (In m (names (dappend n w d)) <-> In m (names d)).
Proof.
  intros n w d m WF. destruct (dappend_names_perm n w d WF) as [_ [_ H]].
  rewrite <- !dhas_in. rewrite H. tauto.
Qed.

Lemma in_drename : forall a b d r, dhas a d = true -> In r (names d) -> r <> a -> In r (names (drename a b d)).
Proof.
  intros a b d r Ha Hr Hne. unfold drename. unfold dhas in Ha. destruct (dfind a d); [|discriminate].
  rewrite names_dput. destruct (beq r b) eqn:E.
  - apply beq_eq in E. left. auto.
  - right. apply beq_neq in E. apply in_names_dremove. split; auto. apply in_names_dremove. auto.
Qed.

Lemma write_many_oldest : forall c ts lens d r k,
  wf_cfg c -> wf_dir d ->
  let d' := write_many c ts lens d in
  In r (names d) -> lmatch c r = true -> r <> cur_name c -> ~ In r (names d') ->
  In k (names d') -> lmatch c k = true -> k <> cur_name c ->
  leb_names r k.
Proof.
  intros c ts lens d r k W WF d' Hr Pr Rc Nr Hk Pk Kc. unfold d', write_many in *. cbv zeta in *.
  assert (WFr : wf_dir (open_file c (roll_if_needed c ts d)))
    by (apply open_file_wf, roll_if_needed_wf; auto).
  rewrite in_dappend in Nr, Hk by auto.
  assert (Nr2 : ~ In r (names (roll_if_needed c ts d))) by (intros X; apply Nr, in_open_file; auto).
  apply in_open_file_inv in Hk. destruct Hk as [Hk|Hk]; [contradiction|].
  clear Nr WFr. unfold roll_if_needed in *. cbv zeta in *.
  destruct (lmax_size c <=? cur_size c (open_file c d)).
  - assert (Nr3 : ~ In r (names (archive_file c ts (open_file c d))))
      by (intros X; apply Nr2, in_open_file; auto).
    apply in_open_file_inv in Hk. destruct Hk as [Hk|Hk]; [contradiction|].
    rewrite archive_file_eq in *.
    apply (trim_oldest (lmatch c) (lmax_count c)
             (drename (cur_name c) (arch_name c ts) (open_file c d)) r k); auto.
    apply in_drename; auto; [apply open_file_has | apply in_open_file; auto].
  - exfalso. apply Nr2. apply in_open_file. auto.
Qed.

(* ------------------------------------------------------------------ convergence of a logger *)
(* a write that rolls brings ANY directory within the bound *)
Lemma write_many_converges : forall c ts lens d,
  wf_cfg c -> wf_dir d -> lmax_size c <= cur_size c (open_file c d) ->
  LInv c (write_many c ts lens d).
Proof.
  intros c ts lens d W WF Hroll. unfold write_many, roll_if_needed. cbv zeta.
  apply N.leb_le in Hroll. rewrite Hroll.
  destruct (archive_file_post c ts (open_file c d) W (open_file_wf c d WF) (open_file_has c d))
    as [WF2 [H2 C2]].
  set (d2 := archive_file c ts (open_file c d)) in *.
  rewrite (open_file_id c (open_file c d2)) by apply open_file_has.
  pose proof (open_file_wf c d2 WF2) as WF3.
  destruct (dappend_names_perm (cur_name c) (total_bytes lens) _ WF3) as [WF4 [C4 H4]].
  split; auto. unfold lcount in *. rewrite C4, H4, open_file_has.
  pose proof (open_file_count c d2) as C3. unfold lcount in C3. rewrite H2 in C3. lia.
Qed.

Lemma cur_size_open_file : forall c d, cur_size c (open_file c d) = cur_size c d.
Proof.
  intros. unfold open_file. destruct (dhas (cur_name c) d) eqn:E; auto.
  unfold cur_size. rewrite dfind_dput_same. unfold dhas in E.
  destruct (dfind (cur_name c) d); [discriminate|reflexivity].
Qed.

Lemma total_bytes_pos : forall lens, lens <> [] -> 1 <= total_bytes lens.
Proof. destruct lens; [congruence|]. intros _. simpl. lia. Qed.

(* one non-empty write either rolls (and then the bound holds) or makes the current file grow *)
Lemma write_many_progress : forall c ts lens d,
  wf_cfg c -> wf_dir d -> lens <> [] ->
  LInv c (write_many c ts lens d) \/
  (cur_size c (open_file c d) < lmax_size c /\
   cur_size c d + 1 <= cur_size c (write_many c ts lens d)).
Proof.
  intros c ts lens d W WF Hne.
  destruct (lmax_size c <=? cur_size c (open_file c d)) eqn:E.
  - left. apply write_many_converges; auto. apply N.leb_le. auto.
  - right. pose proof E as E'. apply N.leb_gt in E'. split; auto.
    unfold write_many, roll_if_needed. cbv zeta. rewrite E.
    rewrite (open_file_id c (open_file c d)) by apply open_file_has.
    pose proof (open_file_has c d) as Hh. unfold dhas in Hh.
    unfold dappend. destruct (dfind (cur_name c) (open_file c d)) eqn:F; [|discriminate].
    unfold cur_size at 2. rewrite dfind_dput_same.
    rewrite <- (cur_size_open_file c d). unfold cur_size. rewrite F.
    pose proof (total_bytes_pos lens Hne). unfold esize. simpl. lia.
Qed.

Definition own_writes (c : logcfg) (ws : list (bytes * list N)) (d : dir) : dir :=
  fold_left (fun d w => write_many c (fst w) (snd w) d) ws d.

Lemma own_writes_converge_aux : forall c ws d n,
  wf_cfg c -> wf_dir d -> Forall (fun w => snd w <> []) ws ->
  (LInv c d \/ n <= cur_size c d) ->
  lmax_size c + 1 <= n + N.of_nat (length ws) -> (1 <= length ws)%nat ->
  LInv c (own_writes c ws d).
Proof.
  induction ws as [|w t IH]; intros d n W WF Hne J Hlen H1; simpl in *; [lia|].
  inversion Hne; subst.
  set (d' := write_many c (fst w) (snd w) d).
  assert (WF' : wf_dir d') by (apply write_many_wf; auto).
  assert (J' : LInv c d' \/ n + 1 <= cur_size c d').
  { destruct J as [J|J]; [left; apply write_many_inv; auto|].
    destruct (write_many_progress c (fst w) (snd w) d W WF H2) as [P|[_ P]]; [auto|right; fold d' in P; lia]. }
  destruct t as [|w2 t2].
  - simpl. destruct J as [J|J]; [apply write_many_inv; auto|].
    destruct (write_many_progress c (fst w) (snd w) d W WF H2) as [P|[P _]]; auto.
    rewrite cur_size_open_file in P. simpl in Hlen. lia.
  - apply (IH d' (n + 1)); auto; simpl in *; lia.
Qed.

Lemma own_writes_converge : forall c ws d,
  wf_cfg c -> wf_dir d -> Forall (fun w => snd w <> []) ws ->
  lmax_size c + 1 <= N.of_nat (length ws) ->
  LInv c (own_writes c ws d).
Proof.
  intros. apply (own_writes_converge_aux c ws d 0); auto; lia.
Qed.

Lemma LInv_count : forall c d, LInv c d -> lcount c d <= lmax_count c.
Proof. intros c d [_ H]. destruct (dhas _ d); lia. Qed.

(* ------------------------------------------------------------------ rule dumps *)
Definition dcount (d : dir) : N := N.of_nat (cnt is_dump d).

(* one write_all brings ANY directory within the bound *)
Lemma write_all_count : forall maxc ts sz d,
  wf_dir d -> 1 <= maxc -> dcount (write_all maxc ts sz d) <= maxc.
Proof.
  intros maxc ts sz d WF H1. rewrite write_all_eq. unfold dcount.
  pose proof (cnt_dput_le is_dump (dump_name ts) sz 0 (trim is_dump maxc d)).
  pose proof (trim_count is_dump maxc d WF H1). unfold cnt in *. lia.
Qed.

Lemma write_all_keeps_new : forall maxc ts sz d,
  dfind (dump_name ts) (write_all maxc ts sz d) = Some (dump_name ts, sz, 0).
Proof. intros. rewrite write_all_eq. apply dfind_dput_same. Qed.

Lemma write_all_oldest : forall maxc ts sz d r k,
  let d' := write_all maxc ts sz d in
  In r (names d) -> is_dump r = true -> ~ In r (names d') ->
  In k (names d') -> is_dump k = true -> k <> dump_name ts ->
  leb_names r k.
Proof.
  intros maxc ts sz d r k d' Hr Pr Nr Hk Pk Kn. unfold d' in *. rewrite write_all_eq in *.
  rewrite names_dput in *.
  apply (trim_oldest is_dump maxc d r k); auto.
  - intros X. apply Nr. destruct (beq r (dump_name ts)) eqn:E.
    + apply beq_eq in E. left. auto.
    + apply beq_neq in E. right. apply in_names_dremove. auto.
  - destruct Hk as [Hk|Hk]; [congruence|]. apply in_names_dremove in Hk. tauto.
Qed.

(* operations the dump bound may see: dumps with the same maximum, and writes of loggers whose
   names are not prefix-related to the dump prefix *)
Definition dcompat (maxc : N) (o : op) : Prop :=
  match o with
  | ODump m _ _ => m = maxc
  | ODumpLF | ORestart _ => True
  | OWrite c' _ _ | OWriteRF c' _ | OWriteLF c' _ _ =>
      lmatch c' (cur_name c') = true /\ incomparable (lname c') Consts.rules_dump_search_prefix = true
  end.

Definition DInv (maxc : N) (d : dir) : Prop := wf_dir d /\ dcount d <= maxc.

Lemma step_dinv : forall maxc o d, 1 <= maxc -> dcompat maxc o -> DInv maxc d -> DInv maxc (step d o).
Proof.
  intros maxc [c' ts lens|c' lens|c' ts lens|m ts sz| |c'] d H1 Hc [WF Hd]; simpl in *; [| | | |split; auto|split; auto].
  - destruct Hc as [Hw Hi]. split; [apply write_many_wf; auto|].
    unfold dcount in *. rewrite cnt_entries in *.
    rewrite (write_many_frame is_dump); auto.
    intros n Hn. destruct (is_dump n) eqn:E; auto. apply is_dump_prefix in E.
    unfold lmatch in Hn. pose proof (incomparable_disjoint _ _ _ Hi Hn). congruence.
  - destruct Hc as [Hw Hi]. split; [apply write_many_rf_wf; auto|].
    unfold dcount in *. rewrite cnt_entries in *.
    rewrite (write_many_rf_frame is_dump); auto.
    destruct (is_dump (cur_name c')) eqn:E; auto. apply is_dump_prefix in E.
    unfold lmatch in Hw. pose proof (incomparable_disjoint _ _ _ Hi Hw). congruence.
  - destruct Hc as [Hw Hi]. split; [apply write_many_lf_wf; auto|].
    assert (Q : forall n, lmatch c' n = true -> is_dump n = false).
    { intros n Hn. destruct (is_dump n) eqn:E; auto. apply is_dump_prefix in E.
      unfold lmatch in Hn. pose proof (incomparable_disjoint _ _ _ Hi Hn). congruence. }
    unfold dcount, write_many_lf in *. rewrite cnt_entries in *.
    rewrite (write_many_frame is_dump); auto.
  - subst. split; [apply write_all_wf; auto|]. apply write_all_count; auto.
Qed.

Lemma trace_dinv : forall maxc ops d,
  1 <= maxc -> Forall (dcompat maxc) ops -> DInv maxc d -> Forall (DInv maxc) (trace d ops).
Proof.
  induction ops; intros d H1 H I; simpl; constructor; inversion H; subst.
  - apply step_dinv; auto.
  - apply IHops; auto. apply step_dinv; auto.
Qed.

(* ------------------------------------------------------------------ event files *)
Definition ev_count (s : evstate) : N := N.of_nat (length (evdir s)).

Lemma filter_len_le : forall {A} (f : A -> bool) l, (length (filter f l) <= length l)%nat.
Proof. induction l; simpl; auto. destruct (f a); simpl; lia. Qed.

Lemma length_dput_le : forall n s l d, (length (dput n s l d) <= length d + 1)%nat.
Proof.
  intros. unfold dput, dremove. simpl. pose proof (filter_len_le (fun e => negb (beq (ename e) n)) d). lia.
Qed.

Lemma ev_push1_dir : forall s, evdir (ev_push1 s) = evdir s.
Proof. intros. unfold ev_push1. destruct (evphase s); auto; destruct (_ <? _); auto. Qed.

Lemma ev_push_dir : forall n s, evdir (N.iter n ev_push1 s) = evdir s.
Proof.
  intros n s. apply (N.iter_invariant n _ ev_push1 (fun x => evdir x = evdir s)); auto.
  intros x Hx. rewrite ev_push1_dir. auto.
Qed.

Lemma ev_push_q : forall n s, evq s <= Consts.event_queue_bound ->
  evq (N.iter n ev_push1 s) <= Consts.event_queue_bound.
Proof.
  intros n s H. apply (N.iter_invariant n _ ev_push1 (fun x => evq x <= Consts.event_queue_bound)); auto.
  intros x Hx. unfold ev_push1.
  destruct (evphase x); auto; destruct (evq x <? Consts.event_queue_bound) eqn:E; simpl; auto;
    apply N.ltb_lt in E; lia.
Qed.

Lemma ev_flush_count : forall cap ts s, ev_count (ev_flush cap ts s) <= N.max (ev_count s) cap.
Proof.
  intros. unfold ev_flush, ev_count. destruct (evq s =? 0); [lia|].
  destruct (cap <=? N.of_nat (length (evdir s))) eqn:E; cbn [evdir]; [lia|].
  apply N.leb_gt in E. pose proof (length_dput_le (ts ++ ev_ext) (evq s) 0 (evdir s)). lia.
Qed.

Lemma ev_flush_q : forall cap ts s, evq (ev_flush cap ts s) <= evq s.
Proof.
  intros. unfold ev_flush. destruct (evq s =? 0); [lia|]. destruct (_ <=? _); simpl; lia.
Qed.

Lemma ev_step_count : forall cap s o, ev_count (ev_step cap s o) <= N.max (ev_count s) cap.
Proof.
  intros cap s [n|ts|ts| |]; simpl.
  - unfold ev_count. rewrite ev_push_dir. lia.
  - unfold ev_tick. pose proof (ev_flush_count cap ts s). destruct (evphase s); auto.
    unfold ev_count in *. simpl. lia.
  - unfold ev_tick_lf, ev_flush_lf, ev_count.
    destruct (evphase s); destruct (evq s =? 0); simpl; lia.
  - unfold ev_stop, ev_count. destruct (evphase s); simpl; lia.
  - unfold ev_count. simpl. lia.
Qed.

Lemma ev_step_q : forall cap s o, evq s <= Consts.event_queue_bound ->
  evq (ev_step cap s o) <= Consts.event_queue_bound.
Proof.
  intros cap s [n|ts|ts| |] H; simpl.
  - apply ev_push_q. auto.
  - unfold ev_tick. pose proof (ev_flush_q cap ts s). destruct (evphase s); simpl; lia.
  - unfold ev_tick_lf, ev_flush_lf. destruct (evphase s); destruct (evq s =? 0) eqn:Q; simpl;
      try apply N.eqb_eq in Q; lia.
  - unfold ev_stop. destruct (evphase s); simpl; lia.
  - lia.
Qed.

Lemma ev_trace_bound : forall cap ops s b,
  ev_count s <= b -> cap <= b -> evq s <= Consts.event_queue_bound ->
  Forall (fun s' => ev_count s' <= b /\ evq s' <= Consts.event_queue_bound) (ev_trace cap s ops).
Proof.
  induction ops; intros s b Hc Hb Hq; simpl; constructor.
  - split; [|apply ev_step_q; auto]. pose proof (ev_step_count cap s a). lia.
  - apply IHops; auto; [|apply ev_step_q; auto]. pose proof (ev_step_count cap s a). lia.
Qed.

(* at the cap a flush -- the periodic one AND the one of the stop pass -- drops the queued events
   and leaves the directory alone *)
Lemma ev_tick_drop : forall cap ts s,
  cap <= ev_count s -> evdir (ev_tick cap ts s) = evdir s /\ (evphase s <> Done -> evq (ev_tick cap ts s) = 0).
Proof.
  intros cap ts s Hc. unfold ev_tick, ev_flush, ev_count in *.
  apply N.leb_le in Hc. rewrite Hc.
  destruct (evphase s); destruct (evq s =? 0) eqn:Q; simpl; try apply N.eqb_eq in Q; split; auto; congruence.
Qed.

Lemma ev_tick_write : forall cap ts s,
  ev_count s < cap -> evq s <> 0 -> evphase s <> Done ->
  dfind (ts ++ ev_ext) (evdir (ev_tick cap ts s)) = Some (ts ++ ev_ext, evq s, 0) /\
  evq (ev_tick cap ts s) = 0.
Proof.
  intros cap ts s Hc Hq Hp. unfold ev_tick, ev_flush, ev_count in *.
  apply N.eqb_neq in Hq. rewrite Hq. apply N.leb_gt in Hc. rewrite Hc.
  destruct (evphase s); simpl; try congruence; split; auto; apply dfind_dput_same.
Qed.

(* after the loop has left (stop seen), nothing changes any more until a restart *)
Lemma ev_done_frozen : forall cap s o,
  evphase s = Done -> o <> ERestart -> ev_step cap s o = s.
Proof.
  intros cap s [n|ts|ts| |] H Hr; simpl; try congruence.
  - apply (N.iter_invariant n _ ev_push1 (fun x => x = s)); auto.
    intros x ->. unfold ev_push1. rewrite H. auto.
  - unfold ev_tick. rewrite H. auto.
  - unfold ev_tick_lf. rewrite H. auto.
  - unfold ev_stop. rewrite H. auto.
Qed.

(* ------------------------------------------------------------------ statements used by Props/C19.v *)
Lemma Forall_impl' : forall {A} (P Q : A -> Prop) l, (forall x, P x -> Q x) -> Forall P l -> Forall Q l.
Proof. intros. eapply Forall_impl; eauto. Qed.

Lemma log_count_history : forall c ops d0,
  wf_cfg c -> Inv c d0 -> Forall (compat c) ops ->
  Forall (fun d => lcount c d <= lmax_count c) (trace d0 ops).
Proof.
  intros c ops d0 W I H. apply (Forall_impl' (Inv c)); [|apply trace_inv; auto].
  intros d [L _]. apply LInv_count. auto.
Qed.

Lemma log_count_from_empty : forall c ops,
  wf_cfg c -> Forall (compat c) ops ->
  Forall (fun d => lcount c d <= lmax_count c) (trace [] ops).
Proof. intros c ops W H. apply log_count_history; auto. apply Inv_empty. apply W. Qed.

Lemma log_size_history : forall c ops d0,
  wf_cfg c -> Inv c d0 -> Forall (compat c) ops ->
  Forall (fun d => forall e, In e (lfiles c d) ->
            esize e <= lmax_size c + elast e /\ (0 < lmax_size c -> esize e < lmax_size c + elast e))
         (trace d0 ops).
Proof.
  intros c ops d0 W I H. apply (Forall_impl' (Inv c)); [|apply trace_inv; auto].
  intros d [_ S] e He. unfold SInv in S. rewrite Forall_forall in S. specialize (S e He).
  split; [apply sz_ok_bound; auto | apply sz_ok_strict; auto].
Qed.

Lemma log_converges_on_roll : forall c ts lens d,
  wf_cfg c -> wf_dir d -> lmax_size c <= cur_size c (open_file c d) ->
  lcount c (write_many c ts lens d) <= lmax_count c.
Proof. intros. apply LInv_count. apply write_many_converges; auto. Qed.

Lemma log_converges_within : forall c ws d,
  wf_cfg c -> wf_dir d -> Forall (fun w => snd w <> []) ws ->
  lmax_size c + 1 <= N.of_nat (length ws) ->
  lcount c (own_writes c ws d) <= lmax_count c.
Proof. intros. apply LInv_count. apply own_writes_converge; auto. Qed.

Lemma loggers_do_not_interfere : forall c c' ts lens d,
  lmatch c' (cur_name c') = true -> incomparable (lname c) (lname c') = true ->
  lfiles c (write_many c' ts lens d) = lfiles c d.
Proof.
  intros c c' ts lens d Hw Hi.
  apply (foreign_frame c (OWrite c' ts lens) d); simpl; auto.
  intros ->. unfold incomparable in Hi. rewrite starts_with_refl in Hi. discriminate.
Qed.

Lemma dumps_do_not_disturb_logs : forall c maxc ts sz d,
  incomparable (lname c) Consts.rules_dump_search_prefix = true ->
  lfiles c (write_all maxc ts sz d) = lfiles c d.
Proof. intros. apply (foreign_frame c (ODump maxc ts sz) d); simpl; auto. Qed.

Lemma logs_do_not_disturb_dumps : forall c ts lens d,
  lmatch c (cur_name c) = true -> incomparable (lname c) Consts.rules_dump_search_prefix = true ->
  filter (fun e => is_dump (ename e)) (write_many c ts lens d) = filter (fun e => is_dump (ename e)) d.
Proof.
  intros c ts lens d Hw Hi. apply (write_many_frame is_dump); auto.
  intros n Hn. destruct (is_dump n) eqn:E; auto. apply is_dump_prefix in E.
  unfold lmatch in Hn. pose proof (incomparable_disjoint _ _ _ Hi Hn). congruence.
Qed.

Lemma dumps_cap_history : forall maxc ops d,
  1 <= maxc -> Forall (dcompat maxc) ops -> wf_dir d -> dcount d <= maxc ->
  Forall (fun d' => dcount d' <= maxc) (trace d ops).
Proof.
  intros maxc ops d H1 H WF Hd. apply (Forall_impl' (DInv maxc)); [intros x [_ X]; auto|].
  apply trace_dinv; auto. split; auto.
Qed.

Lemma event_cap_history : forall cap ops s,
  ev_count s <= cap -> evq s <= Consts.event_queue_bound ->
  Forall (fun s' => ev_count s' <= cap /\ evq s' <= Consts.event_queue_bound) (ev_trace cap s ops).
Proof. intros. apply ev_trace_bound; auto. lia. Qed.

Lemma event_never_grows_over : forall cap ops s,
  evq s <= Consts.event_queue_bound ->
  Forall (fun s' => ev_count s' <= N.max (ev_count s) cap) (ev_trace cap s ops).
Proof.
  intros cap ops s Hq.
  apply (Forall_impl' (fun s' => ev_count s' <= N.max (ev_count s) cap /\ evq s' <= Consts.event_queue_bound));
    [tauto|]. apply ev_trace_bound; auto; lia.
Qed.

(* concrete configurations *)
Definition agent_logger : logcfg :=
  {| lname := Consts.agent_log_file_name; lmax_size := Consts.max_log_file_size; lmax_count := Consts.max_log_file_count |}.
Definition connection_logger : logcfg :=
  {| lname := Consts.agent_connection_log_file_name; lmax_size := Consts.max_log_file_size; lmax_count := Consts.max_log_file_count |}.

Lemma agent_loggers_ok :
  wf_cfg agent_logger /\ wf_cfg connection_logger /\
  incomparable (lname agent_logger) (lname connection_logger) = true /\
  incomparable (lname agent_logger) Consts.rules_dump_search_prefix = true /\
  incomparable (lname connection_logger) Consts.rules_dump_search_prefix = true /\
  1 <= Consts.rules_dump_max_files /\
  incomparable Consts.ext_handler_log_file Consts.ext_service_log_file = true.
Proof.
  unfold wf_cfg. repeat split; try (vm_compute; reflexivity); vm_compute; discriminate.
Qed.

Ltac solve_nodup := repeat (constructor; [simpl; intuition discriminate|]); constructor.

(* "one operation brings the count back" is false for a rolling log: the trim only happens on a roll *)
Definition ex_cfg : logcfg := {| lname := [97; 46; 108; 111; 103]; lmax_size := 100; lmax_count := 1 |}.
Definition ex_over : dir :=
  [([97; 46; 108; 111; 103; 46; 49; 46; 108; 111; 103], 5, 0);
   ([97; 46; 108; 111; 103; 46; 50; 46; 108; 111; 103], 5, 0);
   ([97; 46; 108; 111; 103], 1, 0)].

Lemma log_one_op_convergence_refuted :
  exists c d ts lens, wf_cfg c /\ wf_dir d /\ lmax_count c < lcount c (write_many c ts lens d).
Proof.
  exists ex_cfg, ex_over, [50], [0]. split; [|split].
  - split; vm_compute; [reflexivity|discriminate].
  - unfold wf_dir, ex_over. simpl. solve_nodup.
  - vm_compute. reflexivity.
Qed.

(* a logger whose name is a prefix of another logger's name selects (and deletes) the other's files *)
Definition ex_a : logcfg := {| lname := [80; 65]; lmax_size := 10; lmax_count := 1 |}.           (* "PA" *)
Definition ex_b : logcfg := {| lname := [80; 65; 46; 67]; lmax_size := 10; lmax_count := 3 |}.  (* "PA.C" *)

Lemma prefix_related_loggers_interfere :
  exists ca cb d ts lens,
    starts_with (lname cb) (lname ca) = true /\ wf_dir d /\
    lfiles cb d <> [] /\ lfiles cb (write_many ca ts lens d) = [].
Proof.
  exists ex_a, ex_b, [([80; 65; 46; 67; 46; 108; 111; 103], 4, 0); ([80; 65; 46; 108; 111; 103], 10, 0)], [50], [0].
  split; [reflexivity|]. split; [unfold wf_dir; simpl; solve_nodup|].
  split; [vm_compute; discriminate | vm_compute; reflexivity].
Qed.

(* ------------------------------------------------------------------ the directory listing fails *)
(* Findings F-C19a / F-C19b, repaired in /repo 9e49374 and 7e4ec27.  The behaviour BEFORE the repairs is
   kept as [write_many_lf_before_fix] / [ev_flush_lf_before_fix]; the two lemmas below document why it
   broke the bounds (they are not property theorems any more). *)
Lemma log_count_unstatable_refuted_before_fix :
  exists c ws, wf_cfg c /\
    lmax_count c < lcount c (fold_left (fun d w => write_many_lf_before_fix c (fst w) (snd w) d) ws []).
Proof.
  exists ex_cfg, [([49], [120]); ([50], [1]); ([51], [120]); ([52], [1]); ([53], [1])].
  split; [split; vm_compute; [reflexivity|discriminate]|]. vm_compute. reflexivity.
Qed.

Lemma event_cap_unstatable_refuted_before_fix :
  exists cap s, ev_count s <= cap /\
    cap < ev_count (ev_flush_lf_before_fix [50] (N.iter 1 ev_push1 (ev_flush_lf_before_fix [49] (N.iter 1 ev_push1 s)))).
Proof.
  exists 1, {| evdir := []; evq := 0; evphase := Running |}. split; vm_compute; [discriminate|reflexivity].
Qed.

(* after the repairs a flush whose listing fails never touches the directory *)
Lemma ev_tick_lf_dir : forall ts s, evdir (ev_tick_lf ts s) = evdir s.
Proof.
  intros. unfold ev_tick_lf, ev_flush_lf. destruct (evphase s); destruct (evq s =? 0); reflexivity.
Qed.

Lemma write_many_lf_is_write_many : forall c ts lens d, write_many_lf c ts lens d = write_many c ts lens d.
Proof. reflexivity. Qed.

(* a rule dump whose listing fails is skipped: nothing is written, nothing removed *)
Lemma dump_listing_failure_skips : forall d, step d ODumpLF = d.
Proof. reflexivity. Qed.

Lemma configured_cap_spec : forall o n, o = Some n -> configured_cap o = n.
Proof. intros o n ->. reflexivity. Qed.

(* ------------------------------------------------------------------ the agent's two loggers, with restarts *)
(* operations of the running agent on its log directory: writes (also under a failing rename / a
   failing listing) and restarts of either logger, rule dumps *)
Definition agent_op (o : op) : Prop :=
  match o with
  | OWrite c _ _ | OWriteRF c _ | OWriteLF c _ _ | ORestart c => c = agent_logger \/ c = connection_logger
  | ODump _ _ _ | ODumpLF => True
  end.

Lemma agent_op_compat : forall o, agent_op o -> compat agent_logger o /\ compat connection_logger o.
Proof.
  destruct agent_loggers_ok as [[Wa _] [[Wc _] [I1 [I2 [I3 _]]]]].
  assert (I1' : incomparable (lname connection_logger) (lname agent_logger) = true)
    by (rewrite incomparable_sym; exact I1).
  intros [c ts lens|c lens|c ts lens|m ts sz| |c] H; simpl in *; auto;
    destruct H as [->| ->]; split; auto.
Qed.

Lemma agent_two_loggers_history : forall ops d0,
  Inv agent_logger d0 -> Inv connection_logger d0 -> Forall agent_op ops ->
  Forall (fun d => lcount agent_logger d <= lmax_count agent_logger /\
                   lcount connection_logger d <= lmax_count connection_logger /\
                   (forall e, In e (lfiles agent_logger d) \/ In e (lfiles connection_logger d) ->
                              esize e <= Consts.max_log_file_size + elast e))
         (trace d0 ops).
Proof.
  destruct agent_loggers_ok as [Wa [Wc _]].
  induction ops; intros d0 Ia Ic H; simpl; constructor; inversion H; subst;
    destruct (agent_op_compat a H2) as [Ca Cc];
    pose proof (step_inv agent_logger a d0 Wa Ca Ia) as Ia';
    pose proof (step_inv connection_logger a d0 Wc Cc Ic) as Ic'.
  - split; [apply LInv_count, Ia'|]. split; [apply LInv_count, Ic'|].
    intros e [He|He].
    + destruct Ia' as [_ S]. unfold SInv in S. rewrite Forall_forall in S.
      apply (sz_ok_bound (lmax_size agent_logger)). auto.
    + destruct Ic' as [_ S]. unfold SInv in S. rewrite Forall_forall in S.
      apply (sz_ok_bound (lmax_size connection_logger)). auto.
  - apply IHops; auto.
Qed.

Lemma agent_from_empty : Inv agent_logger [] /\ Inv connection_logger [].
Proof. destruct agent_loggers_ok as [[_ Wa] [[_ Wc] _]]. split; apply Inv_empty; auto. Qed.

(* a restart changes nothing, whatever the directory *)
Lemma restart_noop : forall c d, step d (ORestart c) = d.
Proof. reflexivity. Qed.

(* ------------------------------------------------------------------ name order = age order *)
Lemma ltb_app_prefix : forall p a b, bytes_ltb (p ++ a) (p ++ b) = bytes_ltb a b.
Proof.
  induction p; simpl; auto. intros. rewrite N.ltb_irrefl, N.eqb_refl. simpl. auto.
Qed.

Lemma ltb_app_suffix : forall a b s, length a = length b -> bytes_ltb (a ++ s) (b ++ s) = bytes_ltb a b.
Proof.
  induction a; destruct b; simpl; intros s H; try discriminate.
  - apply ltb_irrefl.
  - rewrite IHa by (inversion H; auto). reflexivity.
Qed.

(* the name write_all produces is <prefix><stamp><suffix> with the stamp right after the fixed prefix *)
Lemma dump_name_order : forall t1 t2,
  length t1 = length t2 ->
  bytes_ltb (dump_name t1) (dump_name t2) = bytes_ltb (colon_to_dot t1) (colon_to_dot t2).
Proof.
  intros. rewrite !dump_name_eq, ltb_app_prefix, ltb_app_suffix; auto.
  unfold colon_to_dot. rewrite !map_length. auto.
Qed.

(* oldest first over the AGE order: with fixed-width stamps from a monotone clock, no dump that
   survives a write_all is older than a dump the write_all removed -- the removed set is an initial
   segment of the age order *)
Lemma dumps_oldest_by_age : forall maxc ts sz d tr tk,
  length tr = length tk ->
  let d' := write_all maxc ts sz d in
  In (dump_name tr) (names d) -> ~ In (dump_name tr) (names d') ->
  In (dump_name tk) (names d') -> dump_name tk <> dump_name ts ->
  bytes_ltb (colon_to_dot tk) (colon_to_dot tr) = false.
Proof.
  intros maxc ts sz d tr tk L d' Hr Nr Hk Kn. rewrite <- dump_name_order by auto.
  apply (write_all_oldest maxc ts sz d (dump_name tr) (dump_name tk)); auto; apply is_dump_dump_name.
Qed.

Lemma write_all_with_eq : forall maxc ts sz d, write_all maxc ts sz d = write_all_with (dump_name ts) maxc sz d.
Proof. reflexivity. Qed.

(* why the stamp must come first: with a tag in front of the stamp (seeded change s1: the modes in
   force) the same trimming deletes the NEWEST dump after a roll-back and keeps a stale one *)
Lemma tagged_names_break_oldest_first :
  exists tag1 tag2 d,
    let w := fun tag ts d => write_all_with (dump_name_tagged tag ts) 2 7 d in
    d = w tag2 [52] (w tag2 [51] (w tag1 [50] (w tag1 [49] []))) /\
    ~ In (dump_name_tagged tag2 [51]) (names d) /\        (* written third: removed *)
    In (dump_name_tagged tag1 [50]) (names d) /\          (* written second: kept *)
    bytes_ltb [50] [51] = true.
Proof.
  exists [101], [97]. eexists. cbv zeta. split; [reflexivity|]. vm_compute.
  split; [|split; [|reflexivity]].
  - intros H. repeat (destruct H as [H|H]; [discriminate|]). contradiction.
  - auto.
Qed.
