(* C17 -- lemmas about Model/SetupFs.v and Model/Setup.v.  The property theorems of
   Props/C17.v are closed by [exact] from here. *)
From GPA Require Import Setup.

(* ------------------------------------------------------------------------------------ *)
(* association-list file system                                                          *)
(* ------------------------------------------------------------------------------------ *)
Lemma sbeq_refl a : beq a a = true.
Proof. induction a as [|x t IH]; cbn [beq]; [reflexivity|]. rewrite N.eqb_refl, IH. reflexivity. Qed.

Lemma sbeq_eq a b : beq a b = true <-> a = b.
Proof.
  revert b; induction a as [|x t IH]; intros [|y u]; cbn [beq]; split; intros H;
    try reflexivity; try discriminate.
  - apply andb_true_iff in H. destruct H as [H1 H2]. apply N.eqb_eq in H1. apply IH in H2. congruence.
  - inversion H; subst. rewrite N.eqb_refl. cbn. apply IH. reflexivity.
Qed.

Lemma loc_eqb_refl l : loc_eqb l l = true.
Proof. destruct l; cbn; try reflexivity; apply sbeq_refl. Qed.

Lemma loc_eqb_eq a b : loc_eqb a b = true <-> a = b.
Proof.
  split.
  - destruct a, b; cbn; intros H; try reflexivity; try discriminate;
      apply sbeq_eq in H; congruence.
  - intros ->. apply loc_eqb_refl.
Qed.

Lemma loc_eqb_neq a b : loc_eqb a b = false <-> a <> b.
Proof.
  split.
  - intros H E. apply loc_eqb_eq in E. congruence.
  - intros H. destruct (loc_eqb a b) eqn:E; [|reflexivity]. apply loc_eqb_eq in E. contradiction.
Qed.

Lemma fs_get_set l d f m :
  fs_get l (fs_set d f m) = if loc_eqb l d then Some f else fs_get l m.
Proof.
  unfold fs_get, fs_set, ainsert. cbn [alookup].
  destruct (loc_eqb l d) eqn:E; [reflexivity|].
  induction m as [|[k v] t IH]; [reflexivity|].
  unfold aremove in *. cbn [filter fst]. destruct (loc_eqb d k) eqn:E2; cbn [negb].
  - apply loc_eqb_eq in E2; subst k. cbn [alookup]. rewrite E. exact IH.
  - cbn [alookup]. destruct (loc_eqb l k); [reflexivity|exact IH].
Qed.

Lemma fs_get_del l d m :
  fs_get l (fs_del d m) = if loc_eqb l d then None else fs_get l m.
Proof.
  unfold fs_get, fs_del, aremove.
  induction m as [|[k v] t IH]; cbn [filter fst alookup].
  - destruct (loc_eqb l d); reflexivity.
  - destruct (loc_eqb d k) eqn:E2; cbn [negb].
    + apply loc_eqb_eq in E2; subst k. rewrite IH. destruct (loc_eqb l d); reflexivity.
    + cbn [alookup]. destruct (loc_eqb l k) eqn:E3.
      * apply loc_eqb_eq in E3; subst k.
        destruct (loc_eqb l d) eqn:E4; [|reflexivity].
        apply loc_eqb_eq in E4; subst d. rewrite loc_eqb_refl in E2. discriminate.
      * exact IH.
Qed.

Lemma fs_get_del_where l p m :
  fs_get l (fs_del_where p m) = if p l then None else fs_get l m.
Proof.
  unfold fs_get, fs_del_where.
  induction m as [|[k v] t IH]; cbn [filter fst alookup].
  - destruct (p l); reflexivity.
  - destruct (p k) eqn:Pk; cbn [negb].
    + rewrite IH. destruct (loc_eqb l k) eqn:E; [|reflexivity].
      apply loc_eqb_eq in E; subst k. rewrite Pk. reflexivity.
    + cbn [alookup]. destruct (loc_eqb l k) eqn:E.
      * apply loc_eqb_eq in E; subst k. rewrite Pk. reflexivity.
      * exact IH.
Qed.

(* ------------------------------------------------------------------------------------ *)
(* ordering predicates on logs                                                           *)
(* ------------------------------------------------------------------------------------ *)
Lemma log_state_app r l1 l2 : log_state r (l1 ++ l2) = log_state (log_state r l1) l2.
Proof.
  revert r; induction l1 as [|e t IH]; intros r; [reflexivity|].
  cbn [app log_state]. destruct e as [[]| | |]; apply IH.
Qed.

Lemma log_safe_app r l1 l2 :
  log_safe r (l1 ++ l2) = log_safe r l1 && log_safe (log_state r l1) l2.
Proof.
  revert r; induction l1 as [|e t IH]; intros r; [reflexivity|].
  cbn [app log_safe log_state].
  destruct e as [[]| | |]; cbn [sys_mutation]; rewrite ?IH, ?andb_assoc; reflexivity.
Qed.

(* the index form of [log_safe]: at every mutation of a system path the pessimistic
   "may be running" flag is off ... *)
Lemma log_safe_at r l pre ev post :
  log_safe r l = true -> l = pre ++ ev :: post -> sys_mutation ev = true ->
  log_state r pre = false.
Proof.
  intros S -> M. rewrite log_safe_app in S. apply andb_true_iff in S. destruct S as [_ S].
  destruct ev as [v|x|x|]; cbn in M; try discriminate.
  - cbn [log_safe sys_mutation] in S. rewrite M in S. apply andb_true_iff in S.
    destruct S as [S _]. destruct (log_state r pre); [discriminate|reflexivity].
  - cbn [log_safe sys_mutation] in S. rewrite M in S. apply andb_true_iff in S.
    destruct S as [S _]. destruct (log_state r pre); [discriminate|reflexivity].
Qed.

(* ... and, when the service was running at the start, that means: a stop call precedes the
   mutation and no start call lies between that stop and the mutation *)
Lemma log_state_false_from_true pre :
  log_state true pre = false ->
  exists p1 p2, pre = p1 ++ ECall VStop :: p2 /\ ~ In (ECall VStart) p2.
Proof.
  assert (G : forall r, log_state r pre = false ->
            (r = false /\ ~ In (ECall VStart) pre) \/
            exists p1 p2, pre = p1 ++ ECall VStop :: p2 /\ ~ In (ECall VStart) p2).
  { induction pre as [|e t IH]; intros r H.
    - left. split; [exact H|intros []].
    - assert (D : (e = ECall VStop) \/ (e = ECall VStart) \/ (e <> ECall VStop /\ e <> ECall VStart /\ log_state r (e :: t) = log_state r t)).
      { destruct e as [[]| | |]; cbn [log_state]; auto; right; right; repeat split; congruence. }
      destruct D as [->|[->|[N1 [N2 E]]]].
      + cbn [log_state] in H. destruct (IH false H) as [[_ NI]|[p1 [p2 [-> NI]]]].
        * right. exists [], t. split; [reflexivity|exact NI].
        * right. exists (ECall VStop :: p1), p2. split; [reflexivity|exact NI].
      + cbn [log_state] in H. destruct (IH true H) as [[F _]|[p1 [p2 [-> NI]]]]; [discriminate|].
        right. exists (ECall VStart :: p1), p2. split; [reflexivity|exact NI].
      + rewrite E in H. destruct (IH r H) as [[F NI]|[p1 [p2 [-> NI]]]].
        * left. split; [exact F|]. intros [X|X]; [congruence|exact (NI X)].
        * right. exists (e :: p1), p2. split; [reflexivity|exact NI]. }
  intros H. destruct (G true H) as [[F _]|X]; [discriminate|exact X].
Qed.

Lemma log_safe_stop_before l pre ev post :
  log_safe true l = true -> l = pre ++ ev :: post -> sys_mutation ev = true ->
  exists p1 p2, pre = p1 ++ ECall VStop :: p2 /\ ~ In (ECall VStart) p2.
Proof.
  intros S E M. apply log_state_false_from_true. exact (log_safe_at true l pre ev post S E M).
Qed.

(* ------------------------------------------------------------------------------------ *)
(* primitive operations                                                                  *)
(* ------------------------------------------------------------------------------------ *)
Lemma some_inj {A} (a b : A) : Some a = Some b -> a = b.
Proof. intros H; injection H; auto. Qed.
Ltac inv_some S := first [discriminate S | (apply some_inj in S; match type of S with _ = ?x => subst x end)].

Section WithOracle.
Context (runnable : file -> bool) (fails : verb -> list event -> bool).

Lemma wfs_call v w : wfs (Setup.call fails v w) = wfs w.
Proof. unfold Setup.call. destruct (fails v (wlog w)); destruct v; reflexivity. Qed.
Lemma wlog_call v w : wlog (Setup.call fails v w) = wlog w ++ [ECall v].
Proof. unfold Setup.call. destruct (fails v (wlog w)); destruct v; reflexivity. Qed.
Lemma wtool_call v w : wtool (Setup.call fails v w) = wtool w.
Proof. unfold Setup.call. destruct (fails v (wlog w)); destruct v; reflexivity. Qed.
Lemma wrunning_call v w :
  wrunning (Setup.call fails v w) =
  if fails v (wlog w) then wrunning w else
  match v with
  | VStop => false
  | VStart => if fs_has SysUnit (wfs w) then true else wrunning w
  | _ => wrunning w
  end.
Proof. unfold Setup.call. destruct (fails v (wlog w)); destruct v; reflexivity. Qed.
Lemma wenabled_call v w :
  wenabled (Setup.call fails v w) =
  if fails v (wlog w) then wenabled w else
  match v with
  | VDisable => false
  | VEnable => if fs_has SysUnit (wfs w) then true else wenabled w
  | _ => wenabled w
  end.
Proof. unfold Setup.call. destruct (fails v (wlog w)); destruct v; reflexivity. Qed.

Lemma get_copy l s d w :
  fs_get l (wfs (copy s d w)) =
  match fs_get s (wfs w) with
  | Some f => if loc_eqb l d then Some f else fs_get l (wfs w)
  | None => fs_get l (wfs w)
  end.
Proof.
  unfold copy. destruct (fs_get s (wfs w)) as [f|]; [|reflexivity].
  cbn [emit set_fs wfs]. apply fs_get_set.
Qed.
Lemma wrunning_copy s d w : wrunning (copy s d w) = wrunning w.
Proof. unfold copy. destruct (fs_get s (wfs w)); reflexivity. Qed.
Lemma wenabled_copy s d w : wenabled (copy s d w) = wenabled w.
Proof. unfold copy. destruct (fs_get s (wfs w)); reflexivity. Qed.
Lemma wtool_copy s d w : wtool (copy s d w) = wtool w.
Proof. unfold copy. destruct (fs_get s (wfs w)); reflexivity. Qed.
Lemma wlog_copy s d w :
  wlog (copy s d w) = wlog w ++ (if fs_has s (wfs w) then [EWrite d] else []).
Proof.
  unfold copy, fs_has. destruct (fs_get s (wfs w)); cbn [emit set_fs wlog];
    [reflexivity|rewrite app_nil_r; reflexivity].
Qed.

Lemma get_remove l d w :
  fs_get l (wfs (remove d w)) = if loc_eqb l d then None else fs_get l (wfs w).
Proof.
  unfold remove. destruct (fs_get d (wfs w)) as [f|] eqn:E.
  - cbn [emit set_fs wfs]. apply fs_get_del.
  - destruct (loc_eqb l d) eqn:E2; [|reflexivity]. apply loc_eqb_eq in E2; subst. exact E.
Qed.
Lemma wrunning_remove d w : wrunning (remove d w) = wrunning w.
Proof. unfold remove. destruct (fs_get d (wfs w)); reflexivity. Qed.
Lemma wenabled_remove d w : wenabled (remove d w) = wenabled w.
Proof. unfold remove. destruct (fs_get d (wfs w)); reflexivity. Qed.
Lemma wtool_remove d w : wtool (remove d w) = wtool w.
Proof. unfold remove. destruct (fs_get d (wfs w)); reflexivity. Qed.
Lemma wlog_remove d w :
  wlog (remove d w) = wlog w ++ (if fs_has d (wfs w) then [ERemove d] else []).
Proof.
  unfold remove, fs_has. destruct (fs_get d (wfs w)); cbn [emit set_fs wlog];
    [reflexivity|rewrite app_nil_r; reflexivity].
Qed.

Lemma get_remove_backup_dir l w :
  fs_get l (wfs (remove_backup_dir w)) = if in_backup l then None else fs_get l (wfs w).
Proof. unfold remove_backup_dir. cbn [emit set_fs wfs]. apply fs_get_del_where. Qed.

Lemma get_move l s d w :
  fs_get l (wfs (move s d w)) =
  match fs_get s (wfs w) with
  | Some f => if loc_eqb l d then Some f else if loc_eqb l s then None else fs_get l (wfs w)
  | None => fs_get l (wfs w)
  end.
Proof.
  unfold move. destruct (fs_get s (wfs w)) as [f|]; [|reflexivity].
  cbn [emit set_fs wfs]. rewrite fs_get_set, fs_get_del. reflexivity.
Qed.
Lemma wrunning_move s d w : wrunning (move s d w) = wrunning w.
Proof. unfold move. destruct (fs_get s (wfs w)); reflexivity. Qed.
Lemma wenabled_move s d w : wenabled (move s d w) = wenabled w.
Proof. unfold move. destruct (fs_get s (wfs w)); reflexivity. Qed.
Lemma wlog_move s d w :
  wlog (move s d w) = wlog w ++ (if fs_has s (wfs w) then [EWrite d] else []).
Proof.
  unfold move, fs_has. destruct (fs_get s (wfs w)); cbn [emit set_fs wlog];
    [reflexivity|rewrite app_nil_r; reflexivity].
Qed.

Lemma wfs_banner c w : wfs (banner c w) = wfs w.
Proof. destruct c; reflexivity. Qed.
Lemma wlog_banner c w : wlog (banner c w) = wlog w.
Proof. destruct c; reflexivity. Qed.
Lemma wrunning_banner c w : wrunning (banner c w) = wrunning w.
Proof. destruct c; reflexivity. Qed.
Lemma wenabled_banner c w : wenabled (banner c w) = wenabled w.
Proof. destruct c; reflexivity. Qed.

(* ------------------------------------------------------------------------------------ *)
(* generic facts about scripts                                                           *)
(* ------------------------------------------------------------------------------------ *)
(* an operation alters only locations in P ([cb]: P covers the whole backup folder) *)
Definition op_touches (P : loc -> bool) (cb : bool) (o : op) : bool :=
  match o with
  | OCopy _ d => P d
  | ORemove l => P l
  | OMoveIf _ s d => P s && P d
  | ORemoveUnitReload => P SysUnit
  | ORemoveBackupDir => cb
  | _ => true
  end.

Lemma step_op_untouched P cb o w w' l :
  (cb = true -> forall x, in_backup x = true -> P x = true) ->
  op_touches P cb o = true -> step_op runnable fails o w = Some w' -> P l = false ->
  fs_get l (wfs w') = fs_get l (wfs w).
Proof.
  intros HC T S Pl. destruct o; cbn [step_op op_touches] in *.
  - inv_some S. rewrite wfs_call. reflexivity.
  - inv_some S. rewrite get_copy. destruct (fs_get src (wfs w)); [|reflexivity].
    destruct (loc_eqb l dst) eqn:E; [|reflexivity]. apply loc_eqb_eq in E; subst. congruence.
  - inv_some S. rewrite get_remove.
    destruct (loc_eqb l l0) eqn:E; [|reflexivity]. apply loc_eqb_eq in E; subst. congruence.
  - destruct (version_ok runnable l0 w); inv_some S; reflexivity.
  - destruct (fs_has l0 (wfs w)); inv_some S; reflexivity.
  - apply andb_true_iff in T. destruct T as [T1 T2].
    destruct (fs_has guard (wfs w)); inv_some S; [|reflexivity].
    rewrite get_move. destruct (fs_get src (wfs w)); [|reflexivity].
    destruct (loc_eqb l dst) eqn:E; [apply loc_eqb_eq in E; subst; congruence|].
    destruct (loc_eqb l src) eqn:E2; [apply loc_eqb_eq in E2; subst; congruence|reflexivity].
  - destruct (fs_has SysUnit (wfs w)); inv_some S; [|reflexivity].
    rewrite wfs_call, get_remove.
    destruct (loc_eqb l SysUnit) eqn:E; [|reflexivity]. apply loc_eqb_eq in E; subst. congruence.
  - inv_some S. rewrite get_remove_backup_dir.
    destruct (in_backup l) eqn:E; [|reflexivity]. rewrite (HC T l E) in Pl. discriminate.
Qed.

Lemma run_ops_untouched P cb ops w l :
  (cb = true -> forall x, in_backup x = true -> P x = true) ->
  forallb (op_touches P cb) ops = true -> P l = false ->
  fs_get l (wfs (run_ops runnable fails ops w)) = fs_get l (wfs w).
Proof.
  intros HC. revert w. induction ops as [|o t IH]; intros w T Pl; [reflexivity|].
  cbn [forallb] in T. apply andb_true_iff in T. destruct T as [T1 T2].
  cbn [run_ops]. destruct (step_op runnable fails o w) as [w'|] eqn:S; [|reflexivity].
  rewrite (IH w' T2 Pl). exact (step_op_untouched P cb o w w' l HC T1 S Pl).
Qed.

(* the log only grows *)
Lemma step_op_log o w w' :
  step_op runnable fails o w = Some w' -> exists es, wlog w' = wlog w ++ es.
Proof.
  intros S. destruct o; cbn [step_op] in S.
  - inv_some S. eexists. apply wlog_call.
  - inv_some S. eexists. apply wlog_copy.
  - inv_some S. eexists. apply wlog_remove.
  - destruct (version_ok runnable l w); inv_some S. exists []. rewrite app_nil_r. reflexivity.
  - destruct (fs_has l (wfs w)); inv_some S. exists []. rewrite app_nil_r. reflexivity.
  - destruct (fs_has guard (wfs w)); inv_some S.
    + eexists. apply wlog_move.
    + exists []. rewrite app_nil_r. reflexivity.
  - destruct (fs_has SysUnit (wfs w)); inv_some S.
    + eexists. rewrite wlog_call, wlog_remove, <- app_assoc. reflexivity.
    + exists []. rewrite app_nil_r. reflexivity.
  - inv_some S. exists [ERemoveBackupDir]. reflexivity.
Qed.

Lemma run_ops_log ops w : exists es, wlog (run_ops runnable fails ops w) = wlog w ++ es.
Proof.
  revert w; induction ops as [|o t IH]; intros w; cbn [run_ops].
  - exists []. rewrite app_nil_r. reflexivity.
  - destruct (step_op runnable fails o w) as [w'|] eqn:S.
    + destruct (step_op_log o w w' S) as [e1 E1]. destruct (IH w') as [e2 E2].
      exists (e1 ++ e2). rewrite E2, E1, app_assoc. reflexivity.
    + exists []. rewrite app_nil_r. reflexivity.
Qed.

(* static ordering check of a script: mirrors [log_safe] on the operations *)
Fixpoint ops_safe (r : bool) (ops : list op) : bool :=
  match ops with
  | [] => true
  | OCall VStop :: t => ops_safe false t
  | OCall VStart :: t => ops_safe true t
  | OCopy _ d :: t => (if is_sys d then negb r else true) && ops_safe r t
  | ORemove l :: t => (if is_sys l then negb r else true) && ops_safe r t
  | OMoveIf _ _ d :: t => (if is_sys d then negb r else true) && ops_safe r t
  | ORemoveUnitReload :: t => negb r && ops_safe r t
  | _ :: t => ops_safe r t
  end.

Lemma run_ops_safe ops : forall w r0,
  log_safe r0 (wlog w) = true ->
  ops_safe (log_state r0 (wlog w)) ops = true ->
  log_safe r0 (wlog (run_ops runnable fails ops w)) = true.
Proof.
  induction ops as [|o t IH]; intros w r0 S O; [exact S|].
  cbn [run_ops]. destruct o; cbn [step_op].
  - (* OCall *)
    apply IH.
    + rewrite wlog_call, log_safe_app, S. cbn [andb]. destruct v; reflexivity.
    + rewrite wlog_call, log_state_app. destruct v; cbn [ops_safe log_state] in *; exact O.
  - (* OCopy *)
    cbn [ops_safe] in O. apply andb_true_iff in O. destruct O as [O1 O2].
    apply IH.
    + rewrite wlog_copy, log_safe_app, S. cbn [andb].
      destruct (fs_has src (wfs w)); [|reflexivity]. cbn [log_safe sys_mutation].
      rewrite O1. reflexivity.
    + rewrite wlog_copy, log_state_app. destruct (fs_has src (wfs w)); exact O2.
  - (* ORemove *)
    cbn [ops_safe] in O. apply andb_true_iff in O. destruct O as [O1 O2].
    apply IH.
    + rewrite wlog_remove, log_safe_app, S. cbn [andb].
      destruct (fs_has l (wfs w)); [|reflexivity]. cbn [log_safe sys_mutation].
      rewrite O1. reflexivity.
    + rewrite wlog_remove, log_state_app. destruct (fs_has l (wfs w)); exact O2.
  - destruct (version_ok runnable l w); [apply IH; assumption|exact S].
  - destruct (fs_has l (wfs w)); [apply IH; assumption|exact S].
  - (* OMoveIf *)
    cbn [ops_safe] in O. apply andb_true_iff in O. destruct O as [O1 O2].
    destruct (fs_has guard (wfs w)); [|apply IH; assumption].
    apply IH.
    + rewrite wlog_move, log_safe_app, S. cbn [andb].
      destruct (fs_has src (wfs w)); [|reflexivity]. cbn [log_safe sys_mutation].
      rewrite O1. reflexivity.
    + rewrite wlog_move, log_state_app. destruct (fs_has src (wfs w)); exact O2.
  - (* ORemoveUnitReload *)
    cbn [ops_safe] in O. apply andb_true_iff in O. destruct O as [O1 O2].
    destruct (fs_has SysUnit (wfs w)) eqn:H; [|apply IH; assumption].
    apply IH.
    + rewrite wlog_call, wlog_remove, H, <- app_assoc, log_safe_app, S. cbn [andb app log_safe sys_mutation is_sys].
      rewrite O1. reflexivity.
    + rewrite wlog_call, wlog_remove, H, <- app_assoc, log_state_app. exact O2.
  - apply IH.
    + cbn [remove_backup_dir emit set_fs wlog]. rewrite log_safe_app, S. reflexivity.
    + cbn [remove_backup_dir emit set_fs wlog]. rewrite log_state_app. exact O.
Qed.

Lemma script_safe c w r : ops_safe r (script c w) = true.
Proof.
  destruct c as [| |d|m| |]; cbn [script].
  - destruct r; reflexivity.
  - destruct r; reflexivity.
  - destruct (backup_exists w); [|reflexivity]. destruct d, r; reflexivity.
  - destruct m, r; reflexivity.
  - reflexivity.
  - reflexivity.
Qed.

Lemma exec_safe c w r0 :
  log_safe r0 (wlog w) = true -> log_safe r0 (wlog (exec runnable fails c w)) = true.
Proof.
  intros S. unfold exec. apply run_ops_safe.
  - rewrite wlog_banner. exact S.
  - replace (script c w) with (script c (banner c w)) by (destruct c; reflexivity).
    apply script_safe.
Qed.

Lemma step_events_safe c w r : log_safe r (step_events runnable fails c w) = true.
Proof. unfold step_events. apply exec_safe. reflexivity. Qed.

Lemma run_safe cmds : forall w r0,
  log_safe r0 (wlog w) = true -> log_safe r0 (wlog (run runnable fails cmds w)) = true.
Proof.
  unfold run. induction cmds as [|c t IH]; intros w r0 S; [exact S|].
  cbn [fold_left]. apply IH. apply exec_safe. exact S.
Qed.

Lemma history_events_safe cmds w r : log_safe r (history_events runnable fails cmds w) = true.
Proof. unfold history_events. apply run_safe. reflexivity. Qed.

(* every file mutation in the log targets an allowed location *)
Lemma step_op_events_allowed o w w' :
  step_op runnable fails o w = Some w' -> forallb event_allowed (wlog w) = true ->
  op_touches allowed true o = true -> forallb event_allowed (wlog w') = true.
Proof.
  intros S A T. destruct o; cbn [step_op op_touches] in *.
  - inv_some S. rewrite wlog_call, forallb_app, A. reflexivity.
  - inv_some S. rewrite wlog_copy, forallb_app, A. destruct (fs_has src (wfs w)); cbn; [rewrite T|]; reflexivity.
  - inv_some S. rewrite wlog_remove, forallb_app, A. destruct (fs_has l (wfs w)); cbn; [rewrite T|]; reflexivity.
  - destruct (version_ok runnable l w); inv_some S; exact A.
  - destruct (fs_has l (wfs w)); inv_some S; exact A.
  - apply andb_true_iff in T. destruct T as [T1 T2].
    destruct (fs_has guard (wfs w)); inv_some S; [|exact A].
    rewrite wlog_move, forallb_app, A. destruct (fs_has src (wfs w)); cbn; [rewrite T2|]; reflexivity.
  - destruct (fs_has SysUnit (wfs w)) eqn:H; inv_some S; [|exact A].
    rewrite wlog_call, wlog_remove, H, !forallb_app, A. reflexivity.
  - inv_some S. cbn [remove_backup_dir emit set_fs wlog]. rewrite forallb_app, A. reflexivity.
Qed.

Lemma run_ops_events_allowed ops : forall w,
  forallb event_allowed (wlog w) = true -> forallb (op_touches allowed true) ops = true ->
  forallb event_allowed (wlog (run_ops runnable fails ops w)) = true.
Proof.
  induction ops as [|o t IH]; intros w A T; [exact A|].
  cbn [forallb] in T. apply andb_true_iff in T. destruct T as [T1 T2].
  cbn [run_ops]. destruct (step_op runnable fails o w) as [w'|] eqn:S; [|exact A].
  apply IH; [|exact T2]. exact (step_op_events_allowed o w w' S A T1).
Qed.

Lemma script_allowed c w : forallb (op_touches allowed true) (script c w) = true.
Proof.
  destruct c as [| |d|m| |]; cbn [script]; try reflexivity.
  - destruct (backup_exists w); [|reflexivity]. destruct d; reflexivity.
  - destruct m; reflexivity.
Qed.

Lemma allowed_covers_backup : true = true -> forall x, in_backup x = true -> allowed x = true.
Proof. intros _ x H. unfold allowed. rewrite H. apply orb_true_r. Qed.

(* FRAME: no command alters a location outside the system paths and the backup folder *)
Lemma exec_frame c w l :
  allowed l = false -> fs_get l (wfs (exec runnable fails c w)) = fs_get l (wfs w).
Proof.
  intros A. unfold exec.
  rewrite (run_ops_untouched allowed true (script c w) (banner c w) l allowed_covers_backup (script_allowed c w) A).
  apply f_equal. apply wfs_banner.
Qed.

Lemma run_frame cmds : forall w l,
  allowed l = false -> fs_get l (wfs (run runnable fails cmds w)) = fs_get l (wfs w).
Proof.
  unfold run. induction cmds as [|c t IH]; intros w l A; [reflexivity|].
  cbn [fold_left]. rewrite (IH _ l A). apply exec_frame. exact A.
Qed.

Lemma exec_events_allowed c w :
  forallb event_allowed (step_events runnable fails c w) = true.
Proof.
  unfold step_events, exec. apply run_ops_events_allowed.
  - rewrite wlog_banner. reflexivity.
  - replace (script c (clear_log w)) with (script c w) by (destruct c; reflexivity).
    apply script_allowed.
Qed.

Lemma run_events_allowed cmds : forall w,
  forallb event_allowed (wlog w) = true ->
  forallb event_allowed (wlog (run runnable fails cmds w)) = true.
Proof.
  unfold run. induction cmds as [|c t IH]; intros w A; [exact A|].
  cbn [fold_left]. apply IH. unfold exec. apply run_ops_events_allowed.
  - rewrite wlog_banner. exact A.
  - apply script_allowed.
Qed.

(* install / restore / uninstall touch only system paths (the final purge of restore aside) *)
Lemma no_cover : false = true -> forall x, in_backup x = true -> is_sys x = true.
Proof. discriminate. Qed.

Lemma install_sys_only w l :
  is_sys l = false -> fs_get l (wfs (exec runnable fails Install w)) = fs_get l (wfs w).
Proof.
  intros A. unfold exec. cbn [script].
  rewrite (run_ops_untouched is_sys false install_ops _ l no_cover eq_refl A). reflexivity.
Qed.

Lemma uninstall_sys_only m w l :
  is_sys l = false -> fs_get l (wfs (exec runnable fails (Uninstall m) w)) = fs_get l (wfs w).
Proof.
  intros A. unfold exec. cbn [script].
  assert (T : forallb (op_touches is_sys false) (uninstall_ops m) = true) by (destruct m; reflexivity).
  rewrite (run_ops_untouched is_sys false _ _ l no_cover T A). reflexivity.
Qed.

Lemma backup_cover : true = true -> forall x, in_backup x = true -> in_backup x = true.
Proof. auto. Qed.

Lemma backup_backup_only w l :
  in_backup l = false -> fs_get l (wfs (exec runnable fails Backup w)) = fs_get l (wfs w).
Proof.
  intros A. unfold exec. cbn [script].
  rewrite (run_ops_untouched in_backup true backup_ops _ l backup_cover eq_refl A). reflexivity.
Qed.

(* ------------------------------------------------------------------------------------ *)
(* the individual commands                                                               *)
(* ------------------------------------------------------------------------------------ *)
Ltac fsn :=
  repeat progress (unfold fs_has, version_ok; rewrite ?wfs_call, ?get_copy, ?get_remove, ?get_move, ?get_remove_backup_dir, ?wfs_banner,
            ?wrunning_move, ?wenabled_move,
            ?wrunning_copy, ?wenabled_copy, ?wrunning_remove, ?wenabled_remove,
            ?wrunning_call, ?wenabled_call, ?wrunning_banner, ?wenabled_banner).

(* BACKUP: each present system file is copied to its backup location; nothing else changes *)
Lemma backup_get w l :
  fs_get l (wfs (exec runnable fails Backup w)) =
  match l with
  | BakCfg => match fs_get SysCfg (wfs w) with Some f => Some f | None => fs_get BakCfg (wfs w) end
  | BakEbpf => match fs_get SysEbpf (wfs w) with Some f => Some f | None => fs_get BakEbpf (wfs w) end
  | BakExe => match fs_get SysExe (wfs w) with Some f => Some f | None => fs_get BakExe (wfs w) end
  | BakUnit => match fs_get SysUnit (wfs w) with Some f => Some f | None => fs_get BakUnit (wfs w) end
  | BakTmp => match fs_get SysExe (wfs w) with Some _ => None | None => fs_get BakTmp (wfs w) end
  | _ => fs_get l (wfs w)
  end.
Proof.
  destruct (fs_get SysExe (wfs w)) eqn:He; destruct (fs_get SysCfg (wfs w)) eqn:Hc;
    destruct (fs_get SysEbpf (wfs w)) eqn:Hb; destruct (fs_get SysUnit (wfs w)) eqn:Hu;
    unfold exec; cbn [script backup_ops run_ops step_op]; unfold fs_has; fsn;
    rewrite ?He, ?Hc, ?Hb, ?Hu; cbn [loc_eqb]; rewrite ?He, ?Hc, ?Hb, ?Hu; cbn [run_ops];
    fsn; rewrite ?He, ?Hc, ?Hb, ?Hu; cbn [loc_eqb]; rewrite ?He, ?Hc, ?Hb, ?Hu; cbn [loc_eqb];
    destruct l; cbn [loc_eqb]; rewrite ?He, ?Hc, ?Hb, ?Hu; reflexivity.
Qed.

(* RESTORE without a backup is the identity, the tool's own log aside *)
Lemma restore_without_backup d w :
  backup_exists w = false -> exec runnable fails (Restore d) w = log_tool (Restore d) w.
Proof. intros H. unfold exec. cbn [script]. rewrite H. reflexivity. Qed.

Lemma restore_without_backup_rc d w :
  backup_exists w = false -> exit_code runnable fails (Restore d) w = 0.
Proof. intros H. unfold exit_code. cbn [script]. rewrite H. reflexivity. Qed.

(* RESTORE with a complete backup whose agent runs: the four system files are the backed-up
   ones, the service is enabled and running, exit code 0 *)
Lemma restore_complete d w e c b u :
  fs_get BakExe (wfs w) = Some e -> fs_get BakCfg (wfs w) = Some c ->
  fs_get BakEbpf (wfs w) = Some b -> fs_get BakUnit (wfs w) = Some u ->
  runnable e = true ->
  let w' := exec runnable fails (Restore d) w in
  fs_get SysExe (wfs w') = Some e /\ fs_get SysCfg (wfs w') = Some c /\
  fs_get SysEbpf (wfs w') = Some b /\ fs_get SysUnit (wfs w') = Some u /\
  exit_code runnable fails (Restore d) w = 0 /\
  ((forall v l, fails v l = false) -> wrunning w' = true /\ wenabled w' = true).
Proof.
  intros He Hc Hb Hu Hr w'. subst w'. unfold exit_code, exec. cbn [script].
  unfold backup_exists, fs_has. rewrite He.
  unfold restore_ops, copy_files_ops, setup_service_ops. cbn [app].
  cbn [run_ops rc_ops step_op]. unfold version_ok. fsn. rewrite He, Hr.
  cbn [run_ops rc_ops step_op]. unfold fs_has. fsn. rewrite He, Hc, Hb, Hu. cbn [loc_eqb].
  cbn [run_ops rc_ops step_op].
  destruct d; cbn [app run_ops rc_ops step_op]; unfold remove_backup_dir; cbn [wrunning wenabled wfs emit set_fs];
    rewrite ?fs_get_del_where; unfold fs_has; fsn; rewrite ?He, ?Hc, ?Hb, ?Hu; cbn [loc_eqb in_backup];
    rewrite ?He, ?Hc, ?Hb, ?Hu;
    (refine (conj _ (conj _ (conj _ (conj _ (conj _ _))))); try reflexivity; intros Hnf; rewrite ?Hnf; split; reflexivity).
Qed.

(* INSTALL with a complete package: exactly the packaged files, service enabled and running *)
Lemma install_complete w e c b u :
  fs_get PkgExe (wfs w) = Some e -> fs_get PkgCfg (wfs w) = Some c ->
  fs_get PkgEbpf (wfs w) = Some b -> fs_get PkgUnit (wfs w) = Some u ->
  runnable e = true ->
  let w' := exec runnable fails Install w in
  fs_get SysExe (wfs w') = Some e /\ fs_get SysCfg (wfs w') = Some c /\
  fs_get SysEbpf (wfs w') = Some b /\ fs_get SysUnit (wfs w') = Some u /\
  exit_code runnable fails Install w = 0 /\
  ((forall v l, fails v l = false) -> wrunning w' = true /\ wenabled w' = true).
Proof.
  intros He Hc Hb Hu Hr w'. subst w'. unfold exit_code, exec. cbn [script].
  unfold install_ops, copy_files_ops, setup_service_ops. cbn [app].
  cbn [run_ops rc_ops step_op]. unfold version_ok. fsn. rewrite He, Hr.
  cbn [run_ops rc_ops step_op]. unfold fs_has. fsn. rewrite He, Hc, Hb, Hu. cbn [loc_eqb].
  cbn [run_ops rc_ops step_op]. unfold fs_has. fsn. rewrite ?He, ?Hc, ?Hb, ?Hu. cbn [loc_eqb].
  rewrite ?He, ?Hc, ?Hb, ?Hu.
  refine (conj _ (conj _ (conj _ (conj _ (conj _ _))))); try reflexivity. intros Hnf. rewrite ?Hnf. split; reflexivity.
Qed.

(* the exact call / write log of a complete install and of a complete restore *)
Lemma install_complete_log w e c b u :
  fs_get PkgExe (wfs w) = Some e -> fs_get PkgCfg (wfs w) = Some c ->
  fs_get PkgEbpf (wfs w) = Some b -> fs_get PkgUnit (wfs w) = Some u ->
  runnable e = true ->
  step_events runnable fails Install w =
  [ECall VStop; EWrite SysExe; EWrite SysCfg; EWrite SysEbpf; EWrite SysUnit;
   ECall VUnmask; ECall VDaemonReload; ECall VEnable; ECall VStart].
Proof.
  intros He Hc Hb Hu Hr. unfold step_events, exec. cbn [script].
  unfold install_ops, copy_files_ops, setup_service_ops. cbn [app].
  cbn [run_ops step_op]. unfold version_ok. fsn. cbn [clear_log wfs]. rewrite He, Hr.
  cbn [run_ops step_op]. unfold fs_has. fsn. cbn [clear_log wfs]. rewrite He, Hc, Hb, Hu. cbn [loc_eqb].
  cbn [run_ops step_op].
  rewrite !wlog_call, !wlog_copy. unfold fs_has. fsn. cbn [clear_log wfs banner log_tool wlog].
  rewrite ?He, ?Hc, ?Hb, ?Hu. cbn [loc_eqb]. rewrite ?He, ?Hc, ?Hb, ?Hu.
  rewrite ?wlog_call. cbn [clear_log log_tool wlog app]. reflexivity.
Qed.

Lemma restore_complete_log d w e c b u :
  fs_get BakExe (wfs w) = Some e -> fs_get BakCfg (wfs w) = Some c ->
  fs_get BakEbpf (wfs w) = Some b -> fs_get BakUnit (wfs w) = Some u ->
  runnable e = true ->
  step_events runnable fails (Restore d) w =
  [ECall VStop; EWrite SysExe; EWrite SysCfg; EWrite SysEbpf; EWrite SysUnit;
   ECall VUnmask; ECall VDaemonReload; ECall VEnable; ECall VStart]
  ++ (if d then [ERemoveBackupDir] else []).
Proof.
  intros He Hc Hb Hu Hr. unfold step_events, exec. cbn [script].
  unfold backup_exists, fs_has. cbn [clear_log wfs]. rewrite He.
  unfold restore_ops, copy_files_ops, setup_service_ops. cbn [app].
  cbn [run_ops step_op]. unfold version_ok. fsn. cbn [clear_log wfs]. rewrite He, Hr.
  cbn [run_ops step_op]. unfold fs_has. fsn. cbn [clear_log wfs]. rewrite He, Hc, Hb, Hu. cbn [loc_eqb].
  cbn [run_ops step_op].
  destruct d; cbn [app run_ops step_op remove_backup_dir emit set_fs wlog];
  rewrite !wlog_call, !wlog_copy; unfold fs_has; fsn; cbn [clear_log wfs banner log_tool wlog];
  rewrite ?He, ?Hc, ?Hb, ?Hu; cbn [loc_eqb]; rewrite ?He, ?Hc, ?Hb, ?Hu;
  rewrite ?wlog_call; cbn [clear_log log_tool wlog app]; reflexivity.
Qed.

(* UNINSTALL *)
Lemma uninstall_get m w l :
  fs_get l (wfs (exec runnable fails (Uninstall m) w)) =
  match m, l with
  | _, SysUnit => None
  | UPackage, (SysExe | SysCfg | SysEbpf) => None
  | _, _ => fs_get l (wfs w)
  end.
Proof.
  unfold exec. cbn [script uninstall_ops app run_ops step_op].
  destruct (fs_has SysUnit (wfs (Setup.call fails VDisable (Setup.call fails VStop (banner (Uninstall m) w))))) eqn:H;
    unfold fs_has in H; revert H; fsn; intros H.
  - destruct m; cbn [app run_ops step_op]; fsn; destruct l; cbn [loc_eqb]; reflexivity.
  - destruct (fs_get SysUnit (wfs w)) eqn:U; [discriminate|].
    destruct m; cbn [app run_ops step_op]; fsn; destruct l; cbn [loc_eqb]; try reflexivity; exact U.
Qed.

Lemma uninstall_service_state m w :
  exit_code runnable fails (Uninstall m) w = 0 /\
  ((forall v l, fails v l = false) ->
   wrunning (exec runnable fails (Uninstall m) w) = false /\ wenabled (exec runnable fails (Uninstall m) w) = false).
Proof.
  unfold exit_code, exec. cbn [script uninstall_ops app run_ops rc_ops step_op].
  destruct (fs_has SysUnit (wfs (Setup.call fails VDisable (Setup.call fails VStop (banner (Uninstall m) w)))));
    destruct m; cbn [app run_ops rc_ops step_op]; fsn;
    (split; [reflexivity|intros Hnf; rewrite ?Hnf; split; reflexivity]).
Qed.

(* PURGE *)
Lemma purge_get w l :
  fs_get l (wfs (exec runnable fails Purge w)) = if in_backup l then None else fs_get l (wfs w).
Proof. unfold exec. cbn [script run_ops step_op]. fsn. reflexivity. Qed.

Lemma purge_rest w :
  wrunning (exec runnable fails Purge w) = wrunning w /\ wenabled (exec runnable fails Purge w) = wenabled w /\
  step_events runnable fails Purge w = [ERemoveBackupDir] /\ exit_code runnable fails Purge w = 0.
Proof. repeat split; reflexivity. Qed.

(* ------------------------------------------------------------------------------------ *)
(* REVERSIBILITY                                                                         *)
(* ------------------------------------------------------------------------------------ *)
Lemma installed_inv w :
  installed runnable w = true ->
  exists e c b u, fs_get SysExe (wfs w) = Some e /\ fs_get SysCfg (wfs w) = Some c /\
    fs_get SysEbpf (wfs w) = Some b /\ fs_get SysUnit (wfs w) = Some u /\ runnable e = true.
Proof.
  unfold installed, version_ok, sys_locs, fs_has. cbn [forallb].
  destruct (fs_get SysExe (wfs w)) as [e|]; [|discriminate].
  destruct (fs_get SysCfg (wfs w)) as [c|]; [|discriminate].
  destruct (fs_get SysEbpf (wfs w)) as [b|]; [|discriminate].
  destruct (fs_get SysUnit (wfs w)) as [u|]; [|discriminate].
  cbn. intros H. exists e, c, b, u. repeat split; exact H.
Qed.

Lemma reversible d w :
  installed runnable w = true ->
  let w' := exec runnable fails (Restore d) (exec runnable fails Install (exec runnable fails Backup w)) in
  (forall l, In l sys_locs -> fs_get l (wfs w') = fs_get l (wfs w)) /\
  ((forall v l, fails v l = false) -> wrunning w' = true /\ wenabled w' = true).
Proof.
  intros I w'. destruct (installed_inv w I) as [e [c [b [u [He [Hc [Hb [Hu Hr]]]]]]]].
  set (w1 := exec runnable fails Backup w) in *.
  set (w2 := exec runnable fails Install w1) in *.
  assert (HB : fs_get BakExe (wfs w2) = Some e /\ fs_get BakCfg (wfs w2) = Some c /\
              fs_get BakEbpf (wfs w2) = Some b /\ fs_get BakUnit (wfs w2) = Some u).
  { subst w2 w1. rewrite !install_sys_only by reflexivity. rewrite !backup_get.
    rewrite He, Hc, Hb, Hu. repeat split; reflexivity. }
  destruct HB as [Be [Bc [Bb Bu]]].
  destruct (restore_complete d w2 e c b u Be Bc Bb Bu Hr) as [R1 [R2 [R3 [R4 [_ R5]]]]].
  fold w' in R1, R2, R3, R4, R5.
  split; [|exact R5].
  intros l [<-|[<-|[<-|[<-|[]]]]]; congruence.
Qed.

Lemma reversible_outside_known_class d w :
  four_present w = true -> KnownClass_C17_agent_not_runnable runnable w = false ->
  let w' := exec runnable fails (Restore d) (exec runnable fails Install (exec runnable fails Backup w)) in
  (forall l, In l sys_locs -> fs_get l (wfs w') = fs_get l (wfs w)) /\
  ((forall v l, fails v l = false) -> wrunning w' = true /\ wenabled w' = true).
Proof.
  intros F K. apply reversible. unfold installed. fold (four_present w). rewrite F. cbn [andb].
  unfold KnownClass_C17_agent_not_runnable in K. rewrite F in K. cbn [andb] in K.
  destruct (version_ok runnable SysExe w); [reflexivity|discriminate].
Qed.

(* RESTORE of a backup whose agent runs, complete or not: every backed-up file is put in place *)
Lemma restore_each d w e :
  fs_get BakExe (wfs w) = Some e -> runnable e = true ->
  let w' := exec runnable fails (Restore d) w in
  fs_get SysExe (wfs w') = Some e /\
  (forall f, fs_get BakCfg (wfs w) = Some f -> fs_get SysCfg (wfs w') = Some f) /\
  (forall f, fs_get BakEbpf (wfs w) = Some f -> fs_get SysEbpf (wfs w') = Some f) /\
  (forall f, fs_get BakUnit (wfs w) = Some f -> fs_get SysUnit (wfs w') = Some f).
Proof.
  intros He Hr w'. subst w'. unfold exec. cbn [script].
  unfold backup_exists, fs_has. rewrite He.
  unfold restore_ops, copy_files_ops, setup_service_ops. cbn [app].
  cbn [run_ops step_op]. unfold version_ok. fsn. rewrite He, Hr.
  cbn [run_ops step_op].
  destruct (fs_get BakCfg (wfs w)) as [c|] eqn:Hc; destruct (fs_get BakEbpf (wfs w)) as [b|] eqn:Hb;
    destruct (fs_get BakUnit (wfs w)) as [u|] eqn:Hu;
    unfold fs_has; fsn; rewrite ?He, ?Hc, ?Hb, ?Hu; cbn [loc_eqb]; rewrite ?He, ?Hc, ?Hb, ?Hu;
    cbn [run_ops step_op];
    destruct d; cbn [app run_ops step_op]; unfold remove_backup_dir; cbn [wfs emit set_fs];
    rewrite ?fs_get_del_where; fsn; rewrite ?He, ?Hc, ?Hb, ?Hu; cbn [loc_eqb in_backup];
    rewrite ?He, ?Hc, ?Hb, ?Hu;
    (refine (conj _ (conj _ (conj _ _))); [reflexivity| | | ]; intros f Hf; first [discriminate Hf | exact Hf]).
Qed.

(* REVERSIBILITY, file by file: when the installed agent answers --version, every system file
   that was present before backup; install; restore is reinstated exactly -- also from a partial
   install (what was absent is not constrained: the newer file of that kind stays) *)
Lemma reversible_each d w l f :
  version_ok runnable SysExe w = true -> In l sys_locs -> fs_get l (wfs w) = Some f ->
  fs_get l (wfs (exec runnable fails (Restore d) (exec runnable fails Install (exec runnable fails Backup w)))) = Some f.
Proof.
  intros V L F. unfold version_ok in V.
  destruct (fs_get SysExe (wfs w)) as [e|] eqn:He; [|discriminate].
  set (w2 := exec runnable fails Install (exec runnable fails Backup w)).
  assert (Be : fs_get BakExe (wfs w2) = Some e).
  { subst w2. rewrite install_sys_only by reflexivity. rewrite backup_get, He. reflexivity. }
  destruct (restore_each d w2 e Be V) as [R1 [R2 [R3 R4]]].
  destruct L as [<-|[<-|[<-|[<-|[]]]]].
  - rewrite R1. congruence.
  - apply R2. subst w2. rewrite install_sys_only by reflexivity. rewrite backup_get, F. reflexivity.
  - apply R3. subst w2. rewrite install_sys_only by reflexivity. rewrite backup_get, F. reflexivity.
  - apply R4. subst w2. rewrite install_sys_only by reflexivity. rewrite backup_get, F. reflexivity.
Qed.

(* ------------------------------------------------------------------------------------ *)
(* crash points inside backup                                                            *)
(* ------------------------------------------------------------------------------------ *)
Lemma backup_crash_no_marker j w :
  (j <= 4)%nat -> fs_get BakExe (wfs w) = None -> fs_get BakExe (wfs (backup_crash runnable fails j w)) = None.
Proof.
  intros J H. unfold backup_crash.
  destruct j as [|[|[|[|[|j]]]]]; [| | | | |lia]; cbn [firstn backup_ops run_ops step_op]; fsn; cbn [loc_eqb];
    repeat match goal with |- context [match ?x with Some _ => _ | None => _ end] => destruct x end; exact H.
Qed.

Lemma backup_crash_complete j w :
  (5 <= j)%nat -> backup_crash runnable fails j w = exec runnable fails Backup w.
Proof.
  intros J. unfold backup_crash, exec. cbn [script].
  do 5 (destruct j as [|j]; [lia|]). unfold backup_ops. cbn [firstn]. destruct j; reflexivity.
Qed.

Lemma refused_when_no_marker d w1 :
  fs_get BakExe (wfs w1) = None ->
  exec runnable fails (Restore d) (exec runnable fails Install w1) = log_tool (Restore d) (exec runnable fails Install w1).
Proof.
  intros H. apply restore_without_backup. unfold backup_exists, fs_has.
  rewrite install_sys_only by reflexivity. rewrite H. reflexivity.
Qed.

(* EVERY cut point of backup, from an installed version with no backup marker yet: after install,
   restore either refuses (it changes nothing but its own log) or reinstates the four files *)
Lemma backup_cut_safe j w d :
  installed runnable w = true -> fs_get BakExe (wfs w) = None ->
  let w1 := backup_crash runnable fails j w in
  let w2 := exec runnable fails Install w1 in
  let w3 := exec runnable fails (Restore d) w2 in
  w3 = log_tool (Restore d) w2 \/
  ((forall l, In l sys_locs -> fs_get l (wfs w3) = fs_get l (wfs w)) /\
   ((forall v l, fails v l = false) -> wrunning w3 = true /\ wenabled w3 = true)).
Proof.
  intros I N w1 w2 w3. destruct (Nat.le_gt_cases j 4) as [J|J].
  - left. apply refused_when_no_marker. apply backup_crash_no_marker; assumption.
  - right. subst w3 w2 w1. rewrite backup_crash_complete by lia. exact (reversible d w I).
Qed.

(* ... also when the tool died INSIDE a copy: whatever file sits at the destination of the copy in
   flight (configuration, eBPF object, unit file or the temporary name of the executable -- the
   final name of the executable is never the destination of a copy), restore refuses *)
Lemma backup_cut_inflight_refused j w d l f :
  (j <= 4)%nat -> fs_get BakExe (wfs w) = None -> l <> BakExe ->
  let w1 := inflight l f (backup_crash runnable fails j w) in
  exec runnable fails (Restore d) (exec runnable fails Install w1) = log_tool (Restore d) (exec runnable fails Install w1).
Proof.
  intros J H L w1. apply refused_when_no_marker. subst w1. unfold inflight. cbn [set_fs wfs].
  rewrite fs_get_set. destruct (loc_eqb BakExe l) eqn:E.
  - apply loc_eqb_eq in E. congruence.
  - apply backup_crash_no_marker; assumption.
Qed.

(* the same after any history: whatever commands ran before, once a version is installed the
   triple backup; install; restore reinstates it *)
Lemma reversible_after_history cmds d w :
  installed runnable (run runnable fails cmds w) = true ->
  let w0 := run runnable fails cmds w in
  let w' := run runnable fails (cmds ++ [Backup; Install; Restore d]) w in
  (forall l, In l sys_locs -> fs_get l (wfs w') = fs_get l (wfs w0)) /\
  ((forall v l, fails v l = false) -> wrunning w' = true /\ wenabled w' = true).
Proof.
  intros I w0 w'. subst w' w0. unfold run in *. rewrite fold_left_app. cbn [fold_left].
  exact (reversible d _ I).
Qed.

(* the package beside the tool is never modified, by any history *)
Lemma package_untouched cmds w l :
  In l pkg_locs -> fs_get l (wfs (run runnable fails cmds w)) = fs_get l (wfs w).
Proof.
  intros H. apply run_frame. destruct H as [<-|[<-|[<-|[<-|[]]]]]; reflexivity.
Qed.

End WithOracle.

(* ------------------------------------------------------------------------------------ *)
(* further facts used by Props/C17.v                                                     *)
(* ------------------------------------------------------------------------------------ *)
Section More.
Context (runnable : file -> bool) (fails : verb -> list event -> bool).

(* install / restore / uninstall begin with `systemctl stop`: whatever they log starts with it *)
Lemma starts_with_stop ops w0 :
  wlog w0 = [] ->
  exists es, wlog (run_ops runnable fails (OCall VStop :: ops) w0) = ECall VStop :: es.
Proof.
  intros E. cbn [run_ops step_op].
  destruct (run_ops_log runnable fails ops (Setup.call fails VStop w0)) as [es H].
  exists es. rewrite H, wlog_call, E. reflexivity.
Qed.

Lemma stop_first c w :
  match c with Install | Restore _ | Uninstall _ => True | _ => False end ->
  step_events runnable fails c w = [] \/ exists es, step_events runnable fails c w = ECall VStop :: es.
Proof.
  intros H. unfold step_events, exec. destruct c as [| |d|m| |]; try contradiction; cbn [script].
  - right. apply starts_with_stop. reflexivity.
  - destruct (backup_exists (clear_log w)); [right; apply starts_with_stop; reflexivity|left; reflexivity].
  - right. apply starts_with_stop. reflexivity.
Qed.

(* index form of stop-before-replace for one command (service possibly running before) *)
Lemma stop_before_replace c w pre ev post :
  step_events runnable fails c w = pre ++ ev :: post -> sys_mutation ev = true ->
  exists p1 p2, pre = p1 ++ ECall VStop :: p2 /\ ~ In (ECall VStart) p2.
Proof.
  intros E M. exact (log_safe_stop_before _ pre ev post (step_events_safe runnable fails c w true) E M).
Qed.

(* no system file is touched after `systemctl start` within a command *)
Lemma no_replace_after_start c w pre mid ev post2 :
  step_events runnable fails c w = pre ++ ECall VStart :: mid ++ ev :: post2 ->
  sys_mutation ev = true -> In (ECall VStop) mid.
Proof.
  intros E M.
  pose proof (step_events_safe runnable fails c w true) as S. rewrite E, log_safe_app in S.
  apply andb_true_iff in S. destruct S as [_ S]. cbn [log_safe] in S.
  pose proof (log_safe_at true _ mid ev post2 S eq_refl M) as F.
  destruct (log_state_false_from_true mid F) as [p1 [p2 [-> _]]].
  apply in_or_app. right. left. reflexivity.
Qed.

(* INSTALL with a package whose agent is missing or does not run: nothing is copied (the
   service stays stopped: the tool panics after `systemctl stop`) *)
Lemma install_bad_package w :
  version_ok runnable PkgExe w = false ->
  wfs (exec runnable fails Install w) = wfs w /\ exit_code runnable fails Install w = 101 /\
  (fails VStop (wlog w) = false -> wrunning (exec runnable fails Install w) = false).
Proof.
  intros H. unfold exit_code, exec. cbn [script install_ops app run_ops rc_ops step_op].
  assert (E : version_ok runnable PkgExe (Setup.call fails VStop (banner Install w)) = false).
  { unfold version_ok in *. rewrite wfs_call, wfs_banner. exact H. }
  rewrite E. repeat split; try (rewrite wfs_call, wfs_banner; reflexivity).
  intros H0. rewrite wrunning_call, wlog_banner, H0. reflexivity.
Qed.

(* UNINSTALL package: the four installed files are gone; service mode: only the unit file *)
Lemma uninstall_package_removes w l :
  In l sys_locs -> fs_get l (wfs (exec runnable fails (Uninstall UPackage) w)) = None.
Proof. intros [<-|[<-|[<-|[<-|[]]]]]; rewrite uninstall_get; reflexivity. Qed.

Lemma uninstall_service_keeps w l :
  l <> SysUnit -> fs_get l (wfs (exec runnable fails (Uninstall UService) w)) = fs_get l (wfs w).
Proof. intros H. rewrite uninstall_get. destruct l; try reflexivity. contradiction. Qed.

End More.

(* ------------------------------------------------------------------------------------ *)
(* why the hypothesis [installed] of reversibility is needed (information, not defects of   *)
(* the property as stated: it speaks of "a version installed")                            *)
(* ------------------------------------------------------------------------------------ *)
Definition ex_agent (v : N) : file := (493, standin_magic ++ [v; 10]).
Definition ex_pkg : list (loc * file) :=
  [(PkgExe, ex_agent 50); (PkgCfg, (420, [5])); (PkgEbpf, (416, [6])); (PkgUnit, (436, [7]))].
(* version 1 installed, service running and enabled, package of version 2 beside the tool *)
Definition ex_installed : world :=
  mk_world ([(SysExe, ex_agent 49); (SysCfg, (384, [1; 2])); (SysEbpf, (420, [3])); (SysUnit, (420, [4]))] ++ ex_pkg) true true.
(* the same without the eBPF object (a partial install) *)
Definition ex_partial : world :=
  mk_world ([(SysExe, ex_agent 49); (SysCfg, (384, [1; 2])); (SysUnit, (420, [4]))] ++ ex_pkg) true true.
(* all four files present but the agent executable cannot be executed (no x bit) *)
Definition ex_not_runnable : world :=
  mk_world ([(SysExe, (420, standin_magic ++ [49; 10])); (SysCfg, (384, [1; 2])); (SysEbpf, (420, [3])); (SysUnit, (420, [4]))] ++ ex_pkg) true true.

Definition triple (runnable : file -> bool) (d : bool) (w : world) : world :=
  exec runnable never_fails (Restore d) (exec runnable never_fails Install (exec runnable never_fails Backup w)).

Lemma reversible_needs_all_files :
  exists w, version_ok standin_runnable SysExe w = true /\ installed standin_runnable w = false /\
    fs_get SysEbpf (wfs (triple standin_runnable true w)) <> fs_get SysEbpf (wfs w).
Proof. exists ex_partial. vm_compute. repeat split; discriminate. Qed.

Lemma reversible_refuted :
  exists w, four_present w = true /\ KnownClass_C17_agent_not_runnable standin_runnable w = true /\
    fs_get SysExe (wfs (triple standin_runnable true w)) <> fs_get SysExe (wfs w) /\
    wrunning (triple standin_runnable true w) = false.
Proof. exists ex_not_runnable. vm_compute. repeat split; discriminate. Qed.

Lemma nonvacuous_examples :
  installed standin_runnable ex_installed = true /\ package_complete standin_runnable ex_installed = true /\
  (forall l, In l sys_locs -> fs_get l (wfs (triple standin_runnable true ex_installed)) = fs_get l (wfs ex_installed)) /\
  fs_get SysCfg (wfs (exec standin_runnable never_fails Install (exec standin_runnable never_fails Backup ex_installed))) = Some (420, [5]) /\
  backup_exists (exec standin_runnable never_fails Backup ex_installed) = true /\
  backup_exists (triple standin_runnable true ex_installed) = false /\
  backup_exists (triple standin_runnable false ex_installed) = true /\
  step_events standin_runnable never_fails Install ex_installed =
    [ECall VStop; EWrite SysExe; EWrite SysCfg; EWrite SysEbpf; EWrite SysUnit;
     ECall VUnmask; ECall VDaemonReload; ECall VEnable; ECall VStart].
Proof.
  repeat split; try (vm_compute; reflexivity).
  intros l [<-|[<-|[<-|[<-|[]]]]]; vm_compute; reflexivity.
Qed.

(* faults are not vacuous: with `systemctl stop` failing at every call the uninstall still removes
   the four files (and the service is still reported running, since nothing stopped it) *)
Definition stop_always_fails (v : verb) (l : list event) : bool := match v with VStop => true | _ => false end.
Lemma fault_example :
  (forall l, In l sys_locs ->
     fs_get l (wfs (exec standin_runnable stop_always_fails (Uninstall UPackage) ex_installed)) = None) /\
  wrunning (exec standin_runnable stop_always_fails (Uninstall UPackage) ex_installed) = true /\
  exit_code standin_runnable stop_always_fails (Uninstall UPackage) ex_installed = 0 /\
  step_events standin_runnable (fails_of [false; true]) (Uninstall UService) ex_installed =
    [ECall VStop; ECall VDisable; ERemove SysUnit; ECall VDaemonReload] /\
  wenabled (exec standin_runnable (fails_of [false; true]) (Uninstall UService) (clear_log ex_installed)) = true.
Proof.
  repeat split; try (vm_compute; reflexivity).
  intros l [<-|[<-|[<-|[<-|[]]]]]; vm_compute; reflexivity.
Qed.

(* why the order matters (the code before /repo d891b48 saved config, eBPF object, EXECUTABLE, unit
   file, the executable directly under its final name): cut after three copies, restore accepted
   the torso, put three files back, failed on the unit file (exit 1) and never started the service *)
Definition old_backup_ops : list op :=
  [OCopy SysCfg BakCfg; OCopy SysEbpf BakEbpf; OCopy SysExe BakExe; OCopy SysUnit BakUnit].
Lemma old_backup_order_unsafe :
  let w1 := run_ops standin_runnable never_fails (firstn 3 old_backup_ops) ex_installed in
  let w2 := exec standin_runnable never_fails Install w1 in
  let w3 := exec standin_runnable never_fails (Restore true) w2 in
  fs_get SysUnit (wfs w3) <> fs_get SysUnit (wfs ex_installed) /\
  fs_get SysExe (wfs w3) = fs_get SysExe (wfs ex_installed) /\ wrunning w3 = false /\
  exit_code standin_runnable never_fails (Restore true) w2 = 1.
Proof. vm_compute. repeat split; discriminate. Qed.

(* the layout for the setup directory used by the harness, and the tie between the two spellings
   of the unit file name in the sources (linux.rs SERVICE_CONFIG_FILE_NAME vs "{SERVICE_NAME}.service") *)
Definition harness_setup_dir : bytes :=
  [47; 118; 97; 114; 47; 108; 105; 98; 47; 119; 97; 97; 103; 101; 110; 116; 47; 103; 112; 97].  (* "/var/lib/waagent/gpa" *)
Lemma harness_layout_ok : layout_ok harness_setup_dir = true.
Proof. vm_compute. reflexivity. Qed.
Lemma unit_names_agree : Consts.setup_service_config_file_name = unit_file_name.
Proof. vm_compute. reflexivity. Qed.
Lemma exe_names_agree :
  render harness_setup_dir SysExe = pjoin Consts.shared_exe_folder_path Consts.setup_service_name.
Proof. vm_compute. reflexivity. Qed.
