(* Proof rules for the generic interleaving semantics of Model/Sched.v.

   Main results (all for EVERY schedule, no bound on its length or on the number of tasks):
   * [invariant_rule], [invariant_rule_calls]: an invariant preserved by every step of every task
     holds in every reachable configuration.
   * [valid_trace_run], [shared_is_fold]: the world state is the fold of the handler over the
     trace in actor order, and every recorded reply is the one the handler gave then -- "an actor
     processes one message at a time" (no lost update).
   * [task_replay]: a task's current program is its initial program replayed on the replies it
     received -- task-local determinism, nothing else influences a task.
   * [all_calls_run], [trace_all_calls]: a syntactic restriction on the messages programs can send
     holds for every message in every trace.
   * [monitored_invariant]: the rule for invariants that relate the world state to what each task
     has already seen, through a per-task monitor automaton.
   * [poll_is_run], [run_polls_is_run]: the hand-polled macro steps are ordinary schedules. *)
From Coq Require Import List Arith Lia.
Import ListNotations.
From GPA Require Import Sched.

Section SchedProofs.
  Context {St M R A : Type}.
  Context (handle : nat -> St -> M -> St * R).

  Notation prog := (prog M R A).
  Notation config := (config St M R A).
  Notation sstep := (@Sched.sstep St M R A handle).
  Notation run := (@Sched.run St M R A handle).
  Notation reachable := (@Sched.reachable St M R A handle).
  Notation valid_trace := (@Sched.valid_trace St M R handle).
  Notation state_after := (@Sched.state_after St M R handle).

  (* ---------------- lists ---------------- *)
  Lemma set_nth_length : forall {X} n (x : X) l, length (set_nth n x l) = length l.
  Proof. induction n; destruct l; simpl; auto. Qed.

  Lemma nth_error_set_nth_same : forall {X} n (x : X) l,
    n < length l -> nth_error (set_nth n x l) n = Some x.
  Proof. induction n; destruct l; simpl; intros; try lia; auto. apply IHn. lia. Qed.

  Lemma nth_error_set_nth_other : forall {X} n n' (x : X) l,
    n <> n' -> nth_error (set_nth n x l) n' = nth_error l n'.
  Proof.
    induction n; destruct l; destruct n'; simpl; intros; try congruence; auto.
  Qed.

  Lemma nth_error_lt : forall {X} (l : list X) n x, nth_error l n = Some x -> n < length l.
  Proof. intros. apply nth_error_Some. congruence. Qed.

  Lemma Forall_set_nth : forall {X} (P : X -> Prop) n x l,
    Forall P l -> P x -> Forall P (set_nth n x l).
  Proof.
    induction n; destruct l; simpl; intros; auto; inversion H; subst; constructor; auto.
  Qed.

  Lemma Forall2_set_nth : forall {X Y} (P : X -> Y -> Prop) n x y l l',
    Forall2 P l l' -> P x y -> Forall2 P (set_nth n x l) (set_nth n y l').
  Proof.
    induction n; intros; inversion H; subst; simpl; auto.
  Qed.

  Lemma Forall2_nth_error_r : forall {X Y} (P : X -> Y -> Prop) l l' n y,
    Forall2 P l l' -> nth_error l' n = Some y -> exists x, nth_error l n = Some x /\ P x y.
  Proof.
    intros X Y P l l' n y H. revert n. induction H; intros n Hn.
    - destruct n; discriminate.
    - destruct n; simpl in *.
      + inversion Hn; subst. eauto.
      + eauto.
  Qed.

  (* ---------------- schedules ---------------- *)
  Lemma run_nil : forall c, run c [] = c.
  Proof. reflexivity. Qed.

  Lemma run_cons : forall c t sched, run c (t :: sched) = run (sstep c t) sched.
  Proof. reflexivity. Qed.

  Lemma run_app : forall c s1 s2, run c (s1 ++ s2) = run (run c s1) s2.
  Proof. intros. unfold Sched.run. apply fold_left_app. Qed.

  Lemma run_snoc : forall c s t, run c (s ++ [t]) = sstep (run c s) t.
  Proof. intros. rewrite run_app. reflexivity. Qed.

  Lemma reachable_refl : forall c, reachable c c.
  Proof. intros. exists []. reflexivity. Qed.

  Lemma reachable_trans : forall a b c,
    reachable a b -> reachable b c -> reachable a c.
  Proof. intros a b c [s1 ->] [s2 ->]. exists (s1 ++ s2). now rewrite run_app. Qed.

  (* what one step is *)
  Lemma sstep_call : forall c t m k,
    nth_error (tasks c) t = Some (Call m k) ->
    sstep c t = Cfg (fst (handle t (shared c) m))
                    (set_nth t (k (snd (handle t (shared c) m))) (tasks c))
                    (Ev t m (snd (handle t (shared c) m)) :: trace c).
  Proof. intros. unfold Sched.sstep. rewrite H. reflexivity. Qed.

  Lemma sstep_stutter : forall c t,
    (forall m k, nth_error (tasks c) t <> Some (Call m k)) -> sstep c t = c.
  Proof.
    intros. unfold Sched.sstep. destruct (nth_error (tasks c) t) as [[a|m k]|] eqn:E; auto.
    exfalso. eapply H; eauto.
  Qed.

  Lemma sstep_cases : forall c t,
    sstep c t = c \/
    exists m k, nth_error (tasks c) t = Some (Call m k) /\
      sstep c t = Cfg (fst (handle t (shared c) m))
                      (set_nth t (k (snd (handle t (shared c) m))) (tasks c))
                      (Ev t m (snd (handle t (shared c) m)) :: trace c).
  Proof.
    intros. unfold Sched.sstep. destruct (nth_error (tasks c) t) as [[a|m k]|] eqn:E; auto.
    right. eauto.
  Qed.

  (* ---------------- the invariant rule ---------------- *)
  Theorem invariant_rule : forall (Inv : config -> Prop) c0,
    Inv c0 ->
    (forall c t, Inv c -> Inv (sstep c t)) ->
    forall sched, Inv (run c0 sched).
  Proof.
    intros Inv c0 H0 Hstep sched. revert c0 H0.
    induction sched; intros; simpl; auto.
  Qed.

  (* only real steps need to be considered: task t is blocked in a call, the actor processes it *)
  Theorem invariant_rule_calls : forall (Inv : config -> Prop) c0,
    Inv c0 ->
    (forall c t m k, Inv c -> nth_error (tasks c) t = Some (Call m k) ->
       Inv (Cfg (fst (handle t (shared c) m))
                (set_nth t (k (snd (handle t (shared c) m))) (tasks c))
                (Ev t m (snd (handle t (shared c) m)) :: trace c))) ->
    forall sched, Inv (run c0 sched).
  Proof.
    intros Inv c0 H0 Hstep. apply invariant_rule; auto.
    intros c t Hc. destruct (sstep_cases c t) as [->|(m & k & Hn & ->)]; auto.
  Qed.

  Corollary invariant_reachable : forall (Inv : config -> Prop) c0,
    Inv c0 -> (forall c t, Inv c -> Inv (sstep c t)) ->
    forall c, reachable c0 c -> Inv c.
  Proof. intros Inv c0 H0 Hs c [sched ->]. now apply invariant_rule. Qed.

  Lemma tasks_length_run : forall c sched, length (tasks (run c sched)) = length (tasks c).
  Proof.
    intros c sched.
    apply (invariant_rule_calls (fun c' => length (tasks c') = length (tasks c))); auto.
    intros; simpl. now rewrite set_nth_length.
  Qed.

  (* finished tasks stay finished with the same result *)
  Lemma result_stable_step : forall c t t' a,
    result_of c t = Some a -> result_of (sstep c t') t = Some a.
  Proof.
    intros c t t' a H. destruct (sstep_cases c t') as [->|(m & k & Hn & ->)]; auto.
    unfold result_of in *. simpl.
    destruct (Nat.eq_dec t' t) as [->|Hne].
    - rewrite Hn in H. discriminate.
    - now rewrite nth_error_set_nth_other.
  Qed.

  Lemma result_stable : forall c t a sched,
    result_of c t = Some a -> result_of (run c sched) t = Some a.
  Proof.
    intros c t a sched. revert c. induction sched; simpl; intros; auto.
    apply IHsched. now apply result_stable_step.
  Qed.

  (* ---------------- actor order ---------------- *)
  Lemma valid_trace_step : forall s0 c t,
    valid_trace s0 (trace c) (shared c) ->
    valid_trace s0 (trace (sstep c t)) (shared (sstep c t)).
  Proof.
    intros s0 c t H. destruct (sstep_cases c t) as [->|(m & k & Hn & ->)]; auto.
    simpl. now constructor.
  Qed.

  Theorem valid_trace_run : forall s ps sched,
    valid_trace s (trace (run (init s ps) sched)) (shared (run (init s ps) sched)).
  Proof.
    intros. apply (invariant_rule (fun c => valid_trace s (trace c) (shared c))).
    - constructor.
    - intros. now apply valid_trace_step.
  Qed.

  Lemma valid_trace_state_after : forall s0 tr s,
    valid_trace s0 tr s -> s = state_after s0 tr.
  Proof. induction 1; simpl; congruence. Qed.

  (* the world state is the fold of the handler over the messages in actor order *)
  Theorem shared_is_fold : forall s ps sched,
    shared (run (init s ps) sched) = state_after s (trace (run (init s ps) sched)).
  Proof. intros. apply valid_trace_state_after. apply valid_trace_run. Qed.

  (* every event's reply is what the handler answered in the state produced by the older events *)
  Lemma valid_trace_inv : forall s0 tr s,
    valid_trace s0 tr s ->
    forall tr1 e tr2, tr = tr1 ++ e :: tr2 ->
      ev_reply e = snd (handle (ev_tid e) (state_after s0 tr2) (ev_msg e)).
  Proof.
    induction 1; intros tr1 e tr2 Heq.
    - destruct tr1; discriminate.
    - destruct tr1 as [|e1 tr1]; simpl in Heq; inversion Heq; subst.
      + simpl. now rewrite <- (valid_trace_state_after _ _ _ H).
      + eapply IHvalid_trace; eauto.
  Qed.

  (* a general induction principle on valid traces for state predicates *)
  Lemma valid_trace_ind_state : forall (P : St -> Prop) s0,
    P s0 -> (forall t s m, P s -> P (fst (handle t s m))) ->
    forall tr s, valid_trace s0 tr s -> P s.
  Proof. intros P s0 H0 Hs tr s H. induction H; auto. Qed.

  (* ---------------- task-local determinism ---------------- *)

  (* ---------------- task-local determinism ---------------- *)
  Lemma replay_ret : forall rs (a : A), replay (Ret a : prog) rs = Ret a.
  Proof. induction rs; simpl; auto. Qed.

  Lemma replay_snoc : forall rs (p : prog) r,
    replay p (rs ++ [r]) = match replay p rs with Call _ k => k r | Ret a => Ret a end.
  Proof.
    induction rs; intros p r; simpl.
    - destruct p; reflexivity.
    - destruct p.
      + reflexivity.
      + apply IHrs.
  Qed.

  Lemma replies_of_cons : forall t e (tr : list (event M R)),
    replies_of t (e :: tr) =
    replies_of t tr ++ (if Nat.eqb (ev_tid e) t then [ev_reply e] else []).
  Proof.
    intros. unfold replies_of. simpl. rewrite filter_app, map_app. simpl.
    destruct (Nat.eqb (ev_tid e) t); reflexivity.
  Qed.

  Theorem task_replay : forall s ps sched t p0,
    nth_error ps t = Some p0 ->
    nth_error (tasks (run (init s ps) sched)) t =
    Some (replay p0 (replies_of t (trace (run (init s ps) sched)))).
  Proof.
    intros s ps sched.
    apply (invariant_rule_calls (fun c => forall t p0, nth_error ps t = Some p0 ->
             nth_error (tasks c) t = Some (replay p0 (replies_of t (trace c))))).
    - intros. simpl. assumption.
    - intros c t m k IH Hn t' p0 Hp0. simpl.
      rewrite replies_of_cons. simpl.
      destruct (Nat.eqb_spec t t') as [->|Hne].
      + rewrite nth_error_set_nth_same by (eapply nth_error_lt; eauto).
        rewrite replay_snoc.
        specialize (IH t' p0 Hp0). rewrite Hn in IH. inversion IH as [H1].
        reflexivity.
      + rewrite nth_error_set_nth_other by assumption. rewrite app_nil_r. auto.
  Qed.

  (* number of scheduling points a task went through = number of replies it received *)
  Lemma calls_of_replies : forall t (tr : list (event M R)),
    calls_of t tr = length (replies_of t tr).
  Proof.
    intros. unfold calls_of, replies_of. rewrite map_length.
    induction tr; simpl; auto. rewrite filter_app, app_length. simpl.
    destruct (Nat.eqb (ev_tid a) t); simpl; lia.
  Qed.

  (* ---------------- restrictions on the messages programs can send ---------------- *)
  Lemma all_calls_run : forall (P : M -> Prop) c0 sched,
    Forall (all_calls P) (tasks c0) -> Forall (all_calls P) (tasks (run c0 sched)).
  Proof.
    intros P c0 sched H0.
    apply (invariant_rule_calls (fun c => Forall (all_calls P) (tasks c))); auto.
    intros c t m k Hc Hn. simpl. apply Forall_set_nth; auto.
    rewrite Forall_forall in Hc. specialize (Hc _ (nth_error_In _ _ Hn)).
    inversion Hc; subst. auto.
  Qed.

  Theorem trace_all_calls : forall (P : M -> Prop) s ps sched,
    Forall (all_calls P) ps ->
    Forall (fun e => P (ev_msg e)) (trace (run (init s ps) sched)).
  Proof.
    intros P s ps sched H0.
    apply (invariant_rule_calls (fun c => Forall (all_calls P) (tasks c) /\
                                          Forall (fun e => P (ev_msg e)) (trace c))).
    - split; simpl; auto.
    - intros c t m k [Hc Ht] Hn. simpl.
      rewrite Forall_forall in Hc. pose proof (Hc _ (nth_error_In _ _ Hn)) as Hp.
      inversion Hp; subst. split.
      + apply Forall_set_nth; auto. now apply Forall_forall.
      + constructor; auto.
  Qed.

  (* ---------------- monitors ---------------- *)
  Section Monitor.
    Context {Q : Type}.
    Context (mon : Q -> M -> R -> option Q).
    Context (retP : Q -> A -> Prop).
    Notation follows := (@Sched.follows M R A Q mon retP).

    (* J relates the world state to the abstract local states of all tasks.  It has to be
       preserved when ANY task in abstract state q sends a message the monitor allows there and
       the handler processes it. *)
    Theorem monitored_invariant : forall (J : St -> list Q -> Prop) c0 qs0,
      Forall2 follows qs0 (tasks c0) ->
      J (shared c0) qs0 ->
      (forall s qs t q m q',
          J s qs -> nth_error qs t = Some q ->
          mon q m (snd (handle t s m)) = Some q' ->
          J (fst (handle t s m)) (set_nth t q' qs)) ->
      forall sched, exists qs,
        Forall2 follows qs (tasks (run c0 sched)) /\ J (shared (run c0 sched)) qs.
    Proof.
      intros J c0 qs0 HF HJ Hstep.
      apply (invariant_rule_calls (fun c => exists qs, Forall2 follows qs (tasks c) /\ J (shared c) qs)).
      - eauto.
      - intros c t m k (qs & HF' & HJ') Hn. simpl.
        destruct (Forall2_nth_error_r _ _ _ _ _ HF' Hn) as (q & Hq & Hfo).
        inversion Hfo; subst.
        match goal with H : forall r, exists q', _ |- _ =>
          destruct (H (snd (handle t (shared c) m))) as (q' & Hmon & Hfo') end.
        exists (set_nth t q' qs). split.
        + apply Forall2_set_nth; auto.
        + eapply Hstep; eauto.
    Qed.

    (* what a finished task's result satisfies *)
    Lemma follows_result : forall qs (c : config) t a,
      Forall2 follows qs (tasks c) -> result_of c t = Some a ->
      exists q, nth_error qs t = Some q /\ retP q a.
    Proof.
      intros qs c t a HF Hr. unfold result_of in Hr.
      destruct (nth_error (tasks c) t) as [[a'|]|] eqn:E; try discriminate.
      inversion Hr; subst.
      destruct (Forall2_nth_error_r _ _ _ _ _ HF E) as (q & Hq & Hfo).
      inversion Hfo; subst. eauto.
    Qed.
  End Monitor.

  (* ---------------- hand-polled macro steps are schedules ---------------- *)
  Lemma poll_is_run : forall is_sync fuel (c : config) t,
    exists n, poll handle is_sync fuel c t = run c (repeat t n).
  Proof.
    induction fuel; intros; simpl.
    - exists 0. reflexivity.
    - destruct (nth_error (tasks c) t) as [[a|m k]|] eqn:E.
      + exists 0. reflexivity.
      + destruct (is_sync m).
        * destruct (IHfuel (sstep c t) t) as [n Hn]. exists (S n). simpl. exact Hn.
        * exists 1. reflexivity.
      + exists 0. reflexivity.
  Qed.

  Theorem run_polls_is_run : forall is_sync fuel sched (c : config),
    exists sched', run_polls handle is_sync fuel c sched = run c sched'.
  Proof.
    induction sched; intros; simpl.
    - exists []. reflexivity.
    - destruct (poll_is_run is_sync fuel c a) as [n Hn].
      unfold run_polls in *. simpl. rewrite Hn.
      destruct (IHsched (run c (repeat a n))) as [s' Hs'].
      exists (repeat a n ++ s'). rewrite run_app. exact Hs'.
  Qed.

  Lemma poll1_is_run : forall is_sync (c : config) t,
    exists n, fst (poll1 handle is_sync c t) = run c (repeat t n).
  Proof.
    intros. unfold poll1. destruct (nth_error (tasks c) t) as [[a|m k]|] eqn:E.
    - exists 0. reflexivity.
    - exists 1. reflexivity.
    - exists 0. reflexivity.
  Qed.

  Lemma repeat_app_run : forall (c : config) t n1 n2,
    run (run c (repeat t n1)) (repeat t n2) = run c (repeat t (n1 + n2)).
  Proof. intros. rewrite repeat_app, run_app. reflexivity. Qed.

  Lemma poll_p_is_run : forall is_sync p (c : config) t,
    exists n, fst (poll_p handle is_sync p c t) = run c (repeat t n).
  Proof.
    induction p; intros c t; simpl.
    - destruct (poll1_is_run is_sync c t) as [n1 H1].
      destruct (snd (poll1 handle is_sync c t)); [eauto|].
      destruct (IHp (fst (poll1 handle is_sync c t)) t) as [n2 H2].
      destruct (snd (poll_p handle is_sync p (fst (poll1 handle is_sync c t)) t)).
      + exists (n1 + n2). rewrite H2, H1. apply repeat_app_run.
      + destruct (IHp (fst (poll_p handle is_sync p (fst (poll1 handle is_sync c t)) t)) t) as [n3 H3].
        eexists. rewrite H3, H2, H1, !repeat_app_run. reflexivity.
    - destruct (IHp c t) as [n1 H1].
      destruct (snd (poll_p handle is_sync p c t)); [eauto|].
      destruct (IHp (fst (poll_p handle is_sync p c t)) t) as [n2 H2].
      exists (n1 + n2). rewrite H2, H1. apply repeat_app_run.
    - apply poll1_is_run.
  Qed.

  Theorem run_polls_p_is_run : forall is_sync p sched (c : config),
    exists sched', run_polls_p handle is_sync p c sched = run c sched'.
  Proof.
    induction sched; intros; simpl.
    - exists []. reflexivity.
    - destruct (poll_p_is_run is_sync p c a) as [n Hn].
      unfold run_polls_p in *. simpl. rewrite Hn.
      destruct (IHsched (run c (repeat a n))) as [s' Hs'].
      exists (repeat a n ++ s'). rewrite run_app. exact Hs'.
  Qed.

  Corollary run_polls_reachable : forall is_sync fuel sched (c : config),
    reachable c (run_polls handle is_sync fuel c sched).
  Proof. intros. destruct (run_polls_is_run is_sync fuel sched c) as [s' ->]. now exists s'. Qed.
End SchedProofs.
