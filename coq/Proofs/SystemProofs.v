(* System -- proofs about Model/System.v: the per-property models are views of [system_step], and
   they agree wherever two of them describe the same thing.  The pinned statements are in
   Props/System.v; notes/System.md lists every overlap that is reconciled here. *)
From GPA.Model Require Import System.
From GPA Require Import ServerProofs AuthorizerProofs SummaryProofs CanonProofs HeadersProofs RelayProofs
                        LimitProofs AcceptProofs.
From Coq Require Import Lia Permutation.

Arguments N.add : simpl never.
Arguments N.mul : simpl never.

(* ============================================================================================ *)
(* 1. Overlaps between the models: they agree                                                     *)
(* ============================================================================================ *)

(* ---- 1.1 the request target: Server.uri (any form) / Canon.uri (origin form) / Rbac.url ------- *)
(* the RBAC decision and the traversal test read the very path and query the signature covers *)
Lemma url_of_server_request q :
  url_of (server_request q) =
  {| Rbac.u_path := Canon.u_path (q_uri q);
     Rbac.u_query := match Canon.u_query (q_uri q) with Some s => s | None => [] end |}.
Proof. reflexivity. Qed.

Lemma traversal_of_server_request q :
  has_traversal (server_request q) = contains (Canon.u_path (q_uri q)) DOTDOT.
Proof. reflexivity. Qed.

Lemma provision_of_server_request q :
  is_provision (server_request q) = true <->
  Canon.u_path (q_uri q) = Consts.provision_url_path /\
  (Canon.u_query (q_uri q) = None \/ Canon.u_query (q_uri q) = Some []).
Proof. unfold server_request. apply is_provision_origin. Qed.

(* hyper_client::query_pairs is modelled twice (Rbac.v for Privilege::is_match, Canon.v for the
   canonical string): the same function *)
Lemma query_pairs_agree (q : option bytes) :
  Rbac.query_pairs (match q with Some s => s | None => [] end) = Canon.query_pairs q.
Proof. destruct q; reflexivity. Qed.

Lemma rbac_sees_signed_parameters q :
  Rbac.query_pairs (Rbac.u_query (url_of (server_request q))) = Canon.query_pairs (Canon.u_query (q_uri q)).
Proof. rewrite url_of_server_request. cbn [Rbac.u_query]. apply query_pairs_agree. Qed.

(* ---- 1.2 the kernel's record: Server.audit_entry / Headers.audit ------------------------------ *)
Lemma elevation_views_agree e :
  run_as_elevated (audit_view e) = elevated_of_audit (ae_is_admin e).
Proof. reflexivity. Qed.

Lemma claims_elevation_is_headers_elevation os e c :
  claims_of_entry os e = Some c -> k_elevated c = run_as_elevated (audit_view e).
Proof.
  unfold claims_of_entry. destruct (os (ae_logon e) (ae_pid e)) as [[[[u g] p] x]|]; [|discriminate].
  intros H. inversion H. reflexivity.
Qed.

Lemma audit_of_upstream_elevated u :
  run_as_elevated (audit_of_upstream u) = k_elevated (up_claims u).
Proof. unfold run_as_elevated, audit_of_upstream. cbn. destruct (k_elevated (up_claims u)); reflexivity. Qed.

(* Headers.v (hence Relay.v and Limit.v) reads the record only through the elevation bit *)
Lemma proxy_forward_elevation_only mac a a' now kv kg c :
  run_as_elevated a = run_as_elevated a' ->
  proxy_forward mac a now kv kg c = proxy_forward mac a' now kv kg c.
Proof. intros H. unfold proxy_forward. rewrite H. reflexivity. Qed.

Lemma serve_elevation_only mac a a' now kv kg up q d b :
  run_as_elevated a = run_as_elevated a' ->
  Limit.serve mac (PreProceed a) now kv kg up q d b = Limit.serve mac (PreProceed a') now kv kg up q d b.
Proof.
  intros H. unfold Limit.serve. rewrite H.
  destruct (limit_gate _ _); [reflexivity|].
  destruct (add_required_headers _ _ _); [|reflexivity].
  destruct (limited_collect _ _ _ _); [|reflexivity].
  rewrite (proxy_forward_elevation_only mac a a' _ _ _ _ H). reflexivity.
Qed.

(* ---- 1.3 the key: two options (Canon/Headers/Limit), one pair (the handler now), the slot ------ *)
Lemma relay_reads_key_as_pair mac k req :
  relay mac (key_value k) (key_guid k) req =
  if should_skip_sig (r_method req) (r_uri req) then Forwarded req
  else sign_and_forward_pair mac (key_pair k) req.
Proof. unfold relay. destruct k as [[g v]|]; reflexivity. Qed.

(* the handler's single round trip (SignRace.route_reads ProxiedRequest = [RdWhole]) yields exactly
   [key_pair] of the slot's content at that moment, and both fields carry the same ghost epoch *)
Lemma key_read_is_whole (t : nat) (w : SignRace.world) :
  SignRace.route_reads SignRace.ProxiedRequest = [SignRace.RdWhole] /\
  let rep := snd (SignRace.handle t w SignRace.GetKey) in
  SignRace.hdr (SignRace.absorb SignRace.RdWhole rep SignRace.loc0) = key_pair (SignRace.cur w) /\
  SignRace.setkey_between_reads (SignRace.absorb SignRace.RdWhole rep SignRace.loc0) = false.
Proof.
  split; [reflexivity|]. cbn. destruct (SignRace.cur w) as [[g v]|]; cbn; rewrite ?Nat.eqb_refl; split; reflexivity.
Qed.

(* Headers.is_signed says "signed" exactly when SignRace's outcome of the proxied route carries a
   header (usable = the secret hex-decodes) and the pair is not exempt *)
Definition hex_usable (v : bytes) : bool := match hex_decode v with Some _ => true | None => false end.

Lemma is_signed_is_route_outcome k n c :
  is_signed (key_value k) (key_guid k) c =
  negb (should_skip_sig (c_method c) (c_uri c)) &&
  match SignRace.route_outcome hex_usable SignRace.ProxiedRequest
          (SignRace.absorb SignRace.RdWhole (k, n) SignRace.loc0) with
  | SignRace.Sent (Some _) => true
  | _ => false
  end.
Proof.
  unfold is_signed, SignRace.route_outcome, hex_usable. destruct k as [[g v]|]; cbn; [|reflexivity].
  destruct (hex_decode v); reflexivity.
Qed.

(* ---- 1.4 the handler's early returns: Limit.early_kind / Server.outcome ------------------------ *)
Lemma all_early_complete k : In k all_early.
Proof. destruct k; cbn; tauto. Qed.

Lemma early_with_status_sound s k : early_with_status s = Some k -> early_status k = s.
Proof. unfold early_with_status. intros H. apply find_some in H as [_ H]. apply N.eqb_eq in H. exact H. Qed.

Lemma early_with_status_of_kind k :
  exists k', early_with_status (early_status k) = Some k' /\ early_status k' = early_status k.
Proof.
  destruct (early_with_status (early_status k)) as [k'|] eqn:F.
  - exists k'. split; [reflexivity|]. apply early_with_status_sound; exact F.
  - unfold early_with_status in F. pose proof (find_none _ _ F k (all_early_complete k)) as H.
    cbn in H. rewrite N.eqb_refl in H. discriminate.
Qed.

(* every status the handler answers before the forward step is the status of one of Limit.v's kinds *)
Lemma handler_resp_is_early authz e cx r s :
  fst (handle_gen authz e cx r) = Resp s ->
  exists k, early_with_status s = Some k /\ early_status k = s.
Proof.
  unfold handle_gen.
  destruct (e_counter_ok e); cbn [negb].
  2:{ cbn [fst]. intros H. inversion H. apply (early_with_status_of_kind ECounterFailure). }
  destruct (has_traversal r).
  { cbn [fst]. intros H. inversion H. apply (early_with_status_of_kind ETraversal). }
  destruct (is_provision r); [cbn; intros H; discriminate H|].
  destruct (cx_dest cx) as [[ip port]|].
  2:{ cbn [fst]. intros H. inversion H. apply (early_with_status_of_kind ENoDestination). }
  destruct (cx_claims cx) as [c|].
  2:{ cbn [fst]. intros H. inversion H. apply (early_with_status_of_kind ENoClaims). }
  destruct (e_claims_json_ok e c); cbn [negb].
  2:{ cbn [fst]. intros H. inversion H. apply (early_with_status_of_kind EClaimsJson). }
  destruct (rules_for e (ipv4_text ip) port) as [rs|].
  2:{ cbn [fst]. intros H. inversion H. apply (early_with_status_of_kind ERulesError). }
  destruct (authz (ipv4_text ip) port c (url_of r) rs); cbn [fst]; intros H; try discriminate H.
  inversion H. apply (early_with_status_of_kind EForbidden).
Qed.

(* whatever the kind chosen, Limit.serve answers the handler's status *)
Lemma serve_pre_of_resp mac prov s now kv kg up q d b :
  Limit.serve mac (pre_of prov (Resp s)) now kv kg up q d b =
  match limit_gate (limit_of (q_method q) (q_uri q)) d with
  | Refuse413 => local status_payload_too_large
  | Admit _ => local s
  end.
Proof.
  unfold Limit.serve, pre_of.
  destruct (limit_gate _ _); [reflexivity|].
  destruct (early_with_status s) as [k|] eqn:F; [|reflexivity].
  rewrite (early_with_status_sound _ _ F). reflexivity.
Qed.

Lemma pre_of_proceed prov o a :
  pre_of prov o = PreProceed a -> exists u, o = Relay u /\ a = audit_of_upstream u.
Proof.
  destruct o as [s| |u]; cbn [pre_of].
  - destruct (early_with_status s); intros H; discriminate H.
  - intros H; discriminate H.
  - intros H. inversion H. eauto.
Qed.

(* ---- 1.5 the body: Limit.limited_collect / Relay.collect; what is written: Limit / Relay -------- *)
(* a write of Limit.serve is Headers.proxy_forward = Relay.upstream_of on the collected request *)
Lemma serve_write_is_upstream_of mac a now kv kg up q d b out :
  In out (upstream_writes (Limit.serve mac (PreProceed a) now kv kg up q d b)) ->
  upstream_of mac a now kv kg q = Forwarded out /\ up = true /\
  Limit.serve mac (PreProceed a) now kv kg up q d b = {| to_client := FromHost; upstream_writes := [out] |}.
Proof.
  unfold Limit.serve, upstream_of.
  destruct (limit_gate _ _) as [|bl]; [intros []|].
  destruct (add_required_headers _ _ _); [|intros []].
  destruct (limited_collect bl (q_frames q) b []) as [body|] eqn:C; [|intros []].
  apply collect_some in C as (Cb & _ & _). subst body. cbn [app]. unfold collect.
  destruct (proxy_forward mac a now kv kg _) as [o|]; [|intros []].
  destruct up; [|intros []].
  cbn [upstream_writes]. intros [->|[]]. auto.
Qed.

(* Limit.serve either answers locally without a write, or hands exactly one request to the host *)
Lemma serve_shape mac p now kv kg up q d b :
  (exists s, Limit.serve mac p now kv kg up q d b = local s) \/
  (exists out, Limit.serve mac p now kv kg up q d b = {| to_client := FromHost; upstream_writes := [out] |}).
Proof.
  unfold Limit.serve.
  destruct (limit_gate _ _); [left; eexists; reflexivity|].
  destruct p; try (left; eexists; reflexivity).
  destruct (add_required_headers _ _ _); [|left; eexists; reflexivity].
  destruct (limited_collect _ _ _ _); [|left; eexists; reflexivity].
  destruct (proxy_forward _ _ _ _ _ _); [|left; eexists; reflexivity].
  destruct up; [right|left]; eexists; reflexivity.
Qed.

(* a closed upstream connection changes one thing: the request that would be written is answered
   502 instead *)
Lemma serve_up_false mac p now kv kg q d b :
  Limit.serve mac p now kv kg false q d b =
  match upstream_writes (Limit.serve mac p now kv kg true q d b) with
  | [] => Limit.serve mac p now kv kg true q d b
  | _ :: _ => local status_bad_gateway
  end.
Proof.
  unfold Limit.serve.
  destruct (limit_gate _ _); [reflexivity|].
  destruct p; try reflexivity.
  destruct (add_required_headers _ _ _); [|reflexivity].
  destruct (limited_collect _ _ _ _); [|reflexivity].
  destruct (proxy_forward _ _ _ _ _ _); reflexivity.
Qed.

(* ============================================================================================ *)
(* 2. The structure of one step                                                                   *)
(* ============================================================================================ *)
Section Gen.
Context (authz : bytes -> N -> claims -> url -> option computed -> auth_result).
Context (mac : bytes -> bytes -> bytes).

Local Notation step := (system_step_gen authz mac).
Local Notation hx := (handled authz).
Local Notation sv := (served_with authz mac).

(* a request refused by the 413 gate: nothing else happens (the handler is not even called) *)
Lemma gate_refusal_silent E C q :
  gate_open q = false ->
  step E C q = {| sy_client := CLocal status_payload_too_large; sy_upstream := []; sy_effects := [] |}.
Proof.
  intros G. unfold system_step_gen. rewrite G.
  assert (S : sv true E C q = local status_payload_too_large).
  { unfold served_with, Limit.serve. unfold gate_open in G.
    destruct (limit_gate _ _); [reflexivity|discriminate]. }
  rewrite S. cbn [upstream_writes local to_client local_status].
  destruct (fst (hx E C q)); reflexivity.
Qed.

(* inversion of a write: the handler relayed, the upstream connection is open, Limit.serve wrote
   exactly this request, and it is the only one *)
Lemma upstream_inv E C q ip port out :
  In (ip, port, out) (sy_upstream (step E C q)) ->
  exists u, fst (hx E C q) = Relay u /\ ip = up_ip u /\ port = up_port u /\ se_up E = true /\
            sv true E C q = {| to_client := FromHost; upstream_writes := [out] |} /\
            sy_upstream (step E C q) = [(ip, port, out)].
Proof.
  unfold system_step_gen.
  destruct (fst (hx E C q)) as [s| |u] eqn:Ho; try (cbn; intros []).
  destruct (upstream_writes (sv true E C q)) as [|o t] eqn:W; [cbn; intros []|].
  assert (Hin : In o (upstream_writes (sv true E C q))) by (rewrite W; left; reflexivity).
  unfold served_with in Hin, W |- *. rewrite Ho in Hin, W |- *. cbn [pre_of] in Hin, W |- *.
  apply serve_write_is_upstream_of in Hin as (_ & _ & S). rewrite S in W. cbn [upstream_writes] in W. injection W as Et. subst t.
  destruct (se_up E); [|cbn; intros []].
  destruct (se_host E); cbn [sy_upstream]; intros [H|[]]; inversion H; subst;
    exists u; repeat split; auto.
Qed.

Lemma upstream_at_most_one E C q : (length (sy_upstream (step E C q)) <= 1)%nat.
Proof.
  unfold system_step_gen.
  destruct (fst (hx E C q)); try (cbn; lia).
  destruct (upstream_writes _); [cbn; lia|].
  destruct (se_up E); [|cbn; lia]. destruct (se_host E); cbn; lia.
Qed.

(* ---- Limit.v is a view: client answer kind and written requests ARE Limit.serve's -------------- *)
Lemma sv_shape up E C q :
  (exists s, sv up E C q = local s) \/
  (exists out, sv up E C q = {| to_client := FromHost; upstream_writes := [out] |}).
Proof. apply serve_shape. Qed.

Lemma sv_up_false E C q :
  sv false E C q = match upstream_writes (sv true E C q) with
                   | [] => sv true E C q
                   | _ :: _ => local status_bad_gateway
                   end.
Proof. apply serve_up_false. Qed.

Lemma sv_write_relay up E C q out :
  sv up E C q = {| to_client := FromHost; upstream_writes := [out] |} ->
  exists u, fst (hx E C q) = Relay u.
Proof.
  unfold served_with. intros S.
  destruct (pre_of (se_provision E) (fst (hx E C q))) as [k|s|a] eqn:P.
  - unfold Limit.serve in S. destruct (limit_gate _ _); discriminate.
  - unfold Limit.serve in S. destruct (limit_gate _ _); discriminate.
  - apply pre_of_proceed in P as (u & -> & _). eauto.
Qed.

Lemma limit_view_is_serve E C q : limit_view (step E C q) = sv (se_up E) E C q.
Proof.
  unfold system_step_gen.
  destruct (sv_shape true E C q) as [[s S]|[out S]].
  - (* answered locally whatever the upstream state *)
    assert (Sup : sv (se_up E) E C q = local s).
    { destruct (se_up E); [exact S|]. rewrite sv_up_false, S. reflexivity. }
    rewrite Sup, S. cbn [upstream_writes local to_client local_status].
    destruct (fst (hx E C q)); reflexivity.
  - destruct (sv_write_relay _ _ _ _ _ S) as (u & Ho). rewrite Ho, S. cbn [upstream_writes].
    destruct (se_up E) eqn:U.
    + rewrite S. destruct (se_host E); reflexivity.
    + rewrite sv_up_false, S. reflexivity.
Qed.

(* ---- Server.v is a view: outcome and summaries are the handler's ------------------------------- *)
(* the effects are the handler's own summaries followed by what the forward step adds *)
Lemma effects_shape E C q :
  gate_open q = true ->
  exists tail, sy_effects (step E C q) = non_write (snd (hx E C q)) ++ tail /\
    (tail = [] \/
     (exists st, tail = [Summary st] /\ sy_upstream (step E C q) = []) \/
     (exists u st, tail = [UpstreamWrite u; Summary st] /\ fst (hx E C q) = Relay u /\ sy_upstream (step E C q) <> [])).
Proof.
  intros G. unfold system_step_gen. rewrite G.
  destruct (fst (hx E C q)) as [s| |u] eqn:Ho;
    try (exists []; rewrite app_nil_r; split; [reflexivity|left; reflexivity]).
  destruct (upstream_writes (sv true E C q)) as [|o t];
    [exists []; rewrite app_nil_r; split; [reflexivity|left; reflexivity]|].
  destruct (se_up E).
  - destruct (se_host E) as [r|st]; eexists; (split; [reflexivity|]); right; right;
      exists u; eexists; repeat split; cbn; discriminate.
  - eexists; split; [reflexivity|]. right; left. eexists; split; reflexivity.
Qed.

(* a real write implies the handler's "forward step entered" effect: Server.v's UpstreamWrite is an
   upper bound of what Limit.v / Relay.v say is written *)
Lemma write_refines_handler_write E C q ip port out :
  In (ip, port, out) (sy_upstream (step E C q)) ->
  exists u, In (UpstreamWrite u) (snd (hx E C q)) /\ In (UpstreamWrite u) (sy_effects (step E C q)) /\
            up_ip u = ip /\ up_port u = port /\ up_request u = server_request (sq_req q).
Proof.
  intros H. pose proof H as H0. apply upstream_inv in H as (u & Ho & -> & -> & U & S & _).
  exists u. unfold handled in Ho.
  destruct (handle_gen authz (se_env E) (ci_ctx C) (server_request (sq_req q))) as [o fx] eqn:Hh.
  cbn [fst] in Ho. subst o.
  destruct (relay_inv authz _ _ _ _ _ Hh) as (_ & _ & _ & _ & _ & _ & Hr & rs & _ & _ & Hin).
  repeat split; auto.
  - unfold handled. rewrite Hh. exact Hin.
  - unfold system_step_gen. unfold handled at 1 2. rewrite Hh. cbn [fst].
    rewrite S. cbn [upstream_writes]. rewrite U.
    destruct (se_host E); cbn [sy_effects]; apply in_or_app; right; left; reflexivity.
Qed.

(* ============================================================================================ *)
(* 3. (a) end-to-end mediation                                                                    *)
(* ============================================================================================ *)
Lemma mediation E C q ip port out :
  In (ip, port, out) (sy_upstream (step E C q)) ->
  let r := server_request (sq_req q) in
  exists c rs,
    (* attributed: the connection context carries this destination and these claims *)
    cx_dest (ci_ctx C) = Some (ip, port) /\ cx_claims (ci_ctx C) = Some c /\
    (* every check of the handler passed, the policy in force does not forbid *)
    e_counter_ok (se_env E) = true /\ has_traversal r = false /\ is_provision r = false /\
    e_claims_json_ok (se_env E) c = true /\
    rules_for (se_env E) (ipv4_text ip) port = ROk rs /\
    authz (ipv4_text ip) port c (url_of r) rs <> AForbidden /\
    (* the body is within the limit of its class, was admitted by the gate, and all of it is sent *)
    gate_open q = true /\
    total (q_frames (sq_req q)) <= limit_of (q_method (sq_req q)) (q_uri (sq_req q)) /\
    r_body out = concat (q_frames (sq_req q)) /\
    (* exactly one request is written, on an open upstream connection *)
    se_up E = true /\ sy_upstream (step E C q) = [(ip, port, out)].
Proof.
  intros H r. pose proof H as H0. apply upstream_inv in H as (u & Ho & -> & -> & U & S & One).
  unfold handled in Ho.
  destruct (handle_gen authz (se_env E) (ci_ctx C) (server_request (sq_req q))) as [o fx] eqn:Hh.
  cbn [fst] in Ho. subst o.
  destruct (relay_inv authz _ _ _ _ _ Hh) as (Hc & Ht & Hp & Hd & Hk & Hj & Hr & rs & Hrs & Ha & _).
  assert (W : In out (upstream_writes (sv true E C q))) by (rewrite S; left; reflexivity).
  unfold served_with in W. apply relayed_only_within in W as (Hb & Hl & _).
  exists (up_claims u), rs. repeat split; auto.
  destruct (gate_open q) eqn:G; [reflexivity|].
  rewrite (gate_refusal_silent _ _ _ G) in H0. destruct H0.
Qed.

(* composed with the accept step: a record existed under the connection's source port, and the
   destination, the claims and their elevation bit are that record's *)
Lemma mediation_kernel_record os fr m p cip cmd E q ip port out :
  In (ip, port, out)
     (sy_upstream (step E {| ci_ctx := fst (accept os fr m p); ci_client_ip := cip; ci_cmd := cmd |} q)) ->
  exists rec c,
    alookup N.eqb p m = Some rec /\ ip = ae_ip rec /\ port = ae_port rec /\
    claims_of_entry os rec = Some c /\ k_elevated c = run_as_elevated (audit_view rec) /\
    hm_get_all claims_header (r_headers out) = [claims_text (run_as_elevated (audit_view rec))].
Proof.
  intros H. pose proof H as H0. apply upstream_inv in H as (u & Ho & -> & -> & U & S & _).
  unfold handled in Ho. cbn [ci_ctx] in Ho.
  destruct (handle_gen authz (se_env E) (fst (accept os fr m p)) (server_request (sq_req q))) as [o fx] eqn:Hh.
  cbn [fst] in Ho. subst o.
  destruct (served_relay_attributed_authorized authz _ _ _ _ _ _ _ _ Hh)
    as (rec & rs & L & Hi & Hpt & Hc & He & _).
  exists rec, (up_claims u).
  split; [exact L|]. split; [exact Hi|]. split; [exact Hpt|]. split; [exact Hc|].
  split; [rewrite He; reflexivity|].
  assert (W : In out (upstream_writes (sv true E {| ci_ctx := fst (accept os fr m p); ci_client_ip := cip; ci_cmd := cmd |} q)))
      by (rewrite S; left; reflexivity).
  unfold served_with, handled in W. cbn [ci_ctx] in W. rewrite Hh in W. cbn [fst pre_of] in W.
  apply serve_write_is_upstream_of in W as (F & _ & _). unfold upstream_of in F.
  rewrite (exactly_one_claims _ _ _ _ _ _ _ F), audit_of_upstream_elevated, He. reflexivity.
Qed.

(* ============================================================================================ *)
(* 4. (b) what the host receives is a function of (client request, claims, key, now)              *)
(* ============================================================================================ *)
Lemma forwarded_is_function E C q ip port out :
  In (ip, port, out) (sy_upstream (step E C q)) ->
  let fq := sq_req q in
  exists u,
    fst (hx E C q) = Relay u /\ ip = up_ip u /\ port = up_port u /\
    (* the request leg of Relay.v = Headers.proxy_forward on the collected body *)
    upstream_of mac (audit_of_upstream u) (se_now E) (key_value (se_key E)) (key_guid (se_key E)) fq
      = Forwarded out /\
    (* method, target, body unchanged *)
    r_method out = q_method fq /\ r_uri out = q_uri fq /\ r_body out = concat (q_frames fq) /\
    (* headers the proxy does not own: same values, same relative order, as sent *)
    (forall n, owned n = false -> hm_get_all n (r_headers out) = wire_values n (q_wire fq)) /\
    filter (fname (fun n => negb (owned n))) (r_headers out)
      = filter (fname (fun n => negb (owned n))) (of_wire (q_wire fq)) /\
    (* exactly one claims header (the connection's elevation bit) and one date header (now) *)
    hm_get_all claims_header (r_headers out) = [claims_text (k_elevated (up_claims u))] /\
    hm_get_all date_header (r_headers out) = [se_now E] /\
    (* a latched (hex) key on a pair that is not exempt: exactly one authorization header, whose
       MAC is over the canonical string of THIS forwarded request, under the key whose id it names *)
    (forall k kb, se_key E = Some k -> should_skip_sig (q_method fq) (q_uri fq) = false ->
                  hex_decode (SignRace.value k) = Some kb ->
                  hm_get_all auth_header (r_headers out) =
                  [auth_value (SignRace.guid k) (hex_encode (mac kb (request_sig_input out)))]) /\
    (* otherwise the authorization name is not the proxy's: the client's values pass *)
    (is_signed (key_value (se_key E)) (key_guid (se_key E)) (collected fq) = false ->
     hm_get_all auth_header (r_headers out) = wire_values auth_header (q_wire fq)).
Proof.
  intros H fq. apply upstream_inv in H as (u & Ho & -> & -> & U & S & _).
  exists u.
  assert (W : In out (upstream_writes (sv true E C q))) by (rewrite S; left; reflexivity).
  unfold served_with in W. rewrite Ho in W. cbn [pre_of] in W.
  apply serve_write_is_upstream_of in W as (F & _ & _).
  pose proof (request_unchanged _ _ _ _ _ _ _ F) as (Rm & Ru & Rb & Rv & Ro).
  pose proof F as F2. unfold upstream_of in F2.
  repeat split; auto.
  - rewrite (exactly_one_claims _ _ _ _ _ _ _ F2), audit_of_upstream_elevated. reflexivity.
  - apply (exactly_one_date _ _ _ _ _ _ _ F2).
  - intros k kb Hk Hs Hd. unfold proxy_forward in F2.
    destruct (add_required_headers _ _ _) as [hs|]; [|discriminate].
    rewrite relay_reads_key_as_pair in F2. cbn [r_method r_uri c_method c_uri] in F2.
    fold fq in F2. rewrite Hs, Hk in F2. destruct k as [g v]. cbn [key_pair option_map SignRace.guid SignRace.value] in *.
    apply (header_shape_pair mac g v kb _ _ F2 Hd).
  - intros Hs. apply (auth_untouched_when_unsigned _ _ _ _ _ _ _ F2 Hs).
Qed.

(* the host's response reaches the client as Relay.v says; nothing else can be "relayed" *)
Lemma response_leg E C q r' :
  sy_client (step E C q) = CRelayed r' ->
  exists r, se_host E = HostResponse r /\ r' = client_resp_of r /\
            sy_upstream (step E C q) <> [] /\
            s_status r' = s_status r /\ s_aborted r' = s_aborted r /\
            hm_get_all auth_header (s_headers r') = [marker_value] /\
            (forall n, beq n auth_header = false -> hm_get_all n (s_headers r') = hm_get_all n (s_headers r)) /\
            (wf_frames (s_frames r) = true -> body_of (s_frames r') = body_of (s_frames r)).
Proof.
  unfold system_step_gen.
  destruct (fst (hx E C q)); try (cbn; discriminate).
  destruct (upstream_writes _); [cbn; discriminate|].
  destruct (se_up E); [|cbn; discriminate].
  destruct (se_host E) as [r0|st]; cbn [sy_client sy_upstream]; [|discriminate].
  intros H. inversion H. exists r0.
  destruct (response_head r0) as (Hs & Hm & Hn & _).
  repeat split; auto; try discriminate.
  intros Hw. apply (proj1 (response_bytes r0 Hw)).
Qed.

(* ============================================================================================ *)
(* 5. (d) summaries                                                                               *)
(* ============================================================================================ *)
Lemma failed_effects_app a b : failed_effects (a ++ b) = (failed_effects a + failed_effects b)%nat.
Proof. unfold failed_effects. rewrite filter_app, app_length. reflexivity. Qed.

Lemma failed_effects_non_write fx : failed_effects (non_write fx) = failed_effects fx.
Proof.
  unfold failed_effects, non_write. induction fx as [|f t IH]; [reflexivity|].
  destruct f; cbn; rewrite ?IH; reflexivity.
Qed.

Lemma failed_effects_step E C q :
  failed_effects (sy_effects (step E C q)) =
  if gate_open q then failed_effects (snd (hx E C q)) else 0%nat.
Proof.
  destruct (gate_open q) eqn:G.
  - destruct (effects_shape E C q G) as (tail & -> & T).
    rewrite failed_effects_app, failed_effects_non_write.
    destruct T as [->|[(st & -> & _)|(u & st & -> & _)]]; cbn; lia.
  - rewrite (gate_refusal_silent _ _ _ G). reflexivity.
Qed.

(* the actor messages: the handler's (Summary.msgs_of), then the forward step's summary *)
Lemma msgs_non_write C fx : flat_map (msg_of_effect C) (non_write fx) = flat_map (msg_of_effect C) fx.
Proof.
  unfold non_write. induction fx as [|f t IH]; [reflexivity|]. destruct f; cbn; rewrite ?IH; reflexivity.
Qed.
End Gen.

Lemma sys_msgs_are_handlers mac E C q :
  gate_open q = true ->
  exists tail,
    sys_msgs C (system_step mac E C q) =
      msgs_of {| rv_env := se_env E; rv_conn := C; rv_req := server_request (sq_req q) |} ++ tail /\
    (tail = [] \/ exists st, tail = [AddOk (summary_of C st)]).
Proof.
  intros G. unfold system_step.
  destruct (effects_shape authorize_at mac E C q G) as (tail & Hfx & T).
  unfold sys_msgs. rewrite Hfx, flat_map_app, msgs_non_write.
  eexists. split; [reflexivity|].
  destruct T as [->|[(st & -> & _)|(u & st & -> & _)]]; cbn; eauto.
Qed.

(* exactly one failed-summary record per denial, none otherwise -- for the requests the gate admits;
   a request refused by the gate is not recorded at all *)
Lemma denial_recorded_once mac E C q :
  failed_effects (sy_effects (system_step mac E C q)) =
  if gate_open q && records_failure (se_env E) (ci_ctx C) (server_request (sq_req q)) then 1%nat else 0%nat.
Proof.
  unfold system_step. rewrite failed_effects_step. unfold handled.
  destruct (gate_open q); [|reflexivity]. cbn [andb]. apply failed_effects_exact.
Qed.

Lemma gate_open_serve mac p now kv kg up q :
  gate_open q = true ->
  Limit.serve mac p now kv kg up (sq_req q) (sq_declared q) (sq_broken q) =
  match p with
  | PreEarly k => local (early_status k)
  | PreProvision s => local s
  | PreProceed a =>
      Limit.serve mac (PreProceed a) now kv kg up (sq_req q) (sq_declared q) (sq_broken q)
  end.
Proof.
  unfold gate_open, Limit.serve. destruct (limit_gate _ _); [discriminate|]. destruct p; reflexivity.
Qed.

(* a request the handler answers itself: that status, no write, the handler's summaries *)
Lemma step_of_resp authz mac E C q s fx :
  gate_open q = true ->
  handled authz E C q = (Resp s, fx) ->
  system_step_gen authz mac E C q =
  {| sy_client := CLocal s; sy_upstream := []; sy_effects := non_write fx |}.
Proof.
  intros G H. unfold system_step_gen, served_with. rewrite H, G. cbn [fst snd].
  rewrite serve_pre_of_resp. unfold gate_open in G.
  destruct (limit_gate _ _); [discriminate|]. reflexivity.
Qed.

(* enforce mode: 403, nothing written, one failed-summary record and the connection summary *)
Lemma enforce_blocks_system mac E C q ip port c rl :
  gate_open q = true ->
  reaches (se_env E) (ci_ctx C) (server_request (sq_req q)) ip port c (Some rl) ->
  builtin_ok (kind_of (ipv4_text ip) port) c = true ->
  c_mode rl = Enforce -> rules_deny rl (server_request (sq_req q)) c = true ->
  system_step mac E C q =
  {| sy_client := CLocal 403; sy_upstream := []; sy_effects := [FailedSummary 403; Summary 403] |}.
Proof.
  intros G Hr Hb Hm Hd. unfold system_step.
  rewrite (step_of_resp authorize_at mac E C q 403 [FailedSummary 403; Summary 403] G); [reflexivity|].
  unfold handled. apply (enforce_blocks _ _ _ _ _ _ _ Hr Hb Hm Hd).
Qed.

(* two environments that differ only in what the handler is told (rules, actors): if the handler
   relays the same upstream in both, the client and the host see the same thing *)
Lemma same_relay_same_wire authz mac E E' C q u fx fx' :
  se_now E = se_now E' -> se_key E = se_key E' -> se_provision E = se_provision E' ->
  se_up E = se_up E' -> se_host E = se_host E' ->
  handled authz E C q = (Relay u, fx) -> handled authz E' C q = (Relay u, fx') ->
  sy_client (system_step_gen authz mac E C q) = sy_client (system_step_gen authz mac E' C q) /\
  sy_upstream (system_step_gen authz mac E C q) = sy_upstream (system_step_gen authz mac E' C q).
Proof.
  intros N K P U Hh H H'. unfold system_step_gen, served_with. rewrite H, H'. cbn [fst snd pre_of].
  rewrite N, K, U, Hh.
  destruct (upstream_writes _); [split; reflexivity|].
  destruct (se_up E'); [|split; reflexivity]. destruct (se_host E'); split; reflexivity.
Qed.

(* audit mode: the denied request is relayed exactly as an allowed one (same answer to the client,
   same request to the host), with one failed-summary record in front of the same effects *)
Lemma audit_forwards_system mac E E' C q ip port c rl rs' :
  gate_open q = true ->
  se_now E = se_now E' -> se_key E = se_key E' -> se_provision E = se_provision E' ->
  se_up E = se_up E' -> se_host E = se_host E' ->
  reaches (se_env E) (ci_ctx C) (server_request (sq_req q)) ip port c (Some rl) ->
  reaches (se_env E') (ci_ctx C) (server_request (sq_req q)) ip port c rs' ->
  builtin_ok (kind_of (ipv4_text ip) port) c = true ->
  c_mode rl = Audit -> rules_deny rl (server_request (sq_req q)) c = true ->
  match rs' with Some rl' => rules_deny rl' (server_request (sq_req q)) c = false | None => True end ->
  sy_client (system_step mac E C q) = sy_client (system_step mac E' C q) /\
  sy_upstream (system_step mac E C q) = sy_upstream (system_step mac E' C q) /\
  sy_effects (system_step mac E C q) = FailedSummary 403 :: sy_effects (system_step mac E' C q).
Proof.
  intros G N K P U Hh Hr Hr' Hb Hm Hd Hd'.
  pose proof (audit_forwards _ _ _ _ _ _ _ Hr Hb Hm Hd) as A.
  pose proof (allowed_forwards _ _ _ _ _ _ _ Hr' Hb Hd') as A'.
  destruct (same_relay_same_wire authorize_at mac E E' C q _ _ _ N K P U Hh A A') as (S1 & S2).
  split; [exact S1|]. split; [exact S2|].
  unfold handle in A, A'.
  unfold system_step, system_step_gen, served_with, handled. rewrite A, A', G. cbn [fst snd pre_of non_write filter].
  rewrite N, K, U, Hh.
  destruct (upstream_writes _); [reflexivity|].
  destruct (se_up E'); [|reflexivity]. destruct (se_host E'); reflexivity.
Qed.

(* ============================================================================================ *)
(* 6. (c) root-only endpoints and the proxy's own address                                         *)
(* ============================================================================================ *)
Lemma forbidden_never_relayed authz mac E C q ip port c :
  cx_dest (ci_ctx C) = Some (ip, port) -> cx_claims (ci_ctx C) = Some c ->
  (forall rs, authz (ipv4_text ip) port c (url_of (server_request (sq_req q))) rs = AForbidden) ->
  sy_upstream (system_step_gen authz mac E C q) = [] /\
  forall r, sy_client (system_step_gen authz mac E C q) <> CRelayed r.
Proof.
  intros Hd Hk Hf.
  assert (U : sy_upstream (system_step_gen authz mac E C q) = []).
  { destruct (sy_upstream (system_step_gen authz mac E C q)) as [|[[i p] o] t] eqn:S; [reflexivity|].
    assert (Hin : In (i, p, o) (sy_upstream (system_step_gen authz mac E C q))) by (rewrite S; left; reflexivity).
    apply mediation in Hin as (c' & rs & Hd' & Hk' & _ & _ & _ & _ & _ & Ha & _).
    rewrite Hd in Hd'. inversion Hd'; subst i p. rewrite Hk in Hk'. inversion Hk'; subst c'.
    exfalso. apply Ha. apply Hf. }
  split; [exact U|]. intros r Hr. apply response_leg in Hr as (_ & _ & _ & Hne & _). congruence.
Qed.

Lemma root_only_never_relayed mac E C q ip port c :
  cx_dest (ci_ctx C) = Some (ip, port) -> cx_claims (ci_ctx C) = Some c ->
  kind_of (ipv4_text ip) port = KWireServer \/ kind_of (ipv4_text ip) port = KGAPlugin ->
  k_elevated c = false ->
  sy_upstream (system_step mac E C q) = [] /\ forall r, sy_client (system_step mac E C q) <> CRelayed r.
Proof.
  intros Hd Hk Hkind He. apply (forbidden_never_relayed authorize_at mac E C q ip port c Hd Hk).
  intros rs. unfold authorize_at. apply root_only; assumption.
Qed.

Lemma self_never_relayed mac E C q ip port c :
  cx_dest (ci_ctx C) = Some (ip, port) -> cx_claims (ci_ctx C) = Some c ->
  kind_of (ipv4_text ip) port = KProxyAgent ->
  sy_upstream (system_step mac E C q) = [] /\ forall r, sy_client (system_step mac E C q) <> CRelayed r.
Proof.
  intros Hd Hk Hkind. apply (forbidden_never_relayed authorize_at mac E C q ip port c Hd Hk).
  intros rs. unfold authorize_at. rewrite Hkind. apply self_refused.
Qed.

(* the same, when the root-only request is admitted by the gate and reaches the authorization step:
   403 and one failed-summary record *)
Lemma root_only_403 mac E C q ip port c rs :
  gate_open q = true ->
  reaches (se_env E) (ci_ctx C) (server_request (sq_req q)) ip port c rs ->
  kind_of (ipv4_text ip) port = KWireServer \/ kind_of (ipv4_text ip) port = KGAPlugin \/
  kind_of (ipv4_text ip) port = KProxyAgent ->
  (kind_of (ipv4_text ip) port <> KProxyAgent -> k_elevated c = false) ->
  system_step mac E C q =
  {| sy_client := CLocal 403; sy_upstream := []; sy_effects := [FailedSummary 403; Summary 403] |}.
Proof.
  intros G Hr Hkind He. unfold system_step.
  rewrite (step_of_resp authorize_at mac E C q 403 [FailedSummary 403; Summary 403] G); [reflexivity|].
  unfold handled. fold handle. rewrite (handle_at_authz _ _ _ _ _ _ _ Hr).
  assert (A : authorize_at (ipv4_text ip) port c (url_of (server_request (sq_req q))) rs = AForbidden).
  { unfold authorize_at. destruct Hkind as [K|[K|K]].
    - apply root_only; auto. apply He. rewrite K. discriminate.
    - apply root_only; auto. apply He. rewrite K. discriminate.
    - rewrite K. apply self_refused. }
  rewrite A. reflexivity.
Qed.

(* ============================================================================================ *)
(* 7. (e) keep-alive connections and histories                                                    *)
(* ============================================================================================ *)
Lemma fold_snoc_map {X Y} (f : X -> Y) (l : list X) : forall acc,
  fold_left (fun acc s => acc ++ [f s]) l acc = acc ++ map f l.
Proof.
  induction l as [|x t IH]; intros acc; cbn; [rewrite app_nil_r; reflexivity|].
  rewrite IH, <- app_assoc. reflexivity.
Qed.

(* every request of a keep-alive connection is one [system_step] with the SAME connection context;
   a request's result depends on the connection, its own environment and itself -- not on the
   requests before it *)
Lemma system_conn_map mac C steps :
  system_conn mac C steps = map (fun s => system_step mac (fst s) C (snd s)) steps.
Proof. unfold system_conn. rewrite fold_snoc_map. reflexivity. Qed.

Lemma system_conn_app mac C s1 s2 :
  system_conn mac C (s1 ++ s2) = system_conn mac C s1 ++ system_conn mac C s2.
Proof. rewrite !system_conn_map, map_app. reflexivity. Qed.

Lemma system_conn_nth mac C steps n E q :
  nth_error steps n = Some (E, q) ->
  nth_error (system_conn mac C steps) n = Some (system_step mac E C q).
Proof.
  intros H. rewrite system_conn_map.
  exact (map_nth_error (fun s => system_step mac (fst s) C (snd s)) n steps H).
Qed.

Lemma ctx_of_lookup_is_server_ctx os x : ctx_of_lookup os x = server_ctx os x.
Proof. reflexivity. Qed.

(* histories: any interleaving of kernel writes, two-step accepts, requests and closes of any
   number of connections (Model/Accept.v).  Every request of connection c is decided by
   [system_step] with the context derived from what c's own Lookup found -- the same for all of
   c's requests *)
Section Histories.
Context (mac : bytes -> bytes -> bytes) (os : os_view) (cip : N -> bytes) (cmd : audit_entry -> bytes).
Local Notation Q := (sys_env * sys_request)%type.
Local Notation hop := (Accept.op audit_entry Q).
Local Notation hstate := (Accept.state audit_entry).

Lemma history_request_uses_conn_ctx (s : hstate) (h : list hop) c E q x :
  Accept.conn_of s c = None ->
  In (Accept.Decided c (E, q) x) (Accept.outs s h) ->
  exists h1 p h2,
    h = h1 ++ Accept.Lookup c p :: h2 /\ Accept.no_lookup_of c h1 = true /\
    x = alookup N.eqb p (Accept.audit (Accept.final s h1)) /\
    decided_result mac os cip cmd (Accept.Decided c (E, q) x) =
      (c, system_step mac E (conn_of_lookup os cip cmd c
                               (alookup N.eqb p (Accept.audit (Accept.final s h1)))) q).
Proof.
  intros Hn Hin. destruct (decided_ctx_from_lookup h s c (E, q) x Hn Hin) as (h1 & p & h2 & Hh & Hl & Hx).
  exists h1, p, h2. repeat split; auto. subst x. reflexivity.
Qed.

Lemma history_same_conn (s : hstate) (h : list hop) c E1 q1 x1 E2 q2 x2 :
  In (Accept.Decided c (E1, q1) x1) (Accept.outs s h) ->
  In (Accept.Decided c (E2, q2) x2) (Accept.outs s h) ->
  conn_of_lookup os cip cmd c x1 = conn_of_lookup os cip cmd c x2.
Proof. intros H1 H2. rewrite (decided_same_ctx h s c _ _ _ _ H1 H2). reflexivity. Qed.

(* under source-port exclusivity and working map deletes, the context is that of the kernel's write
   for this very connection, or none -- and with none, nothing is relayed *)
Lemma history_own_record (h : list hop) c E q x :
  Accept.exclusive h = true -> Accept.removes_ok h = true ->
  In (Accept.Decided c (E, q) x) (Accept.outs Accept.init h) ->
  exists p, In (Accept.Lookup c p) h /\
    match x with
    | Some e => In (Accept.KRecord c p e) h
    | None => (forall e, ~ In (Accept.KRecord c p e) h) /\
              sy_upstream (snd (decided_result mac os cip cmd (Accept.Decided c (E, q) x))) = []
    end.
Proof.
  intros He Hr Hin. destruct (decided_with_own_record h c (E, q) x He Hr Hin) as (p & Hl & Hx).
  exists p. split; [exact Hl|]. destruct x as [e|]; [exact Hx|]. split; [exact Hx|].
  cbn [decided_result snd fst].
  destruct (sy_upstream _) as [|[[i pt] o] t] eqn:S; [reflexivity|].
  assert (Hi : In (i, pt, o) (sy_upstream (system_step mac E (conn_of_lookup os cip cmd c None) q)))
    by (rewrite S; left; reflexivity).
  apply mediation in Hi as (c' & rs & Hd & _). cbn in Hd. discriminate.
Qed.
End Histories.


(* ============================================================================================ *)
(* 8. C15 on the system: bodies above the limit; and the converse (everything passes => relayed)   *)
(* ============================================================================================ *)
Lemma over_limit_never_relayed authz mac E C q :
  limit_of (q_method (sq_req q)) (q_uri (sq_req q)) < total (q_frames (sq_req q)) ->
  sy_upstream (system_step_gen authz mac E C q) = [].
Proof.
  intros H. pose proof (limit_view_is_serve authz mac E C q) as V.
  apply (f_equal upstream_writes) in V. unfold served_with in V. rewrite never_relayed in V by exact H.
  cbn [limit_view upstream_writes] in V. apply map_eq_nil in V. exact V.
Qed.

(* ... and the client is told so with a 4xx, whenever the handler itself would have relayed the
   request or refused it for a client-caused reason *)
Lemma over_limit_refused_system authz mac E C q :
  header_value_ok (se_now E) = true ->
  limit_of (q_method (sq_req q)) (q_uri (sq_req q)) < total (q_frames (sq_req q)) ->
  (exists u, fst (handled authz E C q) = Relay u) \/
  (exists s, fst (handled authz E C q) = Resp s /\ is_4xx s = true) ->
  exists s, sy_client (system_step_gen authz mac E C q) = CLocal s /\ is_4xx s = true /\
            sy_upstream (system_step_gen authz mac E C q) = [].
Proof.
  intros Hn Hl Hh.
  destruct (gate_open q) eqn:G.
  2:{ rewrite (gate_refusal_silent authz mac E C q G). exists status_payload_too_large. repeat split. }
  destruct Hh as [(u & Ho)|(s & Ho & H4)].
  - destruct (over_limit_refused mac (PreProceed (audit_of_upstream u)) (se_now E) (key_value (se_key E))
                (key_guid (se_key E)) true (sq_req q) (sq_declared q) (sq_broken q) Hn I Hl) as (s & S1 & S2 & S3).
    exists s. unfold system_step_gen, served_with. rewrite Ho. cbn [pre_of]. rewrite S3, S1. repeat split; auto.
  - destruct (handled authz E C q) as [o fx] eqn:Hx. cbn [fst] in Ho. subst o.
    rewrite (step_of_resp authz mac E C q s fx G Hx). exists s. repeat split; auto.
Qed.

(* the converse of mediation: when every check passes, the body is within the limit and honestly
   declared, and the forwarded head is legal, the request IS written (once) and the client gets what
   the host leg gives *)
Lemma relayed_when_all_pass authz mac E C q u out :
  fst (handled authz E C q) = Relay u ->
  total (q_frames (sq_req q)) <= limit_of (q_method (sq_req q)) (q_uri (sq_req q)) ->
  sq_declared q = None \/ sq_declared q = Some (total (q_frames (sq_req q))) ->
  sq_broken q = false -> se_up E = true ->
  upstream_of mac (audit_of_upstream u) (se_now E) (key_value (se_key E)) (key_guid (se_key E)) (sq_req q)
    = Forwarded out ->
  sy_upstream (system_step_gen authz mac E C q) = [(up_ip u, up_port u, out)] /\
  sy_client (system_step_gen authz mac E C q) =
    match se_host E with HostResponse r => CRelayed (client_resp_of r) | HostError st => CUpstreamFailed st end.
Proof.
  intros Ho Hl Hd Hb Hu F. unfold upstream_of in F.
  destruct (within_limit_relayed mac _ _ _ _ _ _ _ Hl Hd F) as (S & _).
  unfold system_step_gen, served_with. rewrite Ho. cbn [pre_of]. rewrite Hb, S, Hu. cbn [upstream_writes].
  destruct (se_host E); split; reflexivity.
Qed.

(* a connection without attribution (direct, or a reused port): 421, nothing written *)
Lemma unattributed_refused authz mac E C q :
  gate_open q = true -> e_counter_ok (se_env E) = true ->
  has_traversal (server_request (sq_req q)) = false -> is_provision (server_request (sq_req q)) = false ->
  cx_dest (ci_ctx C) = None ->
  sy_client (system_step_gen authz mac E C q) = CLocal 421 /\
  sy_upstream (system_step_gen authz mac E C q) = [] /\
  failed_effects (sy_effects (system_step_gen authz mac E C q)) = 0%nat.
Proof.
  intros G Hc Ht Hp Hd.
  destruct (case_direct authz _ _ _ Hc Ht Hp Hd) as (Hs & _).
  destruct (handled authz E C q) as [o fx] eqn:Hx. unfold handled in Hx. rewrite Hx in Hs. cbn [fst] in Hs. subst o.
  rewrite (step_of_resp authz mac E C q 421 fx G Hx). cbn [sy_client sy_upstream sy_effects].
  split; [reflexivity|]. split; [reflexivity|].
  rewrite failed_effects_non_write.
  unfold handle_gen in Hx. rewrite Hc, Ht, Hp, Hd in Hx. cbn [negb] in Hx. inversion Hx. reflexivity.
Qed.

(* ============================================================================================ *)
(* 9. the signature covers what is forwarded (C04's coverage on the system's output)               *)
(* ============================================================================================ *)
(* the string under the MAC is the canonical string of the client's method, body bytes and target
   and of the very header list the host receives *)
Lemma signed_string_is_of_forwarded authz mac E C q ip port out :
  In (ip, port, out) (sy_upstream (system_step_gen authz mac E C q)) ->
  request_sig_input out =
  as_sig_input (q_method (sq_req q)) (concat (q_frames (sq_req q))) (r_headers out) (q_uri (sq_req q)).
Proof.
  intros H. apply forwarded_is_function in H as (u & _ & _ & _ & _ & Hm & Hu & Hb & _).
  unfold request_sig_input. rewrite Hm, Hu, Hb. reflexivity.
Qed.

(* hence C04's coverage statements apply to it verbatim.  Bundled here for two forwarded requests
   that a verifier cannot tell apart by the MAC: equal canonical strings.  The known-finding
   classes of C04 (F3a kv_collision, F3b repeated_header_name, F3c header_value_not_utf8) are
   carried as hypotheses exactly as Props/C04.v carries them. *)
Lemma signature_covers (out out' : Canon.request) :
  request_sig_input out = request_sig_input out' ->
  (* one component differs at a time, as in C04 *)
  (r_body out = r_body out' -> r_headers out = r_headers out' -> r_uri out = r_uri out' ->
   r_method out = r_method out') /\
  (r_method out = r_method out' -> r_headers out = r_headers out' -> r_uri out = r_uri out' ->
   r_body out = r_body out') /\
  (r_method out = r_method out' -> r_body out = r_body out' -> r_headers out = r_headers out' ->
   ~ In 10 (Canon.u_path (r_uri out)) -> ~ In 10 (Canon.u_path (r_uri out')) ->
   Canon.u_path (r_uri out) = Canon.u_path (r_uri out') /\
   (KnownClass_C04_kv_collision (Canon.u_query (r_uri out)) = false ->
    KnownClass_C04_kv_collision (Canon.u_query (r_uri out')) = false ->
    Permutation (qnorm_multiset (Canon.query_pairs (Canon.u_query (r_uri out))))
                (qnorm_multiset (Canon.query_pairs (Canon.u_query (r_uri out')))))) /\
  (r_method out = r_method out' -> r_body out = r_body out' -> r_uri out = r_uri out' ->
   wf_headers (r_headers out) = true -> wf_headers (r_headers out') = true ->
   KnownClass_C04_repeated_header_name (r_headers out) = false ->
   KnownClass_C04_repeated_header_name (r_headers out') = false ->
   KnownClass_C04_header_value_not_utf8 (r_headers out) = false ->
   KnownClass_C04_header_value_not_utf8 (r_headers out') = false ->
   Permutation (hnorm_multiset (r_headers out)) (hnorm_multiset (r_headers out'))).
Proof.
  unfold request_sig_input. intros E.
  split; [|split; [|split]].
  - intros Hb Hh Hu. rewrite Hb, Hh, Hu in E. apply covers_method in E. exact E.
  - intros Hm Hh Hu. rewrite Hm, Hh, Hu in E. apply covers_body in E. exact E.
  - intros Hm Hb Hh Hp Hp'. rewrite Hm, Hb, Hh in E.
    destruct (r_uri out) as [p qy]. destruct (r_uri out') as [p' qy']. cbn [Canon.u_path Canon.u_query] in *.
    destruct (covers_path_and_query _ _ _ _ _ _ _ Hp Hp' E) as (Ep & _). subst p'.
    split; [reflexivity|]. intros K K'. apply (covers_query_partial _ _ _ _ _ _ K K' E).
  - intros Hm Hb Hu W W' R R' U U'. rewrite Hm, Hb, Hu in E.
    apply (covers_headers_partial _ _ _ _ _ W W' R R' U U' E).
Qed.
