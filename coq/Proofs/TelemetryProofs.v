(* C18 -- lemmas about Model/Telemetry.v *)
From GPA Require Import Telemetry.
From Coq Require Import Lia Permutation.

(* ==================================================================================== *)
(* 1. xml_escape                                                                         *)
(* ==================================================================================== *)
Lemma flat_map_flat_map : forall {X Y Z} (f : X -> list Y) (g : Y -> list Z) (s : list X),
  flat_map g (flat_map f s) = flat_map (fun a => flat_map g (f a)) s.
Proof.
  intros X Y Z f g s. induction s as [|a s IH]; simpl; [reflexivity|].
  rewrite flat_map_app, IH. reflexivity.
Qed.

Lemma esc_byte_cases : forall b,
  (b = 38 /\ esc_byte b = amp_e) \/ (b = 39 /\ esc_byte b = apos_e) \/
  (b = 34 /\ esc_byte b = quot_e) \/ (b = 60 /\ esc_byte b = lt_e) \/
  (b = 62 /\ esc_byte b = gt_e) \/
  (b <> 38 /\ b <> 39 /\ b <> 34 /\ b <> 60 /\ b <> 62 /\ esc_byte b = [b]).
Proof.
  intros b. unfold esc_byte.
  destruct (b =? 38) eqn:E1; [apply N.eqb_eq in E1; auto|].
  destruct (b =? 39) eqn:E2; [apply N.eqb_eq in E2; auto|].
  destruct (b =? 34) eqn:E3; [apply N.eqb_eq in E3; auto 6|].
  destruct (b =? 60) eqn:E4; [apply N.eqb_eq in E4; auto 7|].
  destruct (b =? 62) eqn:E5; [apply N.eqb_eq in E5; auto 8|].
  apply N.eqb_neq in E1, E2, E3, E4, E5. auto 12.
Qed.

(* the five sequential replacements are one pass over the input *)
Lemma xml_escape_single_pass : forall s, xml_escape s = escape1 s.
Proof.
  intros s. unfold xml_escape, replace_byte, escape1.
  rewrite !flat_map_flat_map. apply flat_map_ext. intros b.
  destruct (esc_byte_cases b) as [[-> H]|[[-> H]|[[-> H]|[[-> H]|[[-> H]|(N1&N2&N3&N4&N5&H)]]]]];
    rewrite H; try reflexivity.
  apply N.eqb_neq in N1, N2, N3, N4, N5.
  simpl. rewrite N1. simpl. rewrite N2. simpl. rewrite N3. simpl. rewrite N4. simpl. rewrite N5.
  reflexivity.
Qed.

Lemma escape1_cons : forall b s, escape1 (b :: s) = esc_byte b ++ escape1 s.
Proof. reflexivity. Qed.

Lemma no_byte_app : forall c a b, no_byte c (a ++ b) = no_byte c a && no_byte c b.
Proof. intros. unfold no_byte. apply forallb_app. Qed.

Lemma escape1_no_special : forall s,
  no_byte 60 (escape1 s) = true /\ no_byte 62 (escape1 s) = true /\
  no_byte 34 (escape1 s) = true /\ no_byte 39 (escape1 s) = true.
Proof.
  induction s as [|b s IH]; [repeat split; reflexivity|].
  rewrite escape1_cons, !no_byte_app.
  destruct IH as (I1 & I2 & I3 & I4). rewrite I1, I2, I3, I4.
  destruct (esc_byte_cases b) as [[-> H]|[[-> H]|[[-> H]|[[-> H]|[[-> H]|(N1&N2&N3&N4&N5&H)]]]]];
    rewrite H; try (repeat split; reflexivity).
  apply N.eqb_neq in N1, N2, N3, N4, N5.
  unfold no_byte; simpl. rewrite N2, N3, N4, N5. repeat split; reflexivity.
Qed.

Lemma starts_with_nil : forall s, starts_with s [] = true.
Proof. destruct s; reflexivity. Qed.

Ltac ent_simpl :=
  unfold amp_e, apos_e, quot_e, lt_e, gt_e in *; simpl;
  unfold entity_at, amp_e, apos_e, quot_e, lt_e, gt_e; simpl;
  rewrite ?starts_with_nil; simpl.

Lemma escape1_amp_ok : forall s, amp_ok (escape1 s) = true.
Proof.
  induction s as [|b s IH]; [reflexivity|].
  rewrite escape1_cons.
  destruct (esc_byte_cases b) as [[-> H]|[[-> H]|[[-> H]|[[-> H]|[[-> H]|(N1&N2&N3&N4&N5&H)]]]]];
    rewrite H; try (ent_simpl; exact IH).
  apply N.eqb_neq in N1. simpl. rewrite N1. exact IH.
Qed.

Lemma no62_no_cdata_end : forall s, no_byte 62 s = true -> contains s cdata_end = false.
Proof.
  induction s as [|x t IH]; intros H; [reflexivity|].
  unfold no_byte in H. simpl in H. apply andb_true_iff in H. destruct H as [Hx Ht].
  change (contains (x :: t) cdata_end) with (starts_with (x :: t) cdata_end || contains t cdata_end).
  rewrite (IH Ht), orb_false_r.
  destruct t as [|y [|z t']]; simpl; try (destruct (x =? 93); reflexivity).
  - destruct (x =? 93); simpl; [|reflexivity]. destruct (y =? 93); reflexivity.
  - simpl in Ht. apply andb_true_iff in Ht. destruct Ht as [_ Ht].
    apply andb_true_iff in Ht. destruct Ht as [Hz _]. apply negb_true_iff in Hz. rewrite Hz.
    destruct (x =? 93); simpl; [|reflexivity]. destruct (y =? 93); reflexivity.
Qed.

Lemma xml_escape_safe : forall s,
  no_byte 60 (xml_escape s) = true /\ no_byte 62 (xml_escape s) = true /\
  no_byte 34 (xml_escape s) = true /\ no_byte 39 (xml_escape s) = true /\
  amp_ok (xml_escape s) = true /\ contains (xml_escape s) cdata_end = false.
Proof.
  intros s. rewrite xml_escape_single_pass.
  destruct (escape1_no_special s) as (H1 & H2 & H3 & H4).
  repeat split; auto using escape1_amp_ok, no62_no_cdata_end.
Qed.

(* unescape inverts the escaping *)
Lemma length_app_le : forall {A} (a b : list A) n, (length (a ++ b) <= n -> length b <= n)%nat.
Proof. intros A a b n. rewrite app_length. lia. Qed.

Lemma unescape_f_escape1 : forall s fuel,
  (length (escape1 s) <= fuel)%nat -> unescape_f fuel (escape1 s) = s.
Proof.
  induction s as [|b s IH]; intros fuel Hf.
  - destruct fuel; reflexivity.
  - rewrite escape1_cons in *.
    destruct (esc_byte_cases b) as [[-> H]|[[-> H]|[[-> H]|[[-> H]|[[-> H]|(N1&N2&N3&N4&N5&H)]]]]];
      rewrite H in *;
      (destruct fuel as [|f]; [simpl in Hf; lia|]);
      try (ent_simpl; f_equal; apply IH; simpl in Hf; lia).
    apply N.eqb_neq in N1.
    unfold amp_e, apos_e, quot_e, lt_e, gt_e. simpl. rewrite N1. simpl. f_equal. apply IH. simpl in Hf. lia.
Qed.

Lemma unescape_xml_escape : forall s, unescape (xml_escape s) = s.
Proof.
  intros s. rewrite xml_escape_single_pass. unfold unescape. apply unescape_f_escape1. lia.
Qed.

Lemma xml_escape_injective : forall s1 s2, xml_escape s1 = xml_escape s2 -> s1 = s2.
Proof.
  intros s1 s2 H. rewrite <- (unescape_xml_escape s1), <- (unescape_xml_escape s2), H. reflexivity.
Qed.

(* ==================================================================================== *)
(* 2. sizes                                                                              *)
(* ==================================================================================== *)
Arguments to_xml_event : simpl never.
Arguments event_inner : simpl never.
Arguments from_event_log : simpl never.
Arguments get_size : simpl never.
Arguments to_xml : simpl never.
Arguments xml_escape : simpl never.
Arguments max_message_size : simpl never.
Arguments N.add : simpl never.
Arguments N.of_nat : simpl never.
Arguments blen : simpl never.

Lemma blen_app : forall a b, blen (a ++ b) = blen a + blen b.
Proof. intros. unfold blen. rewrite app_length. lia. Qed.

Definition esize (t : tevent) : N := blen (to_xml_event t).
Fixpoint sumN (l : list N) : N := match l with [] => 0 | x :: r => x + sumN r end.

Lemma sumN_app : forall a b, sumN (a ++ b) = sumN a + sumN b.
Proof. induction a; intros; simpl; [reflexivity|]. rewrite IHa. lia. Qed.

Lemma blen_flat_map : forall (td : tdata),
  blen (flat_map to_xml_event td) = sumN (map esize td).
Proof.
  induction td as [|t td IH]; [reflexivity|].
  change (flat_map to_xml_event (t :: td)) with (to_xml_event t ++ flat_map to_xml_event td).
  change (map esize (t :: td)) with (esize t :: map esize td).
  rewrite blen_app, IH. reflexivity.
Qed.

Lemma get_size_sum : forall td,
  get_size td = blen data_open + sumN (map esize td) + blen data_close.
Proof.
  intros. unfold get_size, to_xml.
  rewrite (blen_app data_open), (blen_app (flat_map to_xml_event td)), blen_flat_map.
  apply N.add_assoc.
Qed.

Lemma get_size_app : forall td1 td2,
  get_size (td1 ++ td2) + blen data_open + blen data_close = get_size td1 + get_size td2.
Proof. intros. rewrite !get_size_sum, map_app, sumN_app. lia. Qed.

Lemma get_size_add : forall td t, get_size (add_event td t) = get_size td + esize t.
Proof.
  intros. unfold add_event. rewrite !get_size_sum, map_app, sumN_app.
  change (sumN (map esize [t])) with (esize t + 0). lia.
Qed.

(* a batch is at least as large as any one of its events alone *)
Lemma get_size_single_le : forall td t, get_size [t] <= get_size (add_event td t).
Proof.
  intros. rewrite get_size_add, !get_size_sum.
  change (sumN (map esize [t])) with (esize t + 0). lia.
Qed.

Lemma get_size_mono_In : forall td t, In t td -> get_size [t] <= get_size td.
Proof.
  intros td t H. apply in_split in H. destruct H as (l1 & l2 & ->).
  rewrite !get_size_sum, map_app, sumN_app.
  change (map esize (t :: l2)) with (esize t :: map esize l2).
  change (sumN (esize t :: map esize l2)) with (esize t + sumN (map esize l2)).
  change (sumN (map esize [t])) with (esize t + 0). lia.
Qed.

Lemma event_count_zero : forall td, (event_count td =? 0) = true <-> td = [].
Proof.
  intros td. unfold event_count. rewrite N.eqb_eq. destruct td; simpl; split; intros H;
    try reflexivity; try discriminate; lia.
Qed.

Lemma remove_last_add : forall td t, remove_last_event (add_event td t) = td.
Proof. intros. unfold remove_last_event, add_event. apply removelast_last. Qed.

(* ==================================================================================== *)
(* 3. the inner loop                                                                     *)
(* ==================================================================================== *)
Section SendProofs.
Context (vm : vmmeta) (env : envinfo).
Notation conv := (fun e => from_event_log e vm env).

(* "too large for any batch": the event alone already reaches the limit *)
Definition oversize (e : event) : Prop := max_message_size <= get_size [conv e].
Definition oversizeb (e : event) : bool := max_message_size <=? get_size [conv e].
Definition size_ok (td : tdata) : Prop := td = [] \/ get_size td < max_message_size.

Lemma fill_decomp : forall st td td' st' dr,
  fill vm env st td = (td', st', dr) ->
  exists kept,
    st = kept ++ dr ++ st' /\
    td' = td ++ map conv kept /\
    Forall (fun e => ~ oversize e) kept /\
    (dr = [] \/ exists e, dr = [e] /\ td' = [] /\ oversize e) /\
    (td = [] -> st <> [] -> kept ++ dr <> []) /\
    (size_ok td -> size_ok td').
Proof.
  induction st as [|e st IH]; intros td td' st' dr H; cbn [fill] in H.
  - inversion H; subst. exists []. cbn [app map]. rewrite app_nil_r.
    split; [reflexivity|]. split; [reflexivity|]. split; [constructor|].
    split; [left; reflexivity|]. split; [intros _ C; congruence|]. auto.
  - destruct (max_message_size <=? get_size (add_event td (conv e))) eqn:Hsz.
    + rewrite remove_last_add in H.
      destruct (event_count td =? 0) eqn:Hc.
      * apply event_count_zero in Hc. subst td. inversion H; subst.
        exists []. cbn [app map].
        split; [reflexivity|]. split; [reflexivity|]. split; [constructor|].
        split; [|split].
        -- right. exists e. split; [reflexivity|]. split; [reflexivity|].
           apply N.leb_le in Hsz. exact Hsz.
        -- intros _ _ C. discriminate.
        -- intros _. left. reflexivity.
      * inversion H; subst. exists []. cbn [app map]. rewrite app_nil_r.
        split; [reflexivity|]. split; [reflexivity|]. split; [constructor|].
        split; [left; reflexivity|]. split; [|auto].
        intros -> _. cbn in Hc. discriminate.
    + apply IH in H. destruct H as (kept & H1 & H2 & H3 & H4 & H5 & H6).
      exists (e :: kept). subst st.
      split; [reflexivity|]. split; [|split; [|split; [|split]]].
      * rewrite H2. unfold add_event. rewrite <- app_assoc. reflexivity.
      * constructor; [|exact H3]. unfold oversize. apply N.leb_gt in Hsz.
        pose proof (get_size_single_le td (conv e)). lia.
      * exact H4.
      * intros _ _ C. discriminate.
      * intros _. apply H6. right. apply N.leb_gt in Hsz. exact Hsz.
Qed.

(* every round of the outer loop consumes at least one event *)
Lemma fill_progress : forall st td st' dr,
  fill vm env st [] = (td, st', dr) -> st <> [] -> (length st' < length st)%nat.
Proof.
  intros st td st' dr H Hne.
  destruct (fill_decomp _ _ _ _ _ H) as (kept & H1 & _ & _ & _ & H5 & _).
  specialize (H5 eq_refl Hne).
  assert (length (kept ++ dr) <> 0)%nat by (destruct (kept ++ dr); [congruence|discriminate]).
  assert (length st = length kept + length dr + length st')%nat by (rewrite H1 at 1; rewrite !app_length; lia).
  rewrite app_length in *. lia.
Qed.

(* ==================================================================================== *)
(* 4. send_data_to_wire_server                                                           *)
(* ==================================================================================== *)
(* shape of the POSTs of one batch: all carry the same body; failures first, then at most one
   success, which is last; at most [n] in total *)
Definition attempts_shape (body : bytes) (n : nat) (atts : list (bytes * bool)) : Prop :=
  exists k, atts = repeat (body, false) k ++ [(body, true)] /\ (k < n)%nat
         \/ atts = repeat (body, false) n.

Lemma upload_shape : forall n td o atts o',
  upload n td o = (atts, o') -> attempts_shape (to_xml td) n atts.
Proof.
  induction n as [|n IH]; intros td o atts o' H; simpl in H.
  - inversion H; subst. exists O. right. reflexivity.
  - destruct (next_outcome o) as [ok o1] eqn:Ho. destruct ok.
    + inversion H; subst. exists O. left. split; [reflexivity|lia].
    + destruct (upload n td o1) as [l o2] eqn:Hu. inversion H; subst.
      apply IH in Hu. destruct Hu as [k [[-> Hk]| ->]].
      * exists (S k). left. split; [reflexivity|lia].
      * exists O. right. reflexivity.
Qed.

(* the outcomes consumed from the oracle are exactly the answers recorded *)
Lemma next_outcome_spec : forall o b o', next_outcome o = (b, o') ->
  (o = [] /\ b = true /\ o' = []) \/ o = b :: o'.
Proof. intros [|x r] b o' H; simpl in H; inversion H; subst; auto. Qed.

Lemma send_data_shape : forall td o atts o',
  send_data td o = (atts, o') ->
  (td = [] /\ atts = [] /\ o' = o) \/ (td <> [] /\ attempts_shape (to_xml td) 5 atts).
Proof.
  intros td o atts o' H. unfold send_data in H.
  destruct (event_count td =? 0) eqn:Hc.
  - apply event_count_zero in Hc. inversion H; subst. left. auto.
  - right. split.
    + intros ->. simpl in Hc. discriminate.
    + eapply upload_shape; eauto.
Qed.

(* ==================================================================================== *)
(* 5. the outer loop                                                                     *)
(* ==================================================================================== *)
Definition round_ok (r : round) : Prop :=
  size_ok (r_batch r) /\
  Forall (fun t => get_size [t] < max_message_size) (r_batch r) /\
  Forall oversize (r_dropped r) /\
  ((r_batch r = [] /\ r_attempts r = []) \/
   (r_batch r <> [] /\ attempts_shape (to_xml (r_batch r)) 5 (r_attempts r))).

(* what one round consumed from the stack, in pop order *)
Definition round_consumed (r : round) : list tevent := r_batch r ++ map conv (r_dropped r).

Lemma send_loop_spec : forall fuel st o,
  (length st <= fuel)%nat ->
  exists rs o', send_loop vm env fuel st o = Some (rs, o') /\
    flat_map round_consumed rs = map conv st /\
    Forall round_ok rs /\
    (length rs <= length st)%nat.
Proof.
  induction fuel as [|f IH]; intros st o Hf.
  - destruct st; [|cbn [length] in Hf; lia]. exists [], o. cbn. auto.
  - destruct st as [|e st]; [exists [], o; cbn; auto|].
    cbn [send_loop].
    destruct (fill vm env (e :: st) []) as [[td st'] dr] eqn:Hfill.
    destruct (send_data td o) as [atts o1] eqn:Hsd.
    pose proof (fill_decomp _ _ _ _ _ Hfill) as (kept & H1 & H2 & H3 & H4 & H5 & H6).
    cbn [app] in H2.
    assert (Hprog : (length st' < length (e :: st))%nat)
      by (eapply fill_progress; [exact Hfill|discriminate]).
    assert (Hlen : (length st' <= f)%nat) by lia.
    destruct (IH st' o1 Hlen) as (rs & o2 & Hr & Hc & Hok & Hn).
    rewrite Hr. exists (mk_round td dr atts :: rs), o2. split; [reflexivity|]. split; [|split].
    + cbn [flat_map]. unfold round_consumed at 1. cbn [r_batch r_dropped].
      rewrite Hc, H1, H2, !map_app, <- !app_assoc. reflexivity.
    + constructor; [|exact Hok]. unfold round_ok. cbn [r_batch r_dropped r_attempts].
      split; [|split; [|split]].
      * apply H6. left. reflexivity.
      * rewrite H2. apply Forall_forall. intros t Ht. apply in_map_iff in Ht.
        destruct Ht as (x & <- & Hx). rewrite Forall_forall in H3. specialize (H3 x Hx).
        unfold oversize in H3. lia.
      * destruct H4 as [->|(x & -> & _ & Hx)]; [constructor|]. constructor; [exact Hx|constructor].
      * apply send_data_shape in Hsd. destruct Hsd as [(A & B0 & _)|(A & B0)]; auto.
    + cbn [length] in *. lia.
Qed.

(* more fuel changes nothing *)
Lemma send_loop_fuel : forall f1 f2 st o,
  (length st <= f1)%nat -> (length st <= f2)%nat ->
  send_loop vm env f1 st o = send_loop vm env f2 st o.
Proof.
  induction f1 as [|f1 IH]; intros f2 st o H1 H2.
  - destruct st; [|cbn [length] in H1; lia]. destruct f2; reflexivity.
  - destruct st as [|e st]; [destruct f2; reflexivity|].
    destruct f2 as [|f2]; [cbn [length] in H2; lia|].
    cbn [send_loop].
    destruct (fill vm env (e :: st) []) as [[td st'] dr] eqn:Hfill.
    destruct (send_data td o) as [atts o1].
    assert (Hprog : (length st' < length (e :: st))%nat)
      by (eapply fill_progress; [exact Hfill|discriminate]).
    cbn [length] in *.
    rewrite (IH f2 st' o1) by lia. reflexivity.
Qed.

(* ==================================================================================== *)
(* 6. send_events: the statements of the property                                        *)
(* ==================================================================================== *)
Definition tover (t : tevent) : bool := max_message_size <=? get_size [t].

Lemma send_events_spec : forall evs o,
  exists rs o', send_events vm env evs o = Some (rs, o') /\
    flat_map round_consumed rs = map conv (rev evs) /\
    Forall round_ok rs /\ (length rs <= length evs)%nat.
Proof.
  intros evs o. unfold send_events.
  destruct (send_loop_spec (length evs) (rev evs) o) as (rs & o' & H1 & H2 & H3 & H4).
  - rewrite rev_length. lia.
  - exists rs, o'. rewrite rev_length in H4. auto.
Qed.

Lemma send_events_terminates : forall evs o, send_events vm env evs o <> None.
Proof.
  intros evs o. destruct (send_events_spec evs o) as (rs & o' & H & _). rewrite H. discriminate.
Qed.

Lemma send_events_fuel_irrelevant : forall evs o fuel,
  (length evs <= fuel)%nat -> send_loop vm env fuel (rev evs) o = send_events vm env evs o.
Proof.
  intros. unfold send_events. apply send_loop_fuel; rewrite rev_length; lia.
Qed.

Lemma consumed_perm : forall rs,
  Permutation (flat_map round_consumed rs)
              (flat_map r_batch rs ++ map conv (flat_map r_dropped rs)).
Proof.
  induction rs as [|r rs IH]; [constructor|].
  cbn [flat_map]. unfold round_consumed at 1. rewrite map_app, <- !app_assoc.
  apply Permutation_app_head.
  eapply Permutation_trans; [apply Permutation_app_head; exact IH|].
  rewrite !app_assoc. apply Permutation_app_tail. apply Permutation_app_comm.
Qed.

Lemma send_events_partition : forall evs o rs o',
  send_events vm env evs o = Some (rs, o') ->
  Permutation (flat_map r_batch rs ++ map conv (flat_map r_dropped rs)) (map conv evs).
Proof.
  intros evs o rs o' H. destruct (send_events_spec evs o) as (rs1 & o1 & H1 & H2 & _).
  rewrite H in H1. inversion H1; subst rs1 o1.
  eapply Permutation_trans; [apply Permutation_sym, consumed_perm|].
  rewrite H2, map_rev. apply Permutation_sym, Permutation_rev.
Qed.

Lemma send_events_nodup : forall evs o rs o',
  send_events vm env evs o = Some (rs, o') ->
  NoDup (map conv evs) ->
  NoDup (flat_map r_batch rs ++ map conv (flat_map r_dropped rs)).
Proof.
  intros evs o rs o' H Hn. eapply Permutation_NoDup; [|exact Hn].
  apply Permutation_sym. eapply send_events_partition; eauto.
Qed.

Lemma send_events_rounds_ok : forall evs o rs o',
  send_events vm env evs o = Some (rs, o') -> Forall round_ok rs.
Proof.
  intros evs o rs o' H. destruct (send_events_spec evs o) as (rs1 & o1 & H1 & _ & H3 & _).
  rewrite H in H1. inversion H1; subst. exact H3.
Qed.

Lemma attempts_shape_facts : forall body n atts, attempts_shape body n atts ->
  Forall (fun a => fst a = body) atts /\ (length atts <= n)%nat /\
  (length (filter snd atts) <= 1)%nat /\
  (forall pre a post, atts = pre ++ a :: post -> snd a = true -> post = []).
Proof.
  intros body n atts [k [[-> Hk]| ->]].
  - split; [|split; [|split]].
    + apply Forall_app. split; [apply Forall_forall; intros x Hx; apply repeat_spec in Hx; subst; reflexivity|].
      constructor; [reflexivity|constructor].
    + rewrite app_length, repeat_length. cbn. lia.
    + rewrite filter_app. cbn.
      replace (filter snd (repeat (body, false) k)) with (@nil (bytes * bool)); [cbn; lia|].
      clear. induction k; cbn; auto.
    + intros pre a post E Ha.
      assert (Hin : In a (repeat (body, false) k) \/ post = []).
      { clear Hk. revert pre E. induction k as [|k IHk]; intros pre E; cbn in E.
        - destruct pre as [|p pre]; cbn in E; inversion E; subst; auto.
          destruct pre; cbn in *; discriminate.
        - destruct pre as [|p pre]; cbn in E; inversion E; subst.
          + left. left. reflexivity.
          + destruct (IHk pre H1) as [Hi| ->]; auto. left. right. exact Hi. }
      destruct Hin as [Hin|]; auto. apply repeat_spec in Hin. subst a. discriminate.
  - split; [|split; [|split]].
    + apply Forall_forall; intros x Hx; apply repeat_spec in Hx; subst; reflexivity.
    + rewrite repeat_length. lia.
    + replace (filter snd (repeat (body, false) n)) with (@nil (bytes * bool)); [cbn; lia|].
      clear. induction n; cbn; auto.
    + intros pre a post E Ha.
      assert (Hin : In a (repeat (body, false) n)) by (rewrite E; apply in_or_app; right; left; reflexivity).
      apply repeat_spec in Hin. subst a. discriminate.
Qed.

(* every POSTed body is the rendering of its round's batch and is below the limit *)
Lemma send_events_bodies : forall evs o rs o',
  send_events vm env evs o = Some (rs, o') ->
  Forall (fun r => Forall (fun a => fst a = to_xml (r_batch r) /\ r_batch r <> [] /\
                                    blen (fst a) < max_message_size) (r_attempts r)) rs.
Proof.
  intros evs o rs o' H. apply send_events_rounds_ok in H.
  eapply Forall_impl; [|exact H]. intros r (Hs & _ & _ & Ha).
  destruct Ha as [[_ ->]|[Hne Hsh]]; [constructor|].
  apply attempts_shape_facts in Hsh. destruct Hsh as (Hb & _).
  eapply Forall_impl; [|exact Hb]. intros a ->. split; [reflexivity|]. split; [exact Hne|].
  destruct Hs as [Hs|Hs]; [contradiction|]. exact Hs.
Qed.

(* retries: per round at most 5 POSTs, all with the same body, at most one answered 2xx and
   nothing after it *)
Lemma send_events_retries : forall evs o rs o',
  send_events vm env evs o = Some (rs, o') ->
  Forall (fun r =>
    (length (r_attempts r) <= 5)%nat /\
    (length (filter snd (r_attempts r)) <= 1)%nat /\
    Forall (fun a => fst a = to_xml (r_batch r)) (r_attempts r) /\
    (forall pre a post, r_attempts r = pre ++ a :: post -> snd a = true -> post = []) /\
    (r_batch r = [] -> r_attempts r = [])) rs.
Proof.
  intros evs o rs o' H. apply send_events_rounds_ok in H.
  eapply Forall_impl; [|exact H]. intros r (_ & _ & _ & Ha).
  destruct Ha as [[E ->]|[Hne Hsh]].
  - cbn. repeat split; auto; try lia. intros [|] ? ? E'; cbn in E'; discriminate.
  - apply attempts_shape_facts in Hsh. destruct Hsh as (A1 & A2 & A3 & A4).
    repeat split; auto. intros E. contradiction.
Qed.

(* filtering a sequence made of rounds *)
Lemma filter_rounds : forall (p : tevent -> bool) rs,
  Forall (fun r => Forall (fun t => p t = false) (r_batch r) /\
                   Forall (fun e => p (conv e) = true) (r_dropped r)) rs ->
  filter p (flat_map round_consumed rs) = map conv (flat_map r_dropped rs) /\
  filter (fun t => negb (p t)) (flat_map round_consumed rs) = flat_map r_batch rs.
Proof.
  intros p rs H. induction H as [|r rs [Hb Hd] _ [IH1 IH2]]; [split; reflexivity|].
  cbn [flat_map]. unfold round_consumed at 1 3. rewrite !filter_app, IH1, IH2, map_app.
  assert (F1 : filter p (r_batch r) = []).
  { clear -Hb. induction Hb as [|t l Ht _ IH]; [reflexivity|]. cbn. rewrite Ht. exact IH. }
  assert (F2 : filter p (map conv (r_dropped r)) = map conv (r_dropped r)).
  { clear -Hd. induction Hd as [|t l Ht _ IH]; [reflexivity|]. cbn [map filter]. rewrite Ht, IH. reflexivity. }
  assert (F3 : filter (fun t => negb (p t)) (r_batch r) = r_batch r).
  { clear -Hb. induction Hb as [|t l Ht _ IH]; [reflexivity|]. cbn. rewrite Ht. cbn. rewrite IH. reflexivity. }
  assert (F4 : filter (fun t => negb (p t)) (map conv (r_dropped r)) = []).
  { clear -Hd. induction Hd as [|t l Ht _ IH]; [reflexivity|]. cbn [map filter]. rewrite Ht. cbn. exact IH. }
  rewrite F1, F2, F3, F4, app_nil_r. split; reflexivity.
Qed.

(* exactly the events that are too large on their own are dropped; every other event is
   batched (in pop order) *)
Lemma send_events_oversize : forall evs o rs o',
  send_events vm env evs o = Some (rs, o') ->
  map conv (flat_map r_dropped rs) = filter tover (map conv (rev evs)) /\
  flat_map r_batch rs = filter (fun t => negb (tover t)) (map conv (rev evs)).
Proof.
  intros evs o rs o' H. destruct (send_events_spec evs o) as (rs1 & o1 & H1 & H2 & H3 & _).
  rewrite H in H1. inversion H1; subst rs1 o1. rewrite <- H2.
  destruct (filter_rounds tover rs) as [A B0]; [|split; symmetry; assumption].
  eapply Forall_impl; [|exact H3]. intros r (_ & Hb & Hd & _). split.
  - eapply Forall_impl; [|exact Hb]. intros t Ht. unfold tover. apply N.leb_gt. exact Ht.
  - eapply Forall_impl; [|exact Hd]. intros e He. unfold tover. apply N.leb_le. exact He.
Qed.

(* ------------------------------------------------------------------------------------ *)
(* stopping the reader: every prefix of the POST sequence accepts each event at most once *)
Lemma accepted_app : forall a b, accepted (a ++ b) = accepted a ++ accepted b.
Proof. intros. unfold accepted. rewrite filter_app, flat_map_app. reflexivity. Qed.

Lemma filter_snd_round_posts : forall r,
  filter snd (round_posts r) = map (fun a => (r_batch r, snd a)) (filter snd (r_attempts r)).
Proof.
  intros r. unfold round_posts. induction (r_attempts r) as [|a l IH]; [reflexivity|].
  cbn [map filter snd]. destruct (snd a) eqn:E; cbn [map]; rewrite IH; [rewrite E|]; reflexivity.
Qed.

Lemma accepted_round : forall r, round_ok r ->
  accepted (round_posts r) = [] \/ accepted (round_posts r) = r_batch r.
Proof.
  intros r (_ & _ & _ & Ha). unfold accepted. rewrite filter_snd_round_posts.
  destruct Ha as [[_ ->]|[_ Hsh]]; [left; reflexivity|].
  apply attempts_shape_facts in Hsh. destruct Hsh as (_ & _ & H1 & _).
  destruct (filter snd (r_attempts r)) as [|a [|b l]]; cbn in H1; try lia.
  - left. reflexivity.
  - right. cbn. apply app_nil_r.
Qed.

Lemma nodup_app_r : forall {X} (a b : list X), NoDup (a ++ b) -> NoDup b.
Proof. intros X a b H. induction a as [|x a IH]; [exact H|]. inversion H; subst. auto. Qed.

Lemma nodup_app_l : forall {X} (a b : list X), NoDup (a ++ b) -> NoDup a.
Proof.
  intros X a b H. induction a as [|x a IH]; [constructor|]. cbn in H. inversion H; subst.
  constructor; [|auto]. intros C. apply H2. apply in_or_app. left. exact C.
Qed.

Lemma nodup_app_sub : forall {X} (a b b' : list X),
  NoDup (a ++ b) -> NoDup b' -> (forall x, In x b' -> In x b) -> NoDup (a ++ b').
Proof.
  intros X a b b' H Hb' Hin. induction a as [|x a IH]; [exact Hb'|].
  cbn in *. inversion H; subst. constructor; [|apply IH; assumption].
  intros C. apply H2. apply in_app_or in C. apply in_or_app. destruct C; auto.
Qed.

Lemma accepted_trace_in : forall rs x, Forall round_ok rs ->
  In x (accepted (post_trace rs)) -> In x (flat_map r_batch rs).
Proof.
  intros rs x H. induction H as [|r rs Hr _ IH]; [intros []|].
  unfold post_trace in *. cbn [flat_map]. rewrite accepted_app. intros Hin.
  apply in_app_or in Hin. apply in_or_app. destruct Hin as [Hin|Hin]; [|right; apply IH; exact Hin].
  left. destruct (accepted_round r Hr) as [E|E]; rewrite E in Hin; [destruct Hin|exact Hin].
Qed.

Lemma accepted_trace_nodup : forall rs, Forall round_ok rs ->
  NoDup (flat_map r_batch rs) -> NoDup (accepted (post_trace rs)).
Proof.
  intros rs H. induction H as [|r rs Hr Hrs IH]; intros Hn; [constructor|].
  unfold post_trace in *. cbn [flat_map] in *. rewrite accepted_app.
  assert (Hrest : NoDup (accepted (flat_map round_posts rs))).
  { apply IH. eapply nodup_app_r. exact Hn. }
  destruct (accepted_round r Hr) as [E|E]; rewrite E; [exact Hrest|].
  eapply nodup_app_sub; [exact Hn|exact Hrest|]. intros x. apply accepted_trace_in. exact Hrs.
Qed.

Lemma stopped_at_most_once : forall evs o rs o' n,
  send_events vm env evs o = Some (rs, o') ->
  NoDup (map conv evs) ->
  NoDup (accepted (stopped_after n rs)).
Proof.
  intros evs o rs o' n H Hn.
  assert (Hall : NoDup (accepted (post_trace rs))).
  { apply accepted_trace_nodup; [eapply send_events_rounds_ok; eauto|].
    eapply nodup_app_l. eapply send_events_nodup; eauto. }
  unfold stopped_after. rewrite <- (firstn_skipn n (post_trace rs)), accepted_app in Hall.
  eapply nodup_app_l. exact Hall.
Qed.

(* ==================================================================================== *)
(* 7. files                                                                              *)
(* ==================================================================================== *)
Lemma process_files_spec : forall files o,
  exists frs removed n o', process_files vm env files o = Some (frs, removed, n, o') /\
    removed = map fst files /\ map f_name frs = map fst files.
Proof.
  induction files as [|[name c] rest IH]; intros o.
  - exists [], [], 0, o. cbn. auto.
  - cbn [process_files]. destruct c as [evs|].
    + destruct (send_events_spec evs o) as (rs & o1 & H & _). rewrite H.
      destruct (IH o1) as (frs & removed & n & o2 & H1 & H2 & H3). rewrite H1.
      eexists _, _, _, _. split; [reflexivity|]. cbn [map fst f_name]. rewrite H2, H3.
      split; reflexivity.
    + destruct (IH o) as (frs & removed & n & o2 & H1 & H2 & H3). rewrite H1.
      eexists _, _, _, _. split; [reflexivity|]. cbn [map fst f_name]. rewrite H2, H3.
      split; reflexivity.
Qed.

(* an unreadable file changes nothing for the files after it *)
Lemma process_files_unreadable : forall name rest o,
  process_files vm env ((name, FUnreadable) :: rest) o =
  match process_files vm env rest o with
  | None => None
  | Some (frs, removed, n, o') => Some (mk_fres name None :: frs, name :: removed, n, o')
  end.
Proof. reflexivity. Qed.

Lemma beq_true_iff : forall a b, beq a b = true <-> a = b.
Proof.
  induction a as [|x a IH]; destruct b as [|y b]; cbn; split; intros H; try reflexivity; try discriminate.
  - apply andb_true_iff in H. destruct H as [H1 H2]. apply N.eqb_eq in H1. apply IH in H2. congruence.
  - inversion H; subst. rewrite N.eqb_refl. cbn. apply IH. reflexivity.
Qed.

Lemma insert_sorted_in : forall {X} (ltb : X -> X -> bool) x y l,
  In y (insert_sorted ltb x l) <-> y = x \/ In y l.
Proof.
  intros X ltb x y l. induction l as [|z l IH]; cbn.
  - intuition.
  - destruct (ltb x z); cbn; [intuition|]. rewrite IH. intuition.
Qed.

Lemma isort_in : forall {X} (ltb : X -> X -> bool) y l, In y (isort ltb l) <-> In y l.
Proof.
  intros X ltb y l. induction l as [|z l IH]; cbn; [reflexivity|].
  unfold isort in IH. rewrite insert_sorted_in, IH. intuition.
Qed.

Lemma name_in_iff : forall n l, name_in n l = true <-> In n l.
Proof.
  intros n l. unfold name_in. rewrite existsb_exists. split.
  - intros (x & Hx & Hb). apply beq_true_iff in Hb. subst. exact Hx.
  - intros H. exists n. split; [exact H|apply beq_true_iff; reflexivity].
Qed.

(* one pass over the directory: never out of fuel; afterwards the directory holds exactly the
   entries whose name does not end in ".json"; every ".json" file got an outcome, in name order *)
Lemma process_events_spec : forall dir o,
  exists frs dir' n o', process_events vm env dir o = Some (frs, dir', n, o') /\
    dir' = filter (fun f => negb (is_json_name (fst f))) dir /\
    map f_name frs = map fst (search_files dir).
Proof.
  intros dir o. unfold process_events.
  destruct (process_files_spec (search_files dir) o) as (frs & removed & n & o' & H1 & H2 & H3).
  rewrite H1. eexists _, _, _, _. split; [reflexivity|]. split; [|exact H3].
  apply filter_ext_in. intros f Hf. f_equal. subst removed.
  destruct (is_json_name (fst f)) eqn:Hj.
  - apply name_in_iff. apply in_map. unfold search_files. apply isort_in.
    apply filter_In. split; assumption.
  - destruct (name_in (fst f) (map fst (search_files dir))) eqn:Hn; [|reflexivity].
    apply name_in_iff in Hn. apply in_map_iff in Hn. destruct Hn as (g & Hg & Hin).
    unfold search_files in Hin. apply isort_in in Hin. apply filter_In in Hin.
    destruct Hin as [_ Hgj]. rewrite Hg in Hgj. congruence.
Qed.
End SendProofs.

(* ------------------------------------------------------------------------------------ *)
(* the evaluation-only variant computes the same thing *)
Lemma fill_fast_eq : forall vm env st td,
  fill_fast vm env st td (get_size td) = fill vm env st td.
Proof.
  intros vm env. induction st as [|e st IH]; intros td; [reflexivity|].
  cbn [fill_fast fill]. rewrite get_size_add, remove_last_add. fold (esize (from_event_log e vm env)).
  destruct (max_message_size <=? get_size td + esize (from_event_log e vm env)) eqn:E; [reflexivity|].
  rewrite <- get_size_add. apply IH.
Qed.

Lemma send_loop_fast_eq : forall vm env fuel st o,
  send_loop_fast vm env fuel st o = send_loop vm env fuel st o.
Proof.
  intros vm env. induction fuel as [|f IH]; intros st o; destruct st as [|e st]; try reflexivity.
  cbn [send_loop_fast send_loop]. rewrite fill_fast_eq.
  destruct (fill vm env (e :: st) []) as [[td st'] dr]. destruct (send_data td o) as [atts o1].
  rewrite IH. reflexivity.
Qed.

Lemma process_files_fast_eq : forall vm env files o,
  process_files_fast vm env files o = process_files vm env files o.
Proof.
  intros vm env. induction files as [|[name c] rest IH]; intros o; [reflexivity|].
  cbn [process_files_fast process_files]. destruct c as [evs|].
  - unfold send_events_fast, send_events. rewrite send_loop_fast_eq.
    destruct (send_loop vm env (length evs) (rev evs) o) as [[rs o1]|]; [|reflexivity].
    rewrite IH. reflexivity.
  - rewrite IH. reflexivity.
Qed.

Lemma process_events_fast_eq : forall vm env dir o,
  process_events_fast vm env dir o = process_events vm env dir o.
Proof.
  intros. unfold process_events_fast, process_events. rewrite process_files_fast_eq. reflexivity.
Qed.

(* ==================================================================================== *)
(* 8. well-formedness: the parser reads back exactly what was written                    *)
(* ==================================================================================== *)
Lemma strip_prefix_app : forall p r, strip_prefix p (p ++ r) = Some r.
Proof.
  induction p as [|x p IH]; intros r; cbn; [destruct r; reflexivity|].
  rewrite N.eqb_refl. apply IH.
Qed.

Lemma attr_split_app : forall w r, no_byte 34 w = true -> attr_split (w ++ 34 :: r) = Some (w, r).
Proof.
  induction w as [|x w IH]; intros r H; cbn; [reflexivity|].
  unfold no_byte in H. cbn in H. apply andb_true_iff in H. destruct H as [Hx Hw].
  apply negb_true_iff in Hx. rewrite Hx, (IH r Hw). reflexivity.
Qed.

(* bytes that need no escaping and are legal in an attribute value *)
Definition plainb (b : N) : bool :=
  (32 <=? b) && negb (b =? 34) && negb (b =? 38) && negb (b =? 39) && negb (b =? 60) &&
  negb (b =? 62).
Definition plain (s : bytes) : bool := forallb plainb s.

Lemma plainb_facts : forall b, plainb b = true ->
  (32 <=? b) = true /\ (b =? 34) = false /\ (b =? 38) = false /\ (b =? 39) = false /\
  (b =? 60) = false /\ (b =? 62) = false.
Proof.
  intros b H. unfold plainb in H. repeat (apply andb_true_iff in H; destruct H as [H ?]).
  repeat match goal with X : negb _ = true |- _ => apply negb_true_iff in X end. auto 10.
Qed.

Lemma plain_no_byte : forall s, plain s = true ->
  no_byte 34 s = true /\ no_byte 62 s = true /\ forallb attr_char_ok s = true /\ amp_ok s = true.
Proof.
  induction s as [|x s IH]; intros H; [repeat split; reflexivity|].
  cbn in H. apply andb_true_iff in H. destruct H as [Hx Hs].
  destruct (IH Hs) as (I1 & I2 & I3 & I4). destruct (plainb_facts x Hx) as (A & B0 & C & D & E & F).
  unfold no_byte, attr_char_ok in *. cbn. rewrite A, B0, C, E, F, I1, I2, I3, I4. repeat split; reflexivity.
Qed.

Lemma unescape_f_plain : forall s fuel, plain s = true -> (length s <= fuel)%nat ->
  unescape_f fuel s = s.
Proof.
  induction s as [|x s IH]; intros fuel H Hf; [destruct fuel; reflexivity|].
  cbn in H. apply andb_true_iff in H. destruct H as [Hx Hs].
  destruct (plainb_facts x Hx) as (_ & _ & C & _).
  destruct fuel as [|f]; [cbn in Hf; lia|].
  cbn [unescape_f]. unfold amp_e, apos_e, quot_e, lt_e, gt_e. cbn [starts_with]. rewrite C. cbn.
  f_equal. apply IH; [exact Hs|cbn in Hf; lia].
Qed.

Lemma plain_attr : forall s, plain s = true ->
  no_byte 34 s = true /\ attr_value_ok s = true /\ unescape s = s.
Proof.
  intros s H. destruct (plain_no_byte s H) as (A & _ & C & D).
  unfold attr_value_ok. rewrite C, D. repeat split; auto.
  unfold unescape. apply unescape_f_plain; [exact H|lia].
Qed.

(* escaped text *)
Lemma escape1_attr_chars : forall s, text_ok s = true -> forallb attr_char_ok (escape1 s) = true.
Proof.
  induction s as [|b s IH]; intros H; [reflexivity|].
  cbn in H. apply andb_true_iff in H. destruct H as [Hb Hs].
  rewrite escape1_cons, forallb_app, (IH Hs), andb_true_r.
  destruct (esc_byte_cases b) as [[-> E]|[[-> E]|[[-> E]|[[-> E]|[[-> E]|(N1&N2&N3&N4&N5&E)]]]]];
    rewrite E; try reflexivity.
  apply N.eqb_neq in N3, N4. cbn. unfold attr_char_ok. rewrite Hb, N3, N4. reflexivity.
Qed.

Lemma escaped_attr : forall s, text_ok s = true ->
  no_byte 34 (xml_escape s) = true /\ attr_value_ok (xml_escape s) = true /\
  unescape (xml_escape s) = s.
Proof.
  intros s H. destruct (xml_escape_safe s) as (_ & _ & A & _ & C & _).
  split; [exact A|]. split; [|apply unescape_xml_escape].
  unfold attr_value_ok. rewrite C, xml_escape_single_pass, (escape1_attr_chars s H). reflexivity.
Qed.

(* decimal numbers are digits *)
Lemma dec_fuel_digits : forall fuel n acc,
  forallb is_digit acc = true -> forallb is_digit (dec_fuel fuel n acc) = true.
Proof.
  induction fuel as [|f IH]; intros n acc H; cbn [dec_fuel]; [exact H|].
  assert (Hd : is_digit (48 + n mod 10) = true).
  { unfold is_digit. pose proof (N.mod_upper_bound n 10 ltac:(discriminate)) as Hm.
    generalize dependent (n mod 10). intros m Hm.
    apply andb_true_iff. split; apply N.leb_le; lia. }
  destruct (n <? 10).
  - cbn [forallb]. rewrite Hd, H. reflexivity.
  - apply IH. cbn [forallb]. rewrite Hd, H. reflexivity.
Qed.

Lemma digit_plain : forall b, is_digit b = true -> plainb b = true.
Proof.
  intros b H. unfold is_digit in H. apply andb_true_iff in H. destruct H as [H1 H2].
  apply N.leb_le in H1, H2. unfold plainb.
  repeat (apply andb_true_iff; split); try (apply negb_true_iff, N.eqb_neq; lia). apply N.leb_le. lia.
Qed.

Lemma dec_plain : forall n, plain (dec n) = true.
Proof.
  intros n. unfold plain. apply forallb_forall. intros b Hb. apply digit_plain.
  pose proof (dec_fuel_digits (S (N.size_nat n)) n [] eq_refl) as H.
  rewrite forallb_forall in H. apply H. exact Hb.
Qed.

(* the condition on one parameter: plain name, control-free text *)
Definition pval_okb (v : pval) : bool := match v with PStr s => text_ok s | PNum _ => true end.
Definition pokb (p : bytes * pval) : bool := plain (fst p) && pval_okb (snd p).
Definition tev_okb (t : tevent) : bool := forallb pokb (tev_params t).
Definition field_of (p : bytes * pval) : bytes * bytes * bytes :=
  (fst p, pval_raw (snd p), pval_type (snd p)).

Lemma pval_wire_attr : forall v, pval_okb v = true ->
  no_byte 34 (pval_wire v) = true /\ attr_value_ok (pval_wire v) = true /\
  unescape (pval_wire v) = pval_raw v.
Proof.
  intros [s|n] H; cbn [pval_wire pval_raw].
  - apply escaped_attr. exact H.
  - apply plain_attr. apply dec_plain.
Qed.

Lemma pval_type_attr : forall v,
  no_byte 34 (pval_type v) = true /\ attr_value_ok (pval_type v) = true /\
  unescape (pval_type v) = pval_type v.
Proof. intros [s|n]; apply plain_attr; reflexivity. Qed.

Lemma parse_attr_ok : forall intro w raw r,
  no_byte 34 w = true -> attr_value_ok w = true -> unescape w = raw ->
  parse_attr intro (intro ++ w ++ 34 :: r) = Some (raw, r).
Proof.
  intros intro w raw r H1 H2 H3. unfold parse_attr.
  rewrite strip_prefix_app, (attr_split_app w r H1), H2, H3. reflexivity.
Qed.

Lemma param_xml_shape : forall name v rest,
  param_xml (name, v) ++ rest =
  name_attr ++ name ++ 34 :: (value_attr ++ pval_wire v ++ 34 ::
    (type_attr ++ pval_type v ++ 34 :: (elem_end ++ rest))).
Proof.
  intros. unfold param_xml. cbn [fst snd]. rewrite <- !app_assoc. reflexivity.
Qed.

Lemma parse_param_ok : forall p rest, pokb p = true ->
  parse_param (param_xml p ++ rest) = Some (field_of p, rest).
Proof.
  intros [name v] rest H. unfold pokb in H. cbn [fst snd] in H.
  apply andb_true_iff in H. destruct H as [Hn Hv].
  destruct (plain_attr name Hn) as (N1 & N2 & N3).
  destruct (pval_wire_attr v Hv) as (V1 & V2 & V3).
  destruct (pval_type_attr v) as (T1 & T2 & T3).
  rewrite param_xml_shape. unfold parse_param.
  rewrite (parse_attr_ok name_attr name name _ N1 N2 N3).
  rewrite (parse_attr_ok value_attr _ _ _ V1 V2 V3).
  rewrite (parse_attr_ok type_attr _ _ _ T1 T2 T3).
  rewrite strip_prefix_app. reflexivity.
Qed.

Lemma param_xml_nonempty : forall p, exists tl, param_xml p = 60 :: tl.
Proof. intros p. unfold param_xml, param_open. cbn [app]. eexists. reflexivity. Qed.

Lemma parse_params_f_ok : forall ps fuel,
  forallb pokb ps = true -> (length (flat_map param_xml ps) <= fuel)%nat ->
  parse_params_f fuel (flat_map param_xml ps) = Some (map field_of ps).
Proof.
  induction ps as [|p ps IH]; intros fuel H Hf; [destruct fuel; reflexivity|].
  cbn [forallb] in H. apply andb_true_iff in H. destruct H as [Hp Hps].
  cbn [flat_map map] in *.
  destruct (param_xml_nonempty p) as (tl & Etl).
  destruct fuel as [|f]; [rewrite Etl in Hf; cbn in Hf; lia|].
  assert (Hlen : (length (flat_map param_xml ps) <= f)%nat).
  { rewrite Etl in Hf. cbn in Hf. rewrite app_length in Hf. lia. }
  destruct (param_xml p ++ flat_map param_xml ps) as [|x s] eqn:E;
    [rewrite Etl in E; cbn in E; discriminate|].
  cbn [parse_params_f]. rewrite <- E, (parse_param_ok p _ Hp), IH; [reflexivity|exact Hps|exact Hlen].
Qed.

Lemma parse_params_inner : forall t, tev_okb t = true ->
  parse_params (event_inner t) = Some (tev_fields t).
Proof.
  intros t H. unfold parse_params, event_inner, tev_fields.
  rewrite parse_params_f_ok; [reflexivity|exact H|lia].
Qed.

(* no "]]>" inside an event's CDATA content: every '>' there is preceded by '/' *)
Fixpoint gt_ok (prev : N) (s : bytes) : bool :=
  match s with
  | [] => true
  | x :: t => (if x =? 62 then prev =? 47 else true) && gt_ok x t
  end.

Lemma gt_ok_no62 : forall s p, no_byte 62 s = true -> gt_ok p s = true.
Proof.
  induction s as [|x s IH]; intros p H; [reflexivity|].
  unfold no_byte in H. cbn in H. apply andb_true_iff in H. destruct H as [Hx Hs].
  apply negb_true_iff in Hx. cbn. rewrite Hx. apply IH. exact Hs.
Qed.

Lemma last_cons : forall (a : bytes) x p, last (x :: a) p = last a x.
Proof.
  induction a as [|n a IH]; intros x p; [reflexivity|].
  change (last (x :: n :: a) p) with (last (n :: a) p). rewrite !IH. reflexivity.
Qed.

Lemma gt_ok_app : forall a b p, gt_ok p (a ++ b) = gt_ok p a && gt_ok (last a p) b.
Proof.
  induction a as [|x a IH]; intros b p; [reflexivity|].
  cbn [app gt_ok]. rewrite IH, andb_assoc, last_cons. reflexivity.
Qed.

Lemma gt_ok_no_cdata_end : forall s p, gt_ok p s = true -> contains s cdata_end = false.
Proof.
  induction s as [|x t IH]; intros p H; [reflexivity|].
  cbn [gt_ok] in H. apply andb_true_iff in H. destruct H as [_ Ht].
  change (contains (x :: t) cdata_end) with (starts_with (x :: t) cdata_end || contains t cdata_end).
  rewrite (IH x Ht), orb_false_r.
  destruct t as [|y [|z t']]; cbn; try (destruct (x =? 93); reflexivity).
  - destruct (x =? 93); cbn; [|reflexivity]. destruct (y =? 93); reflexivity.
  - cbn [gt_ok] in Ht. apply andb_true_iff in Ht. destruct Ht as [_ Ht].
    apply andb_true_iff in Ht. destruct Ht as [Hz _].
    destruct (x =? 93); cbn; [|reflexivity]. destruct (y =? 93) eqn:Hy; cbn; [|reflexivity].
    destruct (z =? 62); [|reflexivity]. apply N.eqb_eq in Hy, Hz. subst. discriminate.
Qed.

Lemma gt_ok_param : forall p q, pokb p = true -> gt_ok q (param_xml p) = true.
Proof.
  intros [name v] q H. unfold pokb in H. cbn [fst snd] in H.
  apply andb_true_iff in H. destruct H as [Hn Hv].
  destruct (plain_no_byte name Hn) as (_ & Hn62 & _).
  assert (Hw : no_byte 62 (pval_wire v) = true).
  { destruct v as [s|n]; cbn [pval_wire].
    - destruct (xml_escape_safe s) as (_ & A & _). exact A.
    - destruct (plain_no_byte _ (dec_plain n)) as (_ & A & _). exact A. }
  assert (Ht : no_byte 62 (pval_type v) = true) by (destruct v; reflexivity).
  unfold param_xml. cbn [fst snd].
  rewrite gt_ok_app, (gt_ok_no62 param_open) by reflexivity. cbn [andb].
  rewrite gt_ok_app, (gt_ok_no62 name) by exact Hn62. cbn [andb].
  rewrite gt_ok_app, (gt_ok_no62 param_value) by reflexivity. cbn [andb].
  rewrite gt_ok_app, (gt_ok_no62 (pval_wire v)) by exact Hw. cbn [andb].
  rewrite gt_ok_app, (gt_ok_no62 param_type) by reflexivity. cbn [andb].
  rewrite gt_ok_app, (gt_ok_no62 (pval_type v)) by exact Ht. cbn [andb].
  reflexivity.
Qed.

Lemma gt_ok_params : forall ps q, forallb pokb ps = true -> gt_ok q (flat_map param_xml ps) = true.
Proof.
  induction ps as [|p ps IH]; intros q H; [reflexivity|].
  cbn [forallb] in H. apply andb_true_iff in H. destruct H as [Hp Hps].
  cbn [flat_map]. rewrite gt_ok_app, (gt_ok_param p q Hp), (IH _ Hps). reflexivity.
Qed.

Lemma event_inner_no_cdata_end : forall t, tev_okb t = true ->
  contains (event_inner t) cdata_end = false.
Proof.
  intros t H. apply (gt_ok_no_cdata_end _ 0). apply gt_ok_params. exact H.
Qed.

Lemma sw3 : forall x y z t,
  starts_with (x :: y :: z :: t) [93; 93; 62] = (x =? 93) && ((y =? 93) && (z =? 62)).
Proof. intros. cbn. rewrite starts_with_nil, andb_true_r. reflexivity. Qed.

Lemma starts_with_cdata_ext : forall x t r,
  starts_with (x :: t) cdata_end = false ->
  starts_with ((x :: t) ++ cdata_end ++ r) cdata_end = false.
Proof.
  intros x t r H. unfold cdata_end in *. destruct t as [|y [|z t']]; cbn [app].
  - rewrite sw3. destruct (x =? 93); reflexivity.
  - rewrite sw3. destruct (x =? 93); [|reflexivity]. destruct (y =? 93); reflexivity.
  - rewrite sw3 in *. exact H.
Qed.

Lemma cdata_split_app : forall inner r, contains inner cdata_end = false ->
  cdata_split (inner ++ cdata_end ++ r) = Some (inner, r).
Proof.
  induction inner as [|x t IH]; intros r H.
  - cbn [app]. unfold cdata_end. cbn. rewrite starts_with_nil. reflexivity.
  - change (contains (x :: t) cdata_end) with
      (starts_with (x :: t) cdata_end || contains t cdata_end) in H.
    apply orb_false_iff in H. destruct H as [Hs Hc].
    pose proof (starts_with_cdata_ext x t r Hs) as Hsw.
    change ((x :: t) ++ cdata_end ++ r) with (x :: (t ++ cdata_end ++ r)) in *.
    cbn [cdata_split]. rewrite Hsw, (IH r Hc). reflexivity.
Qed.

Definition close_tag : bytes := Eval vm_compute in skipn 3 event_close.

Lemma beq_event_open : forall x, beq (event_open ++ x) data_close = false.
Proof. intros. reflexivity. Qed.

Lemma to_xml_event_nonempty : forall t, exists tl, to_xml_event t = 60 :: tl.
Proof. intros t. unfold to_xml_event, event_open. cbn [app]. eexists. reflexivity. Qed.

Lemma parse_events_f_ok : forall td fuel,
  forallb tev_okb td = true ->
  (length (flat_map to_xml_event td ++ data_close) <= fuel)%nat ->
  parse_events_f fuel (flat_map to_xml_event td ++ data_close) = Some (map event_inner td).
Proof.
  induction td as [|t td IH]; intros fuel H Hf.
  - cbn [flat_map app map]. destruct fuel; reflexivity.
  - cbn [forallb] in H. apply andb_true_iff in H. destruct H as [Ht Htd].
    cbn [flat_map map] in *. rewrite <- app_assoc in *.
    destruct (to_xml_event_nonempty t) as (tl & Etl).
    destruct fuel as [|f]; [rewrite Etl in Hf; cbn in Hf; lia|].
    assert (Hlen : (length (flat_map to_xml_event td ++ data_close) <= f)%nat).
    { rewrite Etl in Hf. cbn in Hf. rewrite app_length in Hf. lia. }
    change (to_xml_event t) with (event_open ++ event_inner t ++ (cdata_end ++ close_tag)).
    rewrite <- !app_assoc.
    cbn [parse_events_f]. rewrite beq_event_open, strip_prefix_app.
    rewrite (cdata_split_app _ _ (event_inner_no_cdata_end t Ht)).
    change (skipn 3 event_close) with close_tag.
    rewrite strip_prefix_app, (IH f Htd Hlen). reflexivity.
Qed.

Lemma all_some_map : forall td,
  forallb tev_okb td = true ->
  all_some (map parse_params (map event_inner td)) = Some (map tev_fields td).
Proof.
  induction td as [|t td IH]; intros H; [reflexivity|].
  cbn [forallb] in H. apply andb_true_iff in H. destruct H as [Ht Htd].
  cbn [map all_some]. rewrite (parse_params_inner t Ht), (IH Htd). reflexivity.
Qed.

(* any batch of events whose texts are free of control characters is read back by the parser
   as exactly the events' fields: the values are data and cannot alter the structure *)
Lemma batch_wellformed : forall td,
  forallb tev_okb td = true -> parse_batch (to_xml td) = Some (map tev_fields td).
Proof.
  intros td H. unfold parse_batch, parse_doc, to_xml.
  rewrite strip_prefix_app, parse_events_f_ok; [apply all_some_map; exact H|exact H|lia].
Qed.

(* events built from control-free event / vm / machine texts satisfy the condition *)
Lemma conv_okb : forall e vm env,
  event_text_ok e = true -> vm_text_ok vm = true -> env_text_ok env = true ->
  tev_okb (from_event_log e vm env) = true.
Proof.
  intros e vm env He Hv Hn.
  unfold event_text_ok in He. unfold vm_text_ok in Hv. unfold env_text_ok in Hn.
  repeat match goal with X : _ && _ = true |- _ => apply andb_true_iff in X; destruct X end.
  unfold tev_okb, tev_params, from_event_log, pokb. cbn [forallb fst snd pval_okb
    t_event_pid t_event_tid t_ga_version t_container_id t_task_name t_opcode_name
    t_keyword_name t_os_version t_execution_mode t_ram t_processors t_tenant_name t_role_name
    t_role_instance_name t_subscription_id t_resource_group_name t_vm_id t_image_origin
    t_event_name t_capability_used t_context1 t_context2 t_context3].
  repeat match goal with X : text_ok _ = true |- _ => rewrite X; clear X end.
  reflexivity.
Qed.

(* ==================================================================================== *)
(* 9. the statements as pinned in Props/C18.v                                            *)
(* ==================================================================================== *)
Lemma max_message_size_is_64KiB : max_message_size = 65536.
Proof. reflexivity. Qed.

Lemma batch_wellformed_events : forall (vm : vmmeta) (env : envinfo) (evs : list event),
  vm_text_ok vm = true -> env_text_ok env = true -> forallb event_text_ok evs = true ->
  parse_batch (to_xml (map (fun e => from_event_log e vm env) evs)) =
  Some (map (fun e => tev_fields (from_event_log e vm env)) evs).
Proof.
  intros vm env evs Hv Hn He. rewrite batch_wellformed; [rewrite map_map; reflexivity|].
  rewrite forallb_forall in *. intros t Ht. apply in_map_iff in Ht. destruct Ht as (e & <- & Hin).
  apply conv_okb; auto.
Qed.

Lemma send_events_bodies_64KiB : forall vm env (evs : list event) (o : oracle) rs o',
  send_events vm env evs o = Some (rs, o') ->
  Forall (fun r => Forall (fun a => fst a = to_xml (r_batch r) /\ r_batch r <> [] /\
                                    blen (fst a) < 65536) (r_attempts r)) rs.
Proof.
  intros vm env evs o rs o' H. rewrite <- max_message_size_is_64KiB.
  eapply send_events_bodies; eauto.
Qed.

Lemma send_events_total : forall vm env (evs : list event) (o : oracle),
  send_events vm env evs o <> None /\
  forall fuel, (length evs <= fuel)%nat ->
    send_loop vm env fuel (rev evs) o = send_events vm env evs o.
Proof.
  intros. split; [apply send_events_terminates|]. intros. apply send_events_fuel_irrelevant. assumption.
Qed.
