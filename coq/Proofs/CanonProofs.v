(* C04 -- lemmas about Model/Canon.v.  The property theorems in Props/C04.v are closed by
   [exact] of lemmas proved here. *)
From GPA Require Import Canon.
From Coq Require Import Lia Permutation Sorted.
Arguments N.add : simpl never. Arguments N.sub : simpl never. Arguments N.mul : simpl never.
Arguments N.div : simpl never. Arguments N.modulo : simpl never.
Arguments N.ltb : simpl never. Arguments N.leb : simpl never. Arguments N.eqb : simpl never.

(* ======================================================================================== *)
(* A. byte strings                                                                           *)
(* ======================================================================================== *)
Lemma beq_refl a : beq a a = true.
Proof. induction a as [|x a IH]; cbn [beq]; [reflexivity|]. rewrite N.eqb_refl, IH. reflexivity. Qed.

Lemma beq_eq a b : beq a b = true <-> a = b.
Proof.
  split; [|intros ->; apply beq_refl].
  revert b; induction a as [|x a IH]; intros [|y b]; cbn [beq]; try discriminate; auto.
  intros H. apply andb_true_iff in H as [H1 H2]. apply N.eqb_eq in H1. f_equal; auto.
Qed.

Lemma beq_neq a b : beq a b = false <-> a <> b.
Proof.
  split.
  - intros H E. apply beq_eq in E. congruence.
  - intros H. destruct (beq a b) eqn:E; [apply beq_eq in E; contradiction|reflexivity].
Qed.

Lemma beq_sym a b : beq a b = beq b a.
Proof.
  destruct (beq a b) eqn:E.
  - apply beq_eq in E. subst. symmetry. apply beq_refl.
  - symmetry. apply beq_neq. apply beq_neq in E. congruence.
Qed.

Lemma lower_byte_idem b : lower_byte (lower_byte b) = lower_byte b.
Proof.
  unfold lower_byte, is_upper.
  destruct ((65 <=? b) && (b <=? 90)) eqn:E.
  - apply andb_true_iff in E as [E1 E2]. apply N.leb_le in E1, E2.
    destruct ((65 <=? b + 32) && (b + 32 <=? 90)) eqn:E'; [|reflexivity].
    apply andb_true_iff in E' as [_ E4]. apply N.leb_le in E4. lia.
  - rewrite E. reflexivity.
Qed.

Lemma lower_idem s : lower (lower s) = lower s.
Proof. unfold lower. rewrite map_map. apply map_ext. intros; apply lower_byte_idem. Qed.

Lemma lower_app a b : lower (a ++ b) = lower a ++ lower b.
Proof. apply map_app. Qed.

(* a byte that is not an ASCII lower-case letter has only itself as lower_byte preimage *)
Lemma lower_byte_preimage b c : is_lower c = false -> lower_byte b = c -> b = c.
Proof.
  unfold lower_byte, is_upper, is_lower. intros Hc E.
  destruct ((65 <=? b) && (b <=? 90)) eqn:U; [|assumption].
  apply andb_true_iff in U as [U1 U2]. apply N.leb_le in U1, U2.
  apply andb_false_iff in Hc. destruct Hc as [Hc|Hc]; apply N.leb_gt in Hc; lia.
Qed.

Lemma in_lower c s : is_lower c = false -> In c (lower s) -> In c s.
Proof.
  intros Hc H. apply in_map_iff in H as (b & E & Hb).
  apply lower_byte_preimage in E; [subst; assumption|assumption].
Qed.

Lemma lower_nil s : lower s = [] -> s = [].
Proof. destruct s; [reflexivity|discriminate]. Qed.

(* lexicographic order: a strict total order *)
Lemma bytes_ltb_irrefl a : bytes_ltb a a = false.
Proof.
  induction a as [|x a IH]; cbn [bytes_ltb]; [reflexivity|].
  rewrite N.ltb_irrefl, N.eqb_refl, IH. reflexivity.
Qed.

Lemma bytes_ltb_trans a b c : bytes_ltb a b = true -> bytes_ltb b c = true -> bytes_ltb a c = true.
Proof.
  revert b c; induction a as [|x a IH]; intros [|y b] [|z c]; cbn [bytes_ltb]; try discriminate; auto.
  intros H1 H2.
  apply orb_true_iff in H1. apply orb_true_iff in H2. apply orb_true_iff.
  destruct H1 as [H1|H1]; destruct H2 as [H2|H2].
  - left. apply N.ltb_lt in H1, H2. apply N.ltb_lt. lia.
  - apply andb_true_iff in H2 as [H2 _]. apply N.eqb_eq in H2. subst. left; assumption.
  - apply andb_true_iff in H1 as [H1 _]. apply N.eqb_eq in H1. subst. left; assumption.
  - apply andb_true_iff in H1 as [H1 H1']. apply andb_true_iff in H2 as [H2 H2'].
    apply N.eqb_eq in H1, H2. subst. right. rewrite N.eqb_refl. cbn. eapply IH; eauto.
Qed.

Lemma bytes_ltb_total a b : bytes_ltb a b = false -> bytes_ltb b a = false -> a = b.
Proof.
  revert b; induction a as [|x a IH]; intros [|y b]; cbn [bytes_ltb]; try discriminate; auto.
  intros H1 H2.
  apply orb_false_iff in H1 as [H1 H1']. apply orb_false_iff in H2 as [H2 H2'].
  apply N.ltb_ge in H1, H2. assert (x = y) by lia. subst.
  rewrite N.eqb_refl in H1', H2'. cbn in H1', H2'. f_equal. auto.
Qed.

(* a delimiter that occurs in neither prefix splits uniquely *)
Lemma delim_inj (c : N) a a' x x' :
  ~ In c a -> ~ In c a' -> a ++ c :: x = a' ++ c :: x' -> a = a' /\ x = x'.
Proof.
  revert a'; induction a as [|h a IH]; intros [|h' a'] Ha Ha' E; cbn in E.
  - injection E as E. auto.
  - injection E as E1 E2. subst. exfalso. apply Ha'. left; reflexivity.
  - injection E as E1 E2. subst. exfalso. apply Ha. left; reflexivity.
  - injection E as E1 E2. subst.
    destruct (IH a') as [-> ->]; auto.
    + intros H; apply Ha; right; assumption.
    + intros H; apply Ha'; right; assumption.
Qed.

(* trim only removes bytes *)
Lemma in_trim_start x s : In x (trim_start s) -> In x s.
Proof.
  induction s as [|h s IH]; cbn [trim_start]; [auto|].
  destruct (is_space h); [intros H; right; auto|auto].
Qed.

Lemma in_trim x s : In x (trim s) -> In x s.
Proof.
  unfold trim, trim_end. intros H. apply in_rev in H. apply in_trim_start in H.
  apply in_rev in H. apply in_trim_start in H. assumption.
Qed.

(* surrounding blanks do not change the trimmed value *)
Definition all_space (s : bytes) : bool := forallb is_space s.

Lemma trim_start_all_space w s : all_space w = true -> trim_start (w ++ s) = trim_start s.
Proof.
  induction w as [|h w IH]; cbn [all_space forallb app trim_start]; [reflexivity|].
  intros H. apply andb_true_iff in H as [H1 H2]. rewrite H1. auto.
Qed.

Lemma trim_start_app a b :
  trim_start (a ++ b) = match trim_start a with [] => trim_start b | t => t ++ b end.
Proof.
  induction a as [|h a IH]; cbn [app trim_start].
  - destruct (trim_start b); reflexivity.
  - destruct (is_space h); [assumption|reflexivity].
Qed.

Lemma trim_start_nil_all_space s : trim_start s = [] -> all_space s = true.
Proof.
  induction s as [|h s IH]; cbn [trim_start all_space forallb]; [reflexivity|].
  destruct (is_space h) eqn:E; [intros H; cbn; auto|discriminate].
Qed.

Lemma all_space_rev s : all_space (rev s) = all_space s.
Proof.
  unfold all_space. induction s as [|h s IH]; [reflexivity|].
  cbn [rev forallb]. rewrite forallb_app, IH. cbn. rewrite andb_true_r. apply andb_comm.
Qed.

Lemma all_space_app a b : all_space (a ++ b) = all_space a && all_space b.
Proof. apply forallb_app. Qed.

Lemma trim_end_all_space s w : all_space w = true -> trim_end (s ++ w) = trim_end s.
Proof.
  intros H. unfold trim_end. rewrite rev_app_distr.
  rewrite trim_start_all_space; [reflexivity|rewrite all_space_rev; assumption].
Qed.

Lemma trim_all_space s : all_space s = true -> trim s = [].
Proof.
  intros H. unfold trim.
  assert (E : trim_start s = []).
  { replace s with (s ++ []) by apply app_nil_r. rewrite trim_start_all_space; auto. }
  rewrite E. reflexivity.
Qed.

Lemma trim_pad w1 w2 s :
  all_space w1 = true -> all_space w2 = true -> trim (w1 ++ s ++ w2) = trim s.
Proof.
  intros H1 H2. unfold trim. rewrite trim_start_all_space by assumption.
  rewrite trim_start_app. destruct (trim_start s) eqn:E.
  - assert (Ew : trim_start w2 = []).
    { replace w2 with (w2 ++ []) by apply app_nil_r. rewrite trim_start_all_space; auto. }
    rewrite Ew. reflexivity.
  - apply trim_end_all_space. assumption.
Qed.

(* ======================================================================================== *)
(* A'. String::from_utf8_lossy and the Unicode-aware trim                                    *)
(* ======================================================================================== *)
Definition all_ascii (s : bytes) : bool := forallb (fun b => b <? 128) s.

Lemma is_space_ascii b : is_space b = true -> (b <? 128) = true.
Proof.
  unfold is_space. intros H. apply N.ltb_lt. apply orb_true_iff in H as [H|H].
  - apply N.eqb_eq in H. lia.
  - apply andb_true_iff in H as [_ H]. apply N.leb_le in H. lia.
Qed.

Lemma all_space_ascii w : all_space w = true -> all_ascii w = true.
Proof.
  unfold all_space, all_ascii. rewrite !forallb_forall. intros H x Hx. apply is_space_ascii. auto.
Qed.

(* facts about one ASCII byte in the tables *)
Lemma ascii_not_cont x : (x <? 128) = true -> is_cont x = false.
Proof. intros H. apply N.ltb_lt in H. unfold is_cont. apply andb_false_iff. left. apply N.leb_gt. lia. Qed.

Lemma ascii_not_ok3 b x : (x <? 128) = true -> ok3 b x = false.
Proof.
  intros H. pose proof (ascii_not_cont x H) as Hc. apply N.ltb_lt in H. unfold ok3. rewrite Hc, !andb_false_r.
  assert (E1 : (160 <=? x) = false) by (apply N.leb_gt; lia).
  assert (E2 : (128 <=? x) = false) by (apply N.leb_gt; lia).
  rewrite E1, E2, !andb_false_r. reflexivity.
Qed.

Lemma ascii_not_ok4 b x : (x <? 128) = true -> ok4 b x = false.
Proof.
  intros H. pose proof (ascii_not_cont x H) as Hc. apply N.ltb_lt in H. unfold ok4. rewrite Hc, !andb_false_r.
  assert (E1 : (144 <=? x) = false) by (apply N.leb_gt; lia).
  assert (E2 : (128 <=? x) = false) by (apply N.leb_gt; lia).
  rewrite E1, E2, !andb_false_r. reflexivity.
Qed.

(* the remaining input of a step is a suffix of the rest: never longer *)
Lemma utf8_step_rest b t : (length (snd (utf8_step b t)) <= length t)%nat.
Proof.
  unfold utf8_step.
  destruct (b <? 128); [cbn; lia|].
  destruct (lead2 b).
  { destruct t as [|c1 t1]; [cbn; lia|]. destruct (is_cont c1); cbn; lia. }
  destruct (lead3 b).
  { destruct t as [|c1 t1]; [cbn; lia|]. destruct (ok3 b c1); [|cbn; lia].
    destruct t1 as [|c2 t2]; [cbn; lia|]. destruct (is_cont c2); cbn; lia. }
  destruct (lead4 b); [|cbn; lia].
  destruct t as [|c1 t1]; [cbn; lia|]. destruct (ok4 b c1); [|cbn; lia].
  destruct t1 as [|c2 t2]; [cbn; lia|]. destruct (is_cont c2); [|cbn; lia].
  destruct t2 as [|c3 t3]; [cbn; lia|]. destruct (is_cont c3); cbn; lia.
Qed.

(* a valid step emits exactly the bytes it consumes *)
Lemma utf8_step_valid b t o r : utf8_step b t = (true, o, r) -> o ++ r = b :: t.
Proof.
  unfold utf8_step.
  destruct (b <? 128); [intros [= <- <-]; reflexivity|].
  destruct (lead2 b).
  { destruct t as [|c1 t1]; [discriminate|]. destruct (is_cont c1); [|discriminate]. intros [= <- <-]. reflexivity. }
  destruct (lead3 b).
  { destruct t as [|c1 t1]; [discriminate|]. destruct (ok3 b c1); [|discriminate].
    destruct t1 as [|c2 t2]; [discriminate|]. destruct (is_cont c2); [|discriminate]. intros [= <- <-]. reflexivity. }
  destruct (lead4 b); [|discriminate].
  destruct t as [|c1 t1]; [discriminate|]. destruct (ok4 b c1); [|discriminate].
  destruct t1 as [|c2 t2]; [discriminate|]. destruct (is_cont c2); [|discriminate].
  destruct t2 as [|c3 t3]; [discriminate|]. destruct (is_cont c3); [|discriminate]. intros [= <- <-]. reflexivity.
Qed.

(* what a step emits comes from its input or is U+FFFD; what remains comes from its input *)
Lemma utf8_step_in b t ok o r x :
  utf8_step b t = (ok, o, r) -> (In x o -> x = b \/ In x t \/ In x REPL) /\ (In x r -> In x t).
Proof.
  unfold utf8_step.
  destruct (b <? 128); [intros [= <- <- <-]; cbn; intuition|].
  destruct (lead2 b).
  { destruct t as [|c1 t1]; [intros [= <- <- <-]; cbn; intuition|].
    destruct (is_cont c1); intros [= <- <- <-]; cbn; intuition. }
  destruct (lead3 b).
  { destruct t as [|c1 t1]; [intros [= <- <- <-]; cbn; intuition|].
    destruct (ok3 b c1); [|intros [= <- <- <-]; cbn; intuition].
    destruct t1 as [|c2 t2]; [intros [= <- <- <-]; cbn; intuition|].
    destruct (is_cont c2); intros [= <- <- <-]; cbn; intuition. }
  destruct (lead4 b); [|intros [= <- <- <-]; cbn; intuition].
  destruct t as [|c1 t1]; [intros [= <- <- <-]; cbn; intuition|].
  destruct (ok4 b c1); [|intros [= <- <- <-]; cbn; intuition].
  destruct t1 as [|c2 t2]; [intros [= <- <- <-]; cbn; intuition|].
  destruct (is_cont c2); [|intros [= <- <- <-]; cbn; intuition].
  destruct t2 as [|c3 t3]; [intros [= <- <- <-]; cbn; intuition|].
  destruct (is_cont c3); intros [= <- <- <-]; cbn; intuition.
Qed.

(* ASCII bytes after the input never complete or repair a sequence *)
Lemma utf8_step_app_ascii b t w :
  all_ascii w = true ->
  utf8_step b (t ++ w) = let '(ok, o, r) := utf8_step b t in (ok, o, r ++ w).
Proof.
  intros Hw. unfold utf8_step.
  assert (Hc : forall x w', w = x :: w' -> is_cont x = false /\ ok3 b x = false /\ ok4 b x = false).
  { intros x w' ->. cbn in Hw. apply andb_true_iff in Hw as [Hx _].
    auto using ascii_not_cont, ascii_not_ok3, ascii_not_ok4. }
  destruct (b <? 128); [reflexivity|].
  destruct (lead2 b).
  { destruct t as [|c1 t1]; cbn [app].
    - destruct w as [|x w']; [reflexivity|]. destruct (Hc x w' eq_refl) as (-> & _ & _). reflexivity.
    - destruct (is_cont c1); reflexivity. }
  destruct (lead3 b).
  { destruct t as [|c1 t1]; cbn [app].
    - destruct w as [|x w']; [reflexivity|]. destruct (Hc x w' eq_refl) as (_ & -> & _). reflexivity.
    - destruct (ok3 b c1); [|reflexivity]. destruct t1 as [|c2 t2]; cbn [app].
      + destruct w as [|x w']; [reflexivity|]. destruct (Hc x w' eq_refl) as (-> & _ & _). reflexivity.
      + destruct (is_cont c2); reflexivity. }
  destruct (lead4 b); [|reflexivity].
  destruct t as [|c1 t1]; cbn [app].
  - destruct w as [|x w']; [reflexivity|]. destruct (Hc x w' eq_refl) as (_ & _ & ->). reflexivity.
  - destruct (ok4 b c1); [|reflexivity]. destruct t1 as [|c2 t2]; cbn [app].
    + destruct w as [|x w']; [reflexivity|]. destruct (Hc x w' eq_refl) as (-> & _ & _). reflexivity.
    + destruct (is_cont c2); [|reflexivity]. destruct t2 as [|c3 t3]; cbn [app].
      * destruct w as [|x w']; [reflexivity|]. destruct (Hc x w' eq_refl) as (-> & _ & _). reflexivity.
      * destruct (is_cont c3); reflexivity.
Qed.

(* enough fuel is enough *)
Lemma lossy_fuel_enough n : forall m s,
  (length s <= n)%nat -> (length s <= m)%nat -> utf8_lossy_fuel n s = utf8_lossy_fuel m s.
Proof.
  induction n as [|n IH]; intros m s Hn Hm.
  - destruct s; [|cbn in Hn; lia]. destruct m; reflexivity.
  - destruct s as [|b t]; [destruct m; reflexivity|].
    destruct m as [|m]; [cbn in Hm; lia|]. cbn [utf8_lossy_fuel].
    pose proof (utf8_step_rest b t) as Hr. destruct (utf8_step b t) as [[ok o] r]. cbn [snd] in Hr.
    f_equal. cbn [length] in Hn, Hm. apply IH; lia.
Qed.

Lemma valid_fuel_enough n : forall m s,
  (length s <= n)%nat -> (length s <= m)%nat -> utf8_valid_fuel n s = utf8_valid_fuel m s.
Proof.
  induction n as [|n IH]; intros m s Hn Hm.
  - destruct s; [|cbn in Hn; lia]. destruct m; reflexivity.
  - destruct s as [|b t]; [destruct m; reflexivity|].
    destruct m as [|m]; [cbn in Hm; lia|]. cbn [utf8_valid_fuel].
    pose proof (utf8_step_rest b t) as Hr. destruct (utf8_step b t) as [[ok o] r]. cbn [snd] in Hr.
    f_equal. cbn [length] in Hn, Hm. apply IH; lia.
Qed.

Lemma utf8_lossy_cons b t :
  utf8_lossy (b :: t) = let '(_, o, r) := utf8_step b t in o ++ utf8_lossy r.
Proof.
  unfold utf8_lossy. cbn [length utf8_lossy_fuel].
  pose proof (utf8_step_rest b t) as Hr. destruct (utf8_step b t) as [[ok o] r]. cbn [snd] in Hr.
  f_equal. apply lossy_fuel_enough; lia.
Qed.

Lemma utf8_valid_cons b t :
  utf8_valid (b :: t) = let '(ok, _, r) := utf8_step b t in ok && utf8_valid r.
Proof.
  unfold utf8_valid. cbn [length utf8_valid_fuel].
  pose proof (utf8_step_rest b t) as Hr. destruct (utf8_step b t) as [[ok o] r]. cbn [snd] in Hr.
  f_equal. apply valid_fuel_enough; lia.
Qed.

(* strong induction on the length, in the shape the step lemmas need *)
Lemma bytes_len_ind (P : list N -> Prop) :
  (forall s : list N, (forall s' : list N, (length s' < length s)%nat -> P s') -> P s) -> forall s : list N, P s.
Proof.
  intros H s. remember (length s) as n eqn:E. revert s E.
  induction n as [n IH] using lt_wf_ind. intros s ->. apply H. intros s' Hs'. eapply IH; eauto.
Qed.

(* valid UTF-8 is kept byte for byte *)
Lemma utf8_lossy_valid s : utf8_valid s = true -> utf8_lossy s = s.
Proof.
  induction s as [s IH] using bytes_len_ind. destruct s as [|b t]; [reflexivity|].
  rewrite utf8_valid_cons, utf8_lossy_cons.
  pose proof (utf8_step_rest b t) as Hr. destruct (utf8_step b t) as [[ok o] r] eqn:E. cbn [snd] in Hr.
  intros H. apply andb_true_iff in H as [-> Hv]. rewrite IH; [|cbn; lia|assumption].
  eapply utf8_step_valid; eassumption.
Qed.

Lemma in_utf8_lossy x s : In x (utf8_lossy s) -> In x s \/ In x REPL.
Proof.
  induction s as [s IH] using bytes_len_ind. destruct s as [|b t]; [cbn; auto|].
  rewrite utf8_lossy_cons.
  pose proof (utf8_step_rest b t) as Hr. destruct (utf8_step b t) as [[ok o] r] eqn:E. cbn [snd] in Hr.
  destruct (utf8_step_in b t ok o r x E) as [Ho Hr'].
  intros H. apply in_app_or in H as [H|H].
  - destruct (Ho H) as [->|[H'|H']]; [left; left; reflexivity|left; right; assumption|right; assumption].
  - destruct (IH r ltac:(cbn; lia) H) as [H'|H']; [left; right; auto|right; assumption].
Qed.

Lemma utf8_lossy_ascii w : all_ascii w = true -> utf8_lossy w = w.
Proof.
  induction w as [|x w IH]; [reflexivity|]. cbn [all_ascii forallb]. intros H.
  apply andb_true_iff in H as [Hx Hw]. rewrite utf8_lossy_cons. unfold utf8_step. rewrite Hx.
  cbn [app]. f_equal. apply IH. assumption.
Qed.

Lemma utf8_lossy_ascii_prefix w s : all_ascii w = true -> utf8_lossy (w ++ s) = w ++ utf8_lossy s.
Proof.
  induction w as [|x w IH]; [reflexivity|]. cbn [all_ascii forallb app]. intros H.
  apply andb_true_iff in H as [Hx Hw]. rewrite utf8_lossy_cons. unfold utf8_step. rewrite Hx.
  cbn [app]. f_equal. apply IH. assumption.
Qed.

Lemma utf8_lossy_ascii_suffix s w : all_ascii w = true -> utf8_lossy (s ++ w) = utf8_lossy s ++ w.
Proof.
  intros Hw. induction s as [s IH] using bytes_len_ind. destruct s as [|b t].
  - cbn [app]. rewrite utf8_lossy_ascii by assumption. reflexivity.
  - cbn [app]. rewrite !utf8_lossy_cons, utf8_step_app_ascii by assumption.
    pose proof (utf8_step_rest b t) as Hr. destruct (utf8_step b t) as [[ok o] r]. cbn [snd] in Hr.
    rewrite IH by (cbn; lia). apply app_assoc.
Qed.
(* ---- str::trim on the decoded text ---- *)
Lemma space_not_ws2 a x : is_space x = true -> ws2 a x = false.
Proof.
  intros H. apply is_space_ascii in H. apply N.ltb_lt in H. unfold ws2.
  assert (E1 : (x =? 133) = false) by (apply N.eqb_neq; lia).
  assert (E2 : (x =? 160) = false) by (apply N.eqb_neq; lia).
  rewrite E1, E2. apply andb_false_r.
Qed.

Lemma space_not_ws3_mid a x y : is_space x = true -> ws3 a x y = false.
Proof.
  intros H. apply is_space_ascii in H. apply N.ltb_lt in H. unfold ws3.
  assert (E1 : (x =? 154) = false) by (apply N.eqb_neq; lia).
  assert (E2 : (x =? 128) = false) by (apply N.eqb_neq; lia).
  assert (E3 : (x =? 129) = false) by (apply N.eqb_neq; lia).
  rewrite E1, E2, E3, !andb_false_r. reflexivity.
Qed.

Lemma space_not_ws3_last a b x : is_space x = true -> ws3 a b x = false.
Proof.
  intros H. apply is_space_ascii in H. apply N.ltb_lt in H. unfold ws3.
  assert (E1 : (x =? 128) = false) by (apply N.eqb_neq; lia).
  assert (E2 : (128 <=? x) = false) by (apply N.leb_gt; lia).
  assert (E3 : (x =? 168) = false) by (apply N.eqb_neq; lia).
  assert (E4 : (x =? 169) = false) by (apply N.eqb_neq; lia).
  assert (E5 : (x =? 175) = false) by (apply N.eqb_neq; lia).
  assert (E6 : (x =? 159) = false) by (apply N.eqb_neq; lia).
  rewrite E1, E2, E3, E4, E5, E6. cbn [andb orb]. rewrite !andb_false_r. reflexivity.
Qed.

Lemma in_trim_start_u x s : In x (trim_start_u s) -> In x s.
Proof.
  induction s as [s IH] using bytes_len_ind. destruct s as [|a t]; [auto|].
  cbn [trim_start_u]. destruct (is_space a).
  { intros H. right. apply IH; [cbn; lia|assumption]. }
  destruct t as [|b t1]; [auto|]. destruct (ws2 a b).
  { intros H. right. right. apply IH; [cbn; lia|assumption]. }
  destruct t1 as [|c t2]; [auto|]. destruct (ws3 a b c); [|auto].
  intros H. right. right. right. apply IH; [cbn; lia|assumption].
Qed.

Lemma in_trim_start_ur x s : In x (trim_start_ur s) -> In x s.
Proof.
  induction s as [s IH] using bytes_len_ind. destruct s as [|a t]; [auto|].
  cbn [trim_start_ur]. destruct (is_space a).
  { intros H. right. apply IH; [cbn; lia|assumption]. }
  destruct t as [|b t1]; [auto|]. destruct (ws2 b a).
  { intros H. right. right. apply IH; [cbn; lia|assumption]. }
  destruct t1 as [|c t2]; [auto|]. destruct (ws3 c b a); [|auto].
  intros H. right. right. right. apply IH; [cbn; lia|assumption].
Qed.

Lemma in_trim_u x s : In x (trim_u s) -> In x s.
Proof.
  unfold trim_u, trim_end_u. intros H. apply in_rev in H. apply in_trim_start_ur in H.
  apply in_rev in H. apply in_trim_start_u in H. assumption.
Qed.

Lemma trim_start_u_all_space w s : all_space w = true -> trim_start_u (w ++ s) = trim_start_u s.
Proof.
  induction w as [|x w IH]; [reflexivity|]. cbn [all_space forallb app]. intros H.
  apply andb_true_iff in H as [Hx Hw]. cbn [trim_start_u]. rewrite Hx. auto.
Qed.

Lemma trim_start_ur_all_space w s : all_space w = true -> trim_start_ur (w ++ s) = trim_start_ur s.
Proof.
  induction w as [|x w IH]; [reflexivity|]. cbn [all_space forallb app]. intros H.
  apply andb_true_iff in H as [Hx Hw]. cbn [trim_start_ur]. rewrite Hx. auto.
Qed.

Lemma trim_start_u_spaces w : all_space w = true -> trim_start_u w = [].
Proof. intros H. rewrite <- (app_nil_r w). rewrite trim_start_u_all_space by assumption. reflexivity. Qed.

Lemma trim_start_u_app_space s w :
  all_space w = true ->
  trim_start_u (s ++ w) = match trim_start_u s with [] => [] | r => r ++ w end.
Proof.
  intros Hw. induction s as [s IH] using bytes_len_ind. destruct s as [|a t].
  { cbn [app trim_start_u]. apply trim_start_u_spaces. assumption. }
  cbn [app trim_start_u]. destruct (is_space a) eqn:Ea.
  { apply IH. cbn; lia. }
  destruct t as [|b t1].
  { cbn [app]. destruct w as [|x w']; [reflexivity|].
    cbn [all_space forallb] in Hw. apply andb_true_iff in Hw as [Hx Hw'].
    rewrite (space_not_ws2 a x Hx). destruct w' as [|y w'']; [reflexivity|].
    rewrite (space_not_ws3_mid a x y Hx). reflexivity. }
  cbn [app]. destruct (ws2 a b).
  { apply IH. cbn; lia. }
  destruct t1 as [|c t2].
  { cbn [app]. destruct w as [|x w']; [reflexivity|].
    cbn [all_space forallb] in Hw. apply andb_true_iff in Hw as [Hx Hw'].
    rewrite (space_not_ws3_last a b x Hx). reflexivity. }
  cbn [app]. destruct (ws3 a b c); [|reflexivity].
  apply IH. cbn; lia.
Qed.

Lemma trim_end_u_all_space s w : all_space w = true -> trim_end_u (s ++ w) = trim_end_u s.
Proof.
  intros H. unfold trim_end_u. rewrite rev_app_distr.
  rewrite trim_start_ur_all_space; [reflexivity|rewrite all_space_rev; assumption].
Qed.

Lemma trim_u_pad w1 w2 s :
  all_space w1 = true -> all_space w2 = true -> trim_u (w1 ++ s ++ w2) = trim_u s.
Proof.
  intros H1 H2. unfold trim_u. rewrite trim_start_u_all_space by assumption.
  rewrite trim_start_u_app_space by assumption.
  destruct (trim_start_u s) eqn:E; [reflexivity|]. apply trim_end_u_all_space. assumption.
Qed.

(* what is signed of a header value *)
Lemma hval_pad w1 w2 v :
  all_space w1 = true -> all_space w2 = true -> hval (w1 ++ v ++ w2) = hval v.
Proof.
  intros H1 H2. unfold hval.
  rewrite utf8_lossy_ascii_prefix by (apply all_space_ascii; assumption).
  rewrite utf8_lossy_ascii_suffix by (apply all_space_ascii; assumption).
  apply trim_u_pad; assumption.
Qed.

Lemma hval_valid v : utf8_valid v = true -> hval v = trim_u v.
Proof. intros H. unfold hval. rewrite utf8_lossy_valid by assumption. reflexivity. Qed.

Lemma lf_in_hval v : In 10 (hval v) -> In 10 v.
Proof.
  unfold hval. intros H. apply in_trim_u in H. apply in_utf8_lossy in H as [H|H]; [assumption|].
  cbn in H. repeat (destruct H as [H|H]; [discriminate|]). contradiction.
Qed.

(* ======================================================================================== *)
(* B. association lists standing for HashMap<String, V>                                      *)
(* ======================================================================================== *)
Section AListFacts.
Context {V : Type}.
Implicit Types (m : list (bytes * V)) (l : list (bytes * V)).

Lemma alookup_aremove k k' m :
  alookup beq k (aremove beq k' m) = if beq k k' then None else alookup beq k m.
Proof.
  induction m as [|[a v] m IH]; cbn [aremove filter alookup fst].
  - destruct (beq k k'); reflexivity.
  - fold (aremove beq k' m). destruct (beq k' a) eqn:E1; cbn [negb alookup].
    + apply beq_eq in E1. subst a. rewrite IH. destruct (beq k k'); reflexivity.
    + destruct (beq k a) eqn:E2.
      * apply beq_eq in E2. subst a. rewrite beq_sym, E1. reflexivity.
      * apply IH.
Qed.

Lemma alookup_ainsert k k' v m :
  alookup beq k (ainsert beq k' v m) = if beq k k' then Some v else alookup beq k m.
Proof.
  unfold ainsert. cbn [alookup]. destruct (beq k k') eqn:E; [reflexivity|].
  rewrite alookup_aremove, E. reflexivity.
Qed.

Lemma akeys_aremove_in k k' m : In k (akeys (aremove beq k' m)) -> In k (akeys m) /\ k <> k'.
Proof.
  unfold akeys, aremove. intros H. apply in_map_iff in H as ([a v] & E & H). cbn in E. subst a.
  apply filter_In in H as [H1 H2]. cbn in H2. split.
  - apply in_map_iff. exists (k, v). auto.
  - intros ->. rewrite beq_refl in H2. discriminate.
Qed.

Lemma nodup_aremove k m : NoDup (akeys m) -> NoDup (akeys (aremove beq k m)).
Proof.
  induction m as [|[a v] m IH]; cbn [aremove filter akeys map fst]; [auto|].
  intros H. inversion H as [|? ? Hn Hd]; subst.
  fold (aremove beq k m). destruct (beq k a); cbn [negb]; [auto|].
  cbn [map fst]. constructor; [|auto].
  intros Hin. apply akeys_aremove_in in Hin as [Hin _]. contradiction.
Qed.

Lemma nodup_ainsert k v m : NoDup (akeys m) -> NoDup (akeys (ainsert beq k v m)).
Proof.
  intros H. unfold ainsert. cbn [akeys map fst]. constructor.
  - intros Hin. apply akeys_aremove_in in Hin as [_ Hne]. congruence.
  - apply nodup_aremove. assumption.
Qed.

Lemma alookup_in_keys k m : In k (akeys m) <-> alookup beq k m <> None.
Proof.
  induction m as [|[a v] m IH]; cbn [akeys map fst alookup].
  - split; [contradiction|congruence].
  - destruct (beq k a) eqn:E.
    + apply beq_eq in E. subst. split; [discriminate|intros _; left; reflexivity].
    + apply beq_neq in E. rewrite <- IH. unfold akeys. split; [intros [H|H]; [congruence|assumption]|intros H; right; assumption].
Qed.

Lemma alookup_some_in k v m : alookup beq k m = Some v -> In (k, v) m.
Proof.
  induction m as [|[a w] m IH]; cbn [alookup]; [discriminate|].
  destruct (beq k a) eqn:E.
  - apply beq_eq in E. subst. intros [= ->]. left; reflexivity.
  - intros H. right. auto.
Qed.

Lemma nodup_in_alookup k v m : NoDup (akeys m) -> In (k, v) m -> alookup beq k m = Some v.
Proof.
  induction m as [|[a w] m IH]; cbn [akeys map fst alookup]; [contradiction|].
  intros Hd [H|H]; inversion Hd as [|? ? Hn Hd']; subst.
  - injection H as -> ->. rewrite beq_refl. reflexivity.
  - destruct (beq k a) eqn:E.
    + apply beq_eq in E. subst. exfalso. apply Hn. apply in_map_iff. exists (a, v). auto.
    + auto.
Qed.

(* the binding that survives a sequence of insertions: the LAST one of the key *)
Fixpoint lastv (k : bytes) l : option V :=
  match l with
  | [] => None
  | (k', v) :: t =>
      match lastv k t with
      | Some x => Some x
      | None => if beq k k' then Some v else None
      end
  end.

Definition ins m (kv : bytes * V) := ainsert beq (fst kv) (snd kv) m.

Lemma alookup_fold k l : forall m,
  alookup beq k (fold_left ins l m) =
  match lastv k l with Some v => Some v | None => alookup beq k m end.
Proof.
  induction l as [|[k' v] l IH]; intros m; cbn [fold_left lastv]; [reflexivity|].
  rewrite IH. destruct (lastv k l); [reflexivity|].
  unfold ins. cbn [fst snd]. rewrite alookup_ainsert. destruct (beq k k'); reflexivity.
Qed.

Lemma nodup_fold l : forall m, NoDup (akeys m) -> NoDup (akeys (fold_left ins l m)).
Proof.
  induction l as [|kv l IH]; intros m H; cbn [fold_left]; [assumption|].
  apply IH. apply nodup_ainsert. assumption.
Qed.

Lemma of_pairs_fold l : of_pairs beq l = fold_left ins l [].
Proof. reflexivity. Qed.

Lemma alookup_of_pairs k l : alookup beq k (of_pairs beq l) = lastv k l.
Proof. rewrite of_pairs_fold, alookup_fold. destruct (lastv k l); reflexivity. Qed.

Lemma nodup_of_pairs l : NoDup (akeys (of_pairs beq l)).
Proof. rewrite of_pairs_fold. apply nodup_fold. constructor. Qed.

Lemma lastv_some_in k v l : lastv k l = Some v -> In (k, v) l.
Proof.
  induction l as [|[k' w] l IH]; cbn [lastv]; [discriminate|].
  destruct (lastv k l) eqn:E.
  - intros [= ->]. right. auto.
  - destruct (beq k k') eqn:E2; [|discriminate].
    apply beq_eq in E2. subst. intros [= ->]. left; reflexivity.
Qed.

Lemma lastv_none k l : lastv k l = None <-> ~ In k (map fst l).
Proof.
  induction l as [|[k' w] l IH]; cbn [lastv map fst].
  - split; auto.
  - destruct (lastv k l) eqn:E.
    + split; [discriminate|]. intros H. exfalso. apply H. right.
      apply lastv_some_in in E. apply in_map_iff. exists (k, v). auto.
    + destruct (beq k k') eqn:E2.
      * apply beq_eq in E2. subst. split; [discriminate|]. intros H. exfalso. apply H. left; reflexivity.
      * apply beq_neq in E2. split; [|reflexivity]. intros _ [H|H]; [congruence|].
        apply IH in H; auto.
Qed.

Lemma nodup_in_lastv k v l : NoDup (map fst l) -> In (k, v) l -> lastv k l = Some v.
Proof.
  induction l as [|[k' w] l IH]; cbn [map fst lastv]; [contradiction|].
  intros Hd H. inversion Hd as [|? ? Hn Hd']; subst. destruct H as [H|H].
  - injection H as -> ->. assert (E : lastv k l = None) by (apply lastv_none; assumption).
    rewrite E, beq_refl. reflexivity.
  - rewrite (IH Hd' H). reflexivity.
Qed.

Lemma lastv_perm k l l' : NoDup (map fst l) -> Permutation l l' -> lastv k l = lastv k l'.
Proof.
  intros Hd Hp.
  assert (Hd' : NoDup (map fst l')).
  { eapply Permutation_NoDup; [apply Permutation_map; exact Hp|assumption]. }
  destruct (lastv k l) eqn:E.
  - apply lastv_some_in in E. symmetry. apply nodup_in_lastv; [assumption|].
    eapply Permutation_in; eauto.
  - symmetry. apply lastv_none. apply lastv_none in E. intros H. apply E.
    eapply Permutation_in; [apply Permutation_map; apply Permutation_sym; exact Hp|assumption].
Qed.

(* lastv only looks at the entries of its key *)
Lemma lastv_filter k (p : bytes -> bool) l :
  p k = true -> lastv k (filter (fun e => p (fst e)) l) = lastv k l.
Proof.
  intros Hp. induction l as [|[k' w] l IH]; cbn [filter lastv fst]; [reflexivity|].
  destruct (p k') eqn:E; cbn [lastv]; rewrite IH; [reflexivity|].
  destruct (lastv k l); [reflexivity|].
  destruct (beq k k') eqn:E2; [|reflexivity]. apply beq_eq in E2. subst. congruence.
Qed.
End AListFacts.

(* ======================================================================================== *)
(* C. sorting                                                                                *)
(* ======================================================================================== *)
Definition blt (a b : bytes) : Prop := bytes_ltb a b = true.

Lemma insert_sorted_perm {A} (ltb : A -> A -> bool) x l : Permutation (insert_sorted ltb x l) (x :: l).
Proof.
  induction l as [|y l IH]; cbn [insert_sorted]; [apply Permutation_refl|].
  destruct (ltb x y); [apply Permutation_refl|].
  eapply Permutation_trans; [apply perm_skip; exact IH|apply perm_swap].
Qed.

Lemma isort_perm {A} (ltb : A -> A -> bool) l : Permutation (isort ltb l) l.
Proof.
  induction l as [|x l IH]; cbn [isort fold_right]; [constructor|].
  eapply Permutation_trans; [apply insert_sorted_perm|]. apply perm_skip. exact IH.
Qed.

Lemma isort_in {A} (ltb : A -> A -> bool) x l : In x (isort ltb l) <-> In x l.
Proof.
  split; apply Permutation_in; [|apply Permutation_sym]; apply isort_perm.
Qed.

Lemma insert_sorted_ssorted x l :
  StronglySorted blt l -> ~ In x l -> StronglySorted blt (insert_sorted bytes_ltb x l).
Proof.
  induction l as [|y l IH]; intros Hs Hn; cbn [insert_sorted].
  - constructor; constructor.
  - apply StronglySorted_inv in Hs as [Hs Hall].
    destruct (bytes_ltb x y) eqn:E.
    + constructor; [constructor; assumption|].
      constructor; [exact E|].
      rewrite Forall_forall in *. intros z Hz. eapply bytes_ltb_trans; [exact E|]. apply Hall; assumption.
    + assert (Hyx : blt y x).
      { unfold blt. destruct (bytes_ltb y x) eqn:E2; [reflexivity|].
        exfalso. apply Hn. left. symmetry. apply bytes_ltb_total; assumption. }
      constructor.
      * apply IH; [assumption|]. intros H; apply Hn; right; assumption.
      * rewrite Forall_forall in *. intros z Hz.
        eapply Permutation_in in Hz; [|apply insert_sorted_perm].
        destruct Hz as [<-|Hz]; [assumption|apply Hall; assumption].
Qed.

Lemma isort_ssorted l : NoDup l -> StronglySorted blt (isort bytes_ltb l).
Proof.
  induction l as [|x l IH]; intros Hd; cbn [isort fold_right]; [constructor|].
  inversion Hd as [|? ? Hn Hd']; subst.
  apply insert_sorted_ssorted; [apply IH; assumption|].
  intros H. apply Hn. apply isort_in in H. assumption.
Qed.

(* two strictly sorted lists with the same members are equal (any irreflexive transitive order) *)
Lemma ssorted_unique {A} (lt : A -> A -> Prop) :
  (forall a, ~ lt a a) -> (forall a b c, lt a b -> lt b c -> lt a c) ->
  forall l l', StronglySorted lt l -> StronglySorted lt l' ->
  (forall x, In x l <-> In x l') -> l = l'.
Proof.
  intros Hirr Htr. induction l as [|a l IH]; intros [|a' l'] Hs Hs' Hm.
  - reflexivity.
  - exfalso. apply (proj2 (Hm a')). left; reflexivity.
  - exfalso. apply (proj1 (Hm a)). left; reflexivity.
  - apply StronglySorted_inv in Hs as [Hs Ha]. apply StronglySorted_inv in Hs' as [Hs' Ha'].
    rewrite Forall_forall in Ha, Ha'.
    assert (a = a').
    { destruct (proj1 (Hm a) (or_introl eq_refl)) as [E|Hin]; [auto|].
      destruct (proj2 (Hm a') (or_introl eq_refl)) as [E|Hin']; [auto|].
      exfalso. apply (Hirr a). eapply Htr; [apply Ha; exact Hin'|apply Ha'; exact Hin]. }
    subst a'. f_equal. apply IH; auto.
    intros x. split; intros Hx.
    + destruct (proj1 (Hm x) (or_intror Hx)) as [E|Hin]; [|assumption].
      subst x. exfalso. apply (Hirr a). apply Ha; assumption.
    + destruct (proj2 (Hm x) (or_intror Hx)) as [E|Hin]; [|assumption].
      subst x. exfalso. apply (Hirr a). apply Ha'; assumption.
Qed.

Lemma blt_irrefl a : ~ blt a a.
Proof. unfold blt. rewrite bytes_ltb_irrefl. discriminate. Qed.

Lemma blt_trans a b c : blt a b -> blt b c -> blt a c.
Proof. apply bytes_ltb_trans. Qed.

Lemma ssorted_filter {A} (lt : A -> A -> Prop) (p : A -> bool) l :
  StronglySorted lt l -> StronglySorted lt (filter p l).
Proof.
  induction 1 as [|a l Hs IH Ha]; cbn [filter]; [constructor|].
  destruct (p a); [|assumption]. constructor; [assumption|].
  rewrite Forall_forall in *. intros x Hx. apply filter_In in Hx as [Hx _]. auto.
Qed.

Lemma ssorted_nodup {A} (lt : A -> A -> Prop) l :
  (forall a, ~ lt a a) -> StronglySorted lt l -> NoDup l.
Proof.
  intros Hirr. induction 1 as [|a l Hs IH Ha]; constructor; [|assumption].
  intros Hin. rewrite Forall_forall in Ha. apply (Hirr a). auto.
Qed.

(* ======================================================================================== *)
(* D. `for key in map.keys().sorted()`                                                       *)
(* ======================================================================================== *)
Section SortedBindings.
Context {V : Type}.
Implicit Types (m : list (bytes * V)).

Definition klt (a b : bytes * V) : Prop := blt (fst a) (fst b).

Lemma sorted_bindings_in k v m : In (k, v) (sorted_bindings m) <-> alookup beq k m = Some v.
Proof.
  unfold sorted_bindings. rewrite in_flat_map. split.
  - intros (k' & Hk & H). destruct (alookup beq k' m) eqn:E; [|contradiction].
    destruct H as [H|[]]. injection H as -> ->. assumption.
  - intros H. exists k. split.
    + apply isort_in. apply alookup_in_keys. congruence.
    + rewrite H. left; reflexivity.
Qed.

Lemma flat_map_ssorted (f : bytes -> list (bytes * V)) L :
  (forall k, f k = [] \/ exists v, f k = [(k, v)]) ->
  StronglySorted blt L -> StronglySorted klt (flat_map f L).
Proof.
  intros Hf. induction 1 as [|a L Hs IH Ha]; cbn [flat_map]; [constructor|].
  destruct (Hf a) as [E|(v & E)]; rewrite E; cbn [app]; [assumption|].
  constructor; [assumption|].
  rewrite Forall_forall in *. intros [k w] Hin. apply in_flat_map in Hin as (k' & Hk' & Hin).
  destruct (Hf k') as [E'|(v' & E')]; rewrite E' in Hin; [contradiction|].
  destruct Hin as [Hin|[]]. injection Hin as <- <-. unfold klt. cbn. auto.
Qed.

Lemma sorted_bindings_ssorted m : NoDup (akeys m) -> StronglySorted klt (sorted_bindings m).
Proof.
  intros Hd. unfold sorted_bindings. apply flat_map_ssorted.
  - intros k. destruct (alookup beq k m); [right; eexists; reflexivity|left; reflexivity].
  - apply isort_ssorted. assumption.
Qed.

Lemma klt_irrefl a : ~ klt a a.
Proof. apply blt_irrefl. Qed.
Lemma klt_trans a b c : klt a b -> klt b c -> klt a c.
Proof. apply blt_trans. Qed.

(* the sorted bindings depend on the map only as a finite function *)
Lemma sorted_bindings_ext m m' :
  NoDup (akeys m) -> NoDup (akeys m') ->
  (forall k, alookup beq k m = alookup beq k m') -> sorted_bindings m = sorted_bindings m'.
Proof.
  intros Hd Hd' Hl. apply (ssorted_unique klt klt_irrefl klt_trans).
  - apply sorted_bindings_ssorted; assumption.
  - apply sorted_bindings_ssorted; assumption.
  - intros [k v]. rewrite !sorted_bindings_in, Hl. reflexivity.
Qed.

(* built from a vector without repeated keys, they are a permutation of that vector *)
Lemma sorted_bindings_perm (l : list (bytes * V)) :
  NoDup (map fst l) -> Permutation (sorted_bindings (of_pairs beq l)) l.
Proof.
  intros Hd. apply NoDup_Permutation.
  - eapply ssorted_nodup; [apply klt_irrefl|]. apply sorted_bindings_ssorted. apply nodup_of_pairs.
  - eapply NoDup_map_inv. exact Hd.
  - intros [k v]. rewrite sorted_bindings_in, alookup_of_pairs. split.
    + apply lastv_some_in.
    + apply nodup_in_lastv. assumption.
Qed.

Lemma sorted_bindings_concat (g : bytes * V -> bytes) m :
  concat (map g (sorted_bindings m)) =
  concat (map (fun k => match alookup beq k m with Some v => g (k, v) | None => [] end)
              (isort bytes_ltb (akeys m))).
Proof.
  unfold sorted_bindings. induction (isort bytes_ltb (akeys m)) as [|k L IH]; [reflexivity|].
  cbn [flat_map map concat]. rewrite map_app, concat_app, IH.
  destruct (alookup beq k m); cbn [map concat app]; [rewrite app_nil_r|]; reflexivity.
Qed.
End SortedBindings.

Lemma concat_map_filter {A} (h : A -> bytes) (p : A -> bool) L :
  (forall k, p k = false -> h k = []) -> concat (map h L) = concat (map h (filter p L)).
Proof.
  intros Hh. induction L as [|k L IH]; [reflexivity|]. cbn [map concat filter].
  destruct (p k) eqn:E; cbn [map concat]; rewrite IH; [reflexivity|]. rewrite (Hh k E). reflexivity.
Qed.

Lemma concat_map_ext_in {A} (h h' : A -> bytes) L :
  (forall k, In k L -> h k = h' k) -> concat (map h L) = concat (map h' L).
Proof. intros H. f_equal. apply map_ext_in. assumption. Qed.

(* GEN: rendering the sorted bindings through a key filter [p] and renderers [r], [r'] depends
   only on what the renderer shows of the surviving binding of each kept key *)
Lemma render_sorted_ext {V W : Type} (m : list (bytes * V)) (m' : list (bytes * W))
      (p : bytes -> bool) (r : bytes * V -> bytes) (r' : bytes * W -> bytes) :
  NoDup (akeys m) -> NoDup (akeys m') ->
  (forall k, p k = true ->
     option_map (fun v => r (k, v)) (alookup beq k m) =
     option_map (fun v => r' (k, v)) (alookup beq k m')) ->
  concat (map (fun e => if p (fst e) then r e else []) (sorted_bindings m)) =
  concat (map (fun e => if p (fst e) then r' e else []) (sorted_bindings m')).
Proof.
  intros Hd Hd' Hl. rewrite !sorted_bindings_concat. cbn [fst].
  set (h := fun k => match alookup beq k m with Some v => if p k then r (k, v) else [] | None => [] end).
  set (h' := fun k => match alookup beq k m' with Some v => if p k then r' (k, v) else [] | None => [] end).
  rewrite (concat_map_filter h p), (concat_map_filter h' p).
  2: { intros k E. unfold h'. rewrite E. destruct (alookup beq k m'); reflexivity. }
  2: { intros k E. unfold h. rewrite E. destruct (alookup beq k m); reflexivity. }
  assert (EL : filter p (isort bytes_ltb (akeys m)) = filter p (isort bytes_ltb (akeys m'))).
  { apply (ssorted_unique blt blt_irrefl blt_trans).
    - apply ssorted_filter. apply isort_ssorted. assumption.
    - apply ssorted_filter. apply isort_ssorted. assumption.
    - intros k. rewrite !filter_In, !isort_in, !alookup_in_keys.
      split; intros [H1 H2]; (split; [|assumption]); specialize (Hl k H2);
        destruct (alookup beq k m), (alookup beq k m'); cbn in Hl; congruence. }
  rewrite EL. apply concat_map_ext_in. intros k Hk. apply filter_In in Hk as [_ Hp].
  unfold h, h'. specialize (Hl k Hp). rewrite Hp.
  destruct (alookup beq k m), (alookup beq k m'); cbn in Hl; congruence.
Qed.

(* ======================================================================================== *)
(* E. canonical headers                                                                      *)
(* ======================================================================================== *)
Definition hkeep (k : bytes) : bool := negb (is_auth_key k).

Lemma canon_headers_unfold hs :
  canon_headers hs =
  concat (map (fun e => if hkeep (fst e) then fst e ++ [58] ++ hval (snd e) ++ LF else [])
              (sorted_bindings (header_map hs))).
Proof.
  unfold canon_headers. f_equal. apply map_ext. intros e. unfold render_header, hkeep.
  destruct (is_auth_key (fst e)); reflexivity.
Qed.

(* the signed view of a header list as a function: name -> signed text of the last value *)
Definition hsem (k : bytes) (hs : headers) : option bytes :=
  option_map hval (lastv k (map header_entry hs)).

(* MAIN: the canonical header string is determined by hsem on the non-authorization names *)
Lemma canon_headers_ext hs hs' :
  (forall k, is_auth_key k = false -> hsem k hs = hsem k hs') ->
  canon_headers hs = canon_headers hs'.
Proof.
  intros H. rewrite !canon_headers_unfold.
  apply (render_sorted_ext (header_map hs) (header_map hs') hkeep
           (fun e => fst e ++ [58] ++ hval (snd e) ++ LF)
           (fun e => fst e ++ [58] ++ hval (snd e) ++ LF)).
  - apply nodup_of_pairs.
  - apply nodup_of_pairs.
  - intros k Hk. unfold header_map. rewrite !alookup_of_pairs.
    unfold hkeep in Hk. apply negb_true_iff in Hk. specialize (H k Hk). unfold hsem in H.
    cbn [fst snd].
    destruct (lastv k (map header_entry hs)), (lastv k (map header_entry hs')); cbn in *; congruence.
Qed.

(* header-name case and surrounding blanks: entry-wise equal signed views *)
Lemma hsem_forall2 k hs hs' :
  Forall2 (fun h h' => lower (fst h) = lower (fst h') /\ hval (snd h) = hval (snd h')) hs hs' ->
  hsem k hs = hsem k hs'.
Proof.
  unfold hsem. induction 1 as [|h h' hs hs' [E1 E2] _ IH]; [reflexivity|].
  cbn [map lastv]. unfold header_entry at 1 3. rewrite <- E1.
  destruct (lastv k (map header_entry hs)), (lastv k (map header_entry hs')); cbn in IH |- *;
    try congruence.
  destruct (beq k (lower (fst h))); cbn; congruence.
Qed.

Lemma canon_headers_case_and_padding hs hs' :
  Forall2 (fun h h' => lower (fst h) = lower (fst h') /\ hval (snd h) = hval (snd h')) hs hs' ->
  canon_headers hs = canon_headers hs'.
Proof. intros H. apply canon_headers_ext. intros k _. apply hsem_forall2. assumption. Qed.

(* order: any permutation, provided no signed name is repeated *)
Lemma has_dup_false l : has_dup l = false -> NoDup l.
Proof.
  induction l as [|x l IH]; cbn [has_dup]; [constructor|].
  intros H. apply orb_false_iff in H as [H1 H2]. constructor; [|auto].
  intros Hin. assert (existsb (beq x) l = true); [|congruence].
  apply existsb_exists. exists x. split; [assumption|apply beq_refl].
Qed.

Lemma nodup_has_dup l : NoDup l -> has_dup l = false.
Proof.
  induction 1 as [|x l Hn Hd IH]; cbn [has_dup]; [reflexivity|].
  rewrite IH, orb_false_r. destruct (existsb (beq x) l) eqn:E; [|reflexivity].
  apply existsb_exists in E as (y & Hy & E). apply beq_eq in E. subst. contradiction.
Qed.

Lemma sig_header_keep h : sig_header h = hkeep (fst (header_entry h)).
Proof. reflexivity. Qed.

Lemma hsem_filter_sig k hs : is_auth_key k = false -> hsem k (filter sig_header hs) = hsem k hs.
Proof.
  intros Hk. unfold hsem. f_equal.
  rewrite <- (lastv_filter k hkeep (map header_entry hs)) by (unfold hkeep; rewrite Hk; reflexivity).
  f_equal. induction hs as [|h hs IH]; [reflexivity|]. cbn [filter map].
  rewrite sig_header_keep. destruct (hkeep (fst (header_entry h))); cbn [map]; rewrite IH; reflexivity.
Qed.

Lemma canon_headers_filter_sig hs : canon_headers (filter sig_header hs) = canon_headers hs.
Proof. apply canon_headers_ext. intros k Hk. apply hsem_filter_sig. assumption. Qed.

Lemma map_entry_keys hs : map fst (map header_entry hs) = map (fun h => lower (fst h)) hs.
Proof. rewrite map_map. reflexivity. Qed.

Lemma canon_headers_perm hs hs' :
  repeated_header_name hs = false -> Permutation hs hs' -> canon_headers hs = canon_headers hs'.
Proof.
  intros Hr Hp. rewrite <- (canon_headers_filter_sig hs), <- (canon_headers_filter_sig hs').
  apply canon_headers_ext. intros k _. unfold hsem. f_equal. apply lastv_perm.
  - rewrite map_entry_keys. apply has_dup_false. exact Hr.
  - apply Permutation_map. clear Hr. induction Hp; cbn [filter].
    + constructor.
    + destruct (sig_header x); [apply perm_skip|]; assumption.
    + destruct (sig_header x), (sig_header y); try apply Permutation_refl. apply perm_swap.
    + eapply Permutation_trans; eassumption.
Qed.

(* the authorization header never reaches the canonical string: inserting / appending it
   changes nothing *)
Lemma is_auth_key_auth : is_auth_key (lower auth_header) = true.
Proof. unfold is_auth_key. rewrite lower_idem. apply beq_refl. Qed.

Lemma lastv_app {V} k (l1 l2 : list (bytes * V)) :
  lastv k (l1 ++ l2) = match lastv k l2 with Some v => Some v | None => lastv k l1 end.
Proof.
  induction l1 as [|[k' w] l1 IH]; cbn [app lastv]; [destruct (lastv k l2); reflexivity|].
  rewrite IH. destruct (lastv k l2); reflexivity.
Qed.

Lemma hsem_not_auth_entry k n v :
  is_auth_key k = false -> is_auth_key (lower n) = true -> lastv k [header_entry (n, v)] = None.
Proof.
  intros Hk Hn. unfold header_entry. cbn [lastv fst snd]. destruct (beq k (lower n)) eqn:E; [|reflexivity].
  apply beq_eq in E. subst. congruence.
Qed.

Lemma hsem_append_auth k n v hs :
  is_auth_key k = false -> is_auth_key (lower n) = true -> hsem k (hm_append n v hs) = hsem k hs.
Proof.
  intros Hk Hn. unfold hsem, hm_append. rewrite map_app, lastv_app. cbn [map].
  rewrite (hsem_not_auth_entry k n v Hk Hn). reflexivity.
Qed.

Lemma lastv_filter_ne k n hs :
  is_auth_key k = false -> is_auth_key (lower n) = true ->
  lastv k (map header_entry (filter (fun x => negb (beq n (fst x))) hs)) = lastv k (map header_entry hs).
Proof.
  intros Hk Hn. induction hs as [|h hs IH]; [reflexivity|]. cbn [filter].
  destruct (beq n (fst h)) eqn:E; cbn [negb map lastv].
  - rewrite IH. unfold header_entry at 2. cbn [fst snd].
    destruct (lastv k (map header_entry hs)); [reflexivity|].
    apply beq_eq in E. subst n.
    destruct (beq k (lower (fst h))) eqn:E2; [|reflexivity].
    apply beq_eq in E2. subst. congruence.
  - unfold header_entry at 1 3. cbn [fst snd]. rewrite IH. reflexivity.
Qed.

Lemma hsem_insert_auth k n v hs :
  is_auth_key k = false -> is_auth_key (lower n) = true -> hsem k (hm_insert n v hs) = hsem k hs.
Proof.
  intros Hk Hn. unfold hsem. f_equal. induction hs as [|h hs IH]; cbn [hm_insert].
  - apply (hsem_not_auth_entry k n v Hk Hn).
  - destruct (beq n (fst h)) eqn:E; cbn [map lastv].
    + rewrite lastv_filter_ne by assumption. unfold header_entry at 1 3. cbn [fst snd].
      destruct (lastv k (map header_entry hs)); [reflexivity|].
      apply beq_eq in E. subst n.
      destruct (beq k (lower (fst h))) eqn:E2; [|reflexivity].
      apply beq_eq in E2. subst. congruence.
    + rewrite IH. reflexivity.
Qed.

Lemma canon_headers_insert_auth v hs : canon_headers (hm_insert auth_header v hs) = canon_headers hs.
Proof.
  apply canon_headers_ext. intros k Hk. apply hsem_insert_auth; [assumption|apply is_auth_key_auth].
Qed.

Lemma canon_headers_append_auth v hs : canon_headers (hm_append auth_header v hs) = canon_headers hs.
Proof.
  apply canon_headers_ext. intros k Hk. apply hsem_append_auth; [assumption|apply is_auth_key_auth].
Qed.

(* exactly one authorization value after the insert *)
Lemma get_all_removed n (hs : headers) :
  filter (fun h => beq n (fst h)) (filter (fun x => negb (beq n (fst x))) hs) = [].
Proof.
  induction hs as [|h hs IH]; [reflexivity|]. cbn [filter].
  destruct (beq n (fst h)) eqn:E; cbn [negb]; [assumption|]. cbn [filter]. rewrite E. assumption.
Qed.

Lemma hm_get_all_insert n v hs : hm_get_all n (hm_insert n v hs) = [v].
Proof.
  unfold hm_get_all. induction hs as [|h hs IH]; cbn [hm_insert].
  - cbn. rewrite beq_refl. reflexivity.
  - destruct (beq n (fst h)) eqn:E.
    + cbn [filter fst]. rewrite beq_refl, get_all_removed. reflexivity.
    + cbn [filter]. rewrite E. assumption.
Qed.

Lemma hm_get_all_insert_other n n' v hs :
  beq n' n = false -> hm_get_all n' (hm_insert n v hs) = hm_get_all n' hs.
Proof.
  intros Hne. unfold hm_get_all. induction hs as [|h hs IH]; cbn [hm_insert].
  - cbn. rewrite Hne. reflexivity.
  - destruct (beq n (fst h)) eqn:E.
    + apply beq_eq in E. cbn [filter fst]. rewrite <- E, Hne. f_equal.
      clear IH. induction hs as [|h' hs IH']; [reflexivity|]. cbn [filter].
      destruct (beq n (fst h')) eqn:E'; cbn [negb].
      * apply beq_eq in E'. rewrite <- E', Hne. assumption.
      * cbn [filter]. destruct (beq n' (fst h')); cbn [map]; rewrite IH'; reflexivity.
    + cbn [filter]. destruct (beq n' (fst h)); cbn [map]; rewrite IH; reflexivity.
Qed.

(* ======================================================================================== *)
(* F. canonical query                                                                        *)
(* ======================================================================================== *)
Lemma query_entry_keys pairs : map fst (map query_entry pairs) = map sort_key pairs.
Proof. rewrite map_map. reflexivity. Qed.

(* order of the parameters: any permutation, provided no two sort keys collide *)
Lemma canon_query_perm pairs pairs' :
  kv_collision pairs = false -> Permutation pairs pairs' -> canon_query pairs = canon_query pairs'.
Proof.
  intros Hc Hp. unfold canon_query, query_map. do 2 f_equal.
  apply sorted_bindings_ext; try apply nodup_of_pairs.
  intros k. rewrite !alookup_of_pairs. apply lastv_perm.
  - rewrite query_entry_keys. apply has_dup_false. exact Hc.
  - apply Permutation_map. assumption.
Qed.

(* key case: only lower(key) is used *)
Lemma canon_query_case pairs pairs' :
  map qnorm pairs = map qnorm pairs' -> canon_query pairs = canon_query pairs'.
Proof.
  intros H. unfold canon_query, query_map. do 3 f_equal.
  assert (E : forall l, map query_entry l = map (fun kv => (fst kv ++ snd kv, (lower (fst kv), snd kv))) (map qnorm l)).
  { intros l. rewrite map_map. apply map_ext. intros [k v]. reflexivity. }
  rewrite !E, H. reflexivity.
Qed.

(* ---- what query_pairs returns is well formed ---- *)
Definition wf_pair (kv : bytes * bytes) : Prop :=
  fst kv <> [] /\ ~ In 61 (fst kv) /\ ~ In 38 (fst kv) /\ ~ In 38 (snd kv).

Lemma split_on_no_sep c s : Forall (fun p => ~ In c p) (split_on c s).
Proof.
  induction s as [|x s IH]; cbn [split_on].
  - constructor; [auto|constructor].
  - destruct (x =? c) eqn:E.
    + constructor; [auto|assumption].
    + destruct (split_on c s) as [|h r]; [constructor; [|constructor]|].
      * intros [H|[]]. subst. rewrite N.eqb_refl in E. discriminate.
      * inversion IH as [|? ? Hh Hr]; subst. constructor; [|assumption].
        intros [H|H]; [subst; rewrite N.eqb_refl in E; discriminate|contradiction].
Qed.

Lemma split_once_spec c s :
  let '(a, b) := split_once c s in
  ~ In c a /\ s = a ++ match b with Some t => c :: t | None => [] end.
Proof.
  induction s as [|x s IH]; cbn [split_once]; [auto|].
  destruct (x =? c) eqn:E.
  - apply N.eqb_eq in E. subst. auto.
  - destruct (split_once c s) as [a b]. destruct IH as [IH1 IH2]. split.
    + intros [H|H]; [subst; rewrite N.eqb_refl in E; discriminate|contradiction].
    + cbn [app]. f_equal. assumption.
Qed.

Lemma query_pairs_wf q : Forall wf_pair (query_pairs q).
Proof.
  unfold query_pairs. set (query := match q with Some s => s | None => [] end).
  pose proof (split_on_no_sep 38 query) as Hs.
  induction Hs as [|p ps Hp _ IH]; cbn [flat_map]; [constructor|].
  apply Forall_app. split; [|assumption].
  pose proof (split_once_spec 61 p) as Hsp. destruct (split_once 61 p) as [key value].
  destruct Hsp as [Hk Hp']. destruct key as [|k0 key]; [constructor|].
  constructor; [|constructor]. unfold wf_pair. cbn [fst snd].
  assert (Hin : forall x, In x (k0 :: key) \/ In x (match value with Some v => v | None => [] end) -> In x p).
  { intros x Hx. rewrite Hp'. apply in_or_app. destruct Hx as [Hx|Hx]; [left; assumption|].
    right. destruct value; [right; assumption|contradiction]. }
  repeat split.
  - discriminate.
  - assumption.
  - intros H. apply Hp. apply Hin. left; assumption.
  - intros H. apply Hp. apply Hin. right; assumption.
Qed.

(* ---- the canonical parameter string determines the signed pairs ---- *)
Definition render_q (kv : bytes * bytes) : bytes :=
  match snd kv with [] => fst kv | _ => fst kv ++ [61] ++ snd kv end.

Lemma render_param_entry kv : render_param (query_entry kv) = render_q (qnorm kv).
Proof.
  destruct kv as [k v]. unfold render_param, query_entry, render_q, qnorm. cbn [fst snd].
  rewrite lower_idem. destruct v; [apply app_nil_r|reflexivity].
Qed.

Lemma wf_qnorm kv : wf_pair kv -> wf_pair (qnorm kv).
Proof.
  destruct kv as [k v]. unfold wf_pair, qnorm. cbn [fst snd]. intros (H1 & H2 & H3 & H4).
  repeat split; [|intros H; apply in_lower in H; [auto|reflexivity]..|assumption].
  intros H. apply lower_nil in H. contradiction.
Qed.

Lemma render_q_inj a b : wf_pair a -> wf_pair b -> render_q a = render_q b -> a = b.
Proof.
  destruct a as [k v], b as [k' v']. unfold wf_pair, render_q. cbn [fst snd].
  intros (_ & He & _ & _) (_ & He' & _ & _) E.
  destruct v as [|x v], v' as [|x' v'].
  - congruence.
  - exfalso. apply He. rewrite E. apply in_or_app. right. left; reflexivity.
  - exfalso. apply He'. rewrite <- E. apply in_or_app. right. left; reflexivity.
  - cbn [app] in E. apply delim_inj in E as [-> E]; [congruence|assumption..].
Qed.

Lemma render_q_shape a : wf_pair a -> render_q a <> [] /\ ~ In 38 (render_q a).
Proof.
  destruct a as [k v]. unfold wf_pair, render_q. cbn [fst snd]. intros (Hn & _ & Ha & Hv).
  destruct v as [|x v].
  - auto.
  - split; [destruct k; [contradiction|discriminate]|].
    intros H. apply in_app_or in H as [H|H]; [contradiction|].
    cbn in H. destruct H as [H|H]; [discriminate|]. apply Hv. assumption.
Qed.

Lemma join_amp_inj (L L' : list bytes) :
  Forall (fun x => x <> [] /\ ~ In 38 x) L -> Forall (fun x => x <> [] /\ ~ In 38 x) L' ->
  join [38] L = join [38] L' -> L = L'.
Proof.
  revert L'. induction L as [|x L IH]; intros [|x' L'] HL HL' E.
  - reflexivity.
  - exfalso. inversion HL' as [|? ? [Hx _] _]; subst. cbn [join] in E.
    destruct L'; [congruence|]. destruct x'; [congruence|discriminate].
  - exfalso. inversion HL as [|? ? [Hx _] _]; subst. cbn [join] in E.
    destruct L; [congruence|]. destruct x; [congruence|discriminate].
  - inversion HL as [|? ? [Hx Hax] HL1]; inversion HL' as [|? ? [Hx' Hax'] HL1']; subst.
    destruct L as [|y L], L' as [|y' L'].
    + cbn [join] in E. congruence.
    + exfalso. cbn [join] in E. apply Hax. rewrite E. apply in_or_app. right. left; reflexivity.
    + exfalso. cbn [join] in E. apply Hax'. rewrite <- E. apply in_or_app. right. left; reflexivity.
    + change (join [38] (x :: y :: L)) with (x ++ 38 :: join [38] (y :: L)) in E.
      change (join [38] (x' :: y' :: L')) with (x' ++ 38 :: join [38] (y' :: L')) in E.
      apply delim_inj in E as [-> E]; [|assumption..]. f_equal. apply IH; assumption.
Qed.

Lemma canon_query_as_render pairs :
  canon_query pairs = join [38] (map render_q (map snd (sorted_bindings (query_map pairs)))).
Proof.
  unfold canon_query. f_equal. rewrite map_map. apply map_ext_in. intros [mk e] Hin.
  apply sorted_bindings_in in Hin. unfold query_map in Hin. rewrite alookup_of_pairs in Hin.
  apply lastv_some_in in Hin. apply in_map_iff in Hin as (kv & E & _).
  rewrite <- E, render_param_entry. destruct kv as [k v]. unfold query_entry, qnorm. cbn [fst snd].
  rewrite lower_idem. reflexivity.
Qed.

Lemma sorted_query_values pairs :
  kv_collision pairs = false ->
  Permutation (map snd (sorted_bindings (query_map pairs))) (qnorm_multiset pairs).
Proof.
  intros Hc. unfold query_map.
  eapply Permutation_trans.
  - apply Permutation_map. apply sorted_bindings_perm.
    rewrite query_entry_keys. apply has_dup_false. exact Hc.
  - rewrite map_map. unfold qnorm_multiset.
    erewrite map_ext; [apply Permutation_refl|].
    intros [k v]. unfold query_entry, qnorm. cbn [fst snd]. rewrite lower_idem. reflexivity.
Qed.

Lemma canon_query_covers pairs pairs' :
  Forall wf_pair pairs -> Forall wf_pair pairs' ->
  kv_collision pairs = false -> kv_collision pairs' = false ->
  canon_query pairs = canon_query pairs' ->
  Permutation (qnorm_multiset pairs) (qnorm_multiset pairs').
Proof.
  intros Hw Hw' Hc Hc' E. rewrite !canon_query_as_render in E.
  pose proof (sorted_query_values pairs Hc) as P. pose proof (sorted_query_values pairs' Hc') as P'.
  assert (W : forall ps l, Forall wf_pair ps -> Permutation l (qnorm_multiset ps) -> Forall wf_pair l).
  { intros ps l Hps Hl. rewrite Forall_forall in *. intros x Hx.
    eapply Permutation_in in Hx; [|exact Hl]. unfold qnorm_multiset in Hx.
    apply in_map_iff in Hx as (kv & <- & Hkv). apply wf_qnorm. auto. }
  pose proof (W _ _ Hw P) as Wl. pose proof (W _ _ Hw' P') as Wl'.
  apply join_amp_inj in E.
  - assert (EL : map snd (sorted_bindings (query_map pairs)) = map snd (sorted_bindings (query_map pairs'))).
    { revert E Wl Wl'. generalize (map snd (sorted_bindings (query_map pairs))) as l.
      generalize (map snd (sorted_bindings (query_map pairs'))) as l'. clear.
      intros l' l. revert l'. induction l as [|a l IH]; intros [|a' l'] E Wl Wl'; cbn [map] in E; try discriminate; [reflexivity|].
      injection E as E1 E2. inversion Wl; inversion Wl'; subst. f_equal; [apply render_q_inj; assumption|auto]. }
    rewrite EL in P. eapply Permutation_trans; [apply Permutation_sym; exact P|exact P'].
  - rewrite Forall_forall in *. intros x Hx. apply in_map_iff in Hx as (a & <- & Ha). apply render_q_shape. auto.
  - rewrite Forall_forall in *. intros x Hx. apply in_map_iff in Hx as (a & <- & Ha). apply render_q_shape. auto.
Qed.

(* ======================================================================================== *)
(* F'. the canonical header string determines the signed headers                             *)
(* ======================================================================================== *)
Definition render_h (e : bytes * bytes) : bytes := fst e ++ [58] ++ snd e ++ LF.

Lemma render_h_inj_concat (L L' : list (bytes * bytes)) :
  Forall (fun e => ~ In 58 (fst e) /\ ~ In 10 (snd e)) L ->
  Forall (fun e => ~ In 58 (fst e) /\ ~ In 10 (snd e)) L' ->
  concat (map render_h L) = concat (map render_h L') -> L = L'.
Proof.
  revert L'. induction L as [|[k v] L IH]; intros [|[k' v'] L'] HL HL' E; cbn [map concat] in E.
  - reflexivity.
  - exfalso. unfold render_h in E. destruct (fst (k', v')); discriminate.
  - exfalso. unfold render_h in E. destruct (fst (k, v)); discriminate.
  - inversion HL as [|? ? [Hk Hv] HL1]; inversion HL' as [|? ? [Hk' Hv'] HL1']; subst.
    unfold render_h, LF in E. cbn [fst snd] in *. rewrite <- !app_assoc in E. cbn [app] in E.
    apply delim_inj in E as [-> E]; [|assumption..].
    apply delim_inj in E as [-> E]; [|assumption..].
    f_equal. apply IH; assumption.
Qed.

Lemma wf_header_spec h : wf_header h = true -> ~ In 58 (lower (fst h)) /\ ~ In 10 (hval (snd h)).
Proof.
  unfold wf_header. intros H. apply andb_true_iff in H as [H1 H2].
  apply negb_true_iff in H1, H2. split.
  - intros Hin. apply in_lower in Hin; [|reflexivity].
    assert (existsb (N.eqb 58) (fst h) = true); [|congruence].
    apply existsb_exists. exists 58. split; [assumption|reflexivity].
  - intros Hin. apply lf_in_hval in Hin.
    assert (existsb (N.eqb 10) (snd h) = true); [|congruence].
    apply existsb_exists. exists 10. split; [assumption|reflexivity].
Qed.

(* what is signed of a header list: (lower name, signed text of the value) of every header
   except the authorization header *)
Definition hsigned (h : bytes * bytes) : bytes * bytes := (lower (fst h), hval (snd h)).
Definition hsigned_multiset (hs : headers) : list (bytes * bytes) := map hsigned (filter sig_header hs).

(* with no repeated signed name, the canonical string is the rendering of a permutation of
   the signed multiset *)
Lemma canon_headers_as_render hs :
  repeated_header_name hs = false ->
  exists L, Permutation L (hsigned_multiset hs) /\ canon_headers hs = concat (map render_h L).
Proof.
  intros Hr. rewrite <- canon_headers_filter_sig.
  set (hs0 := filter sig_header hs).
  exists (map (fun e => (fst e, hval (snd e))) (sorted_bindings (header_map hs0))). split.
  - unfold hsigned_multiset. fold hs0.
    replace (map hsigned hs0) with (map (fun e : bytes * bytes => (fst e, hval (snd e))) (map header_entry hs0))
      by (rewrite map_map; reflexivity).
    apply Permutation_map. unfold header_map. apply sorted_bindings_perm.
    rewrite map_entry_keys. apply has_dup_false. exact Hr.
  - unfold canon_headers. f_equal. rewrite map_map. apply map_ext_in. intros [k v] Hin.
    apply sorted_bindings_in in Hin. unfold header_map in Hin. rewrite alookup_of_pairs in Hin.
    apply lastv_some_in in Hin. apply in_map_iff in Hin as (h & E & Hh).
    unfold hs0 in Hh. apply filter_In in Hh as [_ Hs].
    unfold render_header, render_h. cbn [fst snd].
    unfold sig_header in Hs. unfold header_entry in E. injection E as E1 E2. subst k v.
    apply negb_true_iff in Hs. rewrite Hs. reflexivity.
Qed.

(* the canonical header string determines WHAT IS SIGNED of every header *)
Lemma canon_headers_covers_signed hs hs' :
  wf_headers hs = true -> wf_headers hs' = true ->
  repeated_header_name hs = false -> repeated_header_name hs' = false ->
  canon_headers hs = canon_headers hs' ->
  Permutation (hsigned_multiset hs) (hsigned_multiset hs').
Proof.
  intros Hw Hw' Hr Hr' E.
  destruct (canon_headers_as_render hs Hr) as (L & P & EL).
  destruct (canon_headers_as_render hs' Hr') as (L' & P' & EL').
  rewrite EL, EL' in E.
  assert (W : forall hs L, wf_headers hs = true -> Permutation L (hsigned_multiset hs) ->
              Forall (fun e => ~ In 58 (fst e) /\ ~ In 10 (snd e)) L).
  { clear. intros hs L Hw P. rewrite Forall_forall. intros e He.
    eapply Permutation_in in He; [|exact P]. unfold hsigned_multiset in He.
    apply in_map_iff in He as (h & <- & Hh). apply filter_In in Hh as [Hh _].
    unfold wf_headers in Hw. rewrite forallb_forall in Hw. unfold hsigned. cbn [fst snd].
    apply wf_header_spec. auto. }
  apply render_h_inj_concat in E; [|exact (W _ _ Hw P)|exact (W _ _ Hw' P')].
  subst L'. eapply Permutation_trans; [apply Permutation_sym; exact P|exact P'].
Qed.

(* when every signed value is valid UTF-8, what is signed is the value as received, trimmed *)
Lemma hsigned_is_hnorm hs : header_value_not_utf8 hs = false -> hsigned_multiset hs = hnorm_multiset hs.
Proof.
  unfold header_value_not_utf8, hsigned_multiset, hnorm_multiset. intros H.
  apply map_ext_in. intros h Hh. unfold hsigned, hnorm. f_equal. apply hval_valid.
  destruct (utf8_valid (snd h)) eqn:E; [reflexivity|].
  assert (existsb (fun h => negb (utf8_valid (snd h))) (filter sig_header hs) = true); [|congruence].
  apply existsb_exists. exists h. rewrite E. auto.
Qed.

Lemma canon_headers_covers hs hs' :
  wf_headers hs = true -> wf_headers hs' = true ->
  repeated_header_name hs = false -> repeated_header_name hs' = false ->
  header_value_not_utf8 hs = false -> header_value_not_utf8 hs' = false ->
  canon_headers hs = canon_headers hs' ->
  Permutation (hnorm_multiset hs) (hnorm_multiset hs').
Proof.
  intros Hw Hw' Hr Hr' Hu Hu' E. rewrite <- (hsigned_is_hnorm hs Hu), <- (hsigned_is_hnorm hs' Hu').
  apply canon_headers_covers_signed; assumption.
Qed.

(* ======================================================================================== *)
(* G. the string that is signed                                                              *)
(* ======================================================================================== *)
Lemma sig_input_body_split m b hs u :
  as_sig_input m b hs u = sig_input_prefix m ++ b ++ sig_input_suffix hs u.
Proof.
  unfold as_sig_input, sig_input_prefix, sig_input_suffix. cbv zeta.
  rewrite <- !app_assoc. reflexivity.
Qed.

Lemma covers_method m m' b hs u : as_sig_input m b hs u = as_sig_input m' b hs u -> m = m'.
Proof. unfold as_sig_input. cbv zeta. intros E. apply app_inv_tail in E. assumption. Qed.

Lemma covers_body m b b' hs u : as_sig_input m b hs u = as_sig_input m b' hs u -> b = b'.
Proof.
  unfold as_sig_input. cbv zeta. intros E. do 2 apply app_inv_head in E.
  apply app_inv_tail in E. assumption.
Qed.

Lemma covers_path m b hs p p' q :
  as_sig_input m b hs {| u_path := p; u_query := q |} =
  as_sig_input m b hs {| u_path := p'; u_query := q |} -> p = p'.
Proof.
  unfold as_sig_input, path_and_canon_params. cbn [u_path u_query fst snd]. intros E.
  do 5 apply app_inv_head in E. apply app_inv_tail in E. assumption.
Qed.

Lemma covers_path_and_query m b hs p p' q q' :
  ~ In 10 p -> ~ In 10 p' ->
  as_sig_input m b hs {| u_path := p; u_query := q |} =
  as_sig_input m b hs {| u_path := p'; u_query := q' |} ->
  p = p' /\ canon_query (query_pairs q) = canon_query (query_pairs q').
Proof.
  unfold as_sig_input, path_and_canon_params, LF. cbn [u_path u_query fst snd]. intros Hp Hp' E.
  do 5 apply app_inv_head in E. cbn [app] in E. apply delim_inj in E; assumption.
Qed.

Lemma covers_headers_partial m b hs hs' u :
  wf_headers hs = true -> wf_headers hs' = true ->
  repeated_header_name hs = false -> repeated_header_name hs' = false ->
  header_value_not_utf8 hs = false -> header_value_not_utf8 hs' = false ->
  as_sig_input m b hs u = as_sig_input m b hs' u ->
  Permutation (hnorm_multiset hs) (hnorm_multiset hs').
Proof.
  intros Hw Hw' Hr Hr' Hu Hu' E. apply canon_headers_covers; try assumption.
  unfold as_sig_input in E. cbv zeta in E. do 4 apply app_inv_head in E.
  apply app_inv_tail in E. assumption.
Qed.

Lemma covers_signed_headers m b hs hs' u :
  wf_headers hs = true -> wf_headers hs' = true ->
  repeated_header_name hs = false -> repeated_header_name hs' = false ->
  as_sig_input m b hs u = as_sig_input m b hs' u ->
  Permutation (hsigned_multiset hs) (hsigned_multiset hs').
Proof.
  intros Hw Hw' Hr Hr' E. apply canon_headers_covers_signed; try assumption.
  unfold as_sig_input in E. cbv zeta in E. do 4 apply app_inv_head in E.
  apply app_inv_tail in E. assumption.
Qed.

Lemma covers_query_partial m b hs p q q' :
  kv_collision (query_pairs q) = false -> kv_collision (query_pairs q') = false ->
  as_sig_input m b hs {| u_path := p; u_query := q |} =
  as_sig_input m b hs {| u_path := p; u_query := q' |} ->
  Permutation (qnorm_multiset (query_pairs q)) (qnorm_multiset (query_pairs q')).
Proof.
  intros Hc Hc' E. apply canon_query_covers; try assumption; try apply query_pairs_wf.
  unfold as_sig_input, path_and_canon_params in E. cbn [u_path u_query fst snd] in E.
  do 7 apply app_inv_head in E. assumption.
Qed.

(* ---- witnesses that the hypotheses cannot be dropped (known finding F3) ---- *)
Module Lit.
Import Coq.Strings.String.
Local Open Scope string_scope.

Lemma covers_query_refuted_collision :
  exists q q',
    KnownClass_C04_kv_collision q = true /\
    canon_query (query_pairs q) = canon_query (query_pairs q') /\
    ~ Permutation (qnorm_multiset (query_pairs q)) (qnorm_multiset (query_pairs q')).
Proof.
  exists (Some (B"a=bc&ab=c")), (Some (B"ab=c")). split; [vm_compute; reflexivity|]. split; [vm_compute; reflexivity|].
  intros P. apply Permutation_length in P. vm_compute in P. discriminate.
Qed.

Lemma covers_query_refuted_duplicate :
  exists q q',
    KnownClass_C04_kv_collision q = true /\
    canon_query (query_pairs q) = canon_query (query_pairs q') /\
    ~ Permutation (qnorm_multiset (query_pairs q)) (qnorm_multiset (query_pairs q')).
Proof.
  exists (Some (B"k=1&K=1")), (Some (B"k=1")). split; [vm_compute; reflexivity|]. split; [vm_compute; reflexivity|].
  intros P. apply Permutation_length in P. vm_compute in P. discriminate.
Qed.

Lemma query_order_refuted :
  exists q q',
    KnownClass_C04_kv_collision q = true /\
    Permutation (query_pairs q) (query_pairs q') /\
    canon_query (query_pairs q) <> canon_query (query_pairs q').
Proof.
  exists (Some (B"a=bc&ab=c")), (Some (B"ab=c&a=bc")). split; [vm_compute; reflexivity|]. split.
  - vm_compute. apply perm_swap.
  - vm_compute. discriminate.
Qed.

Definition hx1 : headers := [(B"x", B"1"); (B"x", B"2")].

Lemma covers_headers_refuted :
  exists hs hs',
    KnownClass_C04_repeated_header_name hs = true /\
    wf_headers hs = true /\ wf_headers hs' = true /\
    canon_headers hs = canon_headers hs' /\
    ~ Permutation (hnorm_multiset hs) (hnorm_multiset hs').
Proof.
  exists hx1, [(B"x", B"2")]. repeat split; try (vm_compute; reflexivity).
  intros P. apply Permutation_length in P. vm_compute in P. discriminate.
Qed.

(* two different invalid byte strings are signed as the same U+FFFD (known finding F3c) *)
Lemma covers_headers_refuted_not_utf8 :
  exists hs hs',
    KnownClass_C04_header_value_not_utf8 hs = true /\
    KnownClass_C04_repeated_header_name hs = false /\ KnownClass_C04_repeated_header_name hs' = false /\
    wf_headers hs = true /\ wf_headers hs' = true /\
    canon_headers hs = canon_headers hs' /\
    ~ Permutation (hnorm_multiset hs) (hnorm_multiset hs').
Proof.
  exists [(B"x", [128])], [(B"x", [129])]. repeat split; try (vm_compute; reflexivity).
  intros P. vm_compute in P. apply Permutation_length_1_inv in P. discriminate.
Qed.

Lemma header_order_refuted :
  exists hs hs',
    KnownClass_C04_repeated_header_name hs = true /\
    Permutation hs hs' /\ canon_headers hs <> canon_headers hs'.
Proof.
  exists hx1, [(B"x", B"2"); (B"x", B"1")]. split; [vm_compute; reflexivity|]. split.
  - apply perm_swap.
  - vm_compute. discriminate.
Qed.

(* ======================================================================================== *)
(* H. exemptions                                                                             *)
(* ======================================================================================== *)
(* the documented exemption list, as literals *)
Definition lit_PUT : bytes := B"PUT".
Definition lit_POST : bytes := B"POST".
Definition lit_vmagentlog : bytes := B"/vmagentlog".
Definition lit_telemetrydata : bytes := B"/machine/?comp=telemetrydata".

Lemma exemptions_exact m u :
  should_skip_sig m u = true <->
  (m = lit_PUT /\ lower (uri_to_string u) = lit_vmagentlog) \/
  (m = lit_POST /\ lower (uri_to_string u) = lit_telemetrydata).
Proof.
  unfold should_skip_sig. cbv zeta.
  change Consts.skip_sig_pairs with [(lit_PUT, lit_vmagentlog); (lit_POST, lit_telemetrydata)].
  cbn [existsb fst snd]. rewrite orb_false_r, orb_true_iff, !andb_true_iff, !beq_eq. reflexivity.
Qed.
End Lit.

(* ======================================================================================== *)
(* I. the two signing routes                                                                 *)
(* ======================================================================================== *)
Lemma routes_agree m b hs u :
  request_to_sign_input {| b_method := Some m; b_headers := Some hs; b_uri := Some u |} (Some b)
  = Some (as_sig_input m b hs u).
Proof.
  unfold request_to_sign_input, as_sig_input. cbn [b_method b_headers b_uri]. cbv zeta.
  f_equal. rewrite <- !app_assoc. reflexivity.
Qed.

Lemma routes_agree_no_body m hs u :
  request_to_sign_input {| b_method := Some m; b_headers := Some hs; b_uri := Some u |} None
  = Some (as_sig_input m [] hs u).
Proof.
  unfold request_to_sign_input, as_sig_input. cbn [b_method b_headers b_uri]. cbv zeta.
  f_equal. rewrite <- !app_assoc. reflexivity.
Qed.

(* the branch `None => LF` of request_to_sign_input is the only place where the routes differ *)
Lemma canon_headers_nil : canon_headers [] = [].
Proof. reflexivity. Qed.

Lemma routes_differ_without_headers m b u :
  request_to_sign_input {| b_method := Some m; b_headers := None; b_uri := Some u |} (Some b)
  <> Some (as_sig_input m b [] u).
Proof.
  unfold request_to_sign_input, as_sig_input. cbn [b_method b_headers b_uri]. cbv zeta.
  rewrite canon_headers_nil. intros E. injection E as E.
  apply (f_equal (@length N)) in E. unfold LF in E.
  repeat (rewrite ?app_length in E; cbn [length] in E). lia.
Qed.

(* ======================================================================================== *)
(* J. hex                                                                                    *)
(* ======================================================================================== *)
Definition byte_range : list N := map N.of_nat (seq 0 256).

Lemma in_byte_range b : b < 256 -> In b byte_range.
Proof.
  intros H. unfold byte_range. apply in_map_iff. exists (N.to_nat b). split; [apply N2Nat.id|].
  apply in_seq. lia.
Qed.

Definition hex_byte_ok (b : N) : bool :=
  match hex_val (hex_digit (b / 16)), hex_val (hex_digit (b mod 16)) with
  | Some x, Some y => (16 * x + y =? b)
  | _, _ => false
  end.

Lemma hex_byte_sweep : forallb hex_byte_ok byte_range = true.
Proof. vm_compute. reflexivity. Qed.

Lemma hex_roundtrip s : wf_bytes s = true -> hex_decode (hex_encode s) = Some s.
Proof.
  induction s as [|b s IH]; [reflexivity|].
  unfold wf_bytes. cbn [forallb]. intros H. apply andb_true_iff in H as [Hb Hs].
  apply N.ltb_lt in Hb. cbn [hex_encode flat_map app hex_decode].
  fold (hex_encode s). rewrite (IH Hs).
  pose proof hex_byte_sweep as Sw. rewrite forallb_forall in Sw.
  specialize (Sw b (in_byte_range b Hb)). unfold hex_byte_ok in Sw.
  destruct (hex_val (hex_digit (b / 16))); [|discriminate].
  destruct (hex_val (hex_digit (b mod 16))); [|discriminate].
  apply N.eqb_eq in Sw. rewrite Sw. reflexivity.
Qed.

Lemma hex_injective a b : wf_bytes a = true -> wf_bytes b = true -> hex_encode a = hex_encode b -> a = b.
Proof.
  intros Ha Hb E. apply hex_roundtrip in Ha, Hb. rewrite E in Ha. congruence.
Qed.

Lemma hex_length s : length (hex_encode s) = (2 * length s)%nat.
Proof. induction s as [|b s IH]; [reflexivity|]. cbn [hex_encode flat_map app length]. fold (hex_encode s). lia. Qed.

(* ======================================================================================== *)
(* K. sign and forward (proxied route), build_request (the agent's own calls)                *)
(* ======================================================================================== *)
Section SignFacts.
Context (mac : bytes -> bytes -> bytes).

Lemma sig_input_insert_auth v req :
  request_sig_input (with_headers req (hm_insert auth_header v (r_headers req))) = request_sig_input req.
Proof.
  unfold request_sig_input, with_headers, as_sig_input. cbn [r_method r_uri r_headers r_body].
  rewrite canon_headers_insert_auth. reflexivity.
Qed.

(* whatever is forwarded has the canonical string that was signed; method, target and body
   are forwarded as they came *)
Lemma signed_is_sent kv kg req out :
  sign_and_forward mac kv kg req = Forwarded out ->
  request_sig_input out = request_sig_input req /\
  r_method out = r_method req /\ r_uri out = r_uri req /\ r_body out = r_body req.
Proof.
  unfold sign_and_forward. intros H.
  destruct kv as [key|]; [|injection H as <-; auto].
  destruct kg as [guid|]; [|injection H as <-; auto].
  destruct (compute_signature mac key (request_sig_input req)) as [sig|]; [|injection H as <-; auto].
  destruct (header_value_ok (auth_value guid sig)); [|discriminate].
  injection H as <-. split; [apply sig_input_insert_auth|auto].
Qed.

(* with a usable key: exactly one authorization header, and its MAC is over the canonical
   string of the request AS FORWARDED *)
Lemma header_shape key guid kb req out :
  sign_and_forward mac (Some key) (Some guid) req = Forwarded out ->
  hex_decode key = Some kb ->
  hm_get_all auth_header (r_headers out) =
  [auth_value guid (hex_encode (mac kb (request_sig_input out)))].
Proof.
  unfold sign_and_forward, compute_signature. intros H Hk. rewrite Hk in H.
  destruct (header_value_ok _); [|discriminate].
  injection H as <-. rewrite sig_input_insert_auth. cbn [with_headers r_headers].
  apply hm_get_all_insert.
Qed.

Lemma forward_other_headers kv kg req out n :
  sign_and_forward mac kv kg req = Forwarded out -> beq n auth_header = false ->
  hm_get_all n (r_headers out) = hm_get_all n (r_headers req).
Proof.
  unfold sign_and_forward. intros H Hn.
  destruct kv as [key|]; [|injection H as <-; auto].
  destruct kg as [guid|]; [|injection H as <-; auto].
  destruct (compute_signature mac key (request_sig_input req)) as [sig|]; [|injection H as <-; auto].
  destruct (header_value_ok (auth_value guid sig)); [|discriminate].
  injection H as <-. cbn [with_headers r_headers]. apply hm_get_all_insert_other. assumption.
Qed.

(* without a key, or with a key that is not hex, the request goes out untouched *)
Lemma forward_unsigned kv kg req :
  (kv = None \/ kg = None \/ exists k, kv = Some k /\ hex_decode k = None) ->
  sign_and_forward mac kv kg req = Forwarded req.
Proof.
  unfold sign_and_forward, compute_signature. intros [->|[->|(k & -> & Hk)]].
  - reflexivity.
  - destruct kv; reflexivity.
  - destruct kg; [|reflexivity]. rewrite Hk. reflexivity.
Qed.

(* the handler's current form: guid and value read as one pair (/repo a01dbe0) *)
Lemma signed_is_sent_pair key req out :
  sign_and_forward_pair mac key req = Forwarded out ->
  request_sig_input out = request_sig_input req /\
  r_method out = r_method req /\ r_uri out = r_uri req /\ r_body out = r_body req.
Proof.
  unfold sign_and_forward_pair. destruct key as [[guid value]|]; [apply signed_is_sent|].
  intros [= <-]. auto.
Qed.

Lemma header_shape_pair guid key kb req out :
  sign_and_forward_pair mac (Some (guid, key)) req = Forwarded out ->
  hex_decode key = Some kb ->
  hm_get_all auth_header (r_headers out) =
  [auth_value guid (hex_encode (mac kb (request_sig_input out)))].
Proof. unfold sign_and_forward_pair. apply header_shape. Qed.

(* ---- what is signed is what the host receives: framing of an empty body ---- *)
Lemma filter_comm {A} (f g : A -> bool) l : filter f (filter g l) = filter g (filter f l).
Proof.
  induction l as [|x l IH]; [reflexivity|]. cbn [filter].
  destruct (g x) eqn:G, (f x) eqn:F; cbn [filter]; rewrite ?G, ?F, IH; reflexivity.
Qed.

Lemma filter_idem {A} (f : A -> bool) l : filter f (filter f l) = filter f l.
Proof.
  induction l as [|x l IH]; [reflexivity|]. cbn [filter].
  destruct (f x) eqn:F; cbn [filter]; rewrite ?F, IH; reflexivity.
Qed.

Lemma drop_header_insert n a v hs :
  beq n a = false -> drop_header n (hm_insert a v hs) = hm_insert a v (drop_header n hs).
Proof.
  intros Hna. unfold drop_header. induction hs as [|[k w] t IH].
  - cbn [hm_insert filter fst]. rewrite Hna. reflexivity.
  - cbn [hm_insert fst]. destruct (beq a k) eqn:E.
    + apply beq_eq in E. subst k. cbn [filter fst]. rewrite Hna. cbn [negb hm_insert fst].
      rewrite beq_refl. f_equal. apply filter_comm.
    + cbn [filter fst]. destruct (beq n k) eqn:E2; cbn [negb]; [exact IH|].
      cbn [hm_insert fst]. rewrite E. f_equal. exact IH.
Qed.

Lemma hyper_wire_idem r : hyper_wire (hyper_wire r) = hyper_wire r.
Proof.
  unfold hyper_wire. destruct (r_body r) eqn:E; [|rewrite E; reflexivity].
  cbn [with_headers r_body r_headers]. rewrite E. unfold with_headers, drop_header. cbn [r_method r_uri r_headers r_body].
  rewrite filter_idem. reflexivity.
Qed.

Lemma te_not_auth : beq transfer_encoding_header auth_header = false.
Proof. vm_compute. reflexivity. Qed.

Lemma hyper_wire_insert_auth av r :
  hyper_wire r = r ->
  hyper_wire (with_headers r (hm_insert auth_header av (r_headers r))) = with_headers r (hm_insert auth_header av (r_headers r)).
Proof.
  intros Hfix. unfold hyper_wire in *. cbn [with_headers r_body r_headers] in *.
  destruct (r_body r) eqn:E; [|reflexivity].
  apply (f_equal r_headers) in Hfix. cbn [with_headers r_headers] in Hfix.
  unfold with_headers. cbn [r_method r_uri r_headers r_body]. rewrite E.
  rewrite drop_header_insert by apply te_not_auth. rewrite Hfix. reflexivity.
Qed.

Lemma handle_signed_is_received key req out :
  handle_signed mac key req = Forwarded out ->
  hyper_wire out = out /\ request_sig_input out = request_sig_input (hyper_wire req).
Proof.
  unfold handle_signed. intros H. split; [|apply (signed_is_sent_pair key (hyper_wire req) out H)].
  pose proof (hyper_wire_idem req) as Hfix. set (r := hyper_wire req) in *. clearbody r.
  unfold sign_and_forward_pair in H. destruct key as [[guid value]|]; [|injection H as <-; exact Hfix].
  unfold sign_and_forward in H.
  destruct (compute_signature mac value (request_sig_input r)) as [sig|]; [|injection H as <-; exact Hfix].
  destruct (header_value_ok (auth_value guid sig)); [|discriminate].
  injection H as <-. apply hyper_wire_insert_auth. exact Hfix.
Qed.

Lemma handle_signed_shape guid key kb req out :
  handle_signed mac (Some (guid, key)) req = Forwarded out ->
  hex_decode key = Some kb ->
  hm_get_all auth_header (r_headers (hyper_wire out)) =
  [auth_value guid (hex_encode (mac kb (request_sig_input (hyper_wire out))))].
Proof.
  intros H Hk. destruct (handle_signed_is_received _ _ _ H) as [-> _].
  unfold handle_signed in H. eapply header_shape_pair; eassumption.
Qed.

Lemma relay_exempt kv kg req :
  should_skip_sig (r_method req) (r_uri req) = true -> relay mac kv kg req = Forwarded req.
Proof. unfold relay. intros ->. reflexivity. Qed.

Lemma relay_not_exempt kv kg req :
  should_skip_sig (r_method req) (r_uri req) = false ->
  relay mac kv kg req = sign_and_forward mac kv kg req.
Proof. unfold relay. intros ->. reflexivity. Qed.

(* ---- the agent's own calls ---- *)
Lemma hm_get_all_app n (a b : headers) : hm_get_all n (a ++ b) = hm_get_all n a ++ hm_get_all n b.
Proof. unfold hm_get_all. rewrite filter_app, map_app. reflexivity. Qed.

Lemma get_all_append_auth v (hdrs : headers) :
  hm_get_all auth_header hdrs = [] -> hm_get_all auth_header (hm_append auth_header v hdrs) = [v].
Proof.
  intros H. unfold hm_append. rewrite hm_get_all_app, H. cbn [app].
  unfold hm_get_all. cbn [filter fst]. rewrite beq_refl. reflexivity.
Qed.

Lemma build_request_signed now m host u hs body g k kb out :
  build_request mac now m host u hs body (Some g) (Some k) = Some out ->
  hex_decode k = Some kb ->
  hm_get_all auth_header (own_base_headers now host body ++ map header_entry hs) = [] ->
  hm_get_all auth_header (r_headers out) =
    [auth_value g (hex_encode (mac kb (request_sig_input out)))] /\
  r_method out = m /\ r_uri out = u /\
  r_body out = match body with Some x => x | None => [] end.
Proof.
  unfold build_request, compute_signature. cbv zeta.
  set (hdrs := own_base_headers now host body ++ map header_entry hs). clearbody hdrs.
  intros H Hk Hno. rewrite Hk in H.
  assert (E : request_to_sign_input {| b_method := Some m; b_headers := Some hdrs; b_uri := Some u |} body
              = Some (as_sig_input m (match body with Some x => x | None => [] end) hdrs u)).
  { destruct body; [apply routes_agree|apply routes_agree_no_body]. }
  rewrite E in H. injection H as <-. cbn [r_headers r_method r_uri r_body].
  split; [|auto]. rewrite get_all_append_auth by assumption. do 3 f_equal.
  unfold request_sig_input, as_sig_input. cbn [r_headers r_method r_uri r_body].
  rewrite canon_headers_append_auth. reflexivity.
Qed.

(* build_request always hands request_to_sign_input a builder with headers (the four it sets
   itself), so the `None => LF` branch is never taken by the agent's own calls *)
Lemma own_calls_always_have_headers now m host u hs body kg k out :
  build_request mac now m host u hs body kg k = Some out ->
  In Consts.date_header (map fst (r_headers out)) /\
  In host_header (map fst (r_headers out)) /\
  In Consts.claims_header (map fst (r_headers out)) /\
  In content_length_header (map fst (r_headers out)).
Proof.
  unfold build_request. cbv zeta. intros H.
  assert (Hin : forall n t, In n (map fst (own_base_headers now host body)) ->
                In n (map fst ((own_base_headers now host body ++ map header_entry hs) ++ t))).
  { intros n t Hn. rewrite !map_app. apply in_or_app. left. apply in_or_app. left. assumption. }
  assert (Hb : forall n, In n (map fst (own_base_headers now host body)) -> In n (map fst (r_headers out))).
  { intros n Hn. destruct k as [k|], kg as [g|];
      try (injection H as <-; cbn [r_headers]; specialize (Hin n [] Hn); rewrite app_nil_r in Hin; exact Hin).
    destruct (request_to_sign_input _ body); [|discriminate].
    destruct (compute_signature mac k b); [|discriminate].
    injection H as <-. cbn [r_headers]. unfold hm_append. apply Hin. assumption. }
  unfold own_base_headers in Hb. cbn [map fst] in Hb.
  repeat split; apply Hb; cbn; auto.
Qed.
End SignFacts.

(* ======================================================================================== *)
(* L. corollaries in the shape the property theorems use                                     *)
(* ======================================================================================== *)
Definition padded (v v' : bytes) : Prop :=
  exists w1 w2, all_space w1 = true /\ all_space w2 = true /\ v' = w1 ++ v ++ w2.

Lemma padded_hval v v' : padded v v' -> hval v = hval v'.
Proof. intros (w1 & w2 & H1 & H2 & ->). symmetry. apply hval_pad; assumption. Qed.

(* header names in any case, values with surrounding blanks and tabs *)
Lemma canon_headers_recase_pad hs hs' :
  Forall2 (fun h h' => lower (fst h) = lower (fst h') /\ padded (snd h) (snd h')) hs hs' ->
  canon_headers hs = canon_headers hs'.
Proof.
  intros H. apply canon_headers_case_and_padding.
  induction H as [|h h' hs hs' [E P] _ IH]; constructor; [|assumption].
  split; [assumption|apply padded_hval; assumption].
Qed.

Lemma sig_input_headers_invariant m b u hs hs' hs'' :
  repeated_header_name hs = false ->
  Permutation hs hs' ->
  Forall2 (fun h h' => lower (fst h) = lower (fst h') /\ padded (snd h) (snd h')) hs' hs'' ->
  as_sig_input m b hs u = as_sig_input m b hs'' u.
Proof.
  intros Hr Hp Hf. unfold as_sig_input. cbv zeta.
  rewrite (canon_headers_perm hs hs' Hr Hp), (canon_headers_recase_pad hs' hs'' Hf). reflexivity.
Qed.

Lemma sig_input_query_invariant m b hs p q q' :
  kv_collision (query_pairs q) = false ->
  Permutation (qnorm_multiset (query_pairs q)) (qnorm_multiset (query_pairs q')) ->
  as_sig_input m b hs {| u_path := p; u_query := q |} =
  as_sig_input m b hs {| u_path := p; u_query := q' |}.
Proof.
  intros Hc Hp. unfold as_sig_input, path_and_canon_params. cbn [u_path u_query fst snd].
  do 7 f_equal.
  rewrite (canon_query_case (query_pairs q) (qnorm_multiset (query_pairs q))).
  2: { unfold qnorm_multiset. rewrite map_map. apply map_ext. intros [k v]. unfold qnorm. cbn [fst snd].
       rewrite lower_idem. reflexivity. }
  rewrite (canon_query_case (query_pairs q') (qnorm_multiset (query_pairs q'))).
  2: { unfold qnorm_multiset. rewrite map_map. apply map_ext. intros [k v]. unfold qnorm. cbn [fst snd].
       rewrite lower_idem. reflexivity. }
  apply canon_query_perm; [|assumption].
  unfold kv_collision in *. unfold qnorm_multiset. rewrite map_map.
  erewrite map_ext; [exact Hc|]. intros [k v]. unfold sort_key, qnorm. cbn [fst snd].
  rewrite lower_idem. reflexivity.
Qed.

Lemma own_headers_no_auth now host body hs :
  hm_get_all auth_header (map header_entry hs) = [] ->
  hm_get_all auth_header (own_base_headers now host body ++ map header_entry hs) = [].
Proof. intros H. rewrite hm_get_all_app, H. reflexivity. Qed.
