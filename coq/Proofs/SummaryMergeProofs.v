(* C11 -- proofs about Model/SummaryMerge.v. *)
From GPA Require Import Summary SummaryProofs SummaryMerge.
From Coq Require Import Lia Permutation.

(* an interleaving is a permutation of all the clients' messages *)
Lemma merge_perm {A} (m : list A) ls : is_merge m ls -> Permutation m (concat ls).
Proof.
  induction 1 as [ls H|x m ls1 l ls2 H IH].
  - assert (concat ls = []) as ->; [|constructor].
    induction H as [|l ls Hl _ IH]; cbn; auto. subst. exact IH.
  - rewrite concat_app in IH |- *. cbn [concat] in IH |- *.
    rewrite <- app_comm_cons. eapply perm_trans; [apply perm_skip; exact IH|].
    apply Permutation_middle.
Qed.

Section MergeProofs.
Context (key : summary -> bytes).

(* FULL STRENGTH: any number of clients, any keys (equal or different), clears at any position, EVERY interleaving:
   the count under every key is the number of add_one messages for it since the last clear *)
Lemma actor_counts_every_interleaving (merged : list msg) (lists : list (list msg)) :
  is_merge merged lists ->
  forall k, count_of (failed (arun key agent0 merged)) k = count_spec key merged k.
Proof. intros _ k. apply failed_count_history. Qed.

Lemma clients_total_concat k ls :
  length (filter (is_failed_for key k) (concat ls)) = clients_total key k ls.
Proof.
  induction ls as [|l ls IH]; cbn; auto. rewrite filter_app, app_length, IH. reflexivity.
Qed.

Lemma no_clear_concat ls : forallb (no_clear) ls = true -> no_clear (concat ls) = true.
Proof.
  induction ls as [|l ls IH]; cbn; auto. intros H. apply andb_true_iff in H. destruct H as [H1 H2].
  unfold no_clear in *. rewrite forallb_app, H1. cbn. apply IH; auto.
Qed.

(* when no client sends a clear the result does not depend on the interleaving at all: the count under k is the
   sum over the clients of the adds each of them made for k -- conservation *)
Lemma actor_conserves_every_interleaving (merged : list msg) (lists : list (list msg)) :
  is_merge merged lists -> forallb no_clear lists = true ->
  forall k, count_of (failed (arun key agent0 merged)) k = N.of_nat (clients_total key k lists).
Proof.
  intros Hm Hc k. pose proof (merge_perm _ _ Hm) as P. apply Permutation_sym in P.
  rewrite <- (failed_count_perm key _ _ k P (no_clear_concat _ Hc)).
  rewrite failed_count_history, (since_clear_no_clear _ (no_clear_concat _ Hc)), clients_total_concat.
  reflexivity.
Qed.
End MergeProofs.
