(* C02 -- lemmas about Model/Rbac.v *)
From Coq Require Import Permutation.
From GPA Require Import Rbac.

(* ============================================================================================== *)
(* 1. byte strings, boolean list predicates                                                        *)
(* ============================================================================================== *)
Lemma rb_beq_refl a : beq a a = true.
Proof. induction a; simpl; auto. rewrite N.eqb_refl; auto. Qed.

Lemma rb_beq_eq a b : beq a b = true <-> a = b.
Proof.
  split.
  - revert b; induction a; destruct b; simpl; try discriminate; auto.
    intros H; apply andb_true_iff in H as [H1 H2]. apply N.eqb_eq in H1; subst. f_equal; auto.
  - intros ->; apply rb_beq_refl.
Qed.

Lemma rb_beq_neq a b : beq a b = false <-> a <> b.
Proof.
  split.
  - intros H E. apply rb_beq_eq in E. congruence.
  - intros H. destruct (beq a b) eqn:E; auto. apply rb_beq_eq in E. contradiction.
Qed.

Lemma rb_beq_sym a b : beq a b = beq b a.
Proof.
  destruct (beq a b) eqn:E.
  - apply rb_beq_eq in E; subst. symmetry; apply rb_beq_refl.
  - symmetry. apply rb_beq_neq. apply rb_beq_neq in E. congruence.
Qed.

Lemma existsb_beq_in x l : existsb (beq x) l = true <-> In x l.
Proof.
  rewrite existsb_exists. split.
  - intros (y & Hy & E). apply rb_beq_eq in E; subst; auto.
  - intros H. exists x; split; auto. apply rb_beq_refl.
Qed.

Lemma existsb_beq_notin x l : existsb (beq x) l = false <-> ~ In x l.
Proof.
  split.
  - intros H I. apply existsb_beq_in in I. congruence.
  - intros H. destruct (existsb (beq x) l) eqn:E; auto. apply existsb_beq_in in E. contradiction.
Qed.

Lemma dupb_NoDup l : dupb l = false <-> NoDup l.
Proof.
  induction l as [|x t IH]; simpl.
  - split; auto. constructor.
  - rewrite orb_false_iff, IH, existsb_beq_notin. split.
    + intros [H1 H2]; constructor; auto.
    + intros H; inversion H; auto.
Qed.

Lemma bool_eq_iff (a b : bool) : (a = true <-> b = true) -> a = b.
Proof. destruct a, b; intros [H1 H2]; auto; try (symmetry; auto); auto. Qed.

Lemma existsb_ext_in {A} (f g : A -> bool) l :
  (forall x, In x l -> f x = g x) -> existsb f l = existsb g l.
Proof.
  induction l; simpl; auto. intros H. rewrite H by auto. rewrite IHl; auto.
Qed.

Lemma forallb_ext_in {A} (f g : A -> bool) l :
  (forall x, In x l -> f x = g x) -> forallb f l = forallb g l.
Proof.
  induction l; simpl; auto. intros H. rewrite H by auto. rewrite IHl; auto.
Qed.

Lemma existsb_perm {A} (f : A -> bool) l l' : Permutation l l' -> existsb f l = existsb f l'.
Proof.
  induction 1; simpl; auto.
  - rewrite IHPermutation; auto.
  - destruct (f x), (f y); auto.
  - congruence.
Qed.

Lemma forallb_perm {A} (f : A -> bool) l l' : Permutation l l' -> forallb f l = forallb f l'.
Proof.
  induction 1; simpl; auto.
  - rewrite IHPermutation; auto.
  - destruct (f x), (f y); auto.
  - congruence.
Qed.

Lemma existsb_rev {A} (f : A -> bool) l : existsb f (rev l) = existsb f l.
Proof. apply existsb_perm. apply Permutation_sym, Permutation_rev. Qed.

Lemma forallb_rev {A} (f : A -> bool) l : forallb f (rev l) = forallb f l.
Proof. apply forallb_perm. apply Permutation_sym, Permutation_rev. Qed.

Lemma existsb_map {A T} (f : T -> bool) (g : A -> T) l : existsb f (map g l) = existsb (fun x => f (g x)) l.
Proof. induction l; simpl; auto. rewrite IHl; auto. Qed.

Lemma forallb_map {A T} (f : T -> bool) (g : A -> T) l : forallb f (map g l) = forallb (fun x => f (g x)) l.
Proof. induction l; simpl; auto. rewrite IHl; auto. Qed.

Lemma dupb_perm l l' : Permutation l l' -> dupb l = dupb l'.
Proof.
  intros P. apply bool_eq_iff.
  destruct (dupb l) eqn:E, (dupb l') eqn:E'; try tauto.
  - apply dupb_NoDup in E'. apply (Permutation_NoDup (Permutation_sym P)) in E'.
    apply dupb_NoDup in E'. congruence.
  - apply dupb_NoDup in E. apply (Permutation_NoDup P) in E. apply dupb_NoDup in E. congruence.
Qed.

(* ============================================================================================== *)
(* 2. association lists (HashMap): lookup, insert, collect                                         *)
(* ============================================================================================== *)
Section AL.
  Context {V : Type}.
  Implicit Types m : list (bytes * V).

  Lemma alookup_in k v m : alookup beq k m = Some v -> In (k, v) m.
  Proof.
    induction m as [|[k' v'] t IH]; simpl; try discriminate.
    destruct (beq k k') eqn:E.
    - intros H; inversion H; subst. apply rb_beq_eq in E; subst; auto.
    - auto.
  Qed.

  Lemma alookup_none k m : alookup beq k m = None <-> ~ In k (map fst m).
  Proof.
    induction m as [|[k' v'] t IH]; simpl.
    - tauto.
    - destruct (beq k k') eqn:E.
      + apply rb_beq_eq in E; subst. split; [discriminate | intros H; exfalso; auto].
      + apply rb_beq_neq in E. rewrite IH. split; intros H; [intros [C|C]; congruence | auto].
  Qed.

  Lemma alookup_nodup_in k v m : NoDup (map fst m) -> In (k, v) m -> alookup beq k m = Some v.
  Proof.
    induction m as [|[k' v'] t IH]; simpl; intros ND I; [contradiction|].
    inversion ND; subst.
    destruct I as [I|I].
    - inversion I; subst. rewrite rb_beq_refl; auto.
    - destruct (beq k k') eqn:E.
      + apply rb_beq_eq in E; subst. exfalso. apply H1. apply (in_map fst) in I; auto.
      + auto.
  Qed.

  Lemma alookup_perm k m m' :
    NoDup (map fst m) -> Permutation m m' -> alookup beq k m = alookup beq k m'.
  Proof.
    intros ND P.
    assert (ND' : NoDup (map fst m')) by (eapply Permutation_NoDup; [apply Permutation_map; eauto | auto]).
    destruct (alookup beq k m) eqn:E.
    - apply alookup_in in E. symmetry. apply alookup_nodup_in; auto.
      eapply Permutation_in; eauto.
    - destruct (alookup beq k m') eqn:E'; auto.
      apply alookup_in in E'. apply alookup_none in E. exfalso. apply E.
      apply (in_map fst) in E'. simpl in E'.
      eapply Permutation_in; [apply Permutation_sym, Permutation_map; eauto | auto].
  Qed.

  Lemma aremove_keys k m : map fst (aremove beq k m) = filter (fun x => negb (beq k x)) (map fst m).
  Proof.
    unfold aremove. induction m as [|[k' v'] t IH]; simpl; auto.
    destruct (beq k k'); simpl; rewrite IH; auto.
  Qed.

  Lemma alookup_aremove_other k k' m : beq k' k = false -> alookup beq k' (aremove beq k m) = alookup beq k' m.
  Proof.
    intros NE. unfold aremove. induction m as [|[k0 v0] t IH]; simpl; auto.
    destruct (beq k k0) eqn:E; simpl.
    - apply rb_beq_eq in E; subst. rewrite NE. auto.
    - destruct (beq k' k0); auto.
  Qed.

  Lemma alookup_ainsert k k' v m :
    alookup beq k' (ainsert beq k v m) = if beq k' k then Some v else alookup beq k' m.
  Proof.
    unfold ainsert; simpl. destruct (beq k' k) eqn:E; auto. apply alookup_aremove_other; auto.
  Qed.

  Lemma aremove_notin k m : ~ In k (map fst m) -> aremove beq k m = m.
  Proof.
    unfold aremove. induction m as [|[k' v'] t IH]; simpl; auto. intros H.
    destruct (beq k k') eqn:E.
    - apply rb_beq_eq in E; subst. exfalso; auto.
    - simpl. rewrite IH; auto.
  Qed.

  Lemma nodup_filter {A} (f : A -> bool) l : NoDup l -> NoDup (filter f l).
  Proof.
    induction 1; simpl; [constructor|]. destruct (f x); auto. constructor; auto.
    intros I. apply filter_In in I. tauto.
  Qed.

  Lemma ainsert_nodup k v m : NoDup (map fst m) -> NoDup (map fst (ainsert beq k v m)).
  Proof.
    intros ND. unfold ainsert; simpl. rewrite aremove_keys. constructor.
    - intros I. apply filter_In in I as [_ I]. rewrite rb_beq_refl in I. discriminate.
    - apply nodup_filter; auto.
  Qed.

  Lemma of_pairs_snoc (l : list (bytes * V)) k v :
    of_pairs beq (l ++ [(k, v)]) = ainsert beq k v (of_pairs beq l).
  Proof. unfold of_pairs. rewrite fold_left_app. reflexivity. Qed.

  (* collect(): the LAST binding of a key wins *)
  Lemma alookup_of_pairs k (l : list (bytes * V)) :
    alookup beq k (of_pairs beq l) = alookup beq k (rev l).
  Proof.
    induction l as [|[k0 v0] l IH] using rev_ind; auto.
    rewrite of_pairs_snoc, rev_app_distr, alookup_ainsert. simpl. rewrite IH. auto.
  Qed.

  Lemma of_pairs_nodup (l : list (bytes * V)) : NoDup (map fst (of_pairs beq l)).
  Proof.
    induction l as [|[k0 v0] l IH] using rev_ind.
    - constructor.
    - rewrite of_pairs_snoc. apply ainsert_nodup; auto.
  Qed.

  Lemma of_pairs_in k v (l : list (bytes * V)) : In (k, v) (of_pairs beq l) -> In (k, v) l.
  Proof.
    intros I. apply alookup_nodup_in in I; [|apply of_pairs_nodup].
    rewrite alookup_of_pairs in I. apply alookup_in in I. apply in_rev; auto.
  Qed.

  (* without repeated keys, collect() keeps every binding *)
  Lemma of_pairs_nodup_rev (l : list (bytes * V)) : NoDup (map fst l) -> of_pairs beq l = rev l.
  Proof.
    induction l as [|[k0 v0] l IH] using rev_ind; auto.
    intros ND. rewrite map_app in ND. simpl in ND.
    apply NoDup_remove in ND as [ND NI]. rewrite app_nil_r in ND, NI.
    rewrite of_pairs_snoc, rev_app_distr. simpl. unfold ainsert. f_equal.
    rewrite IH by auto. apply aremove_notin. rewrite map_rev. intros I. apply NI. apply in_rev; auto.
  Qed.
End AL.

(* name-indexed dictionaries built from a listing *)
Lemma dict_of_lookup_in {A} (name : A -> bytes) (l : list A) n x :
  alookup beq n (dict_of name l) = Some x -> In x l /\ name x = n.
Proof.
  intros H. unfold dict_of in H. apply alookup_in in H. apply of_pairs_in in H.
  apply in_map_iff in H as (y & E & I). inversion E; subst; auto.
Qed.

Lemma dict_of_nodup_rev {A} (name : A -> bytes) (l : list A) :
  NoDup (map name l) -> dict_of name l = rev (map (fun x => (name x, x)) l).
Proof.
  intros ND. unfold dict_of. apply of_pairs_nodup_rev. rewrite map_map. simpl. auto.
Qed.

Lemma dict_of_lookup_nodup {A} (name : A -> bytes) (l : list A) n x :
  NoDup (map name l) -> In x l -> name x = n -> alookup beq n (dict_of name l) = Some x.
Proof.
  intros ND I E. apply alookup_nodup_in.
  - apply of_pairs_nodup.
  - rewrite dict_of_nodup_rev by auto. apply in_rev. rewrite rev_involutive.
    apply in_map_iff. exists x; subst; auto.
Qed.

Lemma dict_of_values_in {A} (name : A -> bytes) (l : list A) n x :
  In (n, x) (dict_of name l) -> In x l /\ name x = n.
Proof.
  intros I. apply dict_of_lookup_in. apply alookup_nodup_in; auto. apply of_pairs_nodup.
Qed.

Lemma amem_dict_of {A} (name : A -> bytes) (l : list A) n :
  amem beq n (dict_of name l) = existsb (fun x => beq (name x) n) l.
Proof.
  unfold amem, dict_of. rewrite alookup_of_pairs. rewrite <- map_rev. rewrite <- (existsb_rev _ l).
  induction (rev l) as [|x t IH]; simpl; auto.
  rewrite (rb_beq_sym n (name x)). destruct (beq (name x) n); auto.
Qed.

(* ============================================================================================== *)
(* 3. the flattening of from_authorization_item                                                    *)
(* ============================================================================================== *)

(* membership in privilegeAssignments[pn] *)
Definition pa_mem (pa : list (bytes * list bytes)) (pn idn : bytes) : bool :=
  match alookup beq pn pa with Some s => existsb (beq idn) s | None => false end.

Lemma set_insert_mem x y s : existsb (beq y) (set_insert x s) = beq y x || existsb (beq y) s.
Proof.
  unfold set_insert. destruct (existsb (beq x) s) eqn:E; simpl; auto.
  destruct (beq y x) eqn:F; auto. apply rb_beq_eq in F; subst. auto.
Qed.

Section FlattenProofs.
  Context (role_dict : list (bytes * role)) (id_dict : list (bytes * identity))
          (priv_dict : list (bytes * privilege)).

  Lemma add_ids_mem idn ids s :
    existsb (beq idn) (add_ids id_dict ids s) =
    existsb (beq idn) s || (existsb (beq idn) ids && amem beq idn id_dict).
  Proof.
    unfold add_ids. revert s. induction ids as [|x t IH]; intros s; simpl.
    - rewrite orb_false_r; auto.
    - rewrite IH. destruct (amem beq x id_dict) eqn:M.
      + rewrite set_insert_mem. destruct (beq idn x) eqn:E; simpl.
        * apply rb_beq_eq in E; subst. rewrite M. simpl. rewrite orb_true_r. auto.
        * auto.
      + destruct (beq idn x) eqn:E; simpl; auto.
        apply rb_beq_eq in E; subst. rewrite M. simpl.
        destruct (existsb (beq x) t); simpl; rewrite ?orb_false_r; auto.
  Qed.

  Lemma add_ids_nodup ids s : NoDup s -> NoDup (add_ids id_dict ids s).
  Proof.
    unfold add_ids. revert s. induction ids as [|x t IH]; intros s ND; simpl; auto.
    apply IH. destruct (amem beq x id_dict); auto.
    unfold set_insert. destruct (existsb (beq x) s) eqn:E; auto.
    constructor; auto. apply existsb_beq_notin; auto.
  Qed.

  Definition grant1 (ids : list bytes) (pn pn' idn : bytes) : bool :=
    beq pn' pn && amem beq pn' priv_dict && existsb (beq idn) ids && amem beq idn id_dict.

  Lemma assign_priv_mem ids pa pn pn' idn :
    pa_mem (assign_priv id_dict priv_dict ids pa pn) pn' idn =
    pa_mem pa pn' idn || grant1 ids pn pn' idn.
  Proof.
    unfold assign_priv, grant1.
    destruct (amem beq pn priv_dict) eqn:M.
    - unfold pa_mem at 1. rewrite alookup_ainsert.
      destruct (beq pn' pn) eqn:E.
      + apply rb_beq_eq in E; subst pn'. rewrite M. rewrite add_ids_mem. unfold pa_mem.
        destruct (alookup beq pn pa); cbn [andb orb existsb]; auto.
      + cbn [andb]. rewrite orb_false_r. reflexivity.
    - destruct (beq pn' pn) eqn:E.
      + apply rb_beq_eq in E; subst. rewrite M. cbn [andb]. rewrite orb_false_r. auto.
      + cbn [andb]. rewrite orb_false_r; auto.
  Qed.

  Lemma assign_privs_mem ids privs pa pn' idn :
    pa_mem (fold_left (assign_priv id_dict priv_dict ids) privs pa) pn' idn =
    pa_mem pa pn' idn || existsb (fun pn => grant1 ids pn pn' idn) privs.
  Proof.
    revert pa. induction privs as [|pn t IH]; intros pa; simpl.
    - rewrite orb_false_r; auto.
    - rewrite IH, assign_priv_mem, orb_assoc. auto.
  Qed.

  Definition grant_ra (ra : assignment) (pn' idn : bytes) : bool :=
    match alookup beq (a_role ra) role_dict with
    | Some rl => existsb (fun pn => grant1 (a_ids ra) pn pn' idn) (r_privs rl)
    | None => false
    end.

  Lemma assign_role_mem pa ra pn' idn :
    pa_mem (assign_role role_dict id_dict priv_dict pa ra) pn' idn =
    pa_mem pa pn' idn || grant_ra ra pn' idn.
  Proof.
    unfold assign_role, grant_ra. destruct (alookup beq (a_role ra) role_dict).
    - apply assign_privs_mem.
    - rewrite orb_false_r; auto.
  Qed.

  Lemma assign_roles_mem ras pa pn' idn :
    pa_mem (fold_left (assign_role role_dict id_dict priv_dict) ras pa) pn' idn =
    pa_mem pa pn' idn || existsb (fun ra => grant_ra ra pn' idn) ras.
  Proof.
    revert pa. induction ras as [|ra t IH]; intros pa; simpl.
    - rewrite orb_false_r; auto.
    - rewrite IH, assign_role_mem, orb_assoc. auto.
  Qed.

  (* well-formedness of the result: unique keys, duplicate-free sets *)
  Definition pa_wf (pa : list (bytes * list bytes)) : Prop :=
    NoDup (map fst pa) /\ Forall (fun e => NoDup (snd e)) pa.

  Lemma assign_priv_wf ids pa pn : pa_wf pa -> pa_wf (assign_priv id_dict priv_dict ids pa pn).
  Proof.
    intros [K S]. unfold assign_priv. destruct (amem beq pn priv_dict); [|split; auto].
    split.
    - apply ainsert_nodup; auto.
    - unfold ainsert. constructor; simpl.
      + apply add_ids_nodup. destruct (alookup beq pn pa) eqn:E; [|constructor].
        apply alookup_in in E. rewrite Forall_forall in S. apply (S (pn, l)); auto.
      + unfold aremove. rewrite Forall_forall in *. intros e I. apply filter_In in I as [I _]. auto.
  Qed.

  Lemma assign_role_wf pa ra : pa_wf pa -> pa_wf (assign_role role_dict id_dict priv_dict pa ra).
  Proof.
    unfold assign_role. destruct (alookup beq (a_role ra) role_dict) as [rl|]; auto.
    revert pa. induction (r_privs rl) as [|pn t IH]; intros pa W; simpl; auto.
    apply IH. apply assign_priv_wf; auto.
  Qed.

  Lemma assign_roles_wf ras pa :
    pa_wf pa -> pa_wf (fold_left (assign_role role_dict id_dict priv_dict) ras pa).
  Proof.
    revert pa. induction ras as [|ra t IH]; intros pa W; simpl; auto.
    apply IH. apply assign_role_wf; auto.
  Qed.
End FlattenProofs.

(* ============================================================================================== *)
(* 4. the decision loop                                                                            *)
(* ============================================================================================== *)

(* the loop with its early returns is the three-way decision, whatever the iteration order *)
Lemma allowed_loop_decl fixed c ps any u k :
  allowed_loop fixed c ps any u k =
  if existsb (fun np => priv_match_gen fixed (snd np) u && granted c (snd np) k) ps then true
  else if any || existsb (fun np => priv_match_gen fixed (snd np) u) ps then false
  else c_default c.
Proof.
  revert any. induction ps as [|[n p] t IH]; intros any; simpl.
  - rewrite orb_false_r. auto.
  - destruct (priv_match_gen fixed p u) eqn:M; simpl.
    + destruct (granted c p k) eqn:G; simpl; auto.
      rewrite IH. simpl. rewrite orb_true_r. auto.
    + rewrite IH. auto.
Qed.

Definition decision_decl (fixed : bool) (c : computed) (u : url) (k : claims) : bool :=
  match c_mode c with
  | Disabled => true
  | _ =>
      if existsb (fun np => priv_match_gen fixed (snd np) u && granted c (snd np) k) (c_privs c) then true
      else if existsb (fun np => priv_match_gen fixed (snd np) u) (c_privs c) then false
      else c_default c
  end.

Lemma is_allowed_decl fixed c u k : is_allowed_gen fixed c u k = decision_decl fixed c u k.
Proof.
  unfold is_allowed_gen, decision_decl. destruct (c_mode c); auto; apply allowed_loop_decl.
Qed.

(* three-way decision, stated branch by branch *)
Lemma decision_branches fixed c u k :
  is_allowed_gen fixed c u k =
  match branch_of fixed c u k with
  | BrDisabled | BrIdentity => true
  | BrPrivilegeOnly => false
  | BrDefault => c_default c
  end.
Proof.
  rewrite is_allowed_decl. unfold decision_decl, branch_of.
  destruct (c_mode c); auto;
    destruct (existsb _ (c_privs c)); auto; destruct (existsb _ (c_privs c)); auto.
Qed.

Lemma granted_iff c p k :
  granted c p k = true <->
  exists idn i, pa_mem (c_assign c) (p_name p) idn = true /\
                alookup beq idn (c_ids c) = Some i /\ id_match i k = true.
Proof.
  unfold granted, pa_mem. destruct (alookup beq (p_name p) (c_assign c)) as [s|].
  - rewrite existsb_exists. split.
    + intros (idn & I & H). destruct (alookup beq idn (c_ids c)) as [i|] eqn:E; try discriminate.
      exists idn, i. repeat split; auto. apply existsb_beq_in; auto.
    + intros (idn & i & I & E & H). exists idn. apply existsb_beq_in in I. split; auto.
      rewrite E; auto.
  - split; [discriminate|]. intros (idn & i & I & _); discriminate.
Qed.

(* ============================================================================================== *)
(* 5. the flattened decision equals the declarative reading of the rule document                   *)
(* ============================================================================================== *)
Definition default_of (it : item) : bool := beq (lower (it_default it)) Lit.allow.

Lemma compute_sections it ps rs ids ras :
  sections it = Some (ps, rs, ids, ras) ->
  compute it =
  {| c_default := default_of it; c_mode := parse_mode (it_mode it);
     c_privs := dict_of p_name ps;
     c_assign := fold_left (assign_role (dict_of r_name rs) (dict_of i_name ids) (dict_of p_name ps)) ras [];
     c_ids := dict_of i_name ids |}.
Proof. intros H. unfold compute. rewrite H. reflexivity. Qed.

Lemma compute_nosections it :
  sections it = None ->
  compute it = {| c_default := default_of it; c_mode := parse_mode (it_mode it);
                  c_privs := []; c_assign := []; c_ids := [] |}.
Proof. intros H. unfold compute. rewrite H. reflexivity. Qed.

Lemma granted_compute_spec it ps rs ids ras p k :
  sections it = Some (ps, rs, ids, ras) ->
  NoDup (map r_name rs) -> NoDup (map i_name ids) -> In p ps ->
  granted (compute it) p k = spec_granted rs ids ras p k.
Proof.
  intros S NR NI IP. rewrite (compute_sections _ _ _ _ _ S).
  apply bool_eq_iff. rewrite granted_iff. cbn [c_assign c_ids].
  unfold spec_granted. split.
  - intros (idn & i & M & L & IM).
    rewrite assign_roles_mem in M. unfold pa_mem in M. cbn [alookup orb] in M.
    apply existsb_exists in M as (ra & Ira & G). unfold grant_ra in G.
    destruct (alookup beq (a_role ra) (dict_of r_name rs)) as [rl|] eqn:LR; try discriminate.
    apply existsb_exists in G as (pn0 & Ipn & G). unfold grant1 in G.
    repeat (apply andb_true_iff in G as [G ?]).
    apply rb_beq_eq in G; subst pn0.
    apply dict_of_lookup_in in LR as [Irl Nrl]. apply dict_of_lookup_in in L as [Ii Ni].
    apply existsb_exists. exists ra. split; auto. apply andb_true_iff. split.
    + apply existsb_exists. exists rl. split; auto. apply andb_true_iff. split.
      * apply rb_beq_eq; auto.
      * apply existsb_beq_in; auto.
    + apply existsb_exists. exists idn. split; [apply existsb_beq_in; auto|].
      apply existsb_exists. exists i. split; auto. apply andb_true_iff. split; auto.
      apply rb_beq_eq; auto.
  - intros H. apply existsb_exists in H as (ra & Ira & H). apply andb_true_iff in H as [H1 H2].
    apply existsb_exists in H1 as (rl & Irl & H1). apply andb_true_iff in H1 as [H1 H1'].
    apply rb_beq_eq in H1. apply existsb_beq_in in H1'.
    apply existsb_exists in H2 as (idn & Iidn & H2).
    apply existsb_exists in H2 as (i & Ii & H2). apply andb_true_iff in H2 as [H2 IM].
    apply rb_beq_eq in H2.
    exists idn, i. repeat split; auto.
    + rewrite assign_roles_mem. apply orb_true_iff. right.
      apply existsb_exists. exists ra. split; auto. unfold grant_ra.
      rewrite (dict_of_lookup_nodup r_name rs (a_role ra) rl) by auto.
      apply existsb_exists. exists (p_name p). split; auto. unfold grant1.
      rewrite rb_beq_refl. cbn [andb].
      repeat (apply andb_true_iff; split).
      * rewrite amem_dict_of. apply existsb_exists. exists p. split; auto. apply rb_beq_refl.
      * apply existsb_beq_in; auto.
      * rewrite amem_dict_of. apply existsb_exists. exists i. split; auto. apply rb_beq_eq; auto.
    + apply dict_of_lookup_nodup; auto.
Qed.

Lemma nodup_map_inv {A T} (f : A -> T) l : NoDup (map f l) -> NoDup l.
Proof.
  induction l; simpl; intros H; [constructor|]. inversion H; subst. constructor; auto.
  intros I. apply H2. apply in_map; auto.
Qed.

Lemma priv_match_spec_eq p u : qkeys_dup p = false -> priv_match p u = priv_match_spec p u.
Proof.
  unfold qkeys_dup, priv_match, priv_match_gen, priv_match_spec, rule_path.
  destruct (p_query p) as [listed|]; auto. intros D. f_equal.
  apply dupb_NoDup in D. rewrite <- map_map in D. apply nodup_map_inv in D.
  unfold query_match, qp_map. rewrite of_pairs_nodup_rev by auto. apply forallb_rev.
Qed.

Lemma decision_sections fixed it ps rs ids ras u k :
  sections it = Some (ps, rs, ids, ras) -> NoDup (map p_name ps) ->
  decision_decl fixed (compute it) u k =
  match parse_mode (it_mode it) with
  | Disabled => true
  | _ => if existsb (fun p => priv_match_gen fixed p u && granted (compute it) p k) ps then true
         else if existsb (fun p => priv_match_gen fixed p u) ps then false
         else default_of it
  end.
Proof.
  intros S ND. unfold decision_decl.
  assert (E : c_privs (compute it) = rev (map (fun p => (p_name p, p)) ps)).
  { rewrite (compute_sections _ _ _ _ _ S). cbn [c_privs]. apply dict_of_nodup_rev; auto. }
  rewrite E. rewrite !existsb_rev, !existsb_map. cbn [snd].
  assert (EM : c_mode (compute it) = parse_mode (it_mode it))
    by (rewrite (compute_sections _ _ _ _ _ S); reflexivity).
  assert (ED : c_default (compute it) = default_of it)
    by (rewrite (compute_sections _ _ _ _ _ S); reflexivity).
  rewrite EM, ED. reflexivity.
Qed.

Lemma has_dups_false it ps rs ids ras :
  sections it = Some (ps, rs, ids, ras) -> has_duplicate_names it = false ->
  NoDup (map p_name ps) /\ NoDup (map r_name rs) /\ NoDup (map i_name ids) /\
  forall p, In p ps -> qkeys_dup p = false.
Proof.
  intros S H. unfold has_duplicate_names in H. rewrite S in H.
  repeat (apply orb_false_iff in H as [H ?]).
  repeat split; try (apply dupb_NoDup; auto).
  intros p I. destruct (qkeys_dup p) eqn:E; auto.
  assert (existsb qkeys_dup ps = true) by (apply existsb_exists; eauto). congruence.
Qed.

Theorem decision_equals_spec it u k :
  has_duplicate_names it = false -> is_allowed (compute it) u k = spec_allowed it u k.
Proof.
  intros H. unfold is_allowed. rewrite is_allowed_decl. unfold spec_allowed.
  destruct (sections it) as [[[[ps rs] ids] ras]|] eqn:S.
  - destruct (has_dups_false _ _ _ _ _ S H) as (NP & NR & NI & Q).
    rewrite (decision_sections _ _ _ _ _ _ _ _ S NP). fold (default_of it).
    destruct (parse_mode (it_mode it)); auto.
    + rewrite (existsb_ext_in _ (fun p => priv_match_spec p u && spec_granted rs ids ras p k)).
      2:{ intros p I. fold (priv_match p u). rewrite priv_match_spec_eq by auto.
          rewrite (granted_compute_spec _ _ _ _ _ _ _ S) by auto. auto. }
      rewrite (existsb_ext_in (fun p => priv_match_gen true p u) (fun p => priv_match_spec p u)).
      2:{ intros p I. fold (priv_match p u). apply priv_match_spec_eq; auto. }
      auto.
    + rewrite (existsb_ext_in _ (fun p => priv_match_spec p u && spec_granted rs ids ras p k)).
      2:{ intros p I. fold (priv_match p u). rewrite priv_match_spec_eq by auto.
          rewrite (granted_compute_spec _ _ _ _ _ _ _ S) by auto. auto. }
      rewrite (existsb_ext_in (fun p => priv_match_gen true p u) (fun p => priv_match_spec p u)).
      2:{ intros p I. fold (priv_match p u). apply priv_match_spec_eq; auto. }
      auto.
  - rewrite (compute_nosections _ S). unfold decision_decl. cbn [c_mode c_privs c_default existsb].
    fold (default_of it). destruct (parse_mode (it_mode it)); auto.
Qed.

(* ============================================================================================== *)
(* 6. HashMap / HashSet iteration order cannot matter                                              *)
(* ============================================================================================== *)

(* the same HashMap<String, HashSet<String>> enumerated differently: entries permuted, and each
   set permuted *)
Definition same_sets (a a' : list (bytes * list bytes)) : Prop :=
  Forall2 (fun x y => fst x = fst y /\ Permutation (snd x) (snd y)) a a'.

Definition assign_reordered (a a' : list (bytes * list bytes)) : Prop :=
  exists a1, Permutation a a1 /\ same_sets a1 a'.

Definition hash_reordered (c c' : computed) : Prop :=
  c_default c = c_default c' /\ c_mode c = c_mode c' /\
  Permutation (c_privs c) (c_privs c') /\
  assign_reordered (c_assign c) (c_assign c') /\
  Permutation (c_ids c) (c_ids c').

(* what a HashMap guarantees: one entry per key *)
Definition wf_computed (c : computed) : Prop :=
  NoDup (map fst (c_privs c)) /\ NoDup (map fst (c_assign c)) /\ NoDup (map fst (c_ids c)).

Lemma same_sets_lookup a a' pn :
  same_sets a a' ->
  match alookup beq pn a, alookup beq pn a' with
  | Some s, Some s' => Permutation s s'
  | None, None => True
  | _, _ => False
  end.
Proof.
  induction 1 as [|[k s] [k' s'] t t' [E P] F IH]; simpl; auto.
  simpl in E, P. subst k'. destruct (beq pn k); auto.
Qed.

Lemma granted_reordered c c' p k :
  NoDup (map fst (c_assign c)) -> NoDup (map fst (c_ids c)) ->
  assign_reordered (c_assign c) (c_assign c') -> Permutation (c_ids c) (c_ids c') ->
  granted c p k = granted c' p k.
Proof.
  intros NA NI (a1 & PA & SS) PI. unfold granted.
  rewrite (alookup_perm (p_name p) _ _ NA PA).
  pose proof (same_sets_lookup _ _ (p_name p) SS) as L.
  destruct (alookup beq (p_name p) a1) as [s|], (alookup beq (p_name p) (c_assign c')) as [s'|];
    try contradiction; auto.
  rewrite (existsb_perm _ _ _ L).
  apply existsb_ext_in. intros idn _. rewrite (alookup_perm idn _ _ NI PI). auto.
Qed.

Theorem hash_order_irrelevant fixed c c' u k :
  wf_computed c -> hash_reordered c c' ->
  is_allowed_gen fixed c u k = is_allowed_gen fixed c' u k.
Proof.
  intros (_ & NA & NI) (ED & EM & PP & PA & PI).
  rewrite !is_allowed_decl. unfold decision_decl. rewrite <- EM, <- ED.
  rewrite <- (existsb_perm (fun np => priv_match_gen fixed (snd np) u) _ _ PP).
  rewrite <- (existsb_perm (fun np => priv_match_gen fixed (snd np) u && granted c' (snd np) k) _ _ PP).
  rewrite (existsb_ext_in (fun np => priv_match_gen fixed (snd np) u && granted c (snd np) k)
                          (fun np => priv_match_gen fixed (snd np) u && granted c' (snd np) k)); auto.
  intros np _. f_equal. apply granted_reordered; auto.
Qed.

(* the queryParameters HashMap of one privilege *)
Theorem query_hash_order_irrelevant qm qm' q :
  Permutation qm qm' -> query_match qm q = query_match qm' q.
Proof. intros P. unfold query_match. apply forallb_perm; auto. Qed.

(* from_authorization_item produces a well-formed item (so the theorem above applies to it) *)
Lemma compute_wf it : wf_computed (compute it).
Proof.
  unfold wf_computed. destruct (sections it) as [[[[ps rs] ids] ras]|] eqn:S.
  - rewrite (compute_sections _ _ _ _ _ S). cbn [c_privs c_assign c_ids].
    repeat split; try apply of_pairs_nodup.
    apply (assign_roles_wf _ _ _ ras []). split; constructor.
  - rewrite (compute_nosections _ S). cbn. repeat split; constructor.
Qed.

Lemma compute_sets_nodup it : Forall (fun e => NoDup (snd e)) (c_assign (compute it)).
Proof.
  destruct (sections it) as [[[[ps rs] ids] ras]|] eqn:S.
  - rewrite (compute_sections _ _ _ _ _ S). cbn [c_assign].
    apply (assign_roles_wf _ _ _ ras []). split; constructor.
  - rewrite (compute_nosections _ S). constructor.
Qed.

(* the map key of every stored privilege is the privilege's own name (is_allowed looks the
   assignments up by the latter) *)
Lemma compute_priv_keys it n p : In (n, p) (c_privs (compute it)) -> p_name p = n.
Proof.
  destruct (sections it) as [[[[ps rs] ids] ras]|] eqn:S.
  - rewrite (compute_sections _ _ _ _ _ S). cbn [c_privs]. intros I.
    apply dict_of_values_in in I. tauto.
  - rewrite (compute_nosections _ S). cbn. tauto.
Qed.

(* ============================================================================================== *)
(* 7. listing order of the four sections                                                           *)
(* ============================================================================================== *)
Definition listing_permuted (it it' : item) : Prop :=
  it_default it = it_default it' /\ it_mode it = it_mode it' /\
  match sections it, sections it' with
  | Some (ps, rs, ids, ras), Some (ps', rs', ids', ras') =>
      Permutation ps ps' /\ Permutation rs rs' /\ Permutation ids ids' /\ Permutation ras ras'
  | None, None => True
  | _, _ => False
  end.

Lemma existsb_perm_ext {A} (f g : A -> bool) l l' :
  Permutation l l' -> (forall x, f x = g x) -> existsb f l = existsb g l'.
Proof. intros P E. rewrite (existsb_perm f _ _ P). apply existsb_ext_in. auto. Qed.

Lemma spec_granted_perm rs rs' ids ids' ras ras' p k :
  Permutation rs rs' -> Permutation ids ids' -> Permutation ras ras' ->
  spec_granted rs ids ras p k = spec_granted rs' ids' ras' p k.
Proof.
  intros PR PI PA. unfold spec_granted. apply existsb_perm_ext; auto.
  intros ra. f_equal.
  - apply existsb_perm; auto.
  - apply existsb_ext_in. intros idn _. apply existsb_perm; auto.
Qed.

Lemma spec_allowed_perm it it' u k : listing_permuted it it' -> spec_allowed it u k = spec_allowed it' u k.
Proof.
  intros (ED & EM & H). unfold spec_allowed. rewrite <- ED, <- EM.
  destruct (sections it) as [[[[ps rs] ids] ras]|], (sections it') as [[[[ps' rs'] ids'] ras']|];
    try contradiction; auto.
  destruct H as (PP & PR & PI & PA).
  rewrite (existsb_perm_ext (fun p => priv_match_spec p u && spec_granted rs ids ras p k)
                            (fun p => priv_match_spec p u && spec_granted rs' ids' ras' p k) _ _ PP).
  2:{ intros p. f_equal. apply spec_granted_perm; auto. }
  rewrite (existsb_perm (fun p => priv_match_spec p u) _ _ PP). auto.
Qed.

Lemma has_dups_perm it it' : listing_permuted it it' -> has_duplicate_names it = has_duplicate_names it'.
Proof.
  intros (_ & _ & H). unfold has_duplicate_names.
  destruct (sections it) as [[[[ps rs] ids] ras]|], (sections it') as [[[[ps' rs'] ids'] ras']|];
    try contradiction; auto.
  destruct H as (PP & PR & PI & PA).
  rewrite (dupb_perm _ _ (Permutation_map p_name PP)), (dupb_perm _ _ (Permutation_map r_name PR)),
          (dupb_perm _ _ (Permutation_map i_name PI)), (existsb_perm _ _ _ PP). auto.
Qed.

Theorem listing_order_irrelevant it it' u k :
  has_duplicate_names it = false -> listing_permuted it it' ->
  is_allowed (compute it) u k = is_allowed (compute it') u k.
Proof.
  intros H P. rewrite !decision_equals_spec; auto.
  - apply spec_allowed_perm; auto.
  - rewrite <- (has_dups_perm _ _ P); auto.
Qed.

(* ============================================================================================== *)
(* 8. letter case of the request's path and query                                                  *)
(* ============================================================================================== *)

(* a per-byte change of ASCII letter case: anything that lower-casing undoes.  [lower_byte] and
   [upper_byte] are instances; so is any random mixture.  Bytes >= 128 must be left alone: case
   changes of non-ASCII letters are outside the model (DESIGN 2.1). *)
Definition case_change (f : N -> N) : Prop := forall b, lower_byte (f b) = lower_byte b.

Ltac nb :=
  repeat match goal with
  | H : _ && _ = true |- _ => apply andb_true_iff in H; destruct H
  | H : _ && _ = false |- _ => apply andb_false_iff in H; destruct H
  | H : (_ <=? _) = true |- _ => apply N.leb_le in H
  | H : (_ <=? _) = false |- _ => apply N.leb_gt in H
  | H : (_ =? _) = true |- _ => apply N.eqb_eq in H
  | H : (_ =? _) = false |- _ => apply N.eqb_neq in H
  end.

Lemma case_change_lower : case_change lower_byte.
Proof.
  intros b. unfold lower_byte. destruct (is_upper b) eqn:U; [|rewrite U; auto].
  destruct (is_upper (b + 32)) eqn:V; auto. unfold is_upper in *. nb; lia.
Qed.

Lemma case_change_upper : case_change upper_byte.
Proof.
  intros b. unfold upper_byte. destruct (is_lower b) eqn:L; auto.
  unfold lower_byte, is_upper, is_lower in *.
  destruct ((65 <=? b - 32) && (b - 32 <=? 90)) eqn:V; destruct ((65 <=? b) && (b <=? 90)) eqn:W;
    nb; lia.
Qed.

Lemma lower_map_case f s : case_change f -> lower (map f s) = lower s.
Proof. intros C. unfold lower. rewrite map_map. apply map_ext. auto. Qed.

Lemma lower_byte_sep x c : is_upper c = false -> is_lower c = false -> lower_byte x = c -> x = c.
Proof.
  unfold lower_byte, is_upper, is_lower. intros U L. destruct ((65 <=? x) && (x <=? 90)) eqn:V; auto.
  intros E. subst c. nb; lia.
Qed.

Lemma case_change_sep f c :
  case_change f -> is_upper c = false -> is_lower c = false -> forall b, (f b =? c) = (b =? c).
Proof.
  intros C U L b. pose proof (C b) as H.
  assert (LC : lower_byte c = c) by (unfold lower_byte; rewrite U; auto).
  destruct (b =? c) eqn:E.
  - apply N.eqb_eq in E; subst b. apply N.eqb_eq. apply lower_byte_sep; auto. congruence.
  - destruct (f b =? c) eqn:F; auto. apply N.eqb_eq in F. rewrite F, LC in H.
    symmetry in H. apply lower_byte_sep in H; auto. subst. rewrite N.eqb_refl in E. discriminate.
Qed.

Lemma split_on_map f c s :
  (forall b, (f b =? c) = (b =? c)) -> split_on c (map f s) = map (map f) (split_on c s).
Proof.
  intros H. induction s as [|x t IH]; simpl; auto.
  rewrite H. destruct (x =? c); simpl; rewrite IH; auto.
  destruct (split_on c t); simpl; auto.
Qed.

Lemma split_once_map f c s :
  (forall b, (f b =? c) = (b =? c)) ->
  split_once c (map f s) = (map f (fst (split_once c s)), option_map (map f) (snd (split_once c s))).
Proof.
  intros H. induction s as [|x t IH]; simpl; auto.
  rewrite H. destruct (x =? c); simpl; auto.
  rewrite IH. destruct (split_once c t) as [a b]; simpl; auto.
Qed.

Definition pair_map (f : N -> N) (kv : bytes * bytes) : bytes * bytes := (map f (fst kv), map f (snd kv)).

Lemma query_pair_map f pair :
  (forall b, (f b =? EQS) = (b =? EQS)) ->
  query_pair (map f pair) = map (pair_map f) (query_pair pair).
Proof.
  intros H. unfold query_pair. rewrite split_once_map by auto.
  destruct (split_once EQS pair) as [k v]; simpl. destruct k; simpl; auto.
  destruct v; simpl; auto.
Qed.

Lemma query_pairs_map f q :
  case_change f -> query_pairs (map f q) = map (pair_map f) (query_pairs q).
Proof.
  intros C. unfold query_pairs.
  rewrite split_on_map by (apply case_change_sep; auto).
  induction (split_on AMP q) as [|x t IH]; simpl; auto.
  rewrite query_pair_map by (apply case_change_sep; auto). rewrite IH, map_app. auto.
Qed.

Lemma find_map {A T} (P : T -> bool) (g : A -> T) l :
  find P (map g l) = option_map g (find (fun x => P (g x)) l).
Proof. induction l; simpl; auto. destruct (P (g a)); auto. Qed.

Lemma find_ext {A} (P Q : A -> bool) l : (forall x, P x = Q x) -> find P l = find Q l.
Proof. intros H. induction l; simpl; auto. rewrite H, IHl. auto. Qed.

Lemma qp_match_pairs_case f pairs kv :
  case_change f -> qp_match (map (pair_map f) pairs) kv = qp_match pairs kv.
Proof.
  intros C. unfold qp_match, qp_find. rewrite find_map.
  rewrite (find_ext _ (fun kv0 => beq (lower (fst kv0)) (lower (fst kv)))).
  2:{ intros x. unfold pair_map. cbn [fst]. rewrite lower_map_case; auto. }
  destruct (find _ pairs) as [[k' v']|]; simpl; auto. rewrite lower_map_case; auto.
Qed.

Lemma qp_match_rule_case f pairs kv :
  case_change f -> qp_match pairs (pair_map f kv) = qp_match pairs kv.
Proof.
  intros C. unfold qp_match, qp_find, pair_map. cbn [fst snd]. rewrite !lower_map_case; auto.
Qed.

Lemma priv_match_url_case fixed f p u :
  case_change f -> priv_match_gen fixed p (url_map (map f) u) = priv_match_gen fixed p u.
Proof.
  intros C. unfold priv_match_gen, url_map. cbn [u_path u_query]. rewrite lower_map_case by auto.
  f_equal. destruct (p_query p); auto. unfold query_match. rewrite query_pairs_map by auto.
  apply forallb_ext_in. intros kv _. apply qp_match_pairs_case; auto.
Qed.

Lemma decision_url_ext fixed c u u' k :
  (forall p, priv_match_gen fixed p u = priv_match_gen fixed p u') ->
  is_allowed_gen fixed c u k = is_allowed_gen fixed c u' k.
Proof.
  intros H. rewrite !is_allowed_decl. unfold decision_decl.
  rewrite (existsb_ext_in (fun np => priv_match_gen fixed (snd np) u && granted c (snd np) k)
                          (fun np => priv_match_gen fixed (snd np) u' && granted c (snd np) k)).
  2:{ intros np _. rewrite H; auto. }
  rewrite (existsb_ext_in (fun np => priv_match_gen fixed (snd np) u)
                          (fun np => priv_match_gen fixed (snd np) u')); auto.
Qed.

Theorem request_case_irrelevant fixed f c u k :
  case_change f -> is_allowed_gen fixed c (url_map (map f) u) k = is_allowed_gen fixed c u k.
Proof. intros C. apply decision_url_ext. intros p. apply priv_match_url_case; auto. Qed.

Corollary request_lower_upper fixed c u k :
  is_allowed_gen fixed c (url_map lower u) k = is_allowed_gen fixed c u k /\
  is_allowed_gen fixed c (url_map upper u) k = is_allowed_gen fixed c u k.
Proof.
  split; [apply (request_case_irrelevant fixed lower_byte) | apply (request_case_irrelevant fixed upper_byte)].
  - apply case_change_lower.
  - apply case_change_upper.
Qed.

(* ============================================================================================== *)
(* 9. letter case of the rule's path and query                                                     *)
(* ============================================================================================== *)
Lemma priv_match_spec_recase f p u :
  case_change f -> priv_match_spec (priv_recase (map f) p) u = priv_match_spec p u.
Proof.
  intros C. unfold priv_match_spec, priv_recase. cbn [p_path p_query]. rewrite lower_map_case by auto.
  f_equal. destruct (p_query p) as [listed|]; cbn [option_map]; auto.
  rewrite forallb_map. apply forallb_ext_in. intros kv _.
  apply (qp_match_rule_case f _ kv); auto.
Qed.

Lemma sections_recase g it :
  sections (item_recase g it) =
  match sections it with
  | Some (ps, rs, ids, ras) => Some (map (priv_recase g) ps, rs, ids, ras)
  | None => None
  end.
Proof.
  unfold sections, item_recase. cbn [it_rules].
  destruct (it_rules it) as [[ps rs ids ras]|]; cbn; auto.
  destruct ps, rs, ids, ras; cbn; auto.
Qed.

Lemma qkeys_dup_recase f p : case_change f -> qkeys_dup (priv_recase (map f) p) = qkeys_dup p.
Proof.
  intros C. unfold qkeys_dup, priv_recase. cbn [p_query].
  destruct (p_query p) as [listed|]; cbn [option_map]; auto.
  rewrite map_map. cbn [fst]. f_equal. apply map_ext. intros kv. apply lower_map_case; auto.
Qed.

Lemma has_dups_recase f it :
  case_change f -> has_duplicate_names (item_recase (map f) it) = has_duplicate_names it.
Proof.
  intros C. unfold has_duplicate_names. rewrite sections_recase.
  destruct (sections it) as [[[[ps rs] ids] ras]|]; auto.
  rewrite map_map. cbn [priv_recase p_name]. rewrite existsb_map.
  rewrite (existsb_ext_in (fun x => qkeys_dup (priv_recase (map f) x)) qkeys_dup); auto.
  intros p _. apply qkeys_dup_recase; auto.
Qed.

Lemma spec_allowed_recase f it u k :
  case_change f -> spec_allowed (item_recase (map f) it) u k = spec_allowed it u k.
Proof.
  intros C. unfold spec_allowed. rewrite sections_recase. cbn [item_recase it_mode it_default].
  destruct (sections it) as [[[[ps rs] ids] ras]|]; auto.
  rewrite !existsb_map.
  rewrite (existsb_ext_in
             (fun x => priv_match_spec (priv_recase (map f) x) u && spec_granted rs ids ras (priv_recase (map f) x) k)
             (fun p => priv_match_spec p u && spec_granted rs ids ras p k)).
  2:{ intros p _. rewrite priv_match_spec_recase by auto. reflexivity. }
  rewrite (existsb_ext_in (fun x => priv_match_spec (priv_recase (map f) x) u) (fun p => priv_match_spec p u)); auto.
  intros p _. apply priv_match_spec_recase; auto.
Qed.

Theorem rule_case_irrelevant f it u k :
  has_duplicate_names it = false -> case_change f ->
  is_allowed (compute (item_recase (map f) it)) u k = is_allowed (compute it) u k.
Proof.
  intros H C. rewrite !decision_equals_spec; auto.
  - apply spec_allowed_recase; auto.
  - rewrite has_dups_recase; auto.
Qed.

(* ============================================================================================== *)
(* 10. the pinned commit (finding F1) and the refutations of the full-strength statements          *)
(* ============================================================================================== *)
Lemma lower_no_upper s : has_upper s = false -> lower s = s.
Proof.
  unfold has_upper, lower. induction s as [|x t IH]; simpl; auto.
  intros H. apply orb_false_iff in H as [H1 H2]. rewrite IH by auto. unfold lower_byte. rewrite H1. auto.
Qed.

Lemma decision_priv_ext f1 f2 c u k :
  (forall np, In np (c_privs c) -> priv_match_gen f1 (snd np) u = priv_match_gen f2 (snd np) u) ->
  is_allowed_gen f1 c u k = is_allowed_gen f2 c u k.
Proof.
  intros H. rewrite !is_allowed_decl. unfold decision_decl.
  rewrite (existsb_ext_in (fun np => priv_match_gen f1 (snd np) u && granted c (snd np) k)
                          (fun np => priv_match_gen f2 (snd np) u && granted c (snd np) k)).
  2:{ intros np I. rewrite H; auto. }
  rewrite (existsb_ext_in (fun np => priv_match_gen f1 (snd np) u)
                          (fun np => priv_match_gen f2 (snd np) u)); auto.
Qed.

Theorem current_equals_fixed it u k :
  KnownClass_C02_F1 it = false -> is_allowed_current (compute it) u k = is_allowed (compute it) u k.
Proof.
  intros H. apply decision_priv_ext. intros [n p] I. cbn [snd].
  unfold KnownClass_C02_F1 in H.
  destruct (sections it) as [[[[ps rs] ids] ras]|] eqn:S.
  - rewrite (compute_sections _ _ _ _ _ S) in I. cbn [c_privs] in I.
    apply dict_of_values_in in I as [I _].
    assert (U : has_upper (p_path p) = false).
    { destruct (has_upper (p_path p)) eqn:E; auto.
      assert (existsb (fun p => has_upper (p_path p)) ps = true) by (apply existsb_exists; eauto).
      congruence. }
    unfold priv_match_gen, rule_path. rewrite (lower_no_upper _ U). auto.
  - rewrite (compute_nosections _ S) in I. destruct I.
Qed.

Theorem current_equals_spec_partial it u k :
  KnownClass_C02_F1 it = false -> has_duplicate_names it = false ->
  is_allowed_current (compute it) u k = spec_allowed it u k.
Proof. intros H1 H2. rewrite current_equals_fixed by auto. apply decision_equals_spec; auto. Qed.

(* ---- witnesses ---- *)
Definition w_user : bytes := [117].                                   (* "u" *)
Definition w_claims : claims :=
  {| k_user := w_user; k_groups := []; k_proc := []; k_exe := []; k_elevated := true |}.
Definition w_deny : bytes := [100; 101; 110; 121].                     (* "deny" *)
Definition w_item (ps : list privilege) : item :=
  {| it_default := w_deny; it_mode := Lit.enforce;
     it_rules := Some {|
       s_privileges := Some ps;
       s_roles := Some [ {| r_name := [114]; r_privs := [[112]] |} ];
       s_identities := Some [ {| i_name := [105]; i_user := Some w_user; i_group := None;
                                 i_exe := None; i_proc := None |} ];
       s_assignments := Some [ {| a_role := [114]; a_ids := [[105]] |} ] |} |}.
Definition w_priv (path : bytes) (q : option (list (bytes * bytes))) : privilege :=
  {| p_name := [112]; p_path := path; p_query := q |}.

(* F1: rule path "/Test", request "/test" *)
Definition w_f1_item : item := w_item [ w_priv [47; 84; 101; 115; 116] None ].
Definition w_f1_url : url := {| u_path := [47; 116; 101; 115; 116]; u_query := [] |}.

Lemma f1_witness :
  KnownClass_C02_F1 w_f1_item = true /\ has_duplicate_names w_f1_item = false /\
  is_allowed_current (compute w_f1_item) w_f1_url w_claims = false /\
  spec_allowed w_f1_item w_f1_url w_claims = true /\
  is_allowed (compute w_f1_item) w_f1_url w_claims = true.
Proof. vm_compute. repeat split. Qed.

Lemma rule_case_refuted_current :
  exists f it u k, case_change f /\ has_duplicate_names it = false /\
    is_allowed_current (compute (item_recase (map f) it)) u k <> is_allowed_current (compute it) u k.
Proof.
  exists lower_byte, w_f1_item, w_f1_url, w_claims. split; [apply case_change_lower|].
  split; [reflexivity|]. vm_compute. discriminate.
Qed.

(* F2: two privileges named "p" with paths "/a" and "/b", request "/a" *)
Definition w_f2_pa := w_priv [47; 97] None.
Definition w_f2_pb := w_priv [47; 98] None.
Definition w_f2_url : url := {| u_path := [47; 97]; u_query := [] |}.

Lemma dup_names_refuted :
  exists it it' u k, has_duplicate_names it = true /\ listing_permuted it it' /\
    is_allowed (compute it) u k <> is_allowed (compute it') u k.
Proof.
  exists (w_item [w_f2_pa; w_f2_pb]), (w_item [w_f2_pb; w_f2_pa]), w_f2_url, w_claims.
  split; [reflexivity|]. split.
  - unfold listing_permuted. cbn. repeat split; auto. apply perm_swap.
  - vm_compute. discriminate.
Qed.

Lemma dup_names_spec_refuted :
  exists it u k, has_duplicate_names it = true /\ is_allowed (compute it) u k <> spec_allowed it u k.
Proof.
  exists (w_item [w_f2_pa; w_f2_pb]), w_f2_url, w_claims. split; [reflexivity|]. vm_compute. discriminate.
Qed.

(* F2 (query keys equal up to case): {"A":"1","a":"2"}, request "/a?a=2" *)
Definition w_f2q_item : item :=
  w_item [ w_priv [47; 97] (Some [([65], [49]); ([97], [50])]) ].
Definition w_f2q_url : url := {| u_path := [47; 97]; u_query := [97; 61; 50] |}.

Lemma dup_qkeys_refuted :
  exists f it u k, case_change f /\ has_duplicate_names it = true /\
    is_allowed (compute (item_recase (map f) it)) u k <> is_allowed (compute it) u k.
Proof.
  exists lower_byte, w_f2q_item, w_f2q_url, w_claims. split; [apply case_change_lower|].
  split; [reflexivity|]. vm_compute. discriminate.
Qed.

(* ============================================================================================== *)
(* 11. what "matches" and "granted" mean, in Prop                                                  *)
(* ============================================================================================== *)
Lemma starts_with_iff s p : starts_with s p = true <-> exists r, s = p ++ r.
Proof.
  revert s. induction p as [|y p IH]; intros s; simpl.
  - destruct s; simpl; (split; auto; intros _; eexists; reflexivity).
  - destruct s as [|x s]; simpl.
    + split; [discriminate|]. intros (r & E); discriminate.
    + rewrite andb_true_iff, N.eqb_eq, IH. split.
      * intros (E & r & R). subst. exists r. auto.
      * intros (r & E). inversion E; subst. eauto.
Qed.

Lemma find_first {A} (P : A -> bool) l x :
  find P l = Some x <->
  exists pre post, l = pre ++ x :: post /\ P x = true /\ forall y, In y pre -> P y = false.
Proof.
  induction l as [|a t IH]; simpl.
  - split; [discriminate|]. intros (pre & post & E & _). destruct pre; discriminate.
  - destruct (P a) eqn:Pa.
    + split.
      * intros H; inversion H; subst. exists [], t. repeat split; auto. intros y [].
      * intros (pre & post & E & Px & Hpre). destruct pre as [|b pre].
        -- inversion E; subst. auto.
        -- inversion E; subst. specialize (Hpre b (or_introl eq_refl)). congruence.
    + rewrite IH. split.
      * intros (pre & post & E & Px & Hpre). exists (a :: pre), post. subst. repeat split; auto.
        intros y [->|I]; auto.
      * intros (pre & post & E & Px & Hpre). destruct pre as [|b pre].
        -- inversion E; subst. congruence.
        -- inversion E; subst. exists pre, post. repeat split; auto. intros y I. apply Hpre. right; auto.
Qed.

(* [v'] is the value of the FIRST request pair whose key equals [k] up to case *)
Definition first_value (pairs : list (bytes * bytes)) (k v' : bytes) : Prop :=
  exists pre k' post, pairs = pre ++ (k', v') :: post /\ lower k' = lower k /\
                      forall kv, In kv pre -> lower (fst kv) <> lower k.

Lemma qp_match_iff pairs k v :
  qp_match pairs (k, v) = true <-> exists v', first_value pairs k v' /\ lower v' = lower v.
Proof.
  unfold qp_match, qp_find, first_value. cbn [fst snd]. split.
  - destruct (find _ pairs) as [[k' v']|] eqn:F; try discriminate.
    intros E. apply rb_beq_eq in E. apply find_first in F as (pre & post & L & Pk & Hpre).
    cbn [fst] in Pk. apply rb_beq_eq in Pk.
    exists v'. split; auto. exists pre, k', post. repeat split; auto.
    intros kv I. apply Hpre in I. apply rb_beq_neq in I. auto.
  - intros (v' & (pre & k' & post & L & Ek & Hpre) & Ev).
    assert (F : find (fun kv => beq (lower (fst kv)) (lower k)) pairs = Some (k', v')).
    { apply find_first. exists pre, post. repeat split; auto.
      - cbn [fst]. apply rb_beq_eq; auto.
      - intros y I. apply rb_beq_neq. auto. }
    rewrite F. apply rb_beq_eq; auto.
Qed.

Theorem priv_match_spec_iff p u :
  priv_match_spec p u = true <->
  (exists rest, lower (u_path u) = lower (p_path p) ++ rest) /\
  (forall listed, p_query p = Some listed ->
     forall k v, In (k, v) listed ->
       exists v', first_value (query_pairs (u_query u)) k v' /\ lower v' = lower v).
Proof.
  unfold priv_match_spec. rewrite andb_true_iff, starts_with_iff.
  destruct (p_query p) as [listed|].
  - rewrite forallb_forall. split.
    + intros [H1 H2]. split; auto. intros l E k v I. inversion E; subst.
      apply qp_match_iff. apply (H2 (k, v)); auto.
    + intros [H1 H2]. split; auto. intros [k v] I. apply qp_match_iff. eapply H2; eauto.
  - split.
    + intros [H1 _]. split; auto. intros l E; discriminate.
    + intros [H1 _]. split; auto.
Qed.

Definition Grants (rs : list role) (ids : list identity) (ras : list assignment)
           (p : privilege) (k : claims) : Prop :=
  exists ra rl idn i,
    In ra ras /\ In rl rs /\ r_name rl = a_role ra /\ In (p_name p) (r_privs rl) /\
    In idn (a_ids ra) /\ In i ids /\ i_name i = idn /\ id_match i k = true.

Lemma spec_granted_iff rs ids ras p k : spec_granted rs ids ras p k = true <-> Grants rs ids ras p k.
Proof.
  unfold spec_granted, Grants. split.
  - intros H. apply existsb_exists in H as (ra & Ira & H). apply andb_true_iff in H as [H1 H2].
    apply existsb_exists in H1 as (rl & Irl & H1). apply andb_true_iff in H1 as [H1 H1'].
    apply rb_beq_eq in H1. apply existsb_beq_in in H1'.
    apply existsb_exists in H2 as (idn & Iidn & H2).
    apply existsb_exists in H2 as (i & Ii & H2). apply andb_true_iff in H2 as [H2 IM].
    apply rb_beq_eq in H2. exists ra, rl, idn, i. repeat split; auto.
  - intros (ra & rl & idn & i & Ira & Irl & E1 & I1 & I2 & Ii & E2 & IM).
    apply existsb_exists. exists ra. split; auto. apply andb_true_iff. split.
    + apply existsb_exists. exists rl. split; auto. apply andb_true_iff. split.
      * apply rb_beq_eq; auto.
      * apply existsb_beq_in; auto.
    + apply existsb_exists. exists idn. split; auto.
      apply existsb_exists. exists i. split; auto. apply andb_true_iff. split; auto.
      apply rb_beq_eq; auto.
Qed.

Lemma id_match_iff i k :
  id_match i k = true <->
  (forall n, i_user i = Some n -> n = k_user k) /\
  (forall n, i_proc i = Some n -> n = k_proc k) /\
  (forall n, i_exe i = Some n -> path_eq n (k_exe k) = true) /\
  (forall g, i_group i = Some g -> In g (k_groups k)).
Proof.
  unfold id_match, opt_check. rewrite !andb_true_iff.
  destruct (i_user i), (i_proc i), (i_exe i), (i_group i);
    rewrite ?rb_beq_eq, ?existsb_beq_in;
    (split; [ intros H; repeat split; intros ? E; inversion E; subst; tauto
            | intros (H1 & H2 & H3 & H4); repeat split; auto ]).
Qed.

(* the property text, as a proposition *)
Theorem spec_allowed_reading it ps rs ids ras u k :
  sections it = Some (ps, rs, ids, ras) -> parse_mode (it_mode it) <> Disabled ->
  (spec_allowed it u k = true <->
     (exists p, In p ps /\ priv_match_spec p u = true /\ Grants rs ids ras p k) \/
     ((forall p, In p ps -> priv_match_spec p u = false) /\ default_of it = true)).
Proof.
  intros S M. unfold spec_allowed. rewrite S. fold (default_of it).
  assert (X : (if existsb (fun p => priv_match_spec p u && spec_granted rs ids ras p k) ps then true
               else if existsb (fun p => priv_match_spec p u) ps then false else default_of it) = true <->
              (exists p, In p ps /\ priv_match_spec p u = true /\ Grants rs ids ras p k) \/
              ((forall p, In p ps -> priv_match_spec p u = false) /\ default_of it = true)).
  { destruct (existsb (fun p => priv_match_spec p u && spec_granted rs ids ras p k) ps) eqn:E1.
    - apply existsb_exists in E1 as (p & I & H). apply andb_true_iff in H as [H1 H2].
      apply spec_granted_iff in H2. split; auto. intros _. left. eauto.
    - destruct (existsb (fun p => priv_match_spec p u) ps) eqn:E2.
      + split; [discriminate|]. intros [(p & I & H1 & H2) | (H & _)].
        * apply spec_granted_iff in H2.
          assert (existsb (fun p => priv_match_spec p u && spec_granted rs ids ras p k) ps = true).
          { apply existsb_exists. exists p. split; auto. rewrite H1, H2. auto. }
          congruence.
        * apply existsb_exists in E2 as (p & I & H1). rewrite H in H1 by auto. discriminate.
      + split.
        * intros D. right. split; auto. intros p I. destruct (priv_match_spec p u) eqn:H; auto.
          assert (existsb (fun p => priv_match_spec p u) ps = true) by (apply existsb_exists; eauto).
          congruence.
        * intros [(p & I & H1 & _) | (_ & D)]; auto.
          assert (existsb (fun p => priv_match_spec p u) ps = true) by (apply existsb_exists; eauto).
          congruence. }
  destruct (parse_mode (it_mode it)); try contradiction; auto.
Qed.

Lemma spec_disabled it u k : parse_mode (it_mode it) = Disabled -> spec_allowed it u k = true.
Proof. intros H. unfold spec_allowed. rewrite H. auto. Qed.

Lemma decision_disabled fixed c u k : c_mode c = Disabled -> is_allowed_gen fixed c u k = true.
Proof. intros H. unfold is_allowed_gen. rewrite H. auto. Qed.

Lemma spec_nosections it u k :
  sections it = None -> parse_mode (it_mode it) <> Disabled -> spec_allowed it u k = default_of it.
Proof.
  intros S M. unfold spec_allowed. rewrite S. fold (default_of it).
  destruct (parse_mode (it_mode it)); try contradiction; auto.
Qed.

Lemma missing_sections_default it u k :
  sections it = None -> parse_mode (it_mode it) <> Disabled ->
  is_allowed (compute it) u k = default_of it.
Proof.
  intros S M. rewrite decision_equals_spec.
  - apply spec_nosections; auto.
  - unfold has_duplicate_names. rewrite S. auto.
Qed.

Lemma compute_mode_default it :
  c_mode (compute it) = parse_mode (it_mode it) /\ c_default (compute it) = default_of it.
Proof.
  destruct (sections it) as [[[[ps rs] ids] ras]|] eqn:S.
  - rewrite (compute_sections _ _ _ _ _ S). auto.
  - rewrite (compute_nosections _ S). auto.
Qed.

Lemma disabled_allows fixed it u k :
  parse_mode (it_mode it) = Disabled -> is_allowed_gen fixed (compute it) u k = true.
Proof. intros H. apply decision_disabled. rewrite (proj1 (compute_mode_default it)). auto. Qed.

(* ============================================================================================== *)
(* 12. order inside a role's privilege list and an assignment's identity list                      *)
(* ============================================================================================== *)
Definition role_eqv (r r' : role) : Prop := r_name r = r_name r' /\ Permutation (r_privs r) (r_privs r').
Definition asg_eqv (a a' : assignment) : Prop := a_role a = a_role a' /\ Permutation (a_ids a) (a_ids a').

Definition inner_permuted (it it' : item) : Prop :=
  it_default it = it_default it' /\ it_mode it = it_mode it' /\
  match sections it, sections it' with
  | Some (ps, rs, ids, ras), Some (ps', rs', ids', ras') =>
      ps = ps' /\ Forall2 role_eqv rs rs' /\ ids = ids' /\ Forall2 asg_eqv ras ras'
  | None, None => True
  | _, _ => False
  end.

Lemma existsb_Forall2 {A} (R : A -> A -> Prop) (f g : A -> bool) l l' :
  Forall2 R l l' -> (forall x y, R x y -> f x = g y) -> existsb f l = existsb g l'.
Proof. induction 1; simpl; auto. intros H'. rewrite (H' _ _ H), IHForall2; auto. Qed.

Lemma Forall2_map_eq {A T} (R : A -> A -> Prop) (h : A -> T) l l' :
  Forall2 R l l' -> (forall x y, R x y -> h x = h y) -> map h l = map h l'.
Proof. induction 1; simpl; auto. intros H'. rewrite (H' _ _ H), IHForall2; auto. Qed.

Lemma spec_granted_inner rs rs' ids ras ras' p k :
  Forall2 role_eqv rs rs' -> Forall2 asg_eqv ras ras' ->
  spec_granted rs ids ras p k = spec_granted rs' ids ras' p k.
Proof.
  intros FR FA. unfold spec_granted. apply (existsb_Forall2 asg_eqv _ _ _ _ FA).
  intros a a' [E P]. f_equal.
  - apply (existsb_Forall2 role_eqv _ _ _ _ FR). intros r r' [En Pp]. rewrite En, E. f_equal.
    apply existsb_perm; auto.
  - apply existsb_perm; auto.
Qed.

Theorem inner_order_irrelevant it it' u k :
  has_duplicate_names it = false -> inner_permuted it it' ->
  is_allowed (compute it) u k = is_allowed (compute it') u k.
Proof.
  intros H (ED & EM & S).
  assert (H' : has_duplicate_names it' = false).
  { unfold has_duplicate_names in *.
    destruct (sections it) as [[[[ps rs] ids] ras]|], (sections it') as [[[[ps' rs'] ids'] ras']|];
      try contradiction; auto.
    destruct S as (-> & FR & -> & FA).
    rewrite <- (Forall2_map_eq role_eqv r_name _ _ FR); auto. intros x y [E _]; auto. }
  rewrite !decision_equals_spec by auto.
  unfold spec_allowed. rewrite <- ED, <- EM.
  destruct (sections it) as [[[[ps rs] ids] ras]|], (sections it') as [[[[ps' rs'] ids'] ras']|];
    try contradiction; auto.
  destruct S as (-> & FR & -> & FA).
  rewrite (existsb_ext_in (fun p => priv_match_spec p u && spec_granted rs ids' ras p k)
                          (fun p => priv_match_spec p u && spec_granted rs' ids' ras' p k)); auto.
  intros p _. f_equal. apply spec_granted_inner; auto.
Qed.
