(* termination / progress of the telemetry reader's batching loop (Model/BatchLoop.v) *)
From GPA Require Import BatchLoop.
From Coq Require Import List NArith Bool Lia Arith.
Import ListNotations.

Section Proofs.
Context {E : Type} (over : list E -> bool).
Notation state := (@state E).
Notation step := (step over).
Notation run := (run over).
Notation to_outer := (to_outer over).

(* potential: every step of the machine lowers it *)
Definition mu (s : state) : nat :=
  match at_pc s with
  | Outer => 4 * length (pend s) + 1
  | Inner => 4 * length (pend s) +
             (if more s then match batch s with [] => 0 | _ :: _ => 3 end else 2)
  end.
(* an inner state with nothing added yet and add_more_events still true has something to pop *)
Definition wf (s : state) : Prop :=
  at_pc s = Inner -> batch s = [] -> more s = true -> pend s <> [].

Lemma app_not_nil {A} (l : list A) x : l ++ [x] <> [].
Proof. destruct l; discriminate. Qed.

Lemma step_inv s l s' : wf s -> step s = Next l s' -> wf s' /\ mu s' < mu s.
Proof.
  unfold wf, BatchLoop.step, step_gen, mu. destruct s as [p b m c sn dr]; cbn.
  destruct c.
  - destruct p as [|e p']; [discriminate|]. intros _ H; inversion H; subst; cbn.
    split; [intros _ _ _; discriminate | lia].
  - destruct p as [|e p'].
    + intros W H. inversion H; subst; cbn. split; [discriminate|].
      destruct m; [|lia]. destruct b; [exfalso; now apply W|lia].
    + destruct m.
      * destruct (over (b ++ [e])).
        -- destruct b; intros _ H; inversion H; subst; cbn; (split; [intros _ _ ?; discriminate | lia]).
        -- intros _ H; inversion H; subst; cbn. split; [intros _ B; now apply app_not_nil in B|].
           destruct (b ++ [e]) eqn:Q; [now apply app_not_nil in Q|]. destruct b; lia.
      * intros _ H; inversion H; subst; cbn. split; [discriminate|lia].
Qed.

Lemma run_enough fuel : forall s, wf s -> mu s < fuel -> exists r, run fuel s = Some r.
Proof.
  induction fuel as [|f IH]; intros s W L; [lia|].
  cbn [BatchLoop.run run_gen]. fold (step s). destruct (step s) as [r|l s'] eqn:S; [eauto|].
  destruct (step_inv _ _ _ W S) as [W' D]. apply IH; [assumption|lia].
Qed.

Lemma wf_init evs : wf (init evs).
Proof. unfold wf, init; cbn. discriminate. Qed.

(* TERMINATION: for every event list, whatever the sizes, 4 * n + 2 steps suffice *)
Theorem send_events_terminates (evs : list E) : exists r, send_events over evs = Some r.
Proof.
  unfold send_events. apply run_enough; [apply wf_init|].
  unfold mu, init, fuel_for; cbn. rewrite rev_length. lia.
Qed.

Lemma run_mono fuel : forall fuel' s r, run fuel s = Some r -> fuel <= fuel' -> run fuel' s = Some r.
Proof.
  induction fuel as [|f IH]; intros fuel' s r H L; [discriminate|].
  destruct fuel' as [|f']; [lia|]. cbn [BatchLoop.run run_gen] in *. fold (step s) in *.
  destruct (step s); [assumption|]. apply IH; [assumption|lia].
Qed.

(* the final state is at the outer test with nothing pending *)
Lemma run_final fuel : forall s r, run fuel s = Some r -> pend r = [] /\ at_pc r = Outer.
Proof.
  induction fuel as [|f IH]; intros s r H; [discriminate|].
  cbn [BatchLoop.run run_gen] in H. fold (step s) in H. destruct (step s) as [r'|l s'] eqn:S; [|eauto].
  inversion H; subst. unfold BatchLoop.step, step_gen in S.
  destruct (at_pc s) eqn:C.
  - destruct (pend s) eqn:P; [|discriminate]. inversion S; subst. auto.
  - destruct (pend s), (more s); try discriminate;
      repeat match type of S with context [if ?c then _ else _] => destruct c end;
      try destruct (batch s); discriminate.
Qed.

(* PROGRESS, per step: what each kind of step does *)
Theorem step_progress s l s' : step s = Next l s' ->
  match l with
  | LInit => at_pc s = Outer /\ pend s' = pend s /\ pend s <> [] /\ batch s' = [] /\ more s' = true /\ at_pc s' = Inner
             /\ sent s' = sent s /\ dropped s' = dropped s
  | LMove => exists e, pend s = e :: pend s' /\ batch s' = batch s ++ [e] /\ sent s' = sent s /\ dropped s' = dropped s
  | LDrop => exists e, pend s = e :: pend s' /\ batch s = [] /\ batch s' = [] /\ dropped s' = e :: dropped s
             /\ sent s' = sent s /\ more s' = false /\ over [e] = true
  | LPushBack => pend s' = pend s /\ batch s <> [] /\ batch s' = batch s /\ more s' = false
                 /\ sent s' = sent s /\ dropped s' = dropped s
  | LSend => sent s' = batch s :: sent s /\ pend s' = pend s /\ at_pc s' = Outer /\ dropped s' = dropped s
             /\ (pend s = [] \/ more s = false)
  end.
Proof.
  unfold BatchLoop.step, step_gen. destruct s as [p b m c sn dr]; cbn.
  destruct c.
  - destruct p; [discriminate|]. intros H; inversion H; subst; cbn. repeat split; discriminate.
  - destruct p as [|e p'].
    + intros H; inversion H; subst; cbn. repeat split; auto.
    + destruct m.
      * destruct (over (b ++ [e])) eqn:O.
        -- destruct b; intros H; inversion H; subst; cbn.
           ++ exists e. repeat split; auto.
           ++ repeat split; auto; discriminate.
        -- intros H; inversion H; subst; cbn. exists e. repeat split; auto.
      * intros H; inversion H; subst; cbn. repeat split; auto.
Qed.

(* PROGRESS, per OUTER iteration.  [J s0 s]: the inner loop, started from the outer state s0,
   is in one of three situations *)
Definition J (s0 s : state) : Prop :=
  at_pc s = Inner /\ sent s = sent s0 /\
  ( (batch s = [] /\ more s = true /\ pend s = pend s0 /\ dropped s = dropped s0)
    \/ (batch s <> [] /\ dropped s = dropped s0 /\ length (pend s) < length (pend s0))
    \/ (batch s = [] /\ more s = false /\ exists e, pend s0 = e :: pend s /\ dropped s = e :: dropped s0) ).

(* outcome of one outer iteration: a non-empty batch was sent (>= 1 event moved out of the pending
   list), or exactly one event was dropped (and an empty batch "sent", i.e. nothing posted) *)
Definition iteration_result (s0 s' : state) : Prop :=
  at_pc s' = Outer /\ length (pend s') < length (pend s0) /\
  ( (exists b, b <> [] /\ sent s' = b :: sent s0 /\ dropped s' = dropped s0)
    \/ (exists e, pend s0 = e :: pend s' /\ sent s' = [] :: sent s0 /\ dropped s' = e :: dropped s0) ).

Lemma inner_to_outer fuel : forall s0 s s', pend s0 <> [] -> J s0 s -> to_outer fuel s = Some s' ->
  iteration_result s0 s'.
Proof.
  induction fuel as [|f IH]; intros s0 s s' NE Js H; [discriminate|].
  cbn [BatchLoop.to_outer] in H. fold (step s) in H.
  destruct (step s) as [r|l s1] eqn:S.
  - (* Done is impossible at Inner *)
    destruct Js as [C _]. unfold BatchLoop.step, step_gen in S. rewrite C in S.
    destruct (pend s), (more s); try discriminate;
      repeat match type of S with context [if ?c then _ else _] => destruct c end;
      try destruct (batch s); discriminate.
  - pose proof (step_progress _ _ _ S) as P. destruct Js as [C [Sn K]].
    destruct l.
    + destruct P as [CO _]. congruence.
    + (* Move *)
      destruct P as [e [Pp [Pb [Ps Pd]]]].
      assert (C1 : at_pc s1 = Inner).
      { unfold BatchLoop.step, step_gen in S. rewrite C in S.
        destruct (pend s), (more s); try discriminate;
          repeat match type of S with context [if ?c then _ else _] => destruct c end;
          try destruct (batch s); inversion S; reflexivity. }
      rewrite C1 in H. apply (IH s0 s1 s' NE); [|assumption].
      split; [assumption|]. split; [congruence|]. right; left.
      split; [rewrite Pb; apply app_not_nil|].
      destruct K as [[_ [_ [Kp Kd]]]|[[_ [Kd Kl]]|[_ [Km _]]]].
      * split; [congruence|]. rewrite <- Kp, Pp. cbn. lia.
      * split; [congruence|]. rewrite Pp in Kl. cbn in Kl. lia.
      * exfalso. unfold BatchLoop.step, step_gen in S. rewrite C, Km in S.
        destruct (pend s); inversion S.
    + (* Drop *)
      destruct P as [e [Pp [Pb [Pb' [Pd [Ps [Pm _]]]]]]].
      assert (C1 : at_pc s1 = Inner).
      { unfold BatchLoop.step, step_gen in S. rewrite C in S.
        destruct (pend s), (more s); try discriminate;
          repeat match type of S with context [if ?c then _ else _] => destruct c end;
          try destruct (batch s); inversion S; reflexivity. }
      rewrite C1 in H. apply (IH s0 s1 s' NE); [|assumption].
      split; [assumption|]. split; [congruence|]. right; right.
      destruct K as [[_ [_ [Kp Kd]]]|[[Kb _]|[_ [Km _]]]].
      * split; [assumption|]. split; [assumption|]. exists e. split; congruence.
      * contradiction.
      * exfalso. unfold BatchLoop.step, step_gen in S. rewrite C, Km in S.
        destruct (pend s); inversion S.
    + (* PushBack *)
      destruct P as [Pp [Pb [Pb' [Pm [Ps Pd]]]]].
      assert (C1 : at_pc s1 = Inner).
      { unfold BatchLoop.step, step_gen in S. rewrite C in S.
        destruct (pend s), (more s); try discriminate;
          repeat match type of S with context [if ?c then _ else _] => destruct c end;
          try destruct (batch s); inversion S; reflexivity. }
      rewrite C1 in H. apply (IH s0 s1 s' NE); [|assumption].
      split; [assumption|]. split; [congruence|]. right; left.
      split; [congruence|].
      destruct K as [[Kb _]|[[_ [Kd Kl]]|[Kb _]]]; try contradiction.
      split; [congruence|]. rewrite Pp. assumption.
    + (* Send: the iteration ends *)
      destruct P as [Ps [Pp [C1 [Pd Pc]]]]. rewrite C1 in H. inversion H; subst s'.
      split; [assumption|].
      destruct K as [[_ [Km [Kp _]]]|[[Kb [Kd Kl]]|[Kb [_ [e [Kp Kd]]]]]].
      * exfalso. destruct Pc as [Pc|Pc]; [|congruence]. apply NE. congruence.
      * split; [rewrite Pp; assumption|]. left. exists (batch s). repeat split; congruence.
      * split; [rewrite Pp, Kp; cbn; lia|]. right. exists e. rewrite Kb in Ps. repeat split; congruence.
Qed.

(* every outer iteration that starts with something pending ends with strictly less pending *)
Theorem outer_iteration_progress fuel (s0 s' : state) :
  at_pc s0 = Outer -> pend s0 <> [] -> to_outer fuel s0 = Some s' -> iteration_result s0 s'.
Proof.
  intros C NE H. destruct fuel as [|f]; [discriminate|].
  cbn [BatchLoop.to_outer] in H. fold (step s0) in H.
  destruct (step s0) as [r|l s1] eqn:S.
  - unfold BatchLoop.step, step_gen in S. rewrite C in S. destruct (pend s0); [contradiction|discriminate].
  - pose proof (step_progress _ _ _ S) as P.
    assert (L : l = LInit).
    { unfold BatchLoop.step, step_gen in S. rewrite C in S. destruct (pend s0); inversion S; reflexivity. }
    subst l. destruct P as [_ [Pp [_ [Pb [Pm [C1 [Ps Pd]]]]]]]. rewrite C1 in H.
    apply (inner_to_outer f s0 s1 s' NE); [|assumption].
    split; [assumption|]. split; [assumption|]. left. repeat split; assumption.
Qed.

Lemma to_outer_enough fuel : forall s, wf s -> mu s < fuel -> exists r, to_outer fuel s = Some r.
Proof.
  induction fuel as [|f IH]; intros s W L; [lia|].
  cbn [BatchLoop.to_outer]. fold (step s). destruct (step s) as [r|l s'] eqn:S; [eauto|].
  destruct (step_inv _ _ _ W S) as [W' D]. destruct (at_pc s'); [eauto|]. apply IH; [assumption|lia].
Qed.

(* ... and it does end: within 4 * |pending| + 2 steps *)
Theorem outer_iteration_ends (s0 : state) :
  at_pc s0 = Outer -> exists s', to_outer (fuel_for (length (pend s0))) s0 = Some s'.
Proof.
  intros C. apply to_outer_enough.
  - unfold wf. congruence.
  - unfold mu, fuel_for. rewrite C. lia.
Qed.

(* so: a pending list that does not shrink over two consecutive outer iterations is impossible --
   it does not even survive one *)
Corollary pending_shrinks_every_iteration f1 f2 (s0 s1 s2 : state) :
  at_pc s0 = Outer -> pend s0 <> [] -> to_outer f1 s0 = Some s1 -> pend s1 <> [] -> to_outer f2 s1 = Some s2 ->
  length (pend s2) < length (pend s1) /\ length (pend s1) < length (pend s0).
Proof.
  intros C NE H1 NE1 H2.
  destruct (outer_iteration_progress _ _ _ C NE H1) as [C1 [L1 _]].
  destruct (outer_iteration_progress _ _ _ C1 NE1 H2) as [_ [L2 _]]. split; assumption.
Qed.

(* what the theorem excludes: the seeded variant s2 (the "single event too large: drop it" branch
   removed).  One event that is over the limit on its own makes the loop exhaust ANY fuel. *)
Theorem s2_variant_never_finishes (e : E) : over [e] = true ->
  forall fuel, run_s2 over fuel (init [e]) = None.
Proof.
  intros O fuel. unfold init; cbn [rev app].
  assert (G : forall fuel sn dr,
             run_s2 over fuel (mk_state [e] [] true Outer sn dr) = None /\
             run_s2 over fuel (mk_state [e] [] true Inner sn dr) = None /\
             run_s2 over fuel (mk_state [e] [] false Inner sn dr) = None).
  { clear fuel. induction fuel as [|f IH]; intros sn dr; [repeat split; reflexivity|].
    unfold run_s2 in *. cbn [run_gen step_gen at_pc pend more batch sent dropped app]. rewrite O.
    destruct (IH sn dr) as [A [B C]]. destruct (IH ([] :: sn) dr) as [A' _].
    repeat split; assumption. }
  apply G.
Qed.
End Proofs.

(* the evaluated instance: never out of fuel *)
Theorem summary_total limit envelope sizes : exists p, summary limit envelope sizes = Some p.
Proof.
  unfold summary. destruct (send_events_terminates (over_sizes limit envelope) sizes) as [r ->]. eauto.
Qed.
