(* SystemWire -- the repaired code (/repo c9df24c) against System.v / SystemSeq.v. *)
From GPA.Model Require Import SystemWire.
From GPA.Proofs Require Import SystemProofs SystemSeqProofs.
From GPA Require Import ServerProofs HeadersProofs HeadersWireProofs.

Section Gen.
Context (authz : bytes -> N -> claims -> url -> option computed -> auth_result).
Context (mac : bytes -> bytes -> bytes).

Lemma result_eta (res : sys_result) :
  {| sy_client := sy_client res; sy_upstream := sy_upstream res; sy_effects := sy_effects res |} = res.
Proof. destruct res; reflexivity. Qed.

(* the repaired code never writes where System.v does not: every "nothing is written" theorem of
   Props/System.v (root-only, self, over-limit, gate, unattributed, forbidden) carries over verbatim *)
Lemma c9_no_new_writes E C q :
  sy_upstream (system_step_gen authz mac E C q) = [] ->
  system_step_c9 authz mac E C q = system_step_gen authz mac E C q.
Proof. unfold system_step_c9. intros ->. destruct (fst (handled authz E C q)); reflexivity. Qed.

(* inversion of a write of the repaired code: System.v writes too (so its mediation facts hold), to
   the same destination, and the written request is Headers.proxy_forward_c9 of the collected request *)
Lemma c9_upstream_inv E C q ip port o9 :
  In (ip, port, o9) (sy_upstream (system_step_c9 authz mac E C q)) ->
  exists u out,
    fst (handled authz E C q) = Relay u /\
    In (ip, port, out) (sy_upstream (system_step_gen authz mac E C q)) /\
    forward_c9 mac u E q = Forwarded o9 /\
    sy_upstream (system_step_c9 authz mac E C q) = [(ip, port, o9)] /\
    sy_client (system_step_c9 authz mac E C q) = sy_client (system_step_gen authz mac E C q) /\
    sy_effects (system_step_c9 authz mac E C q) = sy_effects (system_step_gen authz mac E C q).
Proof.
  unfold system_step_c9.
  destruct (fst (handled authz E C q)) as [s| |u] eqn:Ho.
  - intros H. apply upstream_inv in H as (u & Hu & _). unfold handled in Ho, Hu. congruence.
  - intros H. apply upstream_inv in H as (u & Hu & _). unfold handled in Ho, Hu. congruence.
  - destruct (sy_upstream (system_step_gen authz mac E C q)) as [|[[i p] out] t] eqn:S; [rewrite S; intros []|].
    destruct (forward_c9 mac u E q) as [o|] eqn:F; cbn [sy_upstream sy_client sy_effects]; [|intros []].
    intros [H|[]]. inversion H; subst i p o. exists u, out. repeat split; auto. left; reflexivity.
Qed.

(* the two forwarding functions coincide unless there is something to drop *)
Lemma forward_c9_same a now kv kg c :
  should_skip_sig (c_method c) (c_uri c) = true \/ c_body c <> [] ->
  proxy_forward_c9 mac a now kv kg c = proxy_forward mac a now kv kg c.
Proof.
  intros H. unfold proxy_forward_c9, proxy_forward, relay_c9, relay.
  destruct (add_required_headers _ _ _); [|reflexivity]. cbn [r_method r_uri].
  destruct (should_skip_sig (c_method c) (c_uri c)) eqn:S; [reflexivity|].
  destruct H as [H|H]; [discriminate|]. unfold hyper_wire. cbn [r_body].
  destruct (c_body c); [congruence|reflexivity].
Qed.

(* ... hence the repaired system IS System.v on every request that is exempt or has a non-empty body *)
Lemma c9_same_unless_empty_signed E C q :
  empty_signed q = false -> system_step_c9 authz mac E C q = system_step_gen authz mac E C q.
Proof.
  intros Hq. unfold system_step_c9.
  destruct (fst (handled authz E C q)) as [s| |u] eqn:Ho; try reflexivity.
  destruct (sy_upstream (system_step_gen authz mac E C q)) as [|[[ip p] out] t] eqn:S; [reflexivity|].
  assert (Hin : In (ip, p, out) (sy_upstream (system_step_gen authz mac E C q))) by (rewrite S; left; reflexivity).
  pose proof Hin as Hin1. apply upstream_inv in Hin1 as (u1 & Hu1 & _ & _ & _ & _ & One).
  rewrite S in One. inversion One; subst t.
  apply forwarded_is_function in Hin as (u' & Hu' & _ & _ & F & _).
  rewrite Ho in Hu'. inversion Hu'; subst u'.
  unfold forward_c9. rewrite forward_c9_same.
  - unfold upstream_of in F. unfold collected. rewrite F. rewrite <- S. apply result_eta.
  - unfold empty_signed in Hq. cbn [collected c_method c_uri c_body]. unfold collect.
    destruct (should_skip_sig (q_method (sq_req q)) (q_uri (sq_req q))); [left; reflexivity|right].
    cbn [negb andb] in Hq. destruct (concat (q_frames (sq_req q))); [discriminate|discriminate].
Qed.

(* what the host receives from the repaired code: method, target, body unchanged; exactly one claims and
   one date header; a signed request carries exactly one authorization header whose MAC is over the
   canonical string of the head AS WRITTEN (wire_head: required headers in place, and for an empty body no
   transfer-encoding header -- the header hyper's client does not send) *)
Lemma c9_host_receives E C q ip port o9 :
  In (ip, port, o9) (sy_upstream (system_step_c9 authz mac E C q)) ->
  exists u,
    fst (handled authz E C q) = Relay u /\ ip = up_ip u /\ port = up_port u /\
    r_method o9 = q_method (sq_req q) /\ r_uri o9 = q_uri (sq_req q) /\ r_body o9 = concat (q_frames (sq_req q)) /\
    hm_get_all claims_header (r_headers o9) = [claims_text (k_elevated (up_claims u))] /\
    hm_get_all date_header (r_headers o9) = [se_now E] /\
    (is_signed (key_value (se_key E)) (key_guid (se_key E)) (collected (sq_req q)) = true ->
     exists key guid sig,
       key_value (se_key E) = Some key /\ key_guid (se_key E) = Some guid /\
       compute_signature mac key
         (as_sig_input (q_method (sq_req q)) (concat (q_frames (sq_req q)))
                       (wire_head (audit_of_upstream u) (se_now E) (collected (sq_req q))) (q_uri (sq_req q))) = Some sig /\
       hm_get_all auth_header (r_headers o9) = [auth_value guid sig]) /\
    (concat (q_frames (sq_req q)) = [] ->
     hm_get_all te (wire_head (audit_of_upstream u) (se_now E) (collected (sq_req q))) = []).
Proof.
  intros H. apply c9_upstream_inv in H as (u & out & Ho & Hin & F & _).
  apply upstream_inv in Hin as (u' & Hu' & Hi & Hp & _). rewrite Ho in Hu'. inversion Hu'; subst u'.
  unfold forward_c9 in F. exists u.
  pose proof (forward_c9_shape _ _ _ _ _ _ _ F) as (Hm & Hu & Hb & _).
  split; [exact Ho|]. split; [exact Hi|]. split; [exact Hp|].
  split; [exact Hm|]. split; [exact Hu|]. split; [exact Hb|].
  split; [rewrite (c9_exactly_one_claims _ _ _ _ _ _ _ F), audit_of_upstream_elevated; reflexivity|].
  split; [exact (c9_exactly_one_date _ _ _ _ _ _ _ F)|].
  split; [intros S; exact (c9_auth_replaced_when_signed _ _ _ _ _ _ _ F S)|].
  intros E0. apply c9_empty_body_signs_no_te. exact E0.
Qed.

(* mediation for the repaired code: a write implies every fact System_mediation lists *)
Lemma c9_mediation E C q ip port o9 :
  In (ip, port, o9) (sy_upstream (system_step_c9 authz mac E C q)) ->
  exists out, In (ip, port, out) (sy_upstream (system_step_gen authz mac E C q)) /\
              sy_upstream (system_step_c9 authz mac E C q) = [(ip, port, o9)].
Proof. intros H. apply c9_upstream_inv in H as (u & out & _ & Hin & _ & One & _). eauto. Qed.

(* the sequence: position by position the same relation *)
Lemma seq_c9_nth C rs i :
  nth_error (serve_conn_c9 authz mac C rs) i = option_map (serve_request_c9 authz mac C) (nth_error rs i).
Proof. unfold serve_conn_c9. apply nth_error_map. Qed.

Lemma seq_c9_same C rs :
  Forall (fun r => empty_signed (rq_sys r) = false) rs ->
  serve_conn_c9 authz mac C rs = serve_conn_gen authz mac C rs.
Proof.
  intros H. unfold serve_conn_c9, serve_conn_gen. induction H as [|r t Hr Ht IH]; [reflexivity|].
  cbn [map]. rewrite IH. f_equal. unfold serve_request_c9, serve_request_gen.
  rewrite (c9_same_unless_empty_signed _ _ _ Hr). reflexivity.
Qed.

Lemma seq_c9_writes_only_where_system_writes C rs i r :
  nth_error rs i = Some r ->
  so_upstream (serve_request_gen authz mac C r) = [] ->
  nth_error (serve_conn_c9 authz mac C rs) i = Some (serve_request_gen authz mac C r).
Proof.
  intros Hr Hn. rewrite seq_c9_nth, Hr. cbn [option_map]. f_equal.
  unfold serve_request_c9. rewrite c9_no_new_writes; [reflexivity|].
  cbn [serve_request_gen so_upstream] in Hn. apply map_eq_nil in Hn. exact Hn.
Qed.
End Gen.
