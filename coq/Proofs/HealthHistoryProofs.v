(* C20 -- history-level statements about the state notifications: in ANY interleaving of notifications of
   several keys, what is emitted for one key depends only on that key's own notifications. *)
From Coq Require Import List NArith Lia Bool.
From GPA Require Import Health HealthProofs.
Import ListNotations.
Local Open Scope N_scope.

(* the notifications of key k, in order *)
Definition kproj (k : bytes) (ops : list (bytes * bytes)) : list (bytes * bytes) :=
  filter (fun kv => beq (fst kv) k) ops.

(* the outputs at the positions of key k's notifications *)
Fixpoint kouts (k : bytes) (ops : list (bytes * bytes)) (outs : list bool) : list bool :=
  match ops, outs with
  | kv :: t, b :: bt => if beq (fst kv) k then b :: kouts k t bt else kouts k t bt
  | _, _ => []
  end.

Lemma beq_sym a b : beq a b = beq b a.
Proof.
  destruct (beq a b) eqn:E1, (beq b a) eqn:E2; try reflexivity.
  - apply beq_eq in E1. subst. rewrite beq_refl in E2. discriminate.
  - apply beq_eq in E2. subst. rewrite beq_refl in E1. discriminate.
Qed.

(* one notification of k: output and k's new entry depend only on k's entry *)
Lemma update_entry_local m m' k v mx :
  alookup beq k m = alookup beq k m' ->
  snd (update_entry m k v mx) = snd (update_entry m' k v mx) /\
  alookup beq k (fst (update_entry m k v mx)) = alookup beq k (fst (update_entry m' k v mx)).
Proof.
  intros H. unfold update_entry. rewrite <- H.
  destruct (alookup beq k m) as [[v0 c]|].
  - destruct (negb (beq v0 v) || (mx <=? c)); cbn [fst snd];
      (split; [reflexivity|rewrite !alookup_ainsert_same; reflexivity]).
  - cbn [fst snd]. split; [reflexivity|rewrite !alookup_ainsert_same; reflexivity].
Qed.

Lemma proj_outs_gen ops : forall m m' k mx,
  alookup beq k m = alookup beq k m' ->
  kouts k ops (run_entries m ops mx) = run_entries m' (kproj k ops) mx.
Proof.
  induction ops as [|[k0 v0] t IH]; intros m m' k mx H; [reflexivity|].
  cbn [run_entries kproj filter fst].
  destruct (update_entry m k0 v0 mx) as [m1 b1] eqn:E1.
  cbn [kouts fst].
  destruct (beq k0 k) eqn:Ek.
  - apply beq_eq in Ek. subst k0.
    cbn [run_entries].
    destruct (update_entry m' k v0 mx) as [m1' b1'] eqn:E1'.
    destruct (update_entry_local m m' k v0 mx H) as [Hb Hl].
    rewrite E1, E1' in Hb, Hl. cbn [fst snd] in Hb, Hl. subst b1'.
    f_equal. apply IH. exact Hl.
  - apply IH.
    assert (Hk : beq k k0 = false) by (rewrite beq_sym; exact Ek).
    pose proof (update_other_key m k0 k v0 mx Hk) as Ho. rewrite E1 in Ho. cbn [fst] in Ho.
    rewrite Ho. exact H.
Qed.

(* keys are independent over whole histories *)
Lemma proj_outs ops m k mx :
  kouts k ops (run_entries m ops mx) = run_entries m (kproj k ops) mx.
Proof. apply proj_outs_gen. reflexivity. Qed.

(* rate limit in any interleaving: once key k holds (v, 1) -- i.e. right after an emission for k -- whatever
   other keys are notified in between, n further notifications (k, v) emit exactly as repeat_out 1 mx n says *)
Lemma rate_interleaved ops m k v mx n :
  alookup beq k m = Some (v, 1) -> kproj k ops = repeat (k, v) n ->
  kouts k ops (run_entries m ops mx) = repeat_out 1 mx n.
Proof. intros H Hp. rewrite proj_outs, Hp. apply run_repeat. exact H. Qed.

Lemma rate_interleaved_120 ops m k v :
  alookup beq k m = Some (v, 1) -> kproj k ops = repeat (k, v) 120 ->
  kouts k ops (run_entries m ops Consts.ext_max_state_count) = repeat false 119 ++ [true].
Proof. intros H Hp. rewrite proj_outs, Hp. apply notify_rate. exact H. Qed.

(* every emission leaves the count at 1: the hypothesis of the two lemmas above is what an emission establishes *)
Lemma emission_resets m k v mx :
  snd (update_entry m k v mx) = true -> alookup beq k (fst (update_entry m k v mx)) = Some (v, 1).
Proof.
  unfold update_entry. destruct (alookup beq k m) as [[v0 c]|].
  - destruct (negb (beq v0 v) || (mx <=? c)); cbn [fst snd]; intros H; [apply alookup_ainsert_same|discriminate].
  - cbn [fst snd]. intros _. apply alookup_ainsert_same.
Qed.

(* and a silent notification means: same value as before, and the count went up by one, below the limit *)
Lemma silent_means_same m k v mx :
  snd (update_entry m k v mx) = false ->
  exists c, alookup beq k m = Some (v, c) /\ c < mx /\ alookup beq k (fst (update_entry m k v mx)) = Some (v, c + 1).
Proof.
  unfold update_entry. destruct (alookup beq k m) as [[v0 c]|] eqn:E.
  - destruct (beq v0 v) eqn:Ev; cbn [negb orb].
    + apply beq_eq in Ev. subst v0. destruct (mx <=? c) eqn:Ec; cbn [fst snd]; intros H; [discriminate|].
      exists c. split; [reflexivity|]. split; [apply N.leb_gt in Ec; exact Ec|apply alookup_ainsert_same].
    + cbn [fst snd]. discriminate.
  - cbn [fst snd]. discriminate.
Qed.
