(* C05 -- lemmas about Model/Headers.v.  The statements quantify over ALL client header lists
   (any length, any multiplicity of any name, any letter case), all requests, all keys. *)
From GPA Require Import Headers.
From Coq Require Import Lia.

(* ---------------------------------------------------------------------------------------- *)
(* byte strings                                                                              *)
(* ---------------------------------------------------------------------------------------- *)
Lemma hbeq_refl a : beq a a = true.
Proof. induction a; simpl; auto. rewrite N.eqb_refl; auto. Qed.

Lemma hbeq_eq a b : beq a b = true -> a = b.
Proof.
  revert b; induction a; destruct b; simpl; intros H; try discriminate; auto.
  apply andb_true_iff in H as [H1 H2]. apply N.eqb_eq in H1. f_equal; auto.
Qed.

Lemma hbeq_neq a b : a <> b -> beq a b = false.
Proof. intros H. destruct (beq a b) eqn:E; auto. apply hbeq_eq in E. contradiction. Qed.

Lemma hlower_byte_idem b : lower_byte (lower_byte b) = lower_byte b.
Proof.
  unfold lower_byte, is_upper.
  destruct ((65 <=? b) && (b <=? 90)) eqn:E.
  - apply andb_true_iff in E as [E1 E2]. apply N.leb_le in E1, E2.
    replace ((65 <=? b + 32) && (b + 32 <=? 90)) with false; auto.
    symmetry. apply andb_false_iff. right. apply N.leb_gt. lia.
  - rewrite E. reflexivity.
Qed.

Lemma hlower_idem s : lower (lower s) = lower s.
Proof. unfold lower. rewrite map_map. apply map_ext. intros; apply hlower_byte_idem. Qed.

(* ---------------------------------------------------------------------------------------- *)
(* filters by name                                                                           *)
(* ---------------------------------------------------------------------------------------- *)
Definition fname (p : bytes -> bool) (h : bytes * bytes) : bool := p (fst h).

Lemma get_all_fname n hs : hm_get_all n hs = map snd (filter (fname (beq n)) hs).
Proof. reflexivity. Qed.

Lemma fname_pair p n v : fname p (n, v) = p n.
Proof. reflexivity. Qed.

Lemma existsb_false_filter {A} (f : A -> bool) l : existsb f l = false -> filter f l = [].
Proof.
  induction l; simpl; auto. intros H. apply orb_false_iff in H as [H1 H2].
  rewrite H1. auto.
Qed.

Lemma filter_drop_name p n t :
  p n = false ->
  filter (fname p) (filter (fun x : bytes * bytes => negb (beq n (fst x))) t) = filter (fname p) t.
Proof.
  intros Hp. induction t as [|x t IH]; simpl; auto.
  destruct (beq n (fst x)) eqn:E; simpl.
  - apply hbeq_eq in E. unfold fname at 2. rewrite <- E, Hp. exact IH.
  - destruct (fname p x); rewrite IH; reflexivity.
Qed.

Lemma filter_only_name n t :
  filter (fname (beq n)) (filter (fun x : bytes * bytes => negb (beq n (fst x))) t) = [].
Proof.
  induction t as [|x t IH]; simpl; auto.
  destruct (beq n (fst x)) eqn:E; simpl; auto.
  unfold fname at 1. rewrite E. exact IH.
Qed.

(* HeaderMap::append leaves every other name's entries, and their order, alone *)
Lemma filter_append_g p n v hs :
  p n = false -> filter (fname p) (hm_append_g n v hs) = filter (fname p) hs.
Proof.
  intros Hp. induction hs as [|h t IH]; cbn [hm_append_g].
  - cbn [filter]. rewrite fname_pair, Hp. reflexivity.
  - destruct (beq n (fst h) && negb (existsb (fun x => beq n (fst x)) t)).
    + cbn [filter]. rewrite fname_pair, Hp. reflexivity.
    + cbn [filter]. rewrite IH. reflexivity.
Qed.

Lemma get_all_append_other n m v hs :
  beq n m = false -> hm_get_all n (hm_append_g m v hs) = hm_get_all n hs.
Proof. intros H. rewrite !get_all_fname, filter_append_g; auto. Qed.

Lemma get_all_append_same n v hs : hm_get_all n (hm_append_g n v hs) = hm_get_all n hs ++ [v].
Proof.
  induction hs as [|h t IH]; cbn [hm_append_g].
  - unfold hm_get_all; cbn. rewrite hbeq_refl. reflexivity.
  - destruct (beq n (fst h)) eqn:E1; destruct (existsb (fun x => beq n (fst x)) t) eqn:E2;
      cbn [andb negb]; unfold hm_get_all in *; cbn [filter fst]; rewrite ?E1, ?hbeq_refl; cbn [map app].
    + rewrite IH. reflexivity.
    + rewrite (existsb_false_filter _ _ E2). reflexivity.
    + exact IH.
    + exact IH.
Qed.

(* HeaderMap::insert leaves every other name's entries, and their order, alone ... *)
Lemma filter_insert p n v hs :
  p n = false -> filter (fname p) (hm_insert n v hs) = filter (fname p) hs.
Proof.
  intros Hp. induction hs as [|h t IH]; cbn [hm_insert].
  - cbn [filter]. rewrite fname_pair, Hp. reflexivity.
  - destruct (beq n (fst h)) eqn:E.
    + apply hbeq_eq in E. cbn [filter]. rewrite fname_pair, Hp.
      replace (fname p h) with false by (unfold fname; rewrite <- E, Hp; reflexivity).
      apply filter_drop_name; auto.
    + cbn [filter]. rewrite IH. reflexivity.
Qed.

Lemma get_all_insert_other n m v hs :
  beq n m = false -> hm_get_all n (hm_insert m v hs) = hm_get_all n hs.
Proof. intros H. rewrite !get_all_fname, filter_insert; auto. Qed.

(* ... and leaves exactly one value under its own name, whatever was there before *)
Lemma get_all_insert_same n v hs : hm_get_all n (hm_insert n v hs) = [v].
Proof.
  induction hs as [|h t IH]; cbn [hm_insert].
  - unfold hm_get_all; cbn. rewrite hbeq_refl. reflexivity.
  - destruct (beq n (fst h)) eqn:E.
    + rewrite get_all_fname. cbn [filter]. rewrite fname_pair, hbeq_refl.
      cbn [map snd]. rewrite filter_only_name. reflexivity.
    + rewrite get_all_fname in *. cbn [filter].
      replace (fname (beq n) h) with false by (unfold fname; rewrite E; reflexivity). exact IH.
Qed.

Lemma in_get_all n v hs : In (n, v) hs -> In v (hm_get_all n hs).
Proof.
  intros H. unfold hm_get_all. apply in_map_iff. exists (n, v). split; auto.
  apply filter_In. split; auto. cbn. apply hbeq_refl.
Qed.

Lemma in_insert x n v hs : In x (hm_insert n v hs) -> x = (n, v) \/ In x hs.
Proof.
  induction hs as [|h t IH]; cbn [hm_insert].
  - intros [H|[]]; auto.
  - destruct (beq n (fst h)).
    + intros [H|H]; auto. apply filter_In in H as [H _]. right; right; exact H.
    + intros [H|H]; [right; left; exact H|]. destruct (IH H); auto. right; right; auto.
Qed.

Lemma in_append_g x n v hs : In x (hm_append_g n v hs) -> x = (n, v) \/ In x hs.
Proof.
  induction hs as [|h t IH]; cbn [hm_append_g].
  - intros [H|[]]; auto.
  - destruct (beq n (fst h) && negb (existsb (fun x => beq n (fst x)) t)).
    + intros [H|[H|H]]; auto; right; [left|right]; auto.
    + intros [H|H]; [right; left; exact H|]. destruct (IH H); auto. right; right; auto.
Qed.

(* ---------------------------------------------------------------------------------------- *)
(* the map hyper builds from the wire                                                        *)
(* ---------------------------------------------------------------------------------------- *)
Lemma get_all_fold n wire : forall acc,
  hm_get_all n (fold_left (fun hs h => hm_append_g (lower (fst h)) (snd h) hs) wire acc)
  = hm_get_all n acc ++ wire_values n wire.
Proof.
  induction wire as [|h t IH]; intros acc; cbn [fold_left].
  - unfold wire_values; cbn. rewrite app_nil_r. reflexivity.
  - rewrite IH. unfold wire_values. cbn [filter]. destruct (beq n (lower (fst h))) eqn:E.
    + apply hbeq_eq in E. rewrite <- E, get_all_append_same. cbn [map]. rewrite <- app_assoc. reflexivity.
    + rewrite get_all_append_other; auto.
Qed.

(* every value the client sent under a name (any case) is in the map under the lower-case
   name, in wire order -- and nothing else is *)
Lemma get_all_of_wire n wire : hm_get_all n (of_wire wire) = wire_values n wire.
Proof. unfold of_wire. rewrite get_all_fold. reflexivity. Qed.

Lemma in_fold_lower x wire : forall acc,
  In x (fold_left (fun hs h => hm_append_g (lower (fst h)) (snd h) hs) wire acc) ->
  In x acc \/ exists n0, In (n0, snd x) wire /\ fst x = lower n0.
Proof.
  induction wire as [|h t IH]; intros acc; cbn [fold_left]; auto.
  intros H. destruct (IH _ H) as [H1|[n0 [H1 H2]]].
  - apply in_append_g in H1 as [H1|H1]; auto.
    right. exists (fst h). subst x. cbn. split; auto. left. destruct h; reflexivity.
  - right. exists n0. split; auto. right; auto.
Qed.

Lemma of_wire_names_lower n v wire : In (n, v) (of_wire wire) -> lower n = n.
Proof.
  intros H. apply in_fold_lower in H as [[]|[n0 [_ H]]]. cbn in H. subst n. apply hlower_idem.
Qed.

(* ---------------------------------------------------------------------------------------- *)
(* constants (re-proved whenever Consts.v is regenerated)                                    *)
(* ---------------------------------------------------------------------------------------- *)
Lemma names_distinct :
  beq claims_header date_header = false /\ beq claims_header auth_header = false /\
  beq date_header claims_header = false /\ beq date_header auth_header = false /\
  beq auth_header claims_header = false /\ beq auth_header date_header = false.
Proof. vm_compute. repeat split. Qed.

Lemma names_lower :
  lower claims_header = claims_header /\ lower date_header = date_header /\ lower auth_header = auth_header.
Proof. vm_compute. repeat split. Qed.

Lemma claims_text_ok e : header_value_ok (claims_text e) = true.
Proof. destruct e; vm_compute; reflexivity. Qed.

Lemma claims_text_inj : claims_text true <> claims_text false.
Proof. vm_compute. discriminate. Qed.

Lemma not_owned n :
  owned n = false -> beq n claims_header = false /\ beq n date_header = false /\ beq n auth_header = false.
Proof.
  unfold owned. intros H. apply orb_false_iff in H as [H H3]. apply orb_false_iff in H as [H1 H2]. auto.
Qed.

(* ---------------------------------------------------------------------------------------- *)
(* the shape of what is forwarded                                                            *)
(* ---------------------------------------------------------------------------------------- *)
Definition required (a : audit) (now : bytes) (c : client_request) : headers :=
  hm_insert date_header now
    (hm_insert claims_header (claims_text (run_as_elevated a)) (of_wire (c_wire c))).

Lemma forward_shape mac a now kv kg c out :
  proxy_forward mac a now kv kg c = Forwarded out ->
  r_method out = c_method c /\ r_uri out = c_uri c /\ r_body out = c_body c /\
  (if is_signed kv kg c
   then exists key guid sig,
       kv = Some key /\ kg = Some guid /\
       compute_signature mac key (as_sig_input (c_method c) (c_body c) (required a now c) (c_uri c)) = Some sig /\
       r_headers out = hm_insert auth_header (auth_value guid sig) (required a now c)
   else r_headers out = required a now c).
Proof.
  unfold proxy_forward, add_required_headers, is_signed, required.
  rewrite claims_text_ok.
  destruct (header_value_ok now); [|discriminate].
  unfold relay. cbn [r_method r_uri].
  destruct (should_skip_sig (c_method c) (c_uri c)); cbn [negb andb].
  - intros H; inversion H; subst; cbn; auto.
  - unfold sign_and_forward.
    destruct kv as [key|]; [destruct kg as [guid|]|].
    + unfold compute_signature, request_sig_input. cbn [r_method r_uri r_headers r_body].
      destruct (hex_decode key) as [k|] eqn:Ek.
      * match goal with |- context [header_value_ok ?av] => destruct (header_value_ok av) end; [|discriminate].
        intros H; inversion H; subst; cbn [r_method r_uri r_headers r_body with_headers].
        repeat split; auto. exists key, guid. eexists. rewrite Ek. repeat split; reflexivity.
      * intros H; inversion H; subst; cbn; auto.
    + intros H; inversion H; subst; cbn; auto.
    + intros H; inversion H; subst; cbn; auto.
Qed.

(* a name other than the authorization name has the same values in the forwarded request as
   in [required] *)
Lemma forward_values mac a now kv kg c out n :
  proxy_forward mac a now kv kg c = Forwarded out ->
  beq n auth_header = false ->
  hm_get_all n (r_headers out) = hm_get_all n (required a now c).
Proof.
  intros H Hn. apply forward_shape in H as (_ & _ & _ & H).
  destruct (is_signed kv kg c).
  - destruct H as (key & guid & sig & _ & _ & _ & H). rewrite H. apply get_all_insert_other; auto.
  - rewrite H. reflexivity.
Qed.

(* ---------------------------------------------------------------------------------------- *)
(* C05                                                                                       *)
(* ---------------------------------------------------------------------------------------- *)
Theorem exactly_one_claims mac a now kv kg c out :
  proxy_forward mac a now kv kg c = Forwarded out ->
  hm_get_all claims_header (r_headers out) = [claims_text (run_as_elevated a)].
Proof.
  intros H. destruct names_distinct as (N1 & N2 & _).
  rewrite (forward_values _ _ _ _ _ _ _ _ H N2). unfold required.
  rewrite get_all_insert_other by exact N1. apply get_all_insert_same.
Qed.

Theorem exactly_one_date mac a now kv kg c out :
  proxy_forward mac a now kv kg c = Forwarded out ->
  hm_get_all date_header (r_headers out) = [now].
Proof.
  intros H. destruct names_distinct as (_ & _ & _ & N4 & _).
  rewrite (forward_values _ _ _ _ _ _ _ _ H N4). unfold required. apply get_all_insert_same.
Qed.

(* every name in the forwarded map is lower-case, so "any letter case" collapses to the one
   stored name *)
Lemma forward_names_lower mac a now kv kg c out n v :
  proxy_forward mac a now kv kg c = Forwarded out ->
  In (n, v) (r_headers out) -> lower n = n.
Proof.
  intros H Hin. destruct names_lower as (L1 & L2 & L3).
  apply forward_shape in H as (_ & _ & _ & H).
  assert (Hreq : In (n, v) (required a now c) -> lower n = n).
  { unfold required. intros H1.
    apply in_insert in H1 as [H1|H1]; [inversion H1; subst; exact L2|].
    apply in_insert in H1 as [H1|H1]; [inversion H1; subst; exact L1|].
    eapply of_wire_names_lower; eauto. }
  destruct (is_signed kv kg c).
  - destruct H as (key & guid & sig & _ & _ & _ & H). rewrite H in Hin.
    apply in_insert in Hin as [H1|H1]; [inversion H1; subst; exact L3|auto].
  - rewrite H in Hin. auto.
Qed.

(* whatever the client sent under the claims / date names, in any letter case and any number
   of copies: every header line the host receives whose name is one of them case-insensitively
   carries the proxy's value *)
Theorem client_values_gone mac a now kv kg c out n v :
  proxy_forward mac a now kv kg c = Forwarded out ->
  In (n, v) (r_headers out) ->
  (lower n = claims_header -> v = claims_text (run_as_elevated a)) /\
  (lower n = date_header -> v = now).
Proof.
  intros H Hin. pose proof (forward_names_lower _ _ _ _ _ _ _ _ _ H Hin) as L.
  rewrite L. split; intros E; subst n; apply in_get_all in Hin.
  - rewrite (exactly_one_claims _ _ _ _ _ _ _ H) in Hin. destruct Hin as [E|[]]; auto.
  - rewrite (exactly_one_date _ _ _ _ _ _ _ H) in Hin. destruct Hin as [E|[]]; auto.
Qed.

(* a signed request carries exactly one authorization value: the proxy's, computed over the
   request as forwarded; nothing the client sent under that name survives *)
Theorem auth_replaced_when_signed mac a now kv kg c out :
  proxy_forward mac a now kv kg c = Forwarded out ->
  is_signed kv kg c = true ->
  exists key guid sig,
    kv = Some key /\ kg = Some guid /\
    compute_signature mac key (as_sig_input (c_method c) (c_body c) (required a now c) (c_uri c)) = Some sig /\
    hm_get_all auth_header (r_headers out) = [auth_value guid sig] /\
    forall n v, In (n, v) (r_headers out) -> lower n = auth_header -> v = auth_value guid sig.
Proof.
  intros H S. pose proof H as H0. apply forward_shape in H as (_ & _ & _ & H). rewrite S in H.
  destruct H as (key & guid & sig & K1 & K2 & K3 & K4).
  exists key, guid, sig. repeat split; auto.
  - rewrite K4. apply get_all_insert_same.
  - intros n v Hin E. pose proof (forward_names_lower _ _ _ _ _ _ _ _ _ H0 Hin) as L.
    rewrite L in E. subst n. apply in_get_all in Hin. rewrite K4, get_all_insert_same in Hin.
    destruct Hin as [E|[]]; auto.
Qed.

(* an unsigned request (exempt, or no key latched): the proxy does not touch that name *)
Theorem auth_untouched_when_unsigned mac a now kv kg c out :
  proxy_forward mac a now kv kg c = Forwarded out ->
  is_signed kv kg c = false ->
  hm_get_all auth_header (r_headers out) = wire_values auth_header (c_wire c).
Proof.
  intros H S. apply forward_shape in H as (_ & _ & _ & H). rewrite S in H. rewrite H.
  destruct names_distinct as (_ & _ & _ & _ & N5 & N6). unfold required.
  rewrite !get_all_insert_other by assumption. apply get_all_of_wire.
Qed.

(* every header that is not one of the three: same values, same order, as sent *)
Theorem others_untouched mac a now kv kg c out n :
  proxy_forward mac a now kv kg c = Forwarded out ->
  owned n = false ->
  hm_get_all n (r_headers out) = wire_values n (c_wire c).
Proof.
  intros H O. apply not_owned in O as (O1 & O2 & O3).
  rewrite (forward_values _ _ _ _ _ _ _ _ H O3). unfold required.
  rewrite !get_all_insert_other by assumption. apply get_all_of_wire.
Qed.

(* ... and their relative order in the map is the one hyper built from the wire *)
Theorem others_order mac a now kv kg c out :
  proxy_forward mac a now kv kg c = Forwarded out ->
  filter (fname (fun n => negb (owned n))) (r_headers out)
  = filter (fname (fun n => negb (owned n))) (of_wire (c_wire c)).
Proof.
  intros H. apply forward_shape in H as (_ & _ & _ & H).
  assert (P : forall n, owned n = true -> negb (owned n) = false) by (intros n ->; reflexivity).
  assert (O1 : owned claims_header = true) by (unfold owned; rewrite hbeq_refl; reflexivity).
  assert (O2 : owned date_header = true) by (unfold owned; rewrite hbeq_refl, orb_true_r; reflexivity).
  assert (O3 : owned auth_header = true) by (unfold owned; rewrite hbeq_refl, !orb_true_r; reflexivity).
  assert (R : filter (fname (fun n => negb (owned n))) (required a now c)
              = filter (fname (fun n => negb (owned n))) (of_wire (c_wire c))).
  { unfold required. rewrite !filter_insert; auto. }
  destruct (is_signed kv kg c).
  - destruct H as (key & guid & sig & _ & _ & _ & H). rewrite H, filter_insert; auto.
  - rewrite H. exact R.
Qed.

(* the claims value is a function of the kernel-attested record alone: two requests that differ
   in everything the client controls (method, target, headers, body) and in the key state, but
   were attributed the same record, carry the same claims; and the two possible values differ *)
Theorem claims_from_kernel mac a now now' kv kv' kg kg' c c' out out' :
  proxy_forward mac a now kv kg c = Forwarded out ->
  proxy_forward mac a now' kv' kg' c' = Forwarded out' ->
  hm_get_all claims_header (r_headers out) = hm_get_all claims_header (r_headers out') /\
  hm_get_all claims_header (r_headers out) = [claims_text (Z.eqb (a_is_admin a) 1)].
Proof.
  intros H H'. rewrite (exactly_one_claims _ _ _ _ _ _ _ H), (exactly_one_claims _ _ _ _ _ _ _ H').
  split; reflexivity.
Qed.

(* the only way to no request at all is an illegal date or authorization value (502) *)
Theorem forward_total mac a now kv kg c :
  header_value_ok now = true ->
  is_signed kv kg c = false ->
  exists out, proxy_forward mac a now kv kg c = Forwarded out.
Proof.
  intros Hn S. unfold proxy_forward, add_required_headers. rewrite claims_text_ok, Hn.
  unfold relay, is_signed in *. cbn [r_method r_uri].
  destruct (should_skip_sig (c_method c) (c_uri c)); [eexists; reflexivity|].
  cbn [negb andb] in S. unfold sign_and_forward, compute_signature.
  destruct kv as [key|]; [destruct kg as [guid|]|]; try (eexists; reflexivity).
  destruct (hex_decode key); [discriminate|eexists; reflexivity].
Qed.

(* contrast: with append instead of insert a client copy survives next to the proxy's *)
Lemma append_would_duplicate :
  let wire := [(claims_header, claims_text true)] in
  hm_get_all claims_header (add_required_headers_append false [] (of_wire wire))
  = [claims_text true; claims_text false].
Proof. vm_compute. reflexivity. Qed.
