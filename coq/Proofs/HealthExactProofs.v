(* C20 -- exact characterisation of the Error report: after ANY observation history from StatusState::new(),
   the report is Error if and only if the history ends with at least 20 consecutive failures.  (The "only if"
   half is HealthProofs.error_needs_20; the "if" half says the hysteresis does not hide a sustained failure.) *)
From GPA Require Import Health HealthProofs.
From Coq Require Import Lia ZifyBool ZifyN.
Arguments N.add : simpl never. Arguments N.sub : simpl never.
Arguments N.ltb : simpl never. Arguments N.leb : simpl never. Arguments N.eqb : simpl never.

Definition Inv2 (obs : list bool) (s : status_state) : Prop :=
  Inv obs s /\
  (Consts.ext_transition_to_error_threshold <= trailing false obs -> cur s = Error) /\
  (1 <= trailing false obs -> cur s <> Success).

Lemma inv2_init : Inv2 [] ss_new.
Proof.
  split; [apply inv_init|]. unfold trailing, ss_new; cbn [rev lead cur].
  rewrite threshold_is_20. split; intros H; [lia|discriminate].
Qed.

Lemma inv2_step obs s o : Inv2 obs s -> Inv2 (obs ++ [o]) (update_state s o).
Proof.
  pose proof threshold_le_max as [Hle H1]. unfold max_consecutive in *.
  intros (HI & Hsuf & Hns).
  split; [apply inv_step; exact HI|].
  pose proof (inv_step obs s o HI) as (Ht' & Hf' & _ & _ & _ & _).
  destruct HI as (Ht & Hf & Hs & Hno & Herr & _).
  rewrite trailing_snoc in *. rewrite threshold_is_20 in *.
  destruct o; cbn [Bool.eqb] in *.
  - split; intros H; lia.
  - revert Hf'. unfold update_state, update_counts, max_consecutive.
    destruct (fail_count s <? Consts.ext_max_consecutive_count) eqn:Hlt;
    destruct (cur s) eqn:Hc; cbn [cur fail_count succ_count threshold]; intros Hf';
    repeat match goal with |- context [if ?c then _ else _] => destruct c eqn:? end;
    (split; intros H; try discriminate; try congruence; try lia;
     try (exfalso; apply Hns; [lia|reflexivity])).
Qed.

Lemma inv2_reach obs : Inv2 obs (run_state ss_new obs).
Proof.
  induction obs as [|o obs IH] using rev_ind.
  - apply inv2_init.
  - rewrite run_state_snoc. apply inv2_step, IH.
Qed.

Lemma error_iff_20 obs :
  cur (run_state ss_new obs) = Error <-> 20 <= trailing false obs.
Proof.
  split; [apply error_needs_20|].
  intros H. destruct (inv2_reach obs) as (_ & Hsuf & _). apply Hsuf. rewrite threshold_is_20. exact H.
Qed.

Lemma trailing_app_repeat b obs n : trailing b (obs ++ repeat b n) = N.of_nat n + trailing b obs.
Proof.
  induction n as [|n IH] using nat_ind.
  - cbn [repeat]. rewrite app_nil_r. lia.
  - replace (repeat b (S n)) with (repeat b n ++ [b]).
    + rewrite app_assoc, trailing_snoc, Bool.eqb_reflx, IH. lia.
    + clear. induction n as [|n IH]; [reflexivity|]. cbn [repeat app]. rewrite IH. reflexivity.
Qed.

(* sufficiency in the words of the property: whatever happened before, 20 further failures yield Error *)
Lemma sustained_failure_reports_error obs n :
  (20 <= n)%nat -> cur (run_state ss_new (obs ++ repeat false n)) = Error.
Proof. intros H. apply error_iff_20. rewrite trailing_app_repeat. lia. Qed.

(* and fewer than 20 failures after any success never do *)
Lemma short_failure_never_error obs n :
  (n < 20)%nat -> cur (run_state ss_new (obs ++ true :: repeat false n)) <> Error.
Proof.
  intros H Hc. apply error_iff_20 in Hc.
  replace (obs ++ true :: repeat false n) with ((obs ++ [true]) ++ repeat false n) in Hc
    by (rewrite <- app_assoc; reflexivity).
  rewrite trailing_app_repeat, trailing_snoc in Hc. cbn [Bool.eqb] in Hc. lia.
Qed.

(* a failing observation never yields Success, from any reachable state *)
Lemma failure_never_success obs :
  cur (run_state ss_new (obs ++ [false])) <> Success.
Proof.
  destruct (inv2_reach (obs ++ [false])) as (_ & _ & Hns). apply Hns.
  rewrite trailing_snoc. cbn [Bool.eqb]. lia.
Qed.

(* poll level *)
Lemma poll_error_iff ps :
  cur (state_after_polls ss_new ps) = Error <-> 20 <= trailing false (map poll_ok ps).
Proof. unfold state_after_polls. apply error_iff_20. Qed.

(* one success is reported as Success exactly when the report before it was not Error, i.e. when it does not
   end a run of 20 or more failures: recovery from Error takes two successes, from anything else one *)
Lemma success_after obs :
  cur (run_state ss_new (obs ++ [true])) = Success <-> trailing false obs < 20.
Proof.
  pose proof threshold_le_max as [Hle H1]. unfold max_consecutive in *.
  pose proof (error_iff_20 obs) as Hiff.
  destruct (inv_reach obs) as (_ & _ & Hs & Hno & _ & _).
  rewrite run_state_snoc. revert Hiff Hno Hs.
  generalize (run_state ss_new obs). intros s Hiff Hno Hs.
  unfold update_state, update_counts, max_consecutive.
  destruct (succ_count s <? Consts.ext_max_consecutive_count) eqn:Hlt;
  destruct (cur s) eqn:Hc; cbn [cur];
  repeat match goal with |- context [if ?c then _ else _] => destruct c eqn:? end;
  split; intros H; try reflexivity; try discriminate; try congruence; try lia;
  try (destruct Hiff as [Hi1 Hi2]; try (specialize (Hi1 eq_refl); lia);
       try (assert (20 <= trailing false obs) as Hx by lia; specialize (Hi2 Hx); discriminate);
       try (destruct (N.lt_ge_cases (trailing false obs) 20) as [Hl|Hg];
            [exact Hl|specialize (Hi2 Hg); discriminate])).
Qed.

Lemma recovery_needs_two obs :
  20 <= trailing false obs ->
  cur (run_state ss_new (obs ++ [true])) = Transitioning /\
  cur (run_state ss_new (obs ++ [true; true])) = Success.
Proof.
  intros H. split.
  - pose proof (success_after obs) as [Hs _].
    pose proof (inv_reach (obs ++ [true])) as (_ & _ & _ & Hno & _ & _).
    assert (He : cur (run_state ss_new (obs ++ [true])) <> Error)
      by (rewrite run_state_snoc; apply success_never_error).
    destruct (cur (run_state ss_new (obs ++ [true]))) eqn:E; try reflexivity; try congruence.
    specialize (Hs eq_refl). lia.
  - replace (obs ++ [true; true]) with ((obs ++ [true]) ++ [true]) by (rewrite <- app_assoc; reflexivity).
    rewrite !run_state_snoc. apply two_successes.
Qed.
