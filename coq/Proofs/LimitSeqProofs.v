(* C15 -- lemmas about Model/LimitSeq.v: a connection as a sequence of requests. *)
From GPA Require Import LimitSeq HeadersProofs LimitProofs.
From Coq Require Import Lia.

(* the outcome of the request at position i is a function of THAT request alone *)
Lemma nth_served mac kv kg rs i :
  nth_error (serve_connection mac kv kg rs) i = option_map (serve_one mac kv kg) (nth_error rs i).
Proof. unfold serve_connection. apply nth_error_map. Qed.

Theorem position_independent mac kv kg rs rs' i j :
  nth_error rs i = nth_error rs' j ->
  nth_error (serve_connection mac kv kg rs) i = nth_error (serve_connection mac kv kg rs') j.
Proof. intros H. rewrite !nth_served, H. reflexivity. Qed.

(* every request over the limit of ITS OWN class: a 4xx and no upstream write -- at every position,
   whatever came before or comes after, whether the host is usable or not *)
Theorem seq_over_limit_refused mac kv kg rs i r :
  nth_error rs i = Some r ->
  header_value_ok (cr_now r) = true -> on_relay_path r -> over_own_limit r ->
  exists s st, nth_error (serve_connection mac kv kg rs) i = Some s /\
               to_client s = Local st /\ is_4xx st = true /\ upstream_writes s = [].
Proof.
  intros Hn Hok Hp Ho. rewrite nth_served, Hn. cbn [option_map].
  destruct (over_limit_refused mac (cr_pre r) (cr_now r) kv kg (cr_up r) (cr_req r) (cr_declared r) (cr_broken r) Hok Hp Ho)
    as (st & H1 & H2 & H3).
  exists (serve_one mac kv kg r), st. repeat split; auto.
Qed.

(* the no-relay half needs no hypothesis at all *)
Theorem seq_never_relayed mac kv kg rs i r s :
  nth_error rs i = Some r -> over_own_limit r ->
  nth_error (serve_connection mac kv kg rs) i = Some s -> upstream_writes s = [].
Proof.
  intros Hn Ho Hs. rewrite nth_served, Hn in Hs. inversion Hs. apply never_relayed. exact Ho.
Qed.

(* the host is down (or dropped its side before this request): an over-limit body is still
   answered by the SIZE decision -- 413 when declared, 400 when discovered -- not by 502 *)
Theorem seq_over_limit_host_down mac kv kg rs i r a :
  nth_error rs i = Some r -> cr_up r = false -> cr_pre r = PreProceed a ->
  header_value_ok (cr_now r) = true -> over_own_limit r ->
  exists st, nth_error (serve_connection mac kv kg rs) i = Some (local st) /\ (st = 413 \/ st = 400).
Proof.
  intros Hn _ Hp Hok Ho. rewrite nth_served, Hn. cbn [option_map]. unfold serve_one. rewrite Hp.
  destruct (cr_declared r) as [d|] eqn:D.
  - destruct (N.ltb_spec (limit_of (q_method (cr_req r)) (q_uri (cr_req r))) d) as [L|L].
    + exists 413. split; auto. rewrite over_limit_declared by exact L. reflexivity.
    + exists 400. split; auto. unfold serve, limit_gate.
      destruct (N.ltb_spec (limit_of (q_method (cr_req r)) (q_uri (cr_req r))) d) as [L'|_]; [lia|].
      destruct (required_some (run_as_elevated a) (cr_now r) (of_wire (q_wire (cr_req r))) Hok) as [hs' ->].
      rewrite collect_over.
      * rewrite body_error_is_400. reflexivity.
      * unfold over_own_limit in Ho.
        apply N.le_lt_trans with (m := limit_of (q_method (cr_req r)) (q_uri (cr_req r))); [apply N.le_min_l|exact Ho].
  - exists 400. split; auto. rewrite over_limit_discovered; auto.
Qed.

(* every request within the limit of its own class is not refused for its size: authorized and
   with a usable host it is relayed intact; with the host down the answer is the host error *)
Theorem seq_within_limit_relayed mac kv kg rs i r a out :
  nth_error rs i = Some r -> cr_pre r = PreProceed a -> cr_up r = true -> cr_broken r = false ->
  total (q_frames (cr_req r)) <= limit_of (q_method (cr_req r)) (q_uri (cr_req r)) ->
  (cr_declared r = None \/ cr_declared r = Some (total (q_frames (cr_req r)))) ->
  proxy_forward mac a (cr_now r) kv kg
    {| c_method := q_method (cr_req r); c_uri := q_uri (cr_req r); c_wire := q_wire (cr_req r);
       c_body := concat (q_frames (cr_req r)) |} = Forwarded out ->
  nth_error (serve_connection mac kv kg rs) i = Some {| to_client := FromHost; upstream_writes := [out] |} /\
  r_body out = concat (q_frames (cr_req r)).
Proof.
  intros Hn Hp Hu Hb Hl Hd Hf. rewrite nth_served, Hn. cbn [option_map]. unfold serve_one. rewrite Hp, Hu, Hb.
  destruct (within_limit_relayed mac a (cr_now r) kv kg (cr_req r) (cr_declared r) out Hl Hd Hf) as [H1 H2].
  rewrite H1. auto.
Qed.

Theorem seq_within_limit_host_down mac kv kg rs i r a out :
  nth_error rs i = Some r -> cr_pre r = PreProceed a -> cr_up r = false -> cr_broken r = false ->
  total (q_frames (cr_req r)) <= limit_of (q_method (cr_req r)) (q_uri (cr_req r)) ->
  (cr_declared r = None \/ cr_declared r = Some (total (q_frames (cr_req r)))) ->
  proxy_forward mac a (cr_now r) kv kg
    {| c_method := q_method (cr_req r); c_uri := q_uri (cr_req r); c_wire := q_wire (cr_req r);
       c_body := concat (q_frames (cr_req r)) |} = Forwarded out ->
  nth_error (serve_connection mac kv kg rs) i = Some (local status_bad_gateway).
Proof.
  intros Hn Hp Hu Hb Hl Hd Hf. rewrite nth_served, Hn. cbn [option_map]. unfold serve_one. rewrite Hp, Hu, Hb.
  unfold serve.
  assert (G : exists bl, limit_gate (limit_of (q_method (cr_req r)) (q_uri (cr_req r))) (cr_declared r) = Admit bl /\
                         total (q_frames (cr_req r)) <= bl).
  { unfold limit_gate. destruct Hd as [->| ->].
    - eexists; split; [reflexivity|exact Hl].
    - destruct (N.ltb_spec (limit_of (q_method (cr_req r)) (q_uri (cr_req r))) (total (q_frames (cr_req r)))) as [L|L]; [lia|].
      eexists; split; [reflexivity|]. rewrite N.min_r by exact L. lia. }
  destruct G as (bl & G & L). rewrite G.
  pose proof Hf as F0. unfold proxy_forward in F0. cbn [c_wire] in F0.
  destruct (add_required_headers (run_as_elevated a) (cr_now r) (of_wire (q_wire (cr_req r)))); [|discriminate].
  rewrite collect_within by exact L. cbn [app]. rewrite Hf. reflexivity.
Qed.

(* contrast: a limit layer built once from the connection's first request (NOT the code) lets a
   non-exempt request over the low limit through behind an exempt upload *)
Module SLit.
  Import Coq.Strings.String.
  Definition put : bytes := B"PUT".
  Definition post : bytes := B"POST".
  Definition log : bytes := B"/vmAgentLog".
  Definition other : bytes := B"/x".
  Definition now : bytes := B"now".
End SLit.

Definition sticky_witness : list conn_request :=
  let a := {| a_logon_id := 0; a_process_id := 1; a_is_admin := 1%Z; a_destination_ipv4 := 0; a_destination_port := 80 |} in
  let mk m p frames := {| cr_pre := PreProceed a; cr_now := SLit.now;
                          cr_req := {| q_method := m; q_uri := {| u_path := p; u_query := None |}; q_wire := []; q_frames := frames |};
                          cr_declared := None; cr_broken := false; cr_up := true |} in
  [mk SLit.put SLit.log [[1; 2; 3]]; mk SLit.post SLit.other [repeat 7 (N.to_nat 102401)]].

Lemma sticky_limit_refuted :
  exists r s, nth_error sticky_witness 1 = Some r /\ over_own_limit r /\
              nth_error (serve_connection_sticky zero_mac None None sticky_witness) 1 = Some s /\
              length (upstream_writes s) = 1%nat /\
              (exists s', nth_error (serve_connection zero_mac None None sticky_witness) 1 = Some s' /\
                          upstream_writes s' = [] /\ to_client s' = Local 400).
Proof.
  eexists. eexists. split; [reflexivity|]. split; [vm_compute; reflexivity|].
  split; [reflexivity|]. split; [vm_compute; reflexivity|].
  eexists. split; [reflexivity|]. split; vm_compute; reflexivity.
Qed.

(* the length-only evaluator with the host flag decides like [serve] when the host is down *)
Lemma c15_case_up_down m path q sel declared lens broken :
  snd (c15_case_up m path q sel declared lens broken false) =
  match snd (c15_case m path q sel declared lens broken) with
  | VRelayed _ => VLocal status_bad_gateway
  | v => v
  end.
Proof.
  unfold c15_case_up. destruct (c15_case m path q sel declared lens broken) as [[l k] v]. destruct v; reflexivity.
Qed.
