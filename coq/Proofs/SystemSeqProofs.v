(* SystemSeq -- proofs about Model/SystemSeq.v: a connection as a sequence of requests with head
   fields, body framing and trailer fields.  Every statement is for EVERY sequence and every position. *)
From GPA.Model Require Import SystemSeq.
From GPA.Proofs Require Import SystemProofs.
From GPA Require Import ServerProofs HeadersProofs TrailersProofs LimitProofs LimitSeqProofs.
From Coq Require Import Lia.

Section Gen.
Context (authz : bytes -> N -> claims -> url -> option computed -> auth_result).
Context (mac : bytes -> bytes -> bytes).

Local Notation one := (serve_request_gen authz mac).
Local Notation conn := (serve_conn_gen authz mac).

(* ---------------------------------------------------------------------------------------------- *)
(* the outcome at position i is a function of the connection state and of request i alone           *)
(* ---------------------------------------------------------------------------------------------- *)
Lemma nth_outcome C rs i :
  nth_error (conn C rs) i = option_map (one C) (nth_error rs i).
Proof. unfold serve_conn_gen. apply nth_error_map. Qed.

Lemma nth_outcome_inv C rs i o :
  nth_error (conn C rs) i = Some o -> exists r, nth_error rs i = Some r /\ o = one C r.
Proof.
  rewrite nth_outcome. destruct (nth_error rs i) as [r|]; [|discriminate].
  intros H. inversion H. eauto.
Qed.

Lemma position_independent C rs rs' i j :
  nth_error rs i = nth_error rs' j -> nth_error (conn C rs) i = nth_error (conn C rs') j.
Proof. intros H. rewrite !nth_outcome, H. reflexivity. Qed.

Lemma conn_length C rs : length (conn C rs) = length rs.
Proof. unfold serve_conn_gen. apply map_length. Qed.

Lemma conn_app C rs rs' : conn C (rs ++ rs') = conn C rs ++ conn C rs'.
Proof. unfold serve_conn_gen. apply map_app. Qed.

(* ---------------------------------------------------------------------------------------------- *)
(* (d) views: the single request, System.v, LimitSeq.v, Trailers.v                                  *)
(* ---------------------------------------------------------------------------------------------- *)
Lemma result_is_system_step C r :
  so_result (one C r) = system_step_gen authz mac (rq_env r) C (rq_sys r).
Proof. reflexivity. Qed.

Lemma upstream_heads C r :
  map (fun x => (fst (fst x), snd (fst x), u_request (snd x))) (so_upstream (one C r))
  = sy_upstream (system_step_gen authz mac (rq_env r) C (rq_sys r)).
Proof.
  cbn [serve_request_gen so_upstream]. rewrite map_map.
  induction (sy_upstream _) as [|[[ip p] out] t IH]; [reflexivity|].
  cbn [map]. rewrite IH. reflexivity.
Qed.

Lemma singleton_is_system_step C r :
  conn C [r] = [one C r] /\
  map so_result (conn C [r]) = [system_step_gen authz mac (rq_env r) C (rq_sys r)].
Proof. split; reflexivity. Qed.

(* LimitSeq.v: the client-answer kind and the written requests at every position are
   LimitSeq.serve_one's for that request, with the key latched when it is handled *)
Lemma limit_seq_view_one C r :
  limit_view (so_result (one C r)) =
  serve_one mac (key_value (se_key (rq_env r))) (key_guid (se_key (rq_env r))) (conn_request_of authz C r).
Proof. rewrite result_is_system_step. apply limit_view_is_serve. Qed.

Lemma limit_seq_view C rs k :
  Forall (fun r => se_key (rq_env r) = k) rs ->
  map (fun o => limit_view (so_result o)) (conn C rs) =
  serve_connection mac (key_value k) (key_guid k) (map (conn_request_of authz C) rs).
Proof.
  intros H. unfold serve_conn_gen, serve_connection. rewrite !map_map.
  induction H as [|r t Hr Ht IH]; [reflexivity|]. cbn [map]. rewrite IH, limit_seq_view_one, Hr. reflexivity.
Qed.

(* Trailers.v: every message the host receives is Trailers.forward_wire of the request as it is on the
   wire, for the upstream the handler relayed *)
Lemma trailers_view C r ip port u :
  In (ip, port, u) (so_upstream (one C r)) ->
  exists up,
    fst (handled authz (rq_env r) C (rq_sys r)) = Relay up /\ ip = up_ip up /\ port = up_port up /\
    In (ip, port, u_request u) (sy_upstream (system_step_gen authz mac (rq_env r) C (rq_sys r))) /\
    forward_wire mac (audit_of_upstream up) (se_now (rq_env r)) (key_value (se_key (rq_env r)))
                 (key_guid (se_key (rq_env r))) (wire_request_of r) = Some u.
Proof.
  cbn [serve_request_gen so_upstream]. intros H. apply in_map_iff in H as ([[ip' p'] out] & E & Hin).
  unfold with_trailers in E. cbn [fst snd] in E. inversion E; subst ip' p' u. clear E.
  pose proof Hin as Hin0.
  apply forwarded_is_function in Hin as (up & Ho & Hi & Hp & F & _).
  exists up. repeat split; auto.
  unfold forward_wire, forward_wire_with, wire_request_of. cbn [w_req w_trailers].
  unfold upstream_of in F. unfold collected. rewrite F. reflexivity.
Qed.

(* ---------------------------------------------------------------------------------------------- *)
(* (a) complete mediation per request                                                               *)
(* ---------------------------------------------------------------------------------------------- *)
Lemma seq_mediation C rs i o ip port u :
  nth_error (conn C rs) i = Some o -> In (ip, port, u) (so_upstream o) ->
  exists r c rl,
    nth_error rs i = Some r /\
    let sr := server_request (sq_req (rq_sys r)) in
    (* the connection's attribution (fixed when it was accepted) ... *)
    cx_dest (ci_ctx C) = Some (ip, port) /\ cx_claims (ci_ctx C) = Some c /\
    (* ... and request i ITSELF passed every check under what is in force AT request i *)
    e_counter_ok (se_env (rq_env r)) = true /\ has_traversal sr = false /\ is_provision sr = false /\
    e_claims_json_ok (se_env (rq_env r)) c = true /\
    rules_for (se_env (rq_env r)) (ipv4_text ip) port = ROk rl /\
    authz (ipv4_text ip) port c (url_of sr) rl <> AForbidden /\
    gate_open (rq_sys r) = true /\
    total (q_frames (sq_req (rq_sys r))) <= limit_of (q_method (sq_req (rq_sys r))) (q_uri (sq_req (rq_sys r))) /\
    r_body (u_request u) = concat (q_frames (sq_req (rq_sys r))) /\
    se_up (rq_env r) = true /\ so_upstream o = [(ip, port, u)].
Proof.
  intros Hn Hin. apply nth_outcome_inv in Hn as (r & Hr & ->).
  pose proof Hin as Hin0. apply trailers_view in Hin as (up & _ & _ & _ & Hs & _).
  apply mediation in Hs as (c & rl & H1 & H2 & H3 & H4 & H5 & H6 & H7 & H8 & H9 & H10 & H11 & H12 & H13).
  exists r, c, rl. split; [exact Hr|]. cbn zeta. repeat split; auto.
  cbn [serve_request_gen so_upstream] in Hin0 |- *. rewrite H13 in Hin0 |- *. cbn [map] in Hin0 |- *.
  destruct Hin0 as [E|[]]. rewrite E. reflexivity.
Qed.

(* a request that the policy in force at ITS turn forbids is not relayed -- whatever was relayed,
   refused, allowed or denied before it on the same connection *)
Lemma seq_forbidden_not_relayed C rs i r ip port c :
  nth_error rs i = Some r ->
  cx_dest (ci_ctx C) = Some (ip, port) -> cx_claims (ci_ctx C) = Some c ->
  (forall rl, rules_for (se_env (rq_env r)) (ipv4_text ip) port = ROk rl ->
              authz (ipv4_text ip) port c (url_of (server_request (sq_req (rq_sys r)))) rl = AForbidden) ->
  exists o, nth_error (conn C rs) i = Some o /\ so_upstream o = [] /\ sy_upstream (so_result o) = [].
Proof.
  intros Hr Hd Hk Hf. exists (one C r). split; [rewrite nth_outcome, Hr; reflexivity|].
  assert (U : sy_upstream (system_step_gen authz mac (rq_env r) C (rq_sys r)) = []).
  { destruct (sy_upstream _) as [|[[i' p'] o'] t] eqn:S; [reflexivity|].
    assert (Hin : In (i', p', o') (sy_upstream (system_step_gen authz mac (rq_env r) C (rq_sys r))))
      by (rewrite S; left; reflexivity).
    apply mediation in Hin as (c' & rl & Hd' & Hk' & _ & _ & _ & _ & Hrl & Ha & _).
    rewrite Hd in Hd'. inversion Hd'; subst i' p'. rewrite Hk in Hk'. inversion Hk'; subst c'.
    exfalso. apply Ha. apply Hf. exact Hrl. }
  cbn [serve_request_gen so_upstream so_result]. rewrite U. split; reflexivity.
Qed.

(* ---------------------------------------------------------------------------------------------- *)
(* (b) proxy-owned names exactly once over head AND trailer sections                                *)
(* ---------------------------------------------------------------------------------------------- *)
Lemma seq_owned_once C rs i o ip port u :
  nth_error (conn C rs) i = Some o -> In (ip, port, u) (so_upstream o) ->
  exists r c,
    nth_error rs i = Some r /\ cx_claims (ci_ctx C) = Some c /\
    hm_get_all claims_header (all_fields u) = [claims_text (k_elevated c)] /\
    hm_get_all date_header (all_fields u) = [se_now (rq_env r)] /\
    (forall n v, In (n, v) (all_fields u) ->
       (lower n = claims_header -> v = claims_text (k_elevated c)) /\
       (lower n = date_header -> v = se_now (rq_env r))) /\
    u_trailers u = [] /\
    (is_signed (key_value (se_key (rq_env r))) (key_guid (se_key (rq_env r))) (collected (sq_req (rq_sys r))) = true ->
     exists k sig, se_key (rq_env r) = Some k /\
       hm_get_all auth_header (all_fields u) = [auth_value (SignRace.guid k) sig] /\
       forall n v, In (n, v) (all_fields u) -> lower n = auth_header -> v = auth_value (SignRace.guid k) sig).
Proof.
  intros Hn Hin. apply nth_outcome_inv in Hn as (r & Hr & ->).
  apply trailers_view in Hin as (up & Ho & _ & _ & _ & F).
  unfold handled in Ho.
  destruct (handle_gen authz (se_env (rq_env r)) (ci_ctx C) (server_request (sq_req (rq_sys r)))) as [oc fx] eqn:Hh.
  cbn [fst] in Ho. subst oc.
  destruct (relay_inv authz _ _ _ _ _ Hh) as (_ & _ & _ & _ & Hk & _).
  destruct (owned_once_everywhere _ _ _ _ _ _ _ F) as (O1 & O2 & O3 & O4).
  rewrite audit_of_upstream_elevated in O1, O3.
  exists r, (up_claims up). repeat split; auto; try (apply (O3 n v); assumption).
  intros S. destruct (auth_once_everywhere_when_signed _ _ _ _ _ _ _ F S) as (key & guid & sig & K1 & K2 & K3 & K4).
  destruct (se_key (rq_env r)) as [[g v]|] eqn:Ek; [|discriminate].
  cbn in K1, K2. inversion K1; inversion K2; subst key guid.
  exists (SignRace.Key g v), sig. repeat split; auto.
Qed.
End Gen.

(* ... with the connection's KERNEL-RECORDED identity: for a connection accepted from source port p,
   every relayed request of the sequence carries the elevation bit of the record under p *)
Lemma seq_owned_kernel_identity mac os fr m p cip cmd rs i o ip port u :
  nth_error (serve_accepted mac os fr m p cip cmd rs) i = Some o -> In (ip, port, u) (so_upstream o) ->
  exists rec,
    alookup N.eqb p m = Some rec /\ ip = ae_ip rec /\ port = ae_port rec /\
    hm_get_all claims_header (all_fields u) = [claims_text (run_as_elevated (audit_view rec))] /\
    u_trailers u = [].
Proof.
  unfold serve_accepted, serve_conn. intros Hn Hin.
  pose proof (seq_owned_once authorize_at mac _ _ _ _ _ _ _ Hn Hin) as (r & c & Hr & _ & _ & _ & _ & T & _).
  apply nth_outcome_inv in Hn as (r' & Hr' & ->). rewrite Hr in Hr'. inversion Hr'; subst r'.
  apply trailers_view in Hin as (up & _ & _ & _ & Hs & F).
  apply mediation_kernel_record in Hs as (rec & c' & L & Hi & Hp & _ & _ & Hc).
  exists rec. repeat split; auto.
  destruct (forward_wire_fields _ _ _ _ _ _ _ F) as (_ & E). rewrite E. exact Hc.
Qed.

(* ---------------------------------------------------------------------------------------------- *)
(* (c) over-limit requests are never relayed, whatever their position                               *)
(* ---------------------------------------------------------------------------------------------- *)
Lemma seq_over_limit_never_relayed authz mac C rs i r :
  nth_error rs i = Some r ->
  limit_of (q_method (sq_req (rq_sys r))) (q_uri (sq_req (rq_sys r))) < total (q_frames (sq_req (rq_sys r))) ->
  exists o, nth_error (serve_conn_gen authz mac C rs) i = Some o /\
            so_upstream o = [] /\ sy_upstream (so_result o) = [].
Proof.
  intros Hr Hl. exists (serve_request_gen authz mac C r). split; [rewrite nth_outcome, Hr; reflexivity|].
  cbn [serve_request_gen so_upstream so_result]. rewrite (over_limit_never_relayed authz mac _ C _ Hl).
  split; reflexivity.
Qed.

(* ---------------------------------------------------------------------------------------------- *)
(* (d) the sequence model projects to System.v's keep-alive connection and single step              *)
(* ---------------------------------------------------------------------------------------------- *)
Lemma results_are_system_conn mac C rs :
  map so_result (serve_conn mac C rs) = system_conn mac C (map step_of rs).
Proof.
  rewrite system_conn_map. unfold serve_conn, serve_conn_gen. rewrite !map_map. reflexivity.
Qed.

Lemma combine_map_self {X Y} (f : X -> Y) (l : list X) : combine l (map f l) = map (fun x => (x, f x)) l.
Proof. induction l as [|x t IH]; [reflexivity|]. cbn. rewrite IH. reflexivity. Qed.

(* the check's evaluator for a whole connection returns, per request, System.system_case's tuple *)
Lemma seq_case_is_system_case os fr m p cip cmd rs :
  map fst (seq_case os fr m p cip cmd rs) =
  map (fun r => system_case os fr m p cip cmd (rq_env r) (rq_sys r)) rs.
Proof.
  unfold seq_case, serve_accepted, serve_conn, serve_conn_gen. cbv zeta.
  rewrite combine_map_self, !map_map. reflexivity.
Qed.
