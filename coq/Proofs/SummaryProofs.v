(* C11 -- proofs about Model/Summary.v. *)
From GPA Require Import Summary ServerProofs.
From Coq Require Import Lia Permutation.

Arguments N.add : simpl never.
Arguments N.mul : simpl never.
Arguments N.div : simpl never.
Arguments N.modulo : simpl never.

(* ---------------------------------------------------------------------------------------------- *)
(* byte strings, decimal printing, join                                                             *)
(* ---------------------------------------------------------------------------------------------- *)
Lemma sum_beq_eq a b : beq a b = true <-> a = b.
Proof. apply srv_beq_eq. Qed.

Lemma sum_beq_refl a : beq a a = true.
Proof. apply srv_beq_refl. Qed.

Lemma sum_beq_neq a b : beq a b = false <-> a <> b.
Proof.
  split.
  - intros H Heq. subst. rewrite sum_beq_refl in H. discriminate.
  - intros H. destruct (beq a b) eqn:E; auto. apply sum_beq_eq in E. contradiction.
Qed.

Lemma sum_beq_sym a b : beq a b = beq b a.
Proof.
  destruct (beq a b) eqn:E.
  - apply sum_beq_eq in E. subst. symmetry. apply sum_beq_refl.
  - symmetry. apply sum_beq_neq. apply sum_beq_neq in E. congruence.
Qed.

(* dec_fuel pushes digits in front of its accumulator *)
Lemma dec_fuel_acc f : forall n acc, dec_fuel f n acc = dec_fuel f n [] ++ acc.
Proof.
  induction f as [|f IH]; intros n acc; cbn [dec_fuel]; auto.
  destruct (n <? 10); auto.
  rewrite (IH (n / 10) (48 + n mod 10 :: acc)), (IH (n / 10) [48 + n mod 10]).
  rewrite <- app_assoc. reflexivity.
Qed.

Lemma digit_is_digit n : is_digit (48 + n mod 10) = true.
Proof.
  unfold is_digit. assert (n mod 10 < 10). { apply N.mod_upper_bound. discriminate. }
  generalize dependent (n mod 10). intros m Hm.
  apply andb_true_iff. split; apply N.leb_le; lia.
Qed.

Lemma dec_fuel_digits f : forall n, forallb is_digit (dec_fuel f n []) = true.
Proof.
  induction f as [|f IH]; intros n; cbn [dec_fuel]; auto.
  destruct (n <? 10).
  - cbn. rewrite digit_is_digit. reflexivity.
  - rewrite dec_fuel_acc, forallb_app, IH. cbn. rewrite digit_is_digit. reflexivity.
Qed.

Lemma dec_digits n : forallb is_digit (dec n) = true.
Proof. apply dec_fuel_digits. Qed.

(* reading the digits back: with enough fuel, [dec_fuel] prints n *)
Lemma undec_acc_app a b : forall acc,
  undec_acc (a ++ b) acc = match undec_acc a acc with Some v => undec_acc b v | None => None end.
Proof.
  induction a as [|x t IH]; intros acc; cbn; auto.
  destruct (is_digit x); auto.
Qed.

Lemma undec_dec_fuel f : forall n acc,
  n < 2 ^ N.of_nat f ->
  undec_acc (dec_fuel f n []) acc =
    Some (acc * 10 ^ N.of_nat (length (dec_fuel f n [])) + n).
Proof.
  induction f as [|f IH]; intros n acc Hlt.
  - cbn in Hlt. assert (n = 0) by lia. subst. cbn. f_equal. lia.
  - cbn [dec_fuel]. destruct (n <? 10) eqn:E.
    + apply N.ltb_lt in E. cbn [undec_acc length]. rewrite digit_is_digit.
      f_equal. rewrite N.mod_small by lia. cbn. lia.
    + apply N.ltb_ge in E. rewrite dec_fuel_acc. rewrite undec_acc_app.
      assert (Hlt' : n / 10 < 2 ^ N.of_nat f).
      { rewrite Nat2N.inj_succ, N.pow_succ_r' in Hlt.
        apply N.div_lt_upper_bound; lia. }
      rewrite (IH (n / 10) acc Hlt'). cbn [undec_acc]. rewrite digit_is_digit.
      f_equal. rewrite app_length. cbn [length]. rewrite Nat.add_1_r, Nat2N.inj_succ, N.pow_succ_r'.
      assert (Hdm : n = 10 * (n / 10) + n mod 10). { apply N.div_mod. discriminate. }
      generalize dependent (n mod 10). generalize dependent (n / 10). intros. lia.
Qed.

Lemma size_nat_bound n : n < 2 ^ N.of_nat (N.size_nat n).
Proof.
  destruct n as [|p]; [cbn; lia|].
  cbn [N.size_nat]. induction p as [p IH|p IH|]; cbn [Pos.size_nat].
  - rewrite Nat2N.inj_succ, N.pow_succ_r'. lia.
  - rewrite Nat2N.inj_succ, N.pow_succ_r'. lia.
  - cbn. lia.
Qed.

Lemma dec_nonempty n : dec n <> [].
Proof.
  unfold dec. cbn [dec_fuel]. destruct (n <? 10); [discriminate|].
  rewrite dec_fuel_acc. destruct (dec_fuel (N.size_nat n) (n / 10) []); discriminate.
Qed.

Lemma undec_dec n : undec (dec n) = Some n.
Proof.
  unfold undec. destruct (dec n) eqn:E; [exfalso; eapply dec_nonempty; eauto|].
  rewrite <- E. unfold dec. rewrite undec_dec_fuel.
  - f_equal; lia.
  - rewrite Nat2N.inj_succ, N.pow_succ_r'. pose proof (size_nat_bound n). lia.
Qed.

Lemma dec_inj a b : dec a = dec b -> a = b.
Proof.
  intros H. pose proof (undec_dec a) as Ha. rewrite H, undec_dec in Ha. congruence.
Qed.

(* a decimal print does not contain a non-digit byte *)
Lemma dec_free sep n : is_digit sep = false -> existsb (N.eqb sep) (dec n) = false.
Proof.
  intros Hs. pose proof (dec_digits n) as H. induction (dec n) as [|x t IH]; cbn; auto.
  cbn in H. apply andb_true_iff in H. destruct H as [H1 H2].
  destruct (N.eqb sep x) eqn:E; [apply N.eqb_eq in E; subst; congruence|]. cbn. auto.
Qed.

(* splitting at the first separator is unique when the first parts do not contain it *)
Lemma app_sep_inj (c : N) : forall (x y r r' : bytes),
  existsb (N.eqb c) x = false -> existsb (N.eqb c) y = false ->
  x ++ c :: r = y ++ c :: r' -> x = y /\ r = r'.
Proof.
  induction x as [|a x IH]; intros y r r' Hx Hy H.
  - destruct y as [|b y]; cbn in H.
    + inversion H. auto.
    + inversion H; subst. cbn in Hy. rewrite N.eqb_refl in Hy. discriminate.
  - destruct y as [|b y]; cbn in H.
    + inversion H; subst. cbn in Hx. rewrite N.eqb_refl in Hx. discriminate.
    + inversion H; subst. cbn in Hx, Hy. apply orb_false_iff in Hx. apply orb_false_iff in Hy.
      destruct (IH y r r') as [E1 E2]; try tauto. subst. auto.
Qed.

Lemma join_cons2 (sep : bytes) (x y : bytes) (t : list bytes) :
  join sep (x :: y :: t) = x ++ sep ++ join sep (y :: t).
Proof. reflexivity. Qed.

(* join with a one-byte separator is injective on equally long lists whose elements (all but
   possibly the last) do not contain the separator *)
Lemma join_inj (c : N) : forall (l1 l2 : list bytes),
  length l1 = length l2 ->
  forallb (fun f => negb (existsb (N.eqb c) f)) (removelast l1) = true ->
  forallb (fun f => negb (existsb (N.eqb c) f)) (removelast l2) = true ->
  join [c] l1 = join [c] l2 -> l1 = l2.
Proof.
  induction l1 as [|x l1 IH]; intros l2 Hlen H1 H2 H.
  - destruct l2; [reflexivity|discriminate].
  - destruct l2 as [|y l2]; [discriminate|].
    destruct l1 as [|x' l1]; destruct l2 as [|y' l2]; try discriminate.
    + cbn in H. congruence.
    + rewrite !join_cons2 in H. cbn [app] in H.
      cbn [removelast forallb] in H1, H2.
      apply andb_true_iff in H1. destruct H1 as [H1a H1b].
      apply andb_true_iff in H2. destruct H2 as [H2a H2b].
      apply negb_true_iff in H1a. apply negb_true_iff in H2a.
      destruct (app_sep_inj c x y _ _ H1a H2a H) as [E1 E2]. subst y.
      f_equal. apply IH; auto.
Qed.

(* ---------------------------------------------------------------------------------------------- *)
(* maps keyed by byte strings                                                                       *)
(* ---------------------------------------------------------------------------------------------- *)
Section BMap.
Context {V : Type}.
Implicit Types m : list (bytes * V).

Lemma sum_lookup_remove_other k k' m :
  beq k' k = false -> alookup beq k' (aremove beq k m) = alookup beq k' m.
Proof.
  intros Hne. unfold aremove. induction m as [|[k2 v2] t IH]; cbn; auto.
  destruct (beq k k2) eqn:E; cbn.
  - apply sum_beq_eq in E. subst k2. rewrite Hne. exact IH.
  - destruct (beq k' k2); auto.
Qed.

Lemma sum_lookup_remove_same k m : alookup beq k (aremove beq k m) = None.
Proof.
  unfold aremove. induction m as [|[k2 v2] t IH]; cbn; auto.
  destruct (beq k k2) eqn:E; cbn; auto. rewrite E. exact IH.
Qed.

Lemma sum_lookup_insert k k' (v : V) m :
  alookup beq k' (ainsert beq k v m) = if beq k' k then Some v else alookup beq k' m.
Proof.
  unfold ainsert. cbn. destruct (beq k' k) eqn:E; auto. apply sum_lookup_remove_other; auto.
Qed.

Lemma sum_keys_remove k m :
  map fst (aremove beq k m) = filter (fun x => negb (beq k x)) (map fst m).
Proof.
  unfold aremove. induction m as [|[k2 v2] t IH]; cbn; auto.
  destruct (beq k k2); cbn; rewrite IH; auto.
Qed.

Lemma sum_nodup_insert k (v : V) m : NoDup (map fst m) -> NoDup (map fst (ainsert beq k v m)).
Proof.
  intros H. unfold ainsert. cbn. constructor.
  - rewrite sum_keys_remove. intros Hin. apply filter_In in Hin. destruct Hin as [_ Hf].
    rewrite sum_beq_refl in Hf. discriminate.
  - rewrite sum_keys_remove. apply NoDup_filter. exact H.
Qed.

Lemma sum_lookup_in k (v : V) m : alookup beq k m = Some v -> In (k, v) m.
Proof.
  induction m as [|[k2 v2] t IH]; cbn; [discriminate|].
  destruct (beq k k2) eqn:E.
  - apply sum_beq_eq in E. subst. intros H. inversion H. auto.
  - auto.
Qed.

Lemma sum_in_lookup k (v : V) m : NoDup (map fst m) -> In (k, v) m -> alookup beq k m = Some v.
Proof.
  induction m as [|[k2 v2] t IH]; cbn; [tauto|].
  intros Hnd [H|H].
  - inversion H; subst. rewrite sum_beq_refl. reflexivity.
  - inversion Hnd; subst. destruct (beq k k2) eqn:E.
    + apply sum_beq_eq in E. subst. exfalso. apply H2. apply in_map_iff. exists (k2, v). auto.
    + apply IH; auto.
Qed.
End BMap.

Lemma filter_perm {A} (f : A -> bool) l l' :
  Permutation l l' -> Permutation (filter f l) (filter f l').
Proof.
  induction 1; cbn.
  - constructor.
  - destruct (f x); auto.
  - destruct (f x); destruct (f y); auto. constructor.
  - eapply perm_trans; eauto.
Qed.

Lemma existsb_false_in {A} (f : A -> bool) l x : existsb f l = false -> In x l -> f x = false.
Proof.
  intros H Hin. destruct (f x) eqn:E; auto.
  assert (existsb f l = true) by (apply existsb_exists; exists x; auto). congruence.
Qed.

Lemma shown_eqb_eq a b : shown_eqb a b = true <-> shown a = shown b.
Proof.
  unfold shown_eqb, shown. split.
  - intros H. repeat (apply andb_true_iff in H; destruct H as [H ?]).
    repeat match goal with
           | X : beq _ _ = true |- _ => apply sum_beq_eq in X
           | X : N.eqb _ _ = true |- _ => apply N.eqb_eq in X
           end. congruence.
  - intros H. inversion H. rewrite !sum_beq_refl, N.eqb_refl. reflexivity.
Qed.

(* ---------------------------------------------------------------------------------------------- *)
(* The actor: counts over histories                                                                 *)
(* ---------------------------------------------------------------------------------------------- *)
Section ActorProofs.
Context (key : summary -> bytes).
Notation add_one := (add_one key).
Notation astep := (astep key).
Notation arun := (arun key).
Notation is_failed_for := (is_failed_for key).

Lemma count_add m s k :
  count_of (add_one m s) k = count_of m k + (if beq (key s) k then 1 else 0).
Proof.
  unfold Summary.add_one, count_of.
  destruct (alookup beq (key s) m) as [e|] eqn:L; rewrite sum_lookup_insert;
    rewrite (sum_beq_sym k (key s)); destruct (beq (key s) k) eqn:E.
  - apply sum_beq_eq in E. subst k. rewrite L. reflexivity.
  - lia.
  - apply sum_beq_eq in E. subst k. rewrite L. reflexivity.
  - lia.
Qed.

Lemma arun_snoc a ms m : arun a (ms ++ [m]) = fst (astep (arun a ms) m).
Proof. unfold Summary.arun. rewrite fold_left_app. reflexivity. Qed.

Lemma since_clear_snoc ms m :
  since_clear (ms ++ [m]) = match m with ClearAll => [] | _ => since_clear ms ++ [m] end.
Proof. unfold since_clear. rewrite fold_left_app. reflexivity. Qed.

Lemma filter_snoc {A} (f : A -> bool) l x :
  length (filter f (l ++ [x])) = (length (filter f l) + (if f x then 1 else 0))%nat.
Proof. rewrite filter_app, app_length. cbn. destruct (f x); reflexivity. Qed.

(* for every message history (adds by any callers in any order, reads, clears): the count of a key
   in the failed map is the number of AddFailed messages with that key since the last ClearAll *)
Lemma failed_count_history ms : forall k,
  count_of (failed (arun agent0 ms)) k =
  N.of_nat (length (filter (is_failed_for k) (since_clear ms))).
Proof.
  induction ms as [|m ms IH] using rev_ind; intros k.
  - reflexivity.
  - rewrite arun_snoc, since_clear_snoc. destruct m as [s|s| | |]; cbn [Summary.astep fst failed].
    + rewrite IH, filter_snoc. cbn. lia.
    + rewrite count_add, IH, filter_snoc. cbn [Summary.is_failed_for].
      destruct (beq (key s) k); lia.
    + rewrite IH, filter_snoc. cbn. lia.
    + rewrite IH, filter_snoc. cbn. lia.
    + reflexivity.
Qed.

Lemma ok_count_history ms : forall k,
  count_of (okm (arun agent0 ms)) k =
  N.of_nat (length (filter (fun m => match m with AddOk s => beq (key s) k | _ => false end)
                           (since_clear ms))).
Proof.
  induction ms as [|m ms IH] using rev_ind; intros k.
  - reflexivity.
  - rewrite arun_snoc, since_clear_snoc. destruct m as [s|s| | |]; cbn [Summary.astep fst okm].
    + rewrite count_add, IH, filter_snoc. destruct (beq (key s) k); lia.
    + rewrite IH, filter_snoc. cbn. lia.
    + rewrite IH, filter_snoc. cbn. lia.
    + rewrite IH, filter_snoc. cbn. lia.
    + reflexivity.
Qed.

Definition no_clear (ms : list msg) : bool :=
  forallb (fun m => match m with ClearAll => false | _ => true end) ms.

Lemma since_clear_no_clear ms : no_clear ms = true -> since_clear ms = ms.
Proof.
  induction ms as [|m ms IH] using rev_ind; intros H; auto.
  unfold no_clear in H. rewrite forallb_app in H. apply andb_true_iff in H. destruct H as [H1 H2].
  rewrite since_clear_snoc, (IH H1). destruct m; auto. cbn in H2. discriminate.
Qed.

Lemma no_clear_perm ms ms' : Permutation ms ms' -> no_clear ms = true -> no_clear ms' = true.
Proof.
  intros P H. unfold no_clear in *. apply forallb_forall. intros x Hin.
  rewrite forallb_forall in H. apply H. eapply Permutation_in; [apply Permutation_sym|]; eauto.
Qed.

(* the order in which the actor receives the messages of concurrent requests is irrelevant *)
Lemma failed_count_perm ms ms' k :
  Permutation ms ms' -> no_clear ms = true ->
  count_of (failed (arun agent0 ms)) k = count_of (failed (arun agent0 ms')) k.
Proof.
  intros P H. rewrite !failed_count_history.
  rewrite (since_clear_no_clear ms H), (since_clear_no_clear ms' (no_clear_perm _ _ P H)).
  f_equal. apply Permutation_length. apply filter_perm. exact P.
Qed.

(* ---------------------------------------------------------------------------------------------- *)
(* whose fields an entry shows                                                                      *)
(* ---------------------------------------------------------------------------------------------- *)
Definition adds (l : list summary) : smap := fold_left add_one l [].

Lemma adds_snoc l s : adds (l ++ [s]) = add_one (adds l) s.
Proof. unfold adds. rewrite fold_left_app. reflexivity. Qed.

Lemma adds_is_arun l : adds l = failed (arun agent0 (map AddFailed l)).
Proof.
  induction l as [|s l IH] using rev_ind; auto.
  rewrite adds_snoc, map_app. cbn [map]. rewrite arun_snoc. cbn. rewrite IH. reflexivity.
Qed.

(* every entry shows the fields of SOME summary of the history that has the entry's key (the first
   one), and every summary of the history has an entry under its key *)
Lemma adds_entries l :
  (forall k e, alookup beq k (adds l) = Some e ->
     exists s0, In s0 l /\ key s0 = k /\ shown_e e = shown s0 /\ en_groups e = sm_groups s0) /\
  (forall s, In s l -> alookup beq (key s) (adds l) <> None).
Proof.
  induction l as [|s l [IHa IHb]] using rev_ind.
  - split; [intros k e H; discriminate|intros s []].
  - rewrite adds_snoc. split.
    + intros k e H. unfold Summary.add_one in H.
      destruct (alookup beq (key s) (adds l)) as [e0|] eqn:L; rewrite sum_lookup_insert in H;
        destruct (beq k (key s)) eqn:E.
      * apply sum_beq_eq in E. subst k. inversion H; subst e.
        destruct (IHa _ _ L) as [s0 [H1 [H2 [H3 H4]]]].
        exists s0. split; [apply in_or_app; auto|]. split; auto.
      * destruct (IHa _ _ H) as [s0 [H1 H2]]. exists s0. split; [apply in_or_app; auto|auto].
      * apply sum_beq_eq in E. subst k. inversion H; subst e.
        exists s. split; [apply in_or_app; right; left; reflexivity|]. split; auto.
      * destruct (IHa _ _ H) as [s0 [H1 H2]]. exists s0. split; [apply in_or_app; auto|auto].
    + intros s1 Hin. unfold Summary.add_one.
      destruct (alookup beq (key s) (adds l)) as [e0|] eqn:L; rewrite sum_lookup_insert;
        destruct (beq (key s1) (key s)) eqn:E; try discriminate;
        (apply in_app_or in Hin; destruct Hin as [Hin|[Hin|[]]];
         [apply IHb; auto | subst s1; rewrite sum_beq_refl in E; discriminate]).
Qed.

(* full-strength attribution holds exactly outside the known class: when no two summaries of the
   history collide, the entry a denial is counted under shows that caller's fields *)
Lemma entry_fields_partial l :
  KnownClass_C11_F8 key l = false ->
  forall s, In s l ->
  exists e, alookup beq (key s) (adds l) = Some e /\ shown_e e = shown s.
Proof.
  intros Hk s Hin. destruct (adds_entries l) as [Ha Hb].
  destruct (alookup beq (key s) (adds l)) as [e|] eqn:L; [|exfalso; eapply Hb; eauto].
  exists e. split; auto.
  destruct (Ha _ _ L) as [s0 [H1 [H2 [H3 _]]]].
  unfold KnownClass_C11_F8 in Hk.
  pose proof (existsb_false_in _ _ s0 Hk H1) as K. cbn beta in K.
  pose proof (existsb_false_in _ _ s K Hin) as K2. unfold collides in K2.
  rewrite H2, sum_beq_refl in K2. cbn in K2. apply negb_false_iff in K2.
  apply shown_eqb_eq in K2. congruence.
Qed.

(* one entry per key *)
Lemma add_one_nodup m s : NoDup (map fst m) -> NoDup (map fst (add_one m s)).
Proof.
  intros H. unfold Summary.add_one. destruct (alookup beq (key s) m); apply sum_nodup_insert; auto.
Qed.

Lemma arun_nodup ms :
  NoDup (map fst (failed (arun agent0 ms))) /\ NoDup (map fst (okm (arun agent0 ms))).
Proof.
  induction ms as [|m ms [IH1 IH2]] using rev_ind.
  - cbn. split; constructor.
  - rewrite arun_snoc. destruct m; cbn [Summary.astep fst failed okm]; auto.
    + split; auto. apply add_one_nodup; auto.
    + split; auto. apply add_one_nodup; auto.
    + split; constructor.
Qed.

(* the published failedAuthenticateSummary: exactly one entry per key with a positive count, and
   that entry is the map's *)
Lemma publish_failed_exact ms e :
  In e (snd (publish key (arun agent0 ms))) <->
  exists k, alookup beq k (failed (arun agent0 ms)) = Some e.
Proof.
  cbn [publish Summary.astep snd]. destruct (arun_nodup ms) as [Hnd _]. split.
  - intros H. apply in_map_iff in H. destruct H as [[k e'] [H1 H2]]. cbn in H1. subst e'.
    exists k. apply sum_in_lookup; auto.
  - intros [k H]. apply in_map_iff. exists (k, e). split; auto. apply sum_lookup_in; auto.
Qed.

Lemma publish_failed_length ms :
  length (snd (publish key (arun agent0 ms))) = length (failed (arun agent0 ms)).
Proof. cbn [publish Summary.astep snd]. apply map_length. Qed.

End ActorProofs.

(* ---------------------------------------------------------------------------------------------- *)
(* the key: injective away from the separator                                                       *)
(* ---------------------------------------------------------------------------------------------- *)
Lemma key_sep_free_inj sep a b :
  is_digit sep = false -> sep_free sep a = true -> sep_free sep b = true ->
  key_string_sep sep a = key_string_sep sep b -> shown a = shown b.
Proof.
  intros Hd Ha Hb H. unfold key_string_sep, key_string_gen, std_order in H.
  cbn [map field_text N.eqb Pos.eqb] in H.
  unfold sep_free in Ha, Hb. cbn [forallb] in Ha, Hb.
  repeat (apply andb_true_iff in Ha; destruct Ha as [? Ha]).
  repeat (apply andb_true_iff in Hb; destruct Hb as [? Hb]).
  apply join_inj in H.
  - inversion H. unfold shown. f_equal; auto. f_equal; auto. f_equal; auto. f_equal; auto.
    f_equal; auto. apply dec_inj; auto.
  - reflexivity.
  - cbn [removelast forallb]. rewrite (dec_free sep (sm_port a) Hd). cbn [negb].
    repeat (apply andb_true_iff; split); auto.
  - cbn [removelast forallb]. rewrite (dec_free sep (sm_port b) Hd). cbn [negb].
    repeat (apply andb_true_iff; split); auto.
Qed.

Lemma sep_free_no_collision sep l :
  is_digit sep = false -> forallb (sep_free sep) l = true ->
  KnownClass_C11_F8 (key_string_sep sep) l = false.
Proof.
  intros Hd Hl. unfold KnownClass_C11_F8.
  destruct (existsb _ l) eqn:E; auto. exfalso.
  apply existsb_exists in E. destruct E as [a [Ha E]].
  apply existsb_exists in E. destruct E as [b [Hb E]].
  unfold collides in E. apply andb_true_iff in E. destruct E as [E1 E2].
  apply sum_beq_eq in E1. apply negb_true_iff in E2.
  rewrite forallb_forall in Hl.
  pose proof (key_sep_free_inj sep a b Hd (Hl _ Ha) (Hl _ Hb) E1) as K.
  apply shown_eqb_eq in K. congruence.
Qed.

(* ---------------------------------------------------------------------------------------------- *)
(* The request handler's post-authorization block (Model/Server.v [handle])                         *)
(* ---------------------------------------------------------------------------------------------- *)
(* the request reaches the authorization step with these values *)
Definition reaches (e : env) (cx : conn_ctx) (r : request)
           (ip port : N) (c : claims) (rs : option computed) : Prop :=
  e_counter_ok e = true /\ has_traversal r = false /\ is_provision r = false /\
  cx_dest cx = Some (ip, port) /\ cx_claims cx = Some c /\ e_claims_json_ok e c = true /\
  rules_for e (ipv4_text ip) port = ROk rs.

Definition relay_of (ip port : N) (c : claims) (r : request) : upstream :=
  {| up_ip := ip; up_port := port; up_claims := c; up_request := r |}.

Lemma handle_at_authz e cx r ip port c rs :
  reaches e cx r ip port c rs ->
  handle e cx r =
    let u := relay_of ip port c r in
    match authorize_at (ipv4_text ip) port c (url_of r) rs with
    | AOk => (Relay u, [UpstreamWrite u])
    | AOkWithAudit => (Relay u, [FailedSummary 403; UpstreamWrite u])
    | AForbidden => (Resp 403, [FailedSummary 403; Summary 403])
    end.
Proof.
  intros [Hc [Ht [Hp [Hd [Hk [Hj Hr]]]]]]. unfold handle, handle_gen.
  rewrite Hc, Ht, Hp, Hd, Hk, Hj, Hr. cbn [negb].
  destruct status_table as [_ [_ [_ [_ [_ [_ S403]]]]]]. rewrite S403. reflexivity.
Qed.

Lemma authz_builtin kd c u rs :
  builtin_ok kd c = true -> authorize kd c u rs = rules_decision c u rs.
Proof.
  unfold authorize, authorize_gen, rules_decision. destruct kd; cbn; intros H; try discriminate;
    try rewrite H; reflexivity.
Qed.

Lemma authz_at_builtin ip port c u rs :
  builtin_ok (kind_of ip port) c = true ->
  authorize_at ip port c u rs = rules_decision c u rs.
Proof. intros H. unfold authorize_at. apply authz_builtin; auto. Qed.

(* enforce: 403, one failed-summary record, nothing written upstream *)
Lemma enforce_blocks e cx r ip port c rl :
  reaches e cx r ip port c (Some rl) ->
  builtin_ok (kind_of (ipv4_text ip) port) c = true ->
  c_mode rl = Enforce -> rules_deny rl r c = true ->
  handle e cx r = (Resp 403, [FailedSummary 403; Summary 403]).
Proof.
  intros Hr Hb Hm Hd. rewrite (handle_at_authz _ _ _ _ _ _ _ Hr), (authz_at_builtin _ _ _ _ _ Hb).
  unfold rules_decision, rules_decision_gen, rules_deny, is_allowed in *.
  apply negb_true_iff in Hd. rewrite Hd, Hm. reflexivity.
Qed.

(* audit: relayed, with one failed-summary record *)
Lemma audit_forwards e cx r ip port c rl :
  reaches e cx r ip port c (Some rl) ->
  builtin_ok (kind_of (ipv4_text ip) port) c = true ->
  c_mode rl = Audit -> rules_deny rl r c = true ->
  handle e cx r = (Relay (relay_of ip port c r),
                   [FailedSummary 403; UpstreamWrite (relay_of ip port c r)]).
Proof.
  intros Hr Hb Hm Hd. rewrite (handle_at_authz _ _ _ _ _ _ _ Hr), (authz_at_builtin _ _ _ _ _ Hb).
  unfold rules_decision, rules_decision_gen, rules_deny, is_allowed in *.
  apply negb_true_iff in Hd. rewrite Hd, Hm. reflexivity.
Qed.

(* allowed (any mode, or no rules at all): relayed, no failed-summary record *)
Lemma allowed_forwards e cx r ip port c rs :
  reaches e cx r ip port c rs ->
  builtin_ok (kind_of (ipv4_text ip) port) c = true ->
  match rs with Some rl => rules_deny rl r c = false | None => True end ->
  handle e cx r = (Relay (relay_of ip port c r), [UpstreamWrite (relay_of ip port c r)]).
Proof.
  intros Hr Hb Hd. rewrite (handle_at_authz _ _ _ _ _ _ _ Hr), (authz_at_builtin _ _ _ _ _ Hb).
  unfold rules_decision, rules_decision_gen, rules_deny, is_allowed in *.
  destruct rs as [rl|]; [|reflexivity]. apply negb_false_iff in Hd. rewrite Hd. reflexivity.
Qed.

(* "exactly as an allowed one would be": the same request, on the same connection, denied in audit
   mode under one policy and allowed under another, yields the same outcome (the same upstream
   request: destination, claims, request) and the same upstream writes *)
Lemma audit_forwards_identically e e' cx r ip port c rl rs' :
  reaches e cx r ip port c (Some rl) -> reaches e' cx r ip port c rs' ->
  builtin_ok (kind_of (ipv4_text ip) port) c = true ->
  c_mode rl = Audit -> rules_deny rl r c = true ->
  match rs' with Some rl' => rules_deny rl' r c = false | None => True end ->
  fst (handle e cx r) = fst (handle e' cx r) /\
  write_effects (snd (handle e cx r)) = write_effects (snd (handle e' cx r)).
Proof.
  intros Hr Hr' Hb Hm Hd Hd'.
  rewrite (audit_forwards _ _ _ _ _ _ _ Hr Hb Hm Hd), (allowed_forwards _ _ _ _ _ _ _ Hr' Hb Hd').
  split; reflexivity.
Qed.

(* disabled: the rules' content is not consulted *)
Lemma disabled_is_allowed rl u c : c_mode rl = Disabled -> is_allowed rl u c = true.
Proof. intros H. unfold is_allowed, is_allowed_gen. rewrite H. reflexivity. Qed.

Lemma disabled_not_consulted kd c u rl rl' :
  c_mode rl = Disabled -> c_mode rl' = Disabled ->
  authorize kd c u (Some rl) = authorize kd c u (Some rl').
Proof.
  intros H H'. unfold authorize, authorize_gen, rules_decision_gen.
  pose proof (disabled_is_allowed rl u c H) as A. pose proof (disabled_is_allowed rl' u c H') as A'.
  unfold is_allowed in A, A'. destruct kd; try reflexivity; rewrite A, A'; reflexivity.
Qed.

Lemma disabled_forwards e cx r ip port c rl :
  reaches e cx r ip port c (Some rl) ->
  builtin_ok (kind_of (ipv4_text ip) port) c = true ->
  c_mode rl = Disabled ->
  handle e cx r = (Relay (relay_of ip port c r), [UpstreamWrite (relay_of ip port c r)]).
Proof.
  intros Hr Hb Hm. apply (allowed_forwards _ _ _ _ _ _ _ Hr Hb).
  unfold rules_deny. rewrite (disabled_is_allowed _ _ _ Hm). reflexivity.
Qed.

(* exactly when a failed-summary record is written: the boolean specification ... *)
Definition auth_is_ok (a : auth_result) : bool := match a with AOk => true | _ => false end.

Definition records_failure (e : env) (cx : conn_ctx) (r : request) : bool :=
  e_counter_ok e && negb (has_traversal r) && negb (is_provision r) &&
  match cx_dest cx with
  | None => false
  | Some (ip, port) =>
      match cx_claims cx with
      | None => true                                   (* attributed destination, unknown caller *)
      | Some c =>
          e_claims_json_ok e c &&
          match rules_for e (ipv4_text ip) port with
          | RErr => false
          | ROk rs => negb (auth_is_ok (authorize_at (ipv4_text ip) port c (url_of r) rs))
          end
      end
  end.

(* ... one record when it says so, none otherwise: never two, for every request whatsoever *)
Lemma failed_effects_exact e cx r :
  failed_effects (snd (handle e cx r)) = if records_failure e cx r then 1%nat else 0%nat.
Proof.
  unfold handle, handle_gen, records_failure.
  destruct (e_counter_ok e); cbn [negb andb]; [|reflexivity].
  destruct (has_traversal r); cbn [negb andb]; [reflexivity|].
  destruct (is_provision r); cbn [negb andb]; [reflexivity|].
  destruct (cx_dest cx) as [[ip port]|]; [|reflexivity].
  destruct (cx_claims cx) as [c|]; [|reflexivity].
  destruct (e_claims_json_ok e c); cbn [negb andb]; [|reflexivity].
  destruct (rules_for e (ipv4_text ip) port) as [rs|]; [|reflexivity].
  destruct (authorize_at (ipv4_text ip) port c (url_of r) rs); reflexivity.
Qed.

Lemma failed_effects_le_1 e cx r : (failed_effects (snd (handle e cx r)) <= 1)%nat.
Proof. rewrite failed_effects_exact. destruct (records_failure e cx r); lia. Qed.

(* whose fields the record carries: the caller's, as the connection context has them *)
Lemma summary_of_caller ci st ip port c :
  cx_dest (ci_ctx ci) = Some (ip, port) -> cx_claims (ci_ctx ci) = Some c ->
  let s := summary_of ci st in
  sm_user s = k_user c /\ sm_groups s = k_groups c /\ sm_path s = k_exe c /\
  sm_cmd s = ci_cmd ci /\ sm_client_ip s = ci_client_ip ci /\
  sm_ip s = ipv4_text ip /\ sm_port s = port /\ sm_status s = status_text st.
Proof. intros Hd Hk. unfold summary_of. rewrite Hd, Hk. cbn. repeat split; reflexivity. Qed.

(* ---------------------------------------------------------------------------------------------- *)
(* Histories of requests                                                                            *)
(* ---------------------------------------------------------------------------------------------- *)
Section Histories.
Context (key : summary -> bytes).

Lemma failed_of_length rv : length (failed_of rv) = failed_effects (effects_of rv).
Proof.
  unfold failed_of, failed_effects. induction (effects_of rv) as [|f t IH]; cbn; auto.
  destruct f; cbn; auto.
Qed.

Lemma failed_of_le_1 rv : (length (failed_of rv) <= 1)%nat.
Proof. rewrite failed_of_length. apply failed_effects_le_1. Qed.

Lemma msgs_no_clear reqs : no_clear (flat_map msgs_of reqs) = true.
Proof.
  unfold no_clear. apply forallb_forall. intros m Hin. apply in_flat_map in Hin.
  destruct Hin as [rv [_ Hin]]. unfold msgs_of in Hin. apply in_flat_map in Hin.
  destruct Hin as [f [_ Hin]]. destruct f; cbn in Hin; try tauto;
    destruct Hin as [Hin|[]]; subst; reflexivity.
Qed.

Lemma msgs_failed_filter k reqs :
  length (filter (is_failed_for key k) (flat_map msgs_of reqs)) =
  length (filter (fun s => beq (key s) k) (flat_map failed_of reqs)).
Proof.
  induction reqs as [|rv t IH]; cbn [flat_map]; auto.
  rewrite !filter_app, !app_length, IH. f_equal.
  unfold msgs_of, failed_of. induction (effects_of rv) as [|f fx IHf]; cbn [flat_map]; auto.
  rewrite !filter_app, !app_length, IHf. f_equal.
  destruct f; cbn; auto. destruct (beq _ k); reflexivity.
Qed.

(* any set of requests, their actor messages received in ANY order: the count under a key is the
   number of requests whose failed-summary record has that key *)
Lemma counts_over_request_histories reqs ms k :
  Permutation ms (flat_map msgs_of reqs) ->
  count_of (failed (arun key agent0 ms)) k =
  N.of_nat (length (filter (fun s => beq (key s) k) (flat_map failed_of reqs))).
Proof.
  intros P. apply Permutation_sym in P.
  rewrite <- (failed_count_perm key _ _ k P (msgs_no_clear reqs)).
  rewrite failed_count_history, (since_clear_no_clear _ (msgs_no_clear reqs)).
  rewrite msgs_failed_filter. reflexivity.
Qed.

End Histories.
