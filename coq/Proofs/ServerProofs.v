(* C01 -- lemmas about Model/Server.v.  Everything about [handle_gen] is proved for an ARBITRARY
   authorization function [authz] (the stronger statement); the instantiation with
   Model/Authorizer.v's [authorize_at] follows at the end. *)
From GPA Require Import Server.
From Coq Require Import Lia.

(* ---------------------------------------------------------------------------------------------- *)
(* small facts about byte strings                                                                  *)
(* ---------------------------------------------------------------------------------------------- *)
Lemma srv_beq_refl : forall a, beq a a = true.
Proof. induction a; simpl; auto. rewrite N.eqb_refl. auto. Qed.

Lemma srv_beq_eq : forall a b, beq a b = true <-> a = b.
Proof.
  induction a; destruct b; simpl; split; intro H; try congruence; try discriminate; auto.
  - apply andb_true_iff in H. destruct H as [H1 H2]. apply N.eqb_eq in H1. apply IHa in H2. congruence.
  - inversion H; subst. rewrite N.eqb_refl. simpl. apply srv_beq_refl.
Qed.

Lemma srv_prefix : forall p o, beq p (firstn (length p) o) = true -> o = p ++ skipn (length p) o.
Proof.
  intros p o H. apply srv_beq_eq in H.
  rewrite <- (firstn_skipn (length p) o) at 1. rewrite <- H. reflexivity.
Qed.

Lemma srv_firstn_app_self : forall (p t : bytes), firstn (length p) (p ++ t) = p.
Proof. induction p; simpl; intros; auto. rewrite IHp. reflexivity. Qed.

Lemma srv_skipn_app_self : forall (p t : bytes), skipn (length p) (p ++ t) = t.
Proof. induction p; simpl; intros; auto. Qed.

(* ---------------------------------------------------------------------------------------------- *)
(* the regenerated status constants are the ones the property lists                                 *)
(* ---------------------------------------------------------------------------------------------- *)
Lemma status_table :
  Consts.handler_status_traversal = 404 /\
  Consts.handler_status_no_destination = 421 /\
  Consts.handler_status_no_claims = 421 /\
  Consts.handler_status_claims_json = 421 /\
  Consts.handler_status_rules_error = 500 /\
  Consts.handler_status_counter_failure = 500 /\
  Consts.handler_status_forbidden = 403.
Proof. repeat split; reflexivity. Qed.

Lemma statuses_listed :
  forallb (fun s => existsb (N.eqb s) refusal_statuses)
    [Consts.handler_status_traversal; Consts.handler_status_no_destination;
     Consts.handler_status_no_claims; Consts.handler_status_claims_json;
     Consts.handler_status_rules_error; Consts.handler_status_counter_failure;
     Consts.handler_status_forbidden] = true.
Proof. vm_compute. reflexivity. Qed.

Lemma listed_in : forall s, existsb (N.eqb s) refusal_statuses = true -> In s refusal_statuses.
Proof.
  intros s H. apply existsb_exists in H. destruct H as [x [Hin Heq]].
  apply N.eqb_eq in Heq. subst. exact Hin.
Qed.

Ltac listed :=
  apply listed_in;
  let H := fresh in
  pose proof statuses_listed as H; cbn [forallb] in H;
  repeat (apply andb_true_iff in H; destruct H as [? H]); assumption.

(* ---------------------------------------------------------------------------------------------- *)
(* handle_gen: inversion of every outcome                                                           *)
(* ---------------------------------------------------------------------------------------------- *)
Section Gen.
  Context (authz : bytes -> N -> claims -> url -> option computed -> auth_result).

  Local Notation handle' := (handle_gen authz).

  (* the conjunction of the handler's checks, in code order *)
  Definition passes (e : env) (cx : conn_ctx) (r : request) : bool :=
    e_counter_ok e && negb (has_traversal r) && negb (is_provision r) &&
    match cx_dest cx, cx_claims cx with
    | Some (ip, port), Some c =>
        e_claims_json_ok e c &&
        match rules_for e (ipv4_text ip) port with
        | ROk rs => forwards (authz (ipv4_text ip) port c (url_of r) rs)
        | RErr => false
        end
    | _, _ => false
    end.

  Lemma relay_inv : forall e cx r u fx,
    handle' e cx r = (Relay u, fx) ->
    e_counter_ok e = true /\ has_traversal r = false /\ is_provision r = false /\
    cx_dest cx = Some (up_ip u, up_port u) /\ cx_claims cx = Some (up_claims u) /\
    e_claims_json_ok e (up_claims u) = true /\ up_request u = r /\
    exists rs, rules_for e (ipv4_text (up_ip u)) (up_port u) = ROk rs /\
               authz (ipv4_text (up_ip u)) (up_port u) (up_claims u) (url_of r) rs <> AForbidden /\
               In (UpstreamWrite u) fx.
  Proof.
    intros e cx r u fx H. unfold handle_gen in H.
    destruct (e_counter_ok e) eqn:Hc; cbn [negb] in H; [|discriminate].
    destruct (has_traversal r) eqn:Ht; [discriminate|].
    destruct (is_provision r) eqn:Hp; [discriminate|].
    destruct (cx_dest cx) as [[ip port]|] eqn:Hd; [|discriminate].
    destruct (cx_claims cx) as [c|] eqn:Hk; [|discriminate].
    destruct (e_claims_json_ok e c) eqn:Hj; cbn [negb] in H; [|discriminate].
    destruct (rules_for e (ipv4_text ip) port) as [rs|] eqn:Hr; [|discriminate].
    destruct (authz (ipv4_text ip) port c (url_of r) rs) eqn:Ha; inversion H; subst u fx;
      cbn [up_ip up_port up_claims up_request];
      (repeat split; auto; exists rs; split; [exact Hr|]; split;
       [rewrite Ha; discriminate | cbn; auto]).
  Qed.

  Lemma relay_iff_passes : forall e cx r,
    is_relay (fst (handle' e cx r)) = passes e cx r.
  Proof.
    intros e cx r. unfold handle_gen, passes.
    destruct (e_counter_ok e); cbn [negb andb]; [|reflexivity].
    destruct (has_traversal r); cbn [negb andb]; [reflexivity|].
    destruct (is_provision r); cbn [negb andb]; [reflexivity|].
    destruct (cx_dest cx) as [[ip port]|]; [|reflexivity].
    destruct (cx_claims cx) as [c|]; [|reflexivity].
    destruct (e_claims_json_ok e c); cbn [negb andb]; [|reflexivity].
    destruct (rules_for e (ipv4_text ip) port) as [rs|]; [|reflexivity].
    destruct (authz (ipv4_text ip) port c (url_of r) rs); reflexivity.
  Qed.

  (* upstream bytes are written exactly when the outcome is Relay *)
  Lemma write_iff_relay : forall e cx r,
    writes_upstream (snd (handle' e cx r)) = is_relay (fst (handle' e cx r)).
  Proof.
    intros e cx r. unfold handle_gen.
    destruct (e_counter_ok e); cbn [negb]; [|reflexivity].
    destruct (has_traversal r); [reflexivity|].
    destruct (is_provision r); [reflexivity|].
    destruct (cx_dest cx) as [[ip port]|]; [|reflexivity].
    destruct (cx_claims cx) as [c|]; [|reflexivity].
    destruct (e_claims_json_ok e c); cbn [negb]; [|reflexivity].
    destruct (rules_for e (ipv4_text ip) port) as [rs|]; [|reflexivity].
    destruct (authz (ipv4_text ip) port c (url_of r) rs); reflexivity.
  Qed.

  Lemma not_relay_bool : forall o, (forall u, o <> Relay u) -> is_relay o = false.
  Proof. destruct o; intros H; auto. exfalso. apply (H u). reflexivity. Qed.

  Lemma no_upstream_byte_otherwise : forall e cx r,
    (forall u, fst (handle' e cx r) <> Relay u) ->
    forall b, ~ In (UpstreamWrite b) (snd (handle' e cx r)).
  Proof.
    intros e cx r H b Hin.
    pose proof (write_iff_relay e cx r) as W. rewrite (not_relay_bool _ H) in W.
    unfold writes_upstream in W.
    assert (existsb (fun f => match f with UpstreamWrite _ => true | _ => false end)
                    (snd (handle' e cx r)) = true) as E.
    { apply existsb_exists. exists (UpstreamWrite b). split; auto. }
    congruence.
  Qed.

  (* the written request is the authorized one, and nothing else is written *)
  Lemma only_the_relayed_request_is_written : forall e cx r b,
    In (UpstreamWrite b) (snd (handle' e cx r)) -> fst (handle' e cx r) = Relay b.
  Proof.
    intros e cx r b. unfold handle_gen.
    destruct (e_counter_ok e); cbn [negb]; [|cbn; tauto].
    destruct (has_traversal r); [cbn; intuition discriminate|].
    destruct (is_provision r); [cbn; tauto|].
    destruct (cx_dest cx) as [[ip port]|]; [|cbn; intuition discriminate].
    destruct (cx_claims cx) as [c|]; [|cbn; intuition discriminate].
    destruct (e_claims_json_ok e c); cbn [negb]; [|cbn; intuition discriminate].
    destruct (rules_for e (ipv4_text ip) port) as [rs|]; [|cbn; intuition discriminate].
    destruct (authz (ipv4_text ip) port c (url_of r) rs); cbn; intuition (try discriminate; congruence).
  Qed.

  Lemma error_status : forall e cx r,
    (forall u, fst (handle' e cx r) <> Relay u) ->
    fst (handle' e cx r) = Provision \/
    exists s, fst (handle' e cx r) = Resp s /\ In s refusal_statuses.
  Proof.
    intros e cx r H. revert H. unfold handle_gen.
    destruct (e_counter_ok e); cbn [negb]; [|intros _; right; eexists; split; [reflexivity|listed]].
    destruct (has_traversal r); [intros _; right; eexists; split; [reflexivity|listed]|].
    destruct (is_provision r); [intros _; left; reflexivity|].
    destruct (cx_dest cx) as [[ip port]|]; [|intros _; right; eexists; split; [reflexivity|listed]].
    destruct (cx_claims cx) as [c|]; [|intros _; right; eexists; split; [reflexivity|listed]].
    destruct (e_claims_json_ok e c); cbn [negb]; [|intros _; right; eexists; split; [reflexivity|listed]].
    destruct (rules_for e (ipv4_text ip) port) as [rs|]; [|intros _; right; eexists; split; [reflexivity|listed]].
    destruct (authz (ipv4_text ip) port c (url_of r) rs); cbn [fst]; intros H.
    - exfalso. eapply H. reflexivity.
    - exfalso. eapply H. reflexivity.
    - right; eexists; split; [reflexivity|listed].
  Qed.

  (* ---- the case table: each refusal, with its exact status, and no upstream write ---- *)
  Definition refused_with (x : outcome * list effect) (s : N) : Prop :=
    fst x = Resp s /\ writes_upstream (snd x) = false.

  Lemma case_traversal : forall e cx r,
    e_counter_ok e = true -> has_traversal r = true ->
    refused_with (handle' e cx r) 404.
  Proof. intros e cx r Hc Ht. unfold handle_gen. rewrite Hc, Ht. split; reflexivity. Qed.

  Lemma case_direct : forall e cx r,
    e_counter_ok e = true -> has_traversal r = false -> is_provision r = false ->
    cx_dest cx = None ->
    refused_with (handle' e cx r) 421.
  Proof. intros e cx r Hc Ht Hp Hd. unfold handle_gen. rewrite Hc, Ht, Hp, Hd. split; reflexivity. Qed.

  Lemma case_unknown_caller : forall e cx r,
    e_counter_ok e = true -> has_traversal r = false -> is_provision r = false ->
    cx_claims cx = None ->
    refused_with (handle' e cx r) 421.
  Proof.
    intros e cx r Hc Ht Hp Hk. unfold handle_gen. rewrite Hc, Ht, Hp, Hk.
    destruct (cx_dest cx) as [[ip port]|]; split; reflexivity.
  Qed.

  Lemma case_lookup_failure : forall e cx r ip port c,
    e_counter_ok e = true -> has_traversal r = false -> is_provision r = false ->
    cx_dest cx = Some (ip, port) -> cx_claims cx = Some c -> e_claims_json_ok e c = true ->
    rules_for e (ipv4_text ip) port = RErr ->
    refused_with (handle' e cx r) 500.
  Proof.
    intros e cx r ip port c Hc Ht Hp Hd Hk Hj Hr. unfold handle_gen.
    rewrite Hc, Ht, Hp, Hd, Hk, Hj, Hr. split; reflexivity.
  Qed.

  Lemma case_enforced_denial : forall e cx r ip port c rs,
    e_counter_ok e = true -> has_traversal r = false -> is_provision r = false ->
    cx_dest cx = Some (ip, port) -> cx_claims cx = Some c -> e_claims_json_ok e c = true ->
    rules_for e (ipv4_text ip) port = ROk rs ->
    authz (ipv4_text ip) port c (url_of r) rs = AForbidden ->
    refused_with (handle' e cx r) 403.
  Proof.
    intros e cx r ip port c rs Hc Ht Hp Hd Hk Hj Hr Ha. unfold handle_gen.
    rewrite Hc, Ht, Hp, Hd, Hk, Hj, Hr, Ha. split; reflexivity.
  Qed.

  (* a direct connection or an unknown caller is never relayed, whatever else holds *)
  Lemma unattributed_never_relayed : forall e cx r,
    cx_dest cx = None \/ cx_claims cx = None ->
    is_relay (fst (handle' e cx r)) = false.
  Proof.
    intros e cx r H. rewrite relay_iff_passes. unfold passes.
    destruct (cx_dest cx) as [[ip port]|]; destruct (cx_claims cx); destruct H; try discriminate;
      rewrite andb_false_r; reflexivity.
  Qed.

  (* the forward step is reached whenever every check passes: completeness of the mediation *)
  Lemma relay_when_passes : forall e cx r ip port c rs,
    e_counter_ok e = true -> has_traversal r = false -> is_provision r = false ->
    cx_dest cx = Some (ip, port) -> cx_claims cx = Some c -> e_claims_json_ok e c = true ->
    rules_for e (ipv4_text ip) port = ROk rs ->
    authz (ipv4_text ip) port c (url_of r) rs <> AForbidden ->
    fst (handle' e cx r) =
      Relay {| up_ip := ip; up_port := port; up_claims := c; up_request := r |}.
  Proof.
    intros e cx r ip port c rs Hc Ht Hp Hd Hk Hj Hr Ha. unfold handle_gen.
    rewrite Hc, Ht, Hp, Hd, Hk, Hj, Hr.
    destruct (authz (ipv4_text ip) port c (url_of r) rs); try reflexivity. congruence.
  Qed.
End Gen.

(* ---------------------------------------------------------------------------------------------- *)
(* accept: the context comes from the kernel's record and from nothing else                         *)
(* ---------------------------------------------------------------------------------------------- *)
Lemma accept_hit : forall os fr m p e,
  alookup N.eqb p m = Some e -> fst (accept os fr m p) = ctx_of os e.
Proof. intros. unfold accept. rewrite H. reflexivity. Qed.

Lemma accept_miss : forall os fr m p,
  alookup N.eqb p m = None -> accept os fr m p = (ctx_none, m).
Proof. intros. unfold accept. rewrite H. reflexivity. Qed.

Lemma ctx_from_kernel_only : forall os fr m p cx m',
  accept os fr m p = (cx, m') ->
  cx_claims cx <> None \/ cx_dest cx <> None ->
  exists e, alookup N.eqb p m = Some e /\ cx = ctx_of os e.
Proof.
  intros os fr m p cx m' H Hn. unfold accept in H.
  destruct (alookup N.eqb p m) as [e|] eqn:L.
  - inversion H; subst. exists e. auto.
  - inversion H; subst. cbn in Hn. destruct Hn as [Hn|Hn]; congruence.
Qed.

(* the claims carry the record's uid-derived elevation bit and the destination is the recorded one *)
Lemma ctx_fields_from_record : forall os e c,
  cx_claims (ctx_of os e) = Some c ->
  k_elevated c = elevated_of_audit (ae_is_admin e) /\
  cx_dest (ctx_of os e) = Some (ae_ip e, ae_port e).
Proof.
  intros os e c H. cbn in H. unfold claims_of_entry in H.
  destruct (os (ae_logon e) (ae_pid e)) as [[[[u g] p] x]|]; [|discriminate].
  inversion H; subst. cbn. auto.
Qed.

(* records under OTHER source ports are irrelevant *)
Lemma accept_local : forall os fr m1 m2 p,
  alookup N.eqb p m1 = alookup N.eqb p m2 ->
  fst (accept os fr m1 p) = fst (accept os fr m2 p).
Proof. intros. unfold accept. rewrite H. destruct (alookup N.eqb p m2); reflexivity. Qed.

(* ---------------------------------------------------------------------------------------------- *)
(* accept + handle                                                                                  *)
(* ---------------------------------------------------------------------------------------------- *)
Section ServeGen.
  Context (authz : bytes -> N -> claims -> url -> option computed -> auth_result).

  Lemma served_relay_attributed_authorized : forall os fr e m p r u fx,
    handle_gen authz e (fst (accept os fr m p)) r = (Relay u, fx) ->
    exists rec rs,
      alookup N.eqb p m = Some rec /\
      up_ip u = ae_ip rec /\ up_port u = ae_port rec /\
      claims_of_entry os rec = Some (up_claims u) /\
      k_elevated (up_claims u) = elevated_of_audit (ae_is_admin rec) /\
      has_traversal r = false /\
      rules_for e (ipv4_text (ae_ip rec)) (ae_port rec) = ROk rs /\
      authz (ipv4_text (ae_ip rec)) (ae_port rec) (up_claims u) (url_of r) rs <> AForbidden.
  Proof.
    intros os fr e m p r u fx H.
    apply relay_inv in H.
    destruct H as (Hc & Ht & Hp & Hd & Hk & Hj & Hu & rs & Hr & Ha & Hin).
    destruct (accept os fr m p) as [cx m'] eqn:A. cbn [fst] in *.
    destruct (ctx_from_kernel_only _ _ _ _ _ _ A) as [rec [L E]].
    { left. congruence. }
    subst cx. cbn [cx_dest ctx_of] in Hd.
    assert (up_ip u = ae_ip rec /\ up_port u = ae_port rec) as [Hip Hport] by (inversion Hd; auto).
    destruct (ctx_fields_from_record os rec (up_claims u) Hk) as [He _].
    rewrite Hip, Hport in Hr, Ha.
    exists rec, rs. repeat split; auto.
  Qed.

  Lemma served_direct_refused : forall os fr e m p r,
    alookup N.eqb p m = None ->
    is_relay (fst (handle_gen authz e (fst (accept os fr m p)) r)) = false /\
    writes_upstream (snd (handle_gen authz e (fst (accept os fr m p)) r)) = false.
  Proof.
    intros os fr e m p r L. rewrite accept_miss by exact L. cbn [fst].
    rewrite write_iff_relay. split; apply unattributed_never_relayed; left; reflexivity.
  Qed.
End ServeGen.

(* ---------------------------------------------------------------------------------------------- *)
(* instantiation with the policy of Model/Authorizer.v                                              *)
(* ---------------------------------------------------------------------------------------------- *)
Lemma forwards_iff : forall r, forwards r = true <-> r <> AForbidden.
Proof. destruct r; cbn; split; intro H; try congruence; try discriminate; auto. Qed.

Lemma handle_relay_policy : forall e cx r u fx,
  handle e cx r = (Relay u, fx) ->
  exists rs, rules_for e (ipv4_text (up_ip u)) (up_port u) = ROk rs /\
             forwards (authorize_at (ipv4_text (up_ip u)) (up_port u) (up_claims u) (url_of r) rs) = true.
Proof.
  intros e cx r u fx H. apply relay_inv in H.
  destruct H as (_ & _ & _ & _ & _ & _ & _ & rs & Hr & Ha & _).
  exists rs. split; auto. apply forwards_iff. exact Ha.
Qed.

(* ---------------------------------------------------------------------------------------------- *)
(* "/provision" is compared against the whole URI; ".." is tested on the path only                  *)
(* ---------------------------------------------------------------------------------------------- *)
Lemma provision_path_plain :
  forallb (fun c => negb (c =? QMARK) && negb (c =? HASH)) Consts.provision_url_path = true.
Proof. vm_compute. reflexivity. Qed.

Lemma srv_plain_suffix : forall (p t : bytes) (o : bytes),
  forallb (fun c => negb (c =? QMARK) && negb (c =? HASH)) o = true ->
  o = p ++ t ->
  match t with [] => True | c :: _ => (c =? QMARK) = false /\ (c =? HASH) = false end.
Proof.
  intros p t o H E. subst o. rewrite forallb_app in H. apply andb_true_iff in H. destruct H as [_ H].
  destruct t; auto. cbn in H. apply andb_true_iff in H. destruct H as [H _].
  apply andb_true_iff in H. destruct H as [H1 H2].
  split; [destruct (n =? QMARK)|destruct (n =? HASH)]; auto; discriminate.
Qed.

Lemma uri_eq_origin : forall path q other,
  forallb (fun c => negb (c =? QMARK) && negb (c =? HASH)) other = true ->
  uri_eq_str (origin_uri path q) other = true <->
  path = other /\ (q = None \/ q = Some []).
Proof.
  intros path q other Hplain. unfold uri_eq_str, origin_uri. cbn [ur_scheme ur_authority ur_path ur_query].
  destruct ((N.of_nat (length other) <? N.of_nat (length path))
            || negb (beq path (firstn (length path) other))) eqn:C.
  - cbn [andb]. split; [discriminate|]. intros [E _]. subst other.
    apply orb_true_iff in C. destruct C as [C|C].
    + apply N.ltb_lt in C. lia.
    + rewrite firstn_all in C. rewrite srv_beq_refl in C. discriminate.
  - apply orb_false_iff in C. destruct C as [_ C]. apply negb_false_iff in C.
    pose proof (srv_prefix _ _ C) as E.
    pose proof (srv_plain_suffix _ _ _ Hplain E) as T.
    destruct (skipn (length path) other) as [|c t] eqn:S.
    + rewrite app_nil_r in E. subst other.
      destruct q as [[|x q']|].
      * split; auto.
      * split; [discriminate|]. intros [_ [H|H]]; discriminate.
      * split; auto.
    + destruct T as [T1 T2].
      assert (path <> other) as NE.
      { intro E'. rewrite <- E' in E. apply (f_equal (@length _)) in E.
        rewrite app_length in E. cbn in E. lia. }
      destruct q as [q'|].
      * rewrite T1. cbn [negb]. split; [discriminate|]. intros [E' _]. contradiction.
      * cbn. rewrite T2. split; [discriminate|]. intros [E' _]. contradiction.
Qed.

Lemma is_provision_origin : forall m path q,
  is_provision {| rq_method := m; rq_uri := origin_uri path q |} = true <->
  path = Consts.provision_url_path /\ (q = None \/ q = Some []).
Proof. intros. unfold is_provision. cbn [rq_uri]. apply uri_eq_origin. exact provision_path_plain. Qed.

(* the kernel-side constants and the texts the authorizer compares denote the same addresses *)
Lemma ip_constants_consistent :
  ipv4_text Consts.wire_server_ip_network_byte_order = Consts.wire_server_ip /\
  ipv4_text Consts.ga_plugin_ip_network_byte_order = Consts.ga_plugin_ip /\
  ipv4_text Consts.imds_ip_network_byte_order = Consts.imds_ip /\
  ipv4_text Consts.proxy_agent_ip_network_byte_order = Consts.proxy_agent_ip.
Proof. repeat split; vm_compute; reflexivity. Qed.
