(* C05 -- the code since /repo c9df24c (Headers.proxy_forward_c9): the owned-header theorems at full
   strength for the repaired forwarding function, and its relation to Headers.proxy_forward. *)
From GPA Require Import Headers HeadersProofs.

Definition te := transfer_encoding_header.

Lemma te_not_owned :
  beq claims_header te = false /\ beq date_header te = false /\ beq auth_header te = false /\ lower te = te.
Proof. vm_compute. repeat split. Qed.

Lemma get_all_drop n m hs : beq n m = false -> hm_get_all n (drop_header m hs) = hm_get_all n hs.
Proof.
  intros H. rewrite !get_all_fname. unfold drop_header. f_equal. apply filter_drop_name.
  destruct (beq n m) eqn:E; [discriminate|reflexivity].
Qed.

Lemma in_drop x m hs : In x (drop_header m hs) -> In x hs.
Proof. unfold drop_header. intros H. apply filter_In in H as [H _]. exact H. Qed.

(* the head the signed route works on: the required headers in place, the framing header of an
   empty body gone *)
Definition wire_head (a : audit) (now : bytes) (c : client_request) : headers :=
  r_headers (hyper_wire {| r_method := c_method c; r_uri := c_uri c; r_headers := required a now c; r_body := c_body c |}).

Lemma wire_head_cases a now c :
  wire_head a now c = required a now c \/ wire_head a now c = drop_header te (required a now c).
Proof. unfold wire_head, hyper_wire. cbn [r_body]. destruct (c_body c); cbn; auto. Qed.

Definition base_c9 (a : audit) (now : bytes) (c : client_request) : headers :=
  if should_skip_sig (c_method c) (c_uri c) then required a now c else wire_head a now c.

Lemma forward_c9_shape mac a now kv kg c out :
  proxy_forward_c9 mac a now kv kg c = Forwarded out ->
  r_method out = c_method c /\ r_uri out = c_uri c /\ r_body out = c_body c /\
  (if is_signed kv kg c
   then exists key guid sig,
       kv = Some key /\ kg = Some guid /\
       compute_signature mac key (as_sig_input (c_method c) (c_body c) (wire_head a now c) (c_uri c)) = Some sig /\
       r_headers out = hm_insert auth_header (auth_value guid sig) (wire_head a now c)
   else r_headers out = base_c9 a now c).
Proof.
  unfold proxy_forward_c9, add_required_headers, is_signed, base_c9, wire_head, required.
  rewrite claims_text_ok.
  destruct (header_value_ok now); [|discriminate].
  unfold relay_c9. cbn [r_method r_uri].
  destruct (should_skip_sig (c_method c) (c_uri c)); cbn [negb andb].
  - intros H; inversion H; subst; cbn; auto.
  - unfold sign_and_forward.
    match goal with |- context [hyper_wire ?r] => set (W := hyper_wire r) end.
    assert (WM : r_method W = c_method c /\ r_uri W = c_uri c /\ r_body W = c_body c).
    { unfold W, hyper_wire. cbn [r_body]. destruct (c_body c); cbn; auto. }
    destruct WM as (W1 & W2 & W3).
    destruct kv as [key|]; [destruct kg as [guid|]|].
    + unfold compute_signature, request_sig_input. rewrite W1, W2, W3.
      destruct (hex_decode key) as [k|] eqn:Ek.
      * match goal with |- context [header_value_ok ?av] => destruct (header_value_ok av) end; [|discriminate].
        intros H; inversion H; subst; cbn [r_method r_uri r_headers r_body with_headers].
        repeat split; auto. exists key, guid. eexists. rewrite Ek. repeat split; reflexivity.
      * intros H; inversion H; subst; auto.
    + intros H; inversion H; subst; auto.
    + intros H; inversion H; subst; auto.
Qed.

Lemma get_all_wire_head n a now c :
  beq n te = false -> hm_get_all n (wire_head a now c) = hm_get_all n (required a now c).
Proof. intros H. destruct (wire_head_cases a now c) as [-> | ->]; [reflexivity|apply get_all_drop; exact H]. Qed.

Lemma get_all_base n a now c :
  beq n te = false -> hm_get_all n (base_c9 a now c) = hm_get_all n (required a now c).
Proof. intros H. unfold base_c9. destruct (should_skip_sig _ _); [reflexivity|apply get_all_wire_head; exact H]. Qed.

Lemma forward_c9_values mac a now kv kg c out n :
  proxy_forward_c9 mac a now kv kg c = Forwarded out ->
  beq n auth_header = false -> beq n te = false ->
  hm_get_all n (r_headers out) = hm_get_all n (required a now c).
Proof.
  intros H Hn Ht. apply forward_c9_shape in H as (_ & _ & _ & H).
  destruct (is_signed kv kg c).
  - destruct H as (key & guid & sig & _ & _ & _ & H). rewrite H, get_all_insert_other by exact Hn.
    apply get_all_wire_head; exact Ht.
  - rewrite H. apply get_all_base; exact Ht.
Qed.

Theorem c9_exactly_one_claims mac a now kv kg c out :
  proxy_forward_c9 mac a now kv kg c = Forwarded out ->
  hm_get_all claims_header (r_headers out) = [claims_text (run_as_elevated a)].
Proof.
  intros H. destruct names_distinct as (N1 & N2 & _). destruct te_not_owned as (T1 & _).
  rewrite (forward_c9_values _ _ _ _ _ _ _ _ H N2 T1). unfold required.
  rewrite get_all_insert_other by exact N1. apply get_all_insert_same.
Qed.

Theorem c9_exactly_one_date mac a now kv kg c out :
  proxy_forward_c9 mac a now kv kg c = Forwarded out ->
  hm_get_all date_header (r_headers out) = [now].
Proof.
  intros H. destruct names_distinct as (_ & _ & _ & N4 & _). destruct te_not_owned as (_ & T2 & _).
  rewrite (forward_c9_values _ _ _ _ _ _ _ _ H N4 T2). unfold required. apply get_all_insert_same.
Qed.

Theorem c9_auth_replaced_when_signed mac a now kv kg c out :
  proxy_forward_c9 mac a now kv kg c = Forwarded out ->
  is_signed kv kg c = true ->
  exists key guid sig,
    kv = Some key /\ kg = Some guid /\
    compute_signature mac key (as_sig_input (c_method c) (c_body c) (wire_head a now c) (c_uri c)) = Some sig /\
    hm_get_all auth_header (r_headers out) = [auth_value guid sig].
Proof.
  intros H S. apply forward_c9_shape in H as (_ & _ & _ & H). rewrite S in H.
  destruct H as (key & guid & sig & K1 & K2 & K3 & K4).
  exists key, guid, sig. repeat split; auto. rewrite K4. apply get_all_insert_same.
Qed.

(* the string that is signed names no transfer-encoding header when the body is empty *)
Theorem c9_empty_body_signs_no_te a now c :
  c_body c = [] -> hm_get_all te (wire_head a now c) = [].
Proof.
  intros E. unfold wire_head, hyper_wire. cbn [r_body]. rewrite E. cbn [with_headers r_headers].
  unfold hm_get_all, drop_header. rewrite <- (get_all_fname te). rewrite get_all_fname.
  change (filter (fname (beq te)) (filter (fun h : bytes * bytes => negb (beq te (fst h))) (required a now c))) with
         (filter (fname (beq te)) (filter (fun x : bytes * bytes => negb (beq te (fst x))) (required a now c))).
  rewrite filter_only_name. reflexivity.
Qed.
