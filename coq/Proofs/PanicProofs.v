(* C13 -- lemmas about Model/Panic.v: exact panic classes of the current forms, totality and
   conservativity of the repaired forms. *)
From GPA Require Import Panic.
From Coq Require Import Lia ZifyBool ZifyN Arith.
Arguments N.add : simpl never. Arguments N.sub : simpl never. Arguments N.mul : simpl never.
Arguments N.ltb : simpl never. Arguments N.leb : simpl never. Arguments N.eqb : simpl never.
Local Open Scope nat_scope.
Arguments N.div : simpl never. Arguments N.modulo : simpl never. Arguments N.pow : simpl never.

(* ------------------------------------------------------------------------------------------ *)
(* char boundaries, slicing, the floor cut                                                     *)
(* ------------------------------------------------------------------------------------------ *)
Lemma boundary_0 s : is_char_boundary s 0 = true.
Proof. reflexivity. Qed.

Lemma boundary_len s : is_char_boundary s (length s) = true.
Proof.
  unfold is_char_boundary. destruct (length s) eqn:E; [reflexivity|].
  rewrite <- E. assert (H : nth_error s (length s) = None) by (apply nth_error_None; lia).
  rewrite H. apply Nat.eqb_refl.
Qed.

Lemma boundary_beyond s n : length s < n -> is_char_boundary s n = false.
Proof.
  intros H. unfold is_char_boundary. destruct n; [lia|].
  assert (E : nth_error s (S n) = None) by (apply nth_error_None; lia).
  rewrite E. apply Nat.eqb_neq. lia.
Qed.

Lemma boundary_inside s n : 0 < n -> n < length s ->
  is_char_boundary s n = match nth_error s n with Some b => negb (is_cont b) | None => false end.
Proof.
  intros H0 H. unfold is_char_boundary. destruct n; [lia|].
  destruct (nth_error s (S n)) eqn:E; [reflexivity|].
  apply nth_error_None in E. lia.
Qed.

Lemma boundary_le_len s n : is_char_boundary s n = true -> n <= length s.
Proof.
  intros H. destruct (Nat.le_gt_cases n (length s)); [assumption|].
  rewrite boundary_beyond in H by assumption. discriminate.
Qed.

Lemma slice_to_none_iff s n : slice_to s n = None <-> is_char_boundary s n = false.
Proof. unfold slice_to. destruct (is_char_boundary s n); split; congruence. Qed.

Lemma slice_to_some s n r : slice_to s n = Some r -> r = firstn n s /\ n <= length s.
Proof.
  unfold slice_to. destruct (is_char_boundary s n) eqn:E; [|discriminate].
  intros H; inversion H; split; [reflexivity|]. now apply boundary_le_len.
Qed.

Lemma truncate_none_iff s n :
  truncate s n = None <-> n <= length s /\ is_char_boundary s n = false.
Proof.
  unfold truncate. destruct (Nat.leb_spec n (length s)).
  - rewrite slice_to_none_iff. tauto.
  - split; [discriminate|]. intros [? _]; lia.
Qed.

Lemma floor_le s n : floor_boundary s n <= n.
Proof. induction n; cbn [floor_boundary]; [lia|]. destruct (is_char_boundary s (S n)); lia. Qed.

Lemma floor_is_boundary s n : is_char_boundary s (floor_boundary s n) = true.
Proof.
  induction n; cbn [floor_boundary]; [reflexivity|].
  destruct (is_char_boundary s (S n)) eqn:E; assumption.
Qed.

Lemma floor_maximal s n m : floor_boundary s n < m -> m <= n -> is_char_boundary s m = false.
Proof.
  induction n; cbn [floor_boundary]; intros H1 H2; [lia|].
  destruct (is_char_boundary s (S n)) eqn:E; [lia|].
  destruct (Nat.eq_dec m (S n)) as [->|]; [assumption|]. apply IHn; lia.
Qed.

Lemma floor_id s n : is_char_boundary s n = true -> floor_boundary s n = n.
Proof. destruct n; cbn [floor_boundary]; [reflexivity|]. intros ->; reflexivity. Qed.

Lemma floor_le_len s n : floor_boundary s n <= length s.
Proof. apply boundary_le_len, floor_is_boundary. Qed.

Lemma slice_floor s n : slice_to s (floor_boundary s n) = Some (firstn (floor_boundary s n) s).
Proof. unfold slice_to. now rewrite floor_is_boundary. Qed.

(* ------------------------------------------------------------------------------------------ *)
(* S1: the byte-offset cut                                                                     *)
(* ------------------------------------------------------------------------------------------ *)
Lemma straddles_spec mx s : 0 < mx ->
  straddles mx s = true <-> mx < length s /\ is_char_boundary s mx = false.
Proof.
  intros H0. unfold straddles. destruct (Nat.ltb_spec mx (length s)) as [L|L]; cbn [andb].
  - rewrite boundary_inside by assumption.
    destruct (nth_error s mx) eqn:E.
    + destruct (is_cont n); cbn; intuition congruence.
    + apply nth_error_None in E. lia.
  - split; [discriminate|]. intros [? _]; lia.
Qed.

Lemma cut_cur_panics_iff mx msg : 0 < mx ->
  cut_cur mx msg = None <-> straddles mx msg = true.
Proof.
  intros H0. rewrite straddles_spec by assumption. unfold cut_cur.
  destruct (Nat.ltb_spec mx (length msg)).
  - rewrite slice_to_none_iff. tauto.
  - split; [discriminate|]. intros [? _]; lia.
Qed.

Lemma cut_cur_some mx msg r : cut_cur mx msg = Some r ->
  r = (if Nat.ltb mx (length msg) then firstn mx msg else msg).
Proof.
  unfold cut_cur. destruct (Nat.ltb mx (length msg)).
  - intros H; apply slice_to_some in H; tauto.
  - congruence.
Qed.

Lemma cut_fixed_eq mx msg :
  cut_fixed mx msg = Some (if Nat.ltb mx (length msg) then cut_floor msg mx else msg).
Proof. unfold cut_fixed, cut_floor. destruct (Nat.ltb mx (length msg)); [apply slice_floor|reflexivity]. Qed.

Lemma cut_fixed_total mx msg : exists r, cut_fixed mx msg = Some r.
Proof. rewrite cut_fixed_eq. eauto. Qed.

(* what the repaired cut returns: a prefix of the message, ending on a char boundary, at most mx
   bytes long, and the LONGEST such prefix; short messages are untouched *)
Lemma cut_fixed_spec mx msg r : cut_fixed mx msg = Some r ->
  exists k, r = firstn k msg /\ k <= length msg /\ is_char_boundary msg k = true /\
            length r = k /\ k <= Nat.max mx 0 + 0 \/ (length msg <= mx /\ r = msg).
Proof.
  rewrite cut_fixed_eq. intros H; inversion H; clear H.
  destruct (Nat.ltb_spec mx (length msg)).
  - exists (floor_boundary msg mx). left. unfold cut_floor.
    pose proof (floor_le msg mx). pose proof (floor_le_len msg mx).
    repeat split; try lia.
    + apply floor_is_boundary.
    + rewrite firstn_length. lia.
  - exists 0. right. split; [lia|reflexivity].
Qed.

Lemma cut_fixed_length mx msg r : cut_fixed mx msg = Some r -> length r <= mx.
Proof.
  rewrite cut_fixed_eq. intros H; inversion H; clear H.
  destruct (Nat.ltb_spec mx (length msg)); [|lia].
  unfold cut_floor. rewrite firstn_length. pose proof (floor_le msg mx). lia.
Qed.

Lemma cut_fixed_prefix mx msg r : cut_fixed mx msg = Some r -> exists rest, msg = r ++ rest.
Proof.
  rewrite cut_fixed_eq. intros H; inversion H; clear H.
  destruct (Nat.ltb mx (length msg)).
  - exists (skipn (floor_boundary msg mx) msg). unfold cut_floor. now rewrite firstn_skipn.
  - exists []. now rewrite app_nil_r.
Qed.

Lemma cut_fixed_on_boundary mx msg r : cut_fixed mx msg = Some r -> is_char_boundary msg (length r) = true.
Proof.
  rewrite cut_fixed_eq. intros H; inversion H; clear H.
  destruct (Nat.ltb mx (length msg)).
  - unfold cut_floor. rewrite firstn_length, Nat.min_l by apply floor_le_len. apply floor_is_boundary.
  - apply boundary_len.
Qed.

Lemma cut_fixed_longest mx msg r m : cut_fixed mx msg = Some r ->
  length r < m -> m <= mx -> m <= length msg -> is_char_boundary msg m = false.
Proof.
  rewrite cut_fixed_eq. intros H; inversion H; clear H. subst r.
  destruct (Nat.ltb_spec mx (length msg)).
  - unfold cut_floor. rewrite firstn_length, Nat.min_l by apply floor_le_len.
    intros; eapply floor_maximal; eauto.
  - intros; lia.
Qed.

(* the repair changes nothing where the current code works *)
Lemma cut_fixed_agrees mx msg r : cut_cur mx msg = Some r -> cut_fixed mx msg = Some r.
Proof.
  unfold cut_cur, cut_fixed. destruct (Nat.ltb mx (length msg)); [|auto].
  unfold slice_to. destruct (is_char_boundary msg mx) eqn:E; [|discriminate].
  intros H. rewrite (floor_id _ _ E), E. assumption.
Qed.

(* the witness family: (mx - 1) x 'a' followed by "é" (C3 A9) *)
Definition straddle_witness (mx : nat) : bytes := repeat 97%N (mx - 1) ++ [195%N; 169%N].

Lemma witness_utf8 k : utf8_valid (repeat 97%N k ++ [195%N; 169%N]) = true.
Proof. induction k; [reflexivity|]. cbn [repeat app utf8_valid]. exact IHk. Qed.

Lemma witness_straddles mx : 0 < mx -> straddles mx (straddle_witness mx) = true.
Proof.
  intros H. unfold straddles, straddle_witness.
  rewrite app_length, repeat_length. cbn [length].
  replace (Nat.ltb mx (mx - 1 + 2)) with true by (symmetry; apply Nat.ltb_lt; lia).
  rewrite nth_error_app2 by (rewrite repeat_length; lia).
  rewrite repeat_length. replace (mx - (mx - 1)) with 1 by lia. reflexivity.
Qed.

Lemma MAXM_pos : 0 < MAXM. Proof. apply Nat.ltb_lt. vm_compute. reflexivity. Qed.
Lemma MAXE_pos : 0 < MAXE. Proof. apply Nat.ltb_lt. vm_compute. reflexivity. Qed.
Lemma MAXS_pos : 0 < MAXS. Proof. apply Nat.ltb_lt. vm_compute. reflexivity. Qed.

Global Opaque MAXM MAXE MAXS.

Lemma write_event_panics_iff msg : write_event_cur msg = None <-> Known_write_event msg = true.
Proof. apply cut_cur_panics_iff, MAXM_pos. Qed.

Lemma write_event_refuted : exists msg, utf8_valid msg = true /\ write_event_cur msg = None.
Proof.
  exists (straddle_witness MAXM). split; [apply witness_utf8|].
  apply write_event_panics_iff, witness_straddles, MAXM_pos.
Qed.

(* ------------------------------------------------------------------------------------------ *)
(* S2: connection summary                                                                      *)
(* ------------------------------------------------------------------------------------------ *)
Lemma trunc_cur_none_iff d : trunc_cur d = None <-> straddles MAXE d = true.
Proof.
  rewrite straddles_spec by apply MAXE_pos. unfold trunc_cur.
  destruct (Nat.ltb_spec MAXE (length d)).
  - rewrite truncate_none_iff. split; [intros [? ?]; split; assumption | intros [? ?]; split; [lia|assumption]].
  - split; [discriminate|]. intros [? _]; lia.
Qed.

Lemma trunc_cur_some d r : trunc_cur d = Some r -> r = firstn MAXE d.
Proof.
  unfold trunc_cur. destruct (Nat.ltb_spec MAXE (length d)) as [L|L].
  - unfold truncate. destruct (Nat.leb_spec MAXE (length d)); [|lia].
    intros E; apply slice_to_some in E; tauto.
  - intros E; inversion E; subst. symmetry. apply firstn_all2. lia.
Qed.

Lemma summary_panics_iff pre d : summary_cur pre d = None <-> Known_summary pre d = true.
Proof.
  unfold summary_cur, summary_with, Known_summary.
  destruct (trunc_cur d) as [d'|] eqn:E.
  - assert (N1 : straddles MAXE d = false).
    { destruct (straddles MAXE d) eqn:S; [|reflexivity]. apply trunc_cur_none_iff in S. congruence. }
    rewrite N1. cbn [orb]. apply trunc_cur_some in E. subst d'.
    destruct (cut_cur MAXM (summary_json pre (firstn MAXE d))) eqn:C.
    + split; [discriminate|]. intros S. apply (cut_cur_panics_iff _ _ MAXM_pos) in S. congruence.
    + split; [|reflexivity]. intros _. now apply (cut_cur_panics_iff _ _ MAXM_pos).
  - apply trunc_cur_none_iff in E. rewrite E. split; reflexivity.
Qed.

Lemma trunc_fixed_total d : exists r, trunc_fixed d = Some r.
Proof.
  unfold trunc_fixed. destruct (Nat.ltb_spec MAXE (length d)); [|eauto].
  unfold truncate. pose proof (floor_le d MAXE).
  destruct (Nat.leb_spec (floor_boundary d MAXE) (length d)); [|lia].
  rewrite slice_floor. eauto.
Qed.

Lemma trunc_fixed_agrees d r : trunc_cur d = Some r -> trunc_fixed d = Some r.
Proof.
  unfold trunc_cur, trunc_fixed. destruct (Nat.ltb_spec MAXE (length d)); [|auto].
  unfold truncate. destruct (Nat.leb_spec MAXE (length d)); [|lia].
  unfold slice_to at 1. destruct (is_char_boundary d MAXE) eqn:E; [|discriminate].
  rewrite (floor_id _ _ E). destruct (Nat.leb_spec MAXE (length d)); [|lia].
  unfold slice_to. now rewrite E.
Qed.

Lemma summary_fixed_total pre d : exists r, summary_fixed pre d = Some r.
Proof.
  unfold summary_fixed, summary_with.
  destruct (trunc_fixed_total d) as [d' ->].
  destruct (cut_fixed_total MAXM (summary_json pre d')) as [m ->]. eauto.
Qed.

Lemma summary_fixed_agrees pre d r : summary_cur pre d = Some r -> summary_fixed pre d = Some r.
Proof.
  unfold summary_cur, summary_fixed, summary_with.
  destruct (trunc_cur d) as [d'|] eqn:E; [|discriminate].
  rewrite (trunc_fixed_agrees _ _ E).
  destruct (cut_cur MAXM (summary_json pre d')) eqn:C; [|discriminate].
  now rewrite (cut_fixed_agrees _ _ _ C).
Qed.

Lemma summary_refuted :
  exists pre d, utf8_valid d = true /\ summary_cur pre d = None.
Proof.
  exists [], (straddle_witness MAXE). split; [apply witness_utf8|].
  apply summary_panics_iff. unfold Known_summary.
  rewrite (witness_straddles _ MAXE_pos). reflexivity.
Qed.

(* a caller's command line alone (no error details at all) also crashes the handler: the cut of
   the serialised summary inside write_event *)
Lemma summary_refuted_by_caller :
  exists pre, utf8_valid pre = true /\ summary_cur pre [] = None.
Proof.
  exists (straddle_witness MAXM). split; [apply witness_utf8|].
  apply summary_panics_iff. unfold Known_summary. apply orb_true_iff. right.
  unfold straddles, summary_json, straddle_witness. cbn [json_escape flat_map firstn app].
  assert (F : firstn MAXE (@nil N) = []) by (destruct MAXE; reflexivity). rewrite F. cbn [json_escape flat_map app].
  rewrite !app_length, repeat_length. cbn [length].
  pose proof MAXM_pos.
  replace (Nat.ltb MAXM (MAXM - 1 + (2 + 2))) with true by (symmetry; apply Nat.ltb_lt; lia).
  rewrite <- app_assoc.
  rewrite nth_error_app2 by (rewrite repeat_length; lia).
  rewrite repeat_length. replace (MAXM - (MAXM - 1)) with 1 by lia. reflexivity.
Qed.

(* ------------------------------------------------------------------------------------------ *)
(* S3: status message                                                                          *)
(* ------------------------------------------------------------------------------------------ *)
Lemma status_panics_iff msg : get_module_status_cur msg = None <-> Known_status msg = true.
Proof.
  unfold get_module_status_cur, status_with, Known_status.
  destruct (Nat.ltb_spec MAXS (length msg)) as [L|L]; cbn [andb]; [|split; discriminate].
  destruct (cut_cur MAXM (status_prefix ++ msg)) eqn:C.
  - assert (N1 : straddles MAXM (status_prefix ++ msg) = false).
    { destruct (straddles MAXM (status_prefix ++ msg)) eqn:S; [|reflexivity].
      apply (cut_cur_panics_iff _ _ MAXM_pos) in S. congruence. }
    rewrite N1. cbn [orb].
    destruct (slice_to msg MAXS) eqn:S.
    + split; [discriminate|]. intros K. apply (straddles_spec _ _ MAXS_pos) in K.
      destruct K as [_ K]. apply slice_to_none_iff in K. congruence.
    + split; [|reflexivity]. intros _. apply (straddles_spec _ _ MAXS_pos).
      split; [assumption|]. now apply slice_to_none_iff.
  - apply (cut_cur_panics_iff _ _ MAXM_pos) in C. rewrite C. split; reflexivity.
Qed.

Lemma status_fixed_total msg : exists r, get_module_status_fixed msg = Some r.
Proof.
  unfold get_module_status_fixed, status_with.
  destruct (Nat.ltb MAXS (length msg)); [|eauto].
  destruct (cut_fixed_total MAXM (status_prefix ++ msg)) as [m ->].
  rewrite slice_floor. eauto.
Qed.

Lemma status_fixed_agrees msg r : get_module_status_cur msg = Some r -> get_module_status_fixed msg = Some r.
Proof.
  unfold get_module_status_cur, get_module_status_fixed, status_with.
  destruct (Nat.ltb MAXS (length msg)); [|auto].
  destruct (cut_cur MAXM (status_prefix ++ msg)) eqn:C; [|discriminate].
  rewrite (cut_fixed_agrees _ _ _ C).
  unfold slice_to at 1. destruct (is_char_boundary msg MAXS) eqn:E; [|discriminate].
  rewrite (floor_id _ _ E). unfold slice_to. now rewrite E.
Qed.

(* the published message is bounded: at most MAXS bytes of the original plus the three dots *)
Lemma status_fixed_bounded msg r : get_module_status_fixed msg = Some r -> length r <= MAXS + 3.
Proof.
  unfold get_module_status_fixed, status_with.
  destruct (Nat.ltb_spec MAXS (length msg)) as [L|L].
  - destruct (cut_fixed MAXM (status_prefix ++ msg)); [|discriminate].
    rewrite slice_floor. intros E; injection E as <-. rewrite app_length, firstn_length. unfold dots; cbn [length].
    pose proof (floor_le msg MAXS). lia.
  - intros E; injection E as <-. lia.
Qed.

Lemma status_refuted : exists msg, utf8_valid msg = true /\ get_module_status_cur msg = None.
Proof.
  exists (straddle_witness MAXS). split; [apply witness_utf8|].
  vm_compute. reflexivity.
Qed.

Lemma set_status_panics_iff upd msg :
  set_module_status_cur upd msg = None <-> upd = true /\ Known_write_event msg = true.
Proof.
  unfold set_module_status_cur. destruct upd.
  - rewrite write_event_panics_iff. tauto.
  - split; [discriminate|]. intros [? _]; discriminate.
Qed.

Lemma set_status_fixed_total upd msg : exists r, set_module_status_fixed upd msg = Some r.
Proof. unfold set_module_status_fixed. destruct upd; [apply cut_fixed_total|eauto]. Qed.

(* ------------------------------------------------------------------------------------------ *)
(* S4: header values                                                                           *)
(* ------------------------------------------------------------------------------------------ *)
Lemma header_panics_iff hs : canon_headers_cur hs = None <-> Known_header hs = true.
Proof.
  unfold canon_headers_cur, Known_header. induction hs as [|[k v] t IH]; cbn [mapM existsb snd fst].
  - split; discriminate.
  - unfold to_str at 1. destruct (forallb is_visible_ascii v) eqn:E; cbn [negb orb].
    + destruct (mapM _ t) eqn:M.
      * split; [discriminate|]. intros K. apply IH in K. discriminate.
      * split; [intros _; now apply IH | reflexivity].
    + split; reflexivity.
Qed.

Lemma header_refuted : exists hs, forallb (fun kv => hv_valid (snd kv)) hs = true /\ canon_headers_cur hs = None.
Proof. exists [([120%N], [128%N])]. vm_compute. split; reflexivity. Qed.

Lemma header_fixed_total hs : exists r, canon_headers_fixed hs = Some r.
Proof. unfold canon_headers_fixed. eauto. Qed.

Lemma visible_lt_128 b : is_visible_ascii b = true -> (b <? 128)%N = true.
Proof. unfold is_visible_ascii. lia. Qed.

Lemma lossy_ascii_id v : forallb (fun b => (b <? 128)%N) v = true -> lossy v = v.
Proof.
  induction v as [|b t IH]; [reflexivity|]. cbn [forallb lossy]. intros H.
  apply andb_true_iff in H. destruct H as [Hb Ht]. rewrite Hb. f_equal. auto.
Qed.

Lemma lossy_visible_id v : forallb is_visible_ascii v = true -> lossy v = v.
Proof.
  intros H. apply lossy_ascii_id. rewrite forallb_forall in *. intros x Hx. apply visible_lt_128; auto.
Qed.

Lemma header_fixed_agrees hs r : canon_headers_cur hs = Some r -> canon_headers_fixed hs = Some r.
Proof.
  unfold canon_headers_cur, canon_headers_fixed. revert r.
  induction hs as [|[k v] t IH]; cbn [mapM map fst snd]; intros r.
  - congruence.
  - unfold to_str at 1. destruct (forallb is_visible_ascii v) eqn:E; [|discriminate].
    destruct (mapM _ t) eqn:M; [|discriminate].
    intros H; inversion H; subst. specialize (IH _ eq_refl). inversion IH.
    now rewrite (lossy_visible_id _ E).
Qed.

(* valid UTF-8 is decoded to itself: the repaired canonical string contains exactly the bytes
   that are sent for every header value that is valid UTF-8 *)
Lemma lossy_valid_id_n n : forall s, length s <= n -> utf8_valid s = true -> lossy s = s.
Proof.
  induction n as [|n IH]; intros s L V.
  - destruct s; [reflexivity|cbn in L; lia].
  - destruct s as [|b0 t]; [reflexivity|]. cbn [length] in L.
    cbn [utf8_valid] in V. cbn [lossy].
    destruct (b0 <? 128)%N eqn:A0.
    { f_equal. apply IH; [lia|assumption]. }
    destruct (in_rng 194 223 b0) eqn:A1.
    { destruct t as [|b1 t1]; [discriminate|]. cbn [length] in L.
      apply andb_true_iff in V. destruct V as [V1 V2]. rewrite V1. do 2 f_equal. apply IH; [lia|assumption]. }
    destruct (in_rng 224 239 b0) eqn:A2.
    { destruct t as [|b1 [|b2 t2]]; try discriminate. cbn [length] in L.
      apply andb_true_iff in V. destruct V as [V V3]. apply andb_true_iff in V. destruct V as [V1 V2].
      rewrite V1, V2. do 3 f_equal. apply IH; [lia|assumption]. }
    destruct (in_rng 240 244 b0) eqn:A3; [|discriminate].
    destruct t as [|b1 [|b2 [|b3 t3]]]; try discriminate. cbn [length] in L.
    apply andb_true_iff in V. destruct V as [V V4]. apply andb_true_iff in V. destruct V as [V V3].
    apply andb_true_iff in V. destruct V as [V1 V2].
    rewrite V1, V2, V3. do 4 f_equal. apply IH; [lia|assumption].
Qed.
Lemma lossy_valid_id s : utf8_valid s = true -> lossy s = s.
Proof. apply (lossy_valid_id_n (length s)). lia. Qed.

(* ------------------------------------------------------------------------------------------ *)
(* S5: UTF-16 frames                                                                           *)
(* ------------------------------------------------------------------------------------------ *)
Lemma list_ind2 {A} (P : list A -> Prop) :
  P [] -> (forall a, P [a]) -> (forall a b t, P t -> P (a :: b :: t)) -> forall l, P l.
Proof.
  intros H0 H1 H2. fix IH 1. intros [|a [|b t]]; [exact H0 | apply H1 | apply H2, IH].
Qed.

Lemma pair_le_none_iff f : pair_le f = None <-> Nat.odd (length f) = true.
Proof.
  induction f as [|a|a b t IH] using list_ind2.
  - cbn. split; discriminate.
  - cbn. split; reflexivity.
  - cbn [pair_le length]. rewrite Nat.odd_succ_succ. rewrite <- IH.
    destruct (pair_le t); split; congruence.
Qed.

Lemma utf16_panics_iff frames :
  utf16_cur frames = None <-> existsb (fun f => Nat.odd (length f)) frames = true.
Proof.
  unfold utf16_cur. induction frames as [|f t IH]; cbn [mapM existsb].
  - split; discriminate.
  - destruct (pair_le f) eqn:P.
    + assert (O : Nat.odd (length f) = false).
      { destruct (Nat.odd (length f)) eqn:O; [|reflexivity]. apply pair_le_none_iff in O. congruence. }
      rewrite O. cbn [orb]. destruct (mapM pair_le t); [|exact IH].
      split; [discriminate|]. intros K. apply IH in K. discriminate.
    + apply pair_le_none_iff in P. rewrite P. split; reflexivity.
Qed.

Lemma pair_exact_app f u g : pair_le f = Some u -> pair_exact (f ++ g) = u ++ pair_exact g.
Proof.
  revert u. induction f as [|a|a b t IH] using list_ind2; intros u.
  - cbn. intros E; injection E as <-. reflexivity.
  - cbn. discriminate.
  - cbn [pair_le app pair_exact]. destruct (pair_le t) eqn:P; [|discriminate].
    intros E; injection E as <-. cbn [app]. f_equal. now apply IH.
Qed.

Lemma utf16_fixed_agrees frames u : utf16_cur frames = Some u -> utf16_fixed frames = Some u.
Proof.
  unfold utf16_cur, utf16_fixed. revert u. induction frames as [|f t IH]; cbn [mapM concat]; intros u.
  - intros E; injection E as <-. reflexivity.
  - destruct (pair_le f) eqn:P; [|discriminate]. destruct (mapM pair_le t) eqn:M; [|discriminate].
    intros E; injection E as <-. cbn [concat]. f_equal.
    rewrite (pair_exact_app _ _ _ P). f_equal.
    specialize (IH _ eq_refl). now injection IH.
Qed.

Lemma utf16_fixed_total frames : exists u, utf16_fixed frames = Some u.
Proof. unfold utf16_fixed. eauto. Qed.

(* the repaired decoder does not depend on how the host's reply is split into frames *)
Lemma utf16_fixed_frame_independent f1 f2 : concat f1 = concat f2 -> utf16_fixed f1 = utf16_fixed f2.
Proof. unfold utf16_fixed. now intros ->. Qed.

Lemma utf16_refuted : utf16_cur [[1%N; 2%N; 3%N]] = None /\
  (* an even-length body split into two odd frames *)
  utf16_cur [[123%N; 0%N; 125%N]; [0%N]] = None /\ utf16_fixed [[123%N; 0%N; 125%N]; [0%N]] = Some [123%N; 125%N].
Proof. vm_compute. repeat split. Qed.

Lemma read_body_panics_iff ct frames : read_body_cur ct frames = None <-> Known_utf16 ct frames = true.
Proof.
  unfold read_body_cur, read_body_with, Known_utf16. destruct (charset_of ct); try (split; discriminate).
  rewrite <- utf16_panics_iff. destruct (utf16_cur frames); split; congruence.
Qed.

Lemma read_body_fixed_total ct frames : exists b, read_body_fixed ct frames = Some b.
Proof. unfold read_body_fixed, read_body_with, utf16_fixed. destruct (charset_of ct); eauto. Qed.

Lemma read_body_fixed_agrees ct frames b : read_body_cur ct frames = Some b -> read_body_fixed ct frames = Some b.
Proof.
  unfold read_body_cur, read_body_fixed, read_body_with. destruct (charset_of ct); auto.
  destruct (utf16_cur frames) eqn:U; [|discriminate]. now rewrite (utf16_fixed_agrees _ _ U).
Qed.

(* ------------------------------------------------------------------------------------------ *)
(* S6: unsigned subtraction in the key-keeper loop                                             *)
(* ------------------------------------------------------------------------------------------ *)
Local Open Scope N_scope.
Lemma kk_sub_panics_iff a b : continue_sleep_debug a b = None <-> Known_kk_sub a b = true.
Proof.
  unfold continue_sleep_debug, sub_checked, Known_kk_sub.
  destruct (N.leb_spec b a); destruct (N.ltb_spec a b); split; intros; try discriminate; try reflexivity; lia.
Qed.

Lemma kk_sub_refuted : continue_sleep_debug 1000 1001 = None.
Proof. reflexivity. Qed.

Lemma kk_fixed_total a b : exists r, continue_sleep_fixed a b = Some r /\ r <= a /\ (b <= a -> r = a - b) /\ (a < b -> r = 0).
Proof. unfold continue_sleep_fixed, sub_saturating. exists (a - b). repeat split; lia. Qed.

Lemma kk_fixed_agrees a b r : continue_sleep_debug a b = Some r -> continue_sleep_fixed a b = Some r.
Proof. unfold continue_sleep_debug, sub_checked, continue_sleep_fixed, sub_saturating. destruct (b <=? a); congruence. Qed.

(* release builds do not panic: the difference wraps, `as u64` keeps the low 64 bits, and the task
   then sleeps for 2^64 - (slept - sleep) milliseconds -- it never polls again *)
Lemma kk_release_stalls a b : a < b -> b < 2 ^ 63 ->
  continue_sleep_release a b = Some (2 ^ 64 - (b - a)) /\ 2 ^ 63 < 2 ^ 64 - (b - a).
Proof.
  intros H1 H2. unfold continue_sleep_release, sub_wrapping.
  assert (P63 : 2 ^ 63 = 9223372036854775808) by reflexivity.
  assert (P64 : 2 ^ 64 = 18446744073709551616) by reflexivity.
  assert (P128 : 2 ^ 128 = 18446744073709551616 * 18446744073709551616) by reflexivity.
  rewrite P63 in *. rewrite P64, P128.
  set (K := 18446744073709551616) in *.
  assert (HK : K = 2 * 9223372036854775808) by reflexivity.
  split; [|lia].
  f_equal.
  rewrite (N.mod_small b) by nia.
  rewrite (N.mod_small (a + K * K - b)) by nia.
  replace (a + K * K - b) with ((K - (b - a)) + (K - 1) * K) by nia.
  rewrite N.mod_add by lia. apply N.mod_small. lia.
Qed.
Local Close Scope N_scope.

(* ------------------------------------------------------------------------------------------ *)
(* S7: the log header                                                                          *)
(* ------------------------------------------------------------------------------------------ *)
Definition ascii (s : bytes) : bool := forallb (fun b => (b <? 128)%N) s.

Lemma ascii_boundary s n : ascii s = true -> is_char_boundary s n = Nat.leb n (length s).
Proof.
  intros A. destruct (Nat.leb_spec n (length s)) as [L|L].
  - destruct n; [reflexivity|]. destruct (Nat.eq_dec (S n) (length s)) as [E|E].
    + rewrite E. apply boundary_len.
    + rewrite boundary_inside by lia. destruct (nth_error s (S n)) eqn:N1.
      * apply nth_error_In in N1. unfold ascii in A. rewrite forallb_forall in A. specialize (A _ N1).
        unfold is_cont. lia.
      * apply nth_error_None in N1. lia.
  - now apply boundary_beyond.
Qed.

Lemma ascii_app a b : ascii (a ++ b) = ascii a && ascii b.
Proof. unfold ascii. apply forallb_app. Qed.

Lemma ascii_firstn n s : ascii s = true -> ascii (firstn n s) = true.
Proof.
  intros H. rewrite <- (firstn_skipn n s), ascii_app in H. apply andb_true_iff in H. tauto.
Qed.

Lemma log_header_of_none_iff date level : ascii date = true -> ascii level = true ->
  log_header_of date level = None <-> Nat.min 23 (length date) + length level + 7 < 34.
Proof.
  intros A1 A2. unfold log_header_of. rewrite slice_to_none_iff.
  assert (A : ascii (log_header_text date level) = true).
  { unfold log_header_text. rewrite !ascii_app, ascii_firstn, A2 by assumption. reflexivity. }
  rewrite (ascii_boundary _ _ A).
  assert (L : length (log_header_text date level) = Nat.min 23 (length date) + length level + 7).
  { unfold log_header_text. rewrite !app_length, firstn_length. cbn [length]. lia. }
  rewrite L. destruct (Nat.leb_spec 34 (Nat.min 23 (length date) + length level + 7)); split; intros; try discriminate; try reflexivity; lia.
Qed.

Lemma digit_ascii n k : (digit_at n k <? 128)%N = true.
Proof. unfold digit_at. pose proof (N.mod_lt (n / 10 ^ k) 10). lia. Qed.

Lemma ascii_digits n ks : ascii (map (digit_at n) ks) = true.
Proof. unfold ascii. induction ks; cbn [map forallb]; [reflexivity|]. now rewrite digit_ascii. Qed.

Lemma drop_zeros_ascii l : ascii l = true -> ascii (drop_zeros l) = true.
Proof.
  unfold ascii. induction l as [|x t IH]; cbn [drop_zeros forallb]; [auto|].
  intros H. destruct (x =? 48)%N; [|exact H]. apply IH. apply andb_true_iff in H. tauto.
Qed.

Lemma ascii_rev l : ascii (rev l) = ascii l.
Proof.
  unfold ascii. induction l as [|x t IH]; [reflexivity|]. cbn [rev forallb].
  rewrite forallb_app, IH. cbn [forallb]. rewrite andb_true_r. apply andb_comm.
Qed.

Lemma subsec_min_ascii n : ascii (subsec_min n) = true.
Proof.
  unfold subsec_min.
  assert (A : ascii (drop_zeros (rev (digits9 n))) = true).
  { apply drop_zeros_ascii. rewrite ascii_rev. apply ascii_digits. }
  destruct (drop_zeros (rev (digits9 n))) eqn:E; [reflexivity|]. now rewrite ascii_rev.
Qed.

Lemma log_header_panics_iff stamp nanos level : ascii stamp = true -> ascii level = true ->
  log_header_cur stamp nanos level = None <-> Known_log_header stamp nanos level = true.
Proof.
  intros A1 A2. unfold log_header_cur, Known_log_header.
  rewrite log_header_of_none_iff; [|rewrite ascii_app, A1; apply subsec_min_ascii|assumption].
  rewrite app_length. rewrite Nat.ltb_lt. reflexivity.
Qed.

Definition sample_stamp : bytes := Lits.lit_stamp.

(* the clock alone decides: at a time whose sub-second part is a multiple of 10 ms the header of
   an INFO/WARN line is shorter than 34 bytes; with the fixed three digits it never is *)
Lemma log_header_refuted :
  (log_header_cur sample_stamp 500000000%N Lits.lit_info = None) /\
  (log_header_cur sample_stamp 120000000%N Lits.lit_warn = None) /\
  (log_header_cur sample_stamp 0%N Lits.lit_error = None) /\
  (log_header_cur sample_stamp 123000000%N Lits.lit_info <> None).
Proof. vm_compute. repeat split. discriminate. Qed.

Lemma log_header_fixed_total stamp nanos level : length stamp = 20 -> ascii stamp = true -> In level levels ->
  exists r, log_header_fixed stamp nanos level = Some r /\ length r = 34.
Proof.
  intros L A I. unfold log_header_fixed.
  assert (A2 : ascii level = true /\ 4 <= length level).
  { unfold levels in I. cbn [In] in I.
    destruct I as [<-|[<-|[<-|[<-|[<-|[]]]]]]; vm_compute; split; try reflexivity; lia. }
  destruct A2 as [A2 L2].
  destruct (log_header_of (stamp ++ subsec_3 nanos) level) eqn:E.
  - exists b. split; [reflexivity|]. unfold log_header_of in E. apply slice_to_some in E.
    destruct E as [-> E]. rewrite firstn_length. lia.
  - exfalso. apply log_header_of_none_iff in E; [|rewrite ascii_app, A; apply ascii_digits|assumption].
    rewrite app_length, L in E. unfold subsec_3 in E. cbn [map length] in E. lia.
Qed.

(* ------------------------------------------------------------------------------------------ *)
(* the request handler (model level)                                                           *)
(* ------------------------------------------------------------------------------------------ *)
Lemma handle_cur_panics_iff r : handle_cur r = None <-> Known_handler r = true.
Proof.
  unfold handle_cur, handle_with, Known_handler. destruct (rq_route r) as [st d|sign st d].
  - rewrite <- summary_panics_iff. destruct (summary_cur (rq_pre r) d); split; congruence.
  - destruct sign; cbn [andb orb].
    + destruct (canon_headers_cur (rq_headers r)) eqn:C.
      * assert (K : Known_header (rq_headers r) = false).
        { destruct (Known_header (rq_headers r)) eqn:K; [|reflexivity]. apply header_panics_iff in K. congruence. }
        rewrite K. cbn [orb]. rewrite <- summary_panics_iff.
        destruct (summary_cur (rq_pre r) d); split; congruence.
      * apply header_panics_iff in C. rewrite C. split; reflexivity.
    + rewrite <- summary_panics_iff. destruct (summary_cur (rq_pre r) d); split; congruence.
Qed.

Lemma handle_fixed_total r : handle_fixed r = Some (route_status r).
Proof.
  unfold handle_fixed, handle_with, route_status. destruct (rq_route r) as [st d|sign st d].
  - destruct (summary_fixed_total (rq_pre r) d) as [x ->]. reflexivity.
  - destruct (summary_fixed_total (rq_pre r) d) as [x ->]. destruct sign; reflexivity.
Qed.

Lemma handle_fixed_agrees r st : handle_cur r = Some st -> handle_fixed r = Some st.
Proof.
  rewrite handle_fixed_total. unfold handle_cur, handle_with, route_status.
  destruct (rq_route r) as [s d|sign s d].
  - destruct (summary_cur (rq_pre r) d); congruence.
  - destruct (if sign then canon_headers_cur (rq_headers r) else Some []); [|discriminate].
    destruct (summary_cur (rq_pre r) d); congruence.
Qed.

Lemma serve_fixed_all rs :
  serve handle_fixed rs = map (fun r => Some (route_status r)) rs.
Proof. unfold serve. apply map_ext. intros; apply handle_fixed_total. Qed.

Lemma serve_independent h rs i : nth_error (serve h rs) i = option_map h (nth_error rs i).
Proof. unfold serve. apply nth_error_map. Qed.

Lemma cut_fixed_spec_full : forall (mx : nat) (msg r : bytes), cut_fixed mx msg = Some r ->
  (exists rest, msg = r ++ rest) /\ length r <= mx /\ is_char_boundary msg (length r) = true /\
  (forall m, length r < m -> m <= mx -> m <= length msg -> is_char_boundary msg m = false).
Proof.
  intros mx msg r H. split; [exact (cut_fixed_prefix _ _ _ H)|].
  split; [exact (cut_fixed_length _ _ _ H)|].
  split; [exact (cut_fixed_on_boundary _ _ _ H)|].
  intros m. exact (cut_fixed_longest _ _ _ m H).
Qed.

Lemma site_total :
  (forall msg, exists r, write_event_fixed msg = Some r) /\
  (forall pre d, exists r, summary_fixed pre d = Some r) /\
  (forall msg, exists r, get_module_status_fixed msg = Some r) /\
  (forall u msg, exists r, set_module_status_fixed u msg = Some r) /\
  (forall hs, exists r, canon_headers_fixed hs = Some r) /\
  (forall ct fr, exists r, read_body_fixed ct fr = Some r) /\
  (forall a b, exists r, continue_sleep_fixed a b = Some r).
Proof.
  repeat split.
  - exact (cut_fixed_total MAXM).
  - exact summary_fixed_total.
  - exact status_fixed_total.
  - exact set_status_fixed_total.
  - exact header_fixed_total.
  - exact read_body_fixed_total.
  - intros a b. destruct (kk_fixed_total a b) as [r [H _]]. eauto.
Qed.
