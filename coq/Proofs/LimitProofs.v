(* C15 -- lemmas about Model/Limit.v.  All statements are for every request, every split of the
   body into frames and both declaration modes; the two limits are the regenerated constants. *)
From GPA Require Import Limit HeadersProofs.
From Coq Require Import Lia.

Module Lit.
  Import Coq.Strings.String.
  Definition put : bytes := B"PUT".
  Definition post : bytes := B"POST".
  Definition vmagentlog : bytes := B"/vmagentlog".
  Definition telemetrydata : bytes := B"/machine/?comp=telemetrydata".
End Lit.

(* ---------------------------------------------------------------------------------------- *)
(* lengths                                                                                   *)
(* ---------------------------------------------------------------------------------------- *)
Lemma blen_app a b : blen (a ++ b) = blen a + blen b.
Proof. unfold blen. rewrite app_length, Nat2N.inj_add. reflexivity. Qed.

Lemma total_cons f t : total (f :: t) = blen f + total t.
Proof. unfold total. cbn [concat]. apply blen_app. Qed.

Lemma total_nil : total [] = 0.
Proof. reflexivity. Qed.

(* ---------------------------------------------------------------------------------------- *)
(* Limited + collect                                                                         *)
(* ---------------------------------------------------------------------------------------- *)
Lemma collect_within frames : forall rem acc,
  total frames <= rem ->
  limited_collect rem frames false acc = Some (acc ++ concat frames).
Proof.
  induction frames as [|f t IH]; intros rem acc H; cbn [limited_collect concat].
  - rewrite app_nil_r. reflexivity.
  - rewrite total_cons in H.
    destruct (N.ltb_spec rem (blen f)) as [L|L]; [lia|].
    rewrite IH by lia. rewrite app_assoc. reflexivity.
Qed.

Lemma collect_over frames : forall rem broken acc,
  rem < total frames -> limited_collect rem frames broken acc = None.
Proof.
  induction frames as [|f t IH]; intros rem broken acc H; cbn [limited_collect].
  - rewrite total_nil in H. lia.
  - rewrite total_cons in H.
    destruct (N.ltb_spec rem (blen f)) as [L|L]; [reflexivity|].
    apply IH. lia.
Qed.

Lemma collect_broken frames : forall rem acc, limited_collect rem frames true acc = None.
Proof.
  induction frames as [|f t IH]; intros rem acc; cbn [limited_collect]; auto.
  destruct (rem <? blen f); auto.
Qed.

(* whatever collect returns is the concatenation of ALL frames and fits the allowance *)
Lemma collect_some frames : forall rem broken acc b,
  limited_collect rem frames broken acc = Some b ->
  b = acc ++ concat frames /\ total frames <= rem /\ broken = false.
Proof.
  intros rem broken acc b H.
  destruct broken; [rewrite collect_broken in H; discriminate|].
  destruct (N.le_gt_cases (total frames) rem) as [L|L].
  - rewrite collect_within in H by exact L. inversion H. auto.
  - rewrite collect_over in H by lia. discriminate.
Qed.

Lemma lengths_agree frames : forall rem broken acc,
  limited_lengths rem (map blen frames) broken (blen acc)
  = option_map blen (limited_collect rem frames broken acc).
Proof.
  induction frames as [|f t IH]; intros rem broken acc; cbn [limited_lengths limited_collect map].
  - destruct broken; reflexivity.
  - destruct (rem <? blen f); [reflexivity|].
    rewrite <- blen_app. apply IH.
Qed.

(* ---------------------------------------------------------------------------------------- *)
(* the limit layer                                                                           *)
(* ---------------------------------------------------------------------------------------- *)
Lemma gate_admits limit declared body_limit :
  limit_gate limit declared = Admit body_limit -> body_limit <= limit.
Proof.
  unfold limit_gate. destruct declared as [d|].
  - destruct (limit <? d); [discriminate|]. intros H; inversion H. apply N.le_min_l.
  - intros H; inversion H. lia.
Qed.

Lemma gate_refuses limit declared :
  limit_gate limit declared = Refuse413 <-> exists d, declared = Some d /\ limit < d.
Proof.
  unfold limit_gate. destruct declared as [d|].
  - destruct (N.ltb_spec limit d) as [L|L]; split.
    + intros _. exists d. auto.
    + reflexivity.
    + discriminate.
    + intros (d' & E & L'). inversion E; subst. lia.
  - split; [discriminate|]. intros (d & E & _). discriminate.
Qed.

(* ---------------------------------------------------------------------------------------- *)
(* constants (re-proved whenever Consts.v is regenerated)                                    *)
(* ---------------------------------------------------------------------------------------- *)
Lemma limits_are : low_limit = 100 * 1024 /\ large_limit = 100 * 1024 * 1024.
Proof. vm_compute. split; reflexivity. Qed.

Lemma limits_differ : low_limit <> large_limit.
Proof. vm_compute. discriminate. Qed.

Lemma too_large_is_4xx : is_4xx status_payload_too_large = true.
Proof. reflexivity. Qed.

Lemma body_error_is_4xx m u : is_4xx (body_error_status m u) = true.
Proof. unfold body_error_status. destruct (should_skip_sig m u); vm_compute; reflexivity. Qed.

Lemma body_error_is_400 m u : body_error_status m u = 400.
Proof. unfold body_error_status. destruct (should_skip_sig m u); vm_compute; reflexivity. Qed.

Lemma early_is_4xx k : client_caused k = true -> is_4xx (early_status k) = true.
Proof. destruct k; cbn [client_caused]; intros H; try discriminate; vm_compute; reflexivity. Qed.

(* ---------------------------------------------------------------------------------------- *)
(* the limit class                                                                           *)
(* ---------------------------------------------------------------------------------------- *)
Theorem limit_class m u : limit_of m u = large_limit <-> should_skip_sig m u = true.
Proof.
  unfold limit_of. destruct (should_skip_sig m u); split; auto.
  - intros H. exfalso. exact (limits_differ H).
  - discriminate.
Qed.

Lemma hbeq_iff a b : beq a b = true <-> a = b.
Proof. split; [apply hbeq_eq|intros ->; apply hbeq_refl]. Qed.

(* exactly the two uploads, with the URL compared case-insensitively and the method exactly *)
Theorem skip_exact m u :
  should_skip_sig m u = true <->
  (m = Lit.put /\ lower (uri_to_string u) = Lit.vmagentlog) \/
  (m = Lit.post /\ lower (uri_to_string u) = Lit.telemetrydata).
Proof.
  unfold should_skip_sig.
  change Consts.skip_sig_pairs with [(Lit.put, Lit.vmagentlog); (Lit.post, Lit.telemetrydata)].
  cbn [existsb fst snd]. rewrite orb_false_r, orb_true_iff, !andb_true_iff, !hbeq_iff. reflexivity.
Qed.

(* ---------------------------------------------------------------------------------------- *)
(* C15                                                                                       *)
(* ---------------------------------------------------------------------------------------- *)
Lemma required_some e now hs :
  header_value_ok now = true -> exists hs', add_required_headers e now hs = Some hs'.
Proof. intros H. unfold add_required_headers. rewrite claims_text_ok, H. eexists; reflexivity. Qed.

(* safety half, unconditional: whatever else is true of the request (refused earlier or not,
   declared or not, body stream broken or not, key latched or not), a body above the limit of
   its class causes no upstream write at all *)
Theorem never_relayed mac p now kv kg up q declared broken :
  limit_of (q_method q) (q_uri q) < total (q_frames q) ->
  upstream_writes (serve mac p now kv kg up q declared broken) = [].
Proof.
  intros H. unfold serve.
  destruct (limit_gate (limit_of (q_method q) (q_uri q)) declared) as [|bl] eqn:G; [reflexivity|].
  apply gate_admits in G.
  destruct p as [k|s|a]; try reflexivity.
  destruct (add_required_headers (run_as_elevated a) now (of_wire (q_wire q))); [|reflexivity].
  rewrite collect_over by lia. reflexivity.
Qed.

(* a declared length above the limit is answered 413 before the handler runs -- for every
   request, authorized or not *)
Theorem over_limit_declared mac p now kv kg up q d broken :
  limit_of (q_method q) (q_uri q) < d ->
  serve mac p now kv kg up q (Some d) broken = local status_payload_too_large.
Proof.
  intros H. unfold serve, limit_gate. apply N.ltb_lt in H. rewrite H. reflexivity.
Qed.

(* an undeclared (chunked) body that turns out to be above the limit: the authorized request is
   answered 400 once the frame that crosses the limit arrives, and nothing was sent before *)
Theorem over_limit_discovered mac a now kv kg up q broken :
  header_value_ok now = true ->
  limit_of (q_method q) (q_uri q) < total (q_frames q) ->
  serve mac (PreProceed a) now kv kg up q None broken = local 400.
Proof.
  intros Hn H. unfold serve, limit_gate.
  destruct (required_some (run_as_elevated a) now (of_wire (q_wire q)) Hn) as [hs' ->].
  rewrite collect_over by exact H. rewrite body_error_is_400. reflexivity.
Qed.

(* both modes together, and the requests refused earlier for another client-caused reason *)
Theorem over_limit_refused mac p now kv kg up q declared broken :
  header_value_ok now = true ->
  (match p with PreEarly k => client_caused k = true | PreProvision _ => False | PreProceed _ => True end) ->
  limit_of (q_method q) (q_uri q) < total (q_frames q) ->
  exists s, to_client (serve mac p now kv kg up q declared broken) = Local s /\
            is_4xx s = true /\
            upstream_writes (serve mac p now kv kg up q declared broken) = [].
Proof.
  intros Hn Hp H. unfold serve.
  destruct (limit_gate (limit_of (q_method q) (q_uri q)) declared) as [|bl] eqn:G.
  - exists status_payload_too_large. repeat split.
  - apply gate_admits in G. destruct p as [k|s|a]; [|contradiction|].
    + exists (early_status k). repeat split. apply early_is_4xx; exact Hp.
    + destruct (required_some (run_as_elevated a) now (of_wire (q_wire q)) Hn) as [hs' ->].
      rewrite collect_over by lia.
      exists (body_error_status (q_method q) (q_uri q)). repeat split. apply body_error_is_4xx.
Qed.

(* a body of exactly the limit or less, declared truthfully or undeclared, on an authorized
   request whose upstream connection is open: exactly one upstream write, carrying all the
   body bytes *)
Theorem within_limit_relayed mac a now kv kg q declared out :
  total (q_frames q) <= limit_of (q_method q) (q_uri q) ->
  (declared = None \/ declared = Some (total (q_frames q))) ->
  proxy_forward mac a now kv kg
    {| c_method := q_method q; c_uri := q_uri q; c_wire := q_wire q; c_body := concat (q_frames q) |}
  = Forwarded out ->
  serve mac (PreProceed a) now kv kg true q declared false
  = {| to_client := FromHost; upstream_writes := [out] |} /\
  r_body out = concat (q_frames q).
Proof.
  intros H D F. split.
  - unfold serve.
    assert (G : exists bl, limit_gate (limit_of (q_method q) (q_uri q)) declared = Admit bl /\
                           total (q_frames q) <= bl).
    { unfold limit_gate. destruct D as [->| ->].
      - eexists; split; [reflexivity|exact H].
      - destruct (N.ltb_spec (limit_of (q_method q) (q_uri q)) (total (q_frames q))) as [L|L]; [lia|].
        eexists; split; [reflexivity|]. rewrite N.min_r by exact L. lia. }
    destruct G as (bl & G & L). rewrite G.
    pose proof F as F0. unfold proxy_forward in F0. cbn [c_wire] in F0.
    destruct (add_required_headers (run_as_elevated a) now (of_wire (q_wire q))); [|discriminate].
    rewrite collect_within by exact L. cbn [app]. rewrite F. reflexivity.
  - apply forward_shape in F as (_ & _ & Hb & _). exact Hb.
Qed.

(* if there was an upstream write, it carried the whole body and the body was within the limit *)
Theorem relayed_only_within mac p now kv kg up q declared broken out :
  In out (upstream_writes (serve mac p now kv kg up q declared broken)) ->
  r_body out = concat (q_frames q) /\ total (q_frames q) <= limit_of (q_method q) (q_uri q) /\
  upstream_writes (serve mac p now kv kg up q declared broken) = [out].
Proof.
  unfold serve.
  destruct (limit_gate (limit_of (q_method q) (q_uri q)) declared) as [|bl] eqn:G; [intros []|].
  apply gate_admits in G.
  destruct p as [k|s|a]; try (intros []).
  destruct (add_required_headers (run_as_elevated a) now (of_wire (q_wire q))); [|intros []].
  destruct (limited_collect bl (q_frames q) broken []) as [b|] eqn:C; [|intros []].
  apply collect_some in C as (Cb & L & _). subst b. cbn [app].
  destruct (proxy_forward mac a now kv kg _) as [o|] eqn:F; [|intros []].
  destruct up; [|intros []].
  cbn [upstream_writes]. intros [->|[]].
  apply forward_shape in F as (_ & _ & Hb & _). cbn [c_body] in Hb.
  repeat split; auto. lia.
Qed.

(* the length-only evaluator used by the correspondence check decides like [serve] *)
Lemma c15_case_sound mac a now kv kg q declared broken :
  header_value_ok now = true ->
  match snd (c15_case (q_method q) (u_path (q_uri q)) (u_query (q_uri q)) 0 declared
                      (map blen (q_frames q)) broken) with
  | VLocal s => serve mac (PreProceed a) now kv kg true q declared broken = local s
  | VRelayed n =>
      n = total (q_frames q) /\
      forall out, In out (upstream_writes (serve mac (PreProceed a) now kv kg true q declared broken)) ->
                  blen (r_body out) = n
  end.
Proof.
  intros Hn. unfold c15_case. cbn [snd].
  replace {| u_path := u_path (q_uri q); u_query := u_query (q_uri q) |} with (q_uri q) by (destruct (q_uri q); reflexivity).
  unfold serve.
  destruct (limit_gate (limit_of (q_method q) (q_uri q)) declared) as [|bl]; [reflexivity|].
  destruct (required_some (run_as_elevated a) now (of_wire (q_wire q)) Hn) as [hs' ->].
  change 0 with (blen []). rewrite lengths_agree.
  destruct (limited_collect bl (q_frames q) broken []) as [b|] eqn:C; cbn [option_map]; [|reflexivity].
  apply collect_some in C as (Cb & _ & _). subst b. cbn [app]. split; [reflexivity|].
  intros out. destruct (proxy_forward mac a now kv kg _) as [o|] eqn:F; [|intros []].
  cbn [upstream_writes]. intros [->|[]].
  apply forward_shape in F as (_ & _ & Hb & _). cbn [c_body] in Hb. rewrite Hb. reflexivity.
Qed.
