(* C12 -- proofs about Model/Taint.v: the exact leak envelope of every history (which key may occur
   in which sink), non-interference for histories outside the two fault classes (and for all
   histories of the repaired variants), the refutation witnesses, the key-directory discipline. *)
From Coq Require Import List NArith Bool String Lia.
From GPA Require Import Consts Taint.
Import ListNotations.
Open Scope list_scope.

(* ---------------------------------------------------------------------------------------- *)
(* secrets of composed texts                                                                *)
(* ---------------------------------------------------------------------------------------- *)
Lemma secrets_app : forall a b, secrets (a ++ b) = secrets a ++ secrets b.
Proof. intros; unfold secrets; apply flat_map_app. Qed.

Lemma secrets_cons : forall f t, secrets (f :: t) = frag_secrets f ++ secrets t.
Proof. reflexivity. Qed.

Lemma secrets_before : forall p t k, In k (secrets (before p t)) -> In k (secrets t).
Proof.
  unfold secrets. induction t as [|f t IH]; simpl; intros k H; auto.
  destruct (p f); simpl in H; [contradiction|].
  apply in_app_or in H. apply in_or_app. destruct H; auto.
Qed.

Lemma secrets_trunc1024 : forall t k, In k (secrets (trunc1024 t)) -> In k (secrets t).
Proof.
  intros t k; unfold trunc1024. destruct (is_long t); auto.
  rewrite secrets_app; simpl; rewrite app_nil_r. apply secrets_before.
Qed.

Lemma secrets_trunc4096 : forall t k, In k (secrets (trunc4096 t)) -> In k (secrets t).
Proof. intros t k; unfold trunc4096. destruct (existsb is_cut4096 t); auto. apply secrets_before. Qed.

(* ---------------------------------------------------------------------------------------- *)
(* the envelope, stated on outputs                                                          *)
(* ---------------------------------------------------------------------------------------- *)
Section Envelope.
Context (v : variant) (Nl Ml : list keyid).

(* key k occurring in output o is accounted for *)
Definition ok_out (o : out) : Prop :=
  forall k, In k (secrets (snd o)) ->
    fst o = KeyFile
    \/ (fix_hex v = false /\ In k Nl /\ hex_sink (fst o) = true)
    \/ (fix_body v = false /\ In k Ml /\ body_sink (fst o) = true).
Definition ok_outs (os : list out) : Prop := Forall ok_out os.

(* a text whose secrets all stem from undeserialisable key bodies *)
Definition body_tainted (t : text) : Prop := forall k, In k (secrets t) -> fix_body v = false /\ In k Ml.
(* a stored / current key that is not hex stems from a non-hex delivery *)
Definition hex_ok (e : keyid * bool) : Prop := snd e = false -> fix_hex v = false /\ In (fst e) Nl.

Definition Inv (st : state) : Prop :=
  body_tainted (kkmsg st)
  /\ (forall e, mem st = Some e -> hex_ok e)
  /\ (forall e, In e (files st) -> hex_ok e).

Ltac split_outs := unfold ok_outs; repeat (first [apply Forall_nil | apply Forall_cons]).

Lemma ok_outs_app : forall a b, ok_outs a -> ok_outs b -> ok_outs (a ++ b).
Proof. intros; apply Forall_app; auto. Qed.

Lemma ok_outs_nil : ok_outs [].
Proof. constructor. Qed.

Lemma ok_pub : forall s t, secrets t = [] -> ok_out (s, t).
Proof. intros s t H k Hk; simpl in Hk; rewrite H in Hk; contradiction. Qed.

Lemma ok_body : forall s t, body_sink s = true -> body_tainted t -> ok_out (s, t).
Proof. intros s t Hs Ht k Hk. right; right. destruct (Ht k Hk); auto. Qed.

Lemma body_tainted_pub : forall t, secrets t = [] -> body_tainted t.
Proof. intros t H k Hk; rewrite H in Hk; contradiction. Qed.

Lemma body_tainted_app : forall a b, body_tainted a -> body_tainted b -> body_tainted (a ++ b).
Proof. intros a b Ha Hb k Hk. rewrite secrets_app in Hk. apply in_app_or in Hk; destruct Hk; auto. Qed.

Lemma body_tainted_cons : forall f t, frag_secrets f = [] -> body_tainted t -> body_tainted (f :: t).
Proof. intros f t Hf Ht k Hk. rewrite secrets_cons, Hf in Hk; auto. Qed.

Lemma body_tainted_trunc1024 : forall t, body_tainted t -> body_tainted (trunc1024 t).
Proof. intros t H k Hk; apply H, secrets_trunc1024; auto. Qed.

Lemma body_tainted_trunc4096 : forall t, body_tainted t -> body_tainted (trunc4096 t).
Proof. intros t H k Hk; apply H, secrets_trunc4096; auto. Qed.

Ltac bt := repeat first [ assumption | apply body_tainted_pub; reflexivity | apply body_tainted_pub; assumption
                        | apply body_tainted_trunc4096 | apply body_tainted_trunc1024
                        | apply body_tainted_cons; [reflexivity|] | apply body_tainted_app ].

Ltac feed X := match type of X with ?P -> _ =>
  let Hp := fresh in assert (Hp : P) by bt; specialize (X Hp); clear Hp end.

(* emission helpers *)
Lemma event_ok : forall b t, body_tainted t -> ok_outs (event b t).
Proof.
  intros b t H; unfold event. split_outs.
  - apply ok_body; auto using body_tainted_trunc4096.
  - destruct b; apply ok_body; auto.
Qed.

Lemma log_trace_ok : forall t, body_tainted t -> ok_outs (log_trace t).
Proof. intros; unfold log_trace; split_outs; apply ok_body; auto. Qed.

Lemma log_console_pub : forall t, secrets t = [] -> ok_outs (log_console t).
Proof. intros; unfold log_console; split_outs; apply ok_pub; auto. Qed.

Lemma serial_ok : forall t, body_tainted t -> ok_outs (serial t).
Proof. intros; unfold serial; split_outs; apply ok_body; auto. Qed.

Lemma startup_event_ok : forall task m o, startup_event task = (m, o) -> secrets m = [] /\ ok_outs o.
Proof.
  intros task m o H; unfold startup_event in H; cbv zeta in H.
  apply pair_equal_spec in H. destruct H as [<- <-]. split; [reflexivity|].
  apply ok_outs_app; [apply event_ok | apply serial_ok]; apply body_tainted_pub; reflexivity.
Qed.

(* hex-path outputs: the secret is a non-hex key, the sink one of Log / Stdout / ConnLog *)
Lemma ok_hex : forall s t, hex_sink s = true ->
  (forall k, In k (secrets t) -> fix_hex v = false /\ In k Nl) -> ok_out (s, t).
Proof. intros s t Hs Ht k Hk. right; left. destruct (Ht k Hk); auto. Qed.

(* state plumbing *)
Lemma Inv_fields : forall st st', kkmsg st' = kkmsg st -> mem st' = mem st -> files st' = files st -> Inv st -> Inv st'.
Proof. intros st st' H1 H2 H3 (A & B & C); unfold Inv; rewrite H1, H2, H3; auto. Qed.

Lemma set_status_ok : forall st msg b st1 o,
  Inv st -> set_status st msg b = (st1, o) -> body_tainted msg ->
  Inv st1 /\ ok_outs o /\ mem st1 = mem st /\ files st1 = files st.
Proof.
  intros st msg b st1 o (A & B & C) H Hm; unfold set_status in H.
  destruct (text_eqb (kkmsg st) msg); inversion H; subst; clear H.
  - split; [unfold Inv; auto|]. split; [|split; reflexivity].
    destruct b; [apply log_trace_ok; auto | apply ok_outs_nil].
  - split; [unfold Inv; simpl; auto|]. split; [apply event_ok; auto | split; reflexivity].
Qed.

Lemma module_status_kk_ok : forall st m o,
  Inv st -> module_status_kk st = (m, o) -> body_tainted m /\ ok_outs o.
Proof.
  intros st m o (A & _) H; unfold module_status_kk in H.
  destruct (is_long (kkmsg st)); inversion H; subst; clear H.
  - split; [apply body_tainted_trunc1024; auto|]. apply event_ok. apply body_tainted_cons; auto.
  - split; auto. apply ok_outs_nil.
Qed.

Lemma failed_state_message_ok : forall st m o,
  Inv st -> failed_state_message st = (m, o) -> body_tainted m /\ ok_outs o.
Proof.
  intros st m o HI H; unfold failed_state_message in H.
  destruct (latch_ready st).
  - inversion H; subst; split; [apply body_tainted_pub; reflexivity | apply ok_outs_nil].
  - destruct (module_status_kk st) as [m1 o1] eqn:E. inversion H; subst; clear H.
    destruct (module_status_kk_ok _ _ _ HI E) as [Hm Ho]. split; auto. bt.
Qed.

Lemma Inv_set_latch : forall st b, Inv st -> Inv (set_latch st b).
Proof. intros; eapply Inv_fields; eauto. Qed.
Lemma Inv_set_notify : forall st b, Inv st -> Inv (set_notify st b).
Proof. intros; eapply Inv_fields; eauto. Qed.
Lemma Inv_set_chan : forall st c, Inv st -> Inv (set_chan st c).
Proof. intros; eapply Inv_fields; eauto. Qed.
Lemma Inv_set_rule : forall st r, Inv st -> Inv (set_rule st r).
Proof. intros; eapply Inv_fields; eauto. Qed.
Lemma Inv_set_dir : forall st b, Inv st -> Inv (set_dir st b).
Proof. intros; eapply Inv_fields; eauto. Qed.
Lemma Inv_key_latched : forall st, Inv st -> Inv (key_latched st).
Proof. intros; apply Inv_set_latch; auto. Qed.

Lemma Inv_set_mem : forall st m, Inv st -> (forall e, m = Some e -> hex_ok e) -> Inv (set_mem st m).
Proof. intros st m (A & B & C) H; unfold Inv; simpl; auto. Qed.

Lemma Inv_set_files : forall st f, Inv st -> (forall e, In e f -> hex_ok e) -> Inv (set_files st f).
Proof. intros st f (A & B & C) H; unfold Inv; simpl; auto. Qed.

Lemma lookup_file_in : forall g fs e, lookup_file g fs = Some e -> In e fs.
Proof.
  induction fs as [|[k h] fs IH]; simpl; intros e H; [discriminate|].
  destruct (N.eqb k g); [inversion H; auto | right; auto].
Qed.

Lemma store_file_in : forall k h fs e, In e (store_file k h fs) -> e = (k, h) \/ In e fs.
Proof.
  intros k h fs e H; unfold store_file in H; simpl in H. destruct H as [H|H]; [left; auto|].
  apply filter_In in H; tauto.
Qed.

(* ---- the blocks of one poll ---- *)
(* what this poll's key response may add to the two fault sets is already in Nl / Ml *)
Definition kr_ok (kr : key_resp) : Prop :=
  match kr with
  | KOk k false => In k Nl
  | KMalformed k _ => In k Ml
  | _ => True
  end.

Lemma body_tainted_malformed : forall k l, In k Ml -> fix_body v = false -> body_tainted (msg_acquire_deser (malformed_body k l)).
Proof.
  intros k l Hk Hf k' H. destruct l; simpl in H; intuition; subst; auto.
Qed.

Lemma update_rules_ok : forall st r st1 o, Inv st -> update_rules st r = (st1, o) -> Inv st1 /\ ok_outs o.
Proof.
  intros st r st1 o HI H; unfold update_rules in H. destruct (N.eqb (rule st) r); inversion H; subst; clear H.
  - split; auto; apply ok_outs_nil.
  - split; [apply Inv_set_rule; auto|].
    repeat (apply ok_outs_app; try (apply log_console_pub; reflexivity)).
    split_outs; apply ok_pub; reflexivity.
Qed.

(* solves "every output is accounted for" goals whatever mixture of cons / app form they are in *)
Ltac so := unfold ok_outs in *; repeat first
  [ assumption | apply Forall_nil
  | apply log_console_pub; reflexivity
  | apply event_ok; solve [bt] | apply serial_ok; solve [bt] | apply log_trace_ok; solve [bt]
  | apply Forall_app; split | apply Forall_cons
  | apply ok_pub; reflexivity | apply ok_body; [reflexivity | solve [bt]] ].

Lemma acquire_block_ok : forall co st kr ar st1 o sy go,
  Inv st -> kr_ok kr -> acquire_block v co st kr ar = (st1, o, sy, go) -> Inv st1 /\ ok_outs o.
Proof.
  intros co st kr ar st1 o sy go HI Hkr H. unfold acquire_block in H.
  destruct kr as [k hex| |k l].
  - (* KOk *)
    destruct (negb hex && fix_hex v) eqn:Efix.
    + destruct (set_status st msg_acquire_nonhex_fixed true) as [st2 o2] eqn:E. inversion H; subst; clear H.
      pose proof (set_status_ok _ _ _ _ _ HI E) as X; feed X; destruct X as (A & B & _).
      split; auto. so.
    + assert (Hhex : hex_ok (k, hex)).
      { intros Hh; simpl in *; subst hex. simpl in Efix, Hkr. split; auto. }
      assert (HI1 : Inv (set_dir (set_files st (store_file k hex (files st))) true)).
      { apply Inv_set_dir. apply Inv_set_files; auto. intros e He. apply store_file_in in He. destruct He as [->|He]; auto.
        destruct HI as (_ & _ & C); auto. }
      assert (Hkf : ok_out (KeyFile, key_document k)) by (intros k' _; left; reflexivity).
      destruct hex; simpl negb in H; cbv iota in H.
      * (* hex key: attest at the host *)
        destruct ar.
        -- destruct (startup_event "Successfully attest the key and ready to use.") as [m oe] eqn:Es.
           destruct (startup_event_ok _ _ _ Es) as [Hm Hoe].
           destruct (set_status (set_mem (set_dir (set_files st (store_file k true (files st))) true) (Some (k, true))) m false) as [st3 os] eqn:E.
           inversion H; subst; clear H.
           assert (HI2 : Inv (set_mem (set_dir (set_files st (store_file k true (files st))) true) (Some (k, true)))).
           { apply Inv_set_mem; auto. intros e He; inversion He; subst; auto. }
           pose proof (set_status_ok _ _ _ _ _ HI2 E) as X; feed X; destruct X as (A & B & _).
           split; [apply Inv_key_latched; auto|]. so.
        -- inversion H; subst; clear H. split; auto. so.
      * (* non-hex key: compute_signature's Error::Hex reaches the log *)
        inversion H; subst; clear H. split; auto.
        destruct (Hhex eq_refl) as [Hf Hin]; simpl in Hin.
        assert (Hleak : forall s, hex_sink s = true -> ok_out (s, msg_attest_hex k)).
        { intros s Hs. apply ok_hex; auto. intros k' Hk'; simpl in Hk'; intuition; subst; auto. }
        unfold log_console. so; apply Hleak; reflexivity.
  - (* KErr *)
    destruct (set_status st msg_acquire_status true) as [st2 o2] eqn:E. inversion H; subst; clear H.
    pose proof (set_status_ok _ _ _ _ _ HI E) as X; feed X; destruct X as (A & B & _).
    split; auto. so.
  - (* KMalformed *)
    simpl in Hkr.
    destruct (set_status st (if fix_body v then msg_acquire_body_fixed else msg_acquire_deser (malformed_body k l)) true)
      as [st2 o2] eqn:E. inversion H; subst; clear H.
    assert (Hm : body_tainted (if fix_body v then msg_acquire_body_fixed else msg_acquire_deser (malformed_body k l))).
    { destruct (fix_body v) eqn:Ef; [apply body_tainted_pub; reflexivity | apply body_tainted_malformed; auto]. }
    pose proof (set_status_ok _ _ _ _ _ HI E) as X; feed X; destruct X as (A & B & _).
    split; auto. so.
Qed.

Lemma key_block_ok : forall co st guid kr ar st1 o sy go,
  Inv st -> kr_ok kr -> key_block v co st guid kr ar = (st1, o, sy, go) -> Inv st1 /\ ok_outs o.
Proof.
  intros co st guid kr ar st1 o sy go HI Hkr H. unfold key_block in H.
  destruct guid as [g|]; [|eapply acquire_block_ok; eauto].
  destruct (lookup_file g (files st)) as [[k hex]|] eqn:El.
  - destruct (startup_event "Found key details from local and ready to use.") as [m oe] eqn:Es.
    destruct (startup_event_ok _ _ _ Es) as [Hm Hoe].
    destruct (set_status (set_mem st (Some (k, hex))) m false) as [st2 os] eqn:E. inversion H; subst; clear H.
    assert (HI1 : Inv (set_mem st (Some (k, hex)))).
    { apply Inv_set_mem; auto. intros e He; inversion He; subst. destruct HI as (_ & _ & C). apply C.
      eapply lookup_file_in; eauto. }
    pose proof (set_status_ok _ _ _ _ _ HI1 E) as X; feed X; destruct X as (A & B & _).
    split; [apply Inv_key_latched; auto | so].
  - destruct (acquire_block v co st kr ar) as [[[st2 o2] s2] go2] eqn:E. inversion H; subst; clear H.
    destruct (acquire_block_ok _ _ _ _ _ _ _ _ HI Hkr E) as [A B]. split; auto. so.
Qed.

Lemma update_chan_ok : forall st c st1 o, Inv st -> update_chan st c = (st1, o) -> Inv st1 /\ ok_outs o.
Proof.
  intros st c st1 o HI H; unfold update_chan in H.
  destruct (chan_eqb (chan st) c); [inversion H; subst; split; auto; so|].
  destruct c; try (inversion H; subst; split; [apply Inv_set_chan; auto | so]).
  destruct (startup_event "Customer has not enforce the secure channel state.") as [m oe] eqn:Es.
  destruct (startup_event_ok _ _ _ Es) as [Hm Hoe].
  destruct (set_status (set_chan st ChDisabled) m false) as [st2 os] eqn:E. inversion H; subst; clear H.
  pose proof (set_status_ok _ _ _ _ _ (Inv_set_chan _ ChDisabled HI) E) as X; feed X; destruct X as (A & B & _).
  split; [|so].
  apply Inv_key_latched. apply Inv_set_mem; auto. intros e He; discriminate.
Qed.

Lemma wake_ok : forall st st1 o, Inv st -> wake st = (st1, o) -> Inv st1 /\ ok_outs o.
Proof.
  intros st st1 o HI H; unfold wake in H.
  destruct (notify_pending st); [|inversion H; subst; split; auto; so].
  destruct (chan (set_notify st false)); inversion H; subst; clear H; (split; [| so]).
  - apply Inv_set_chan, Inv_set_latch, Inv_set_notify; auto.
  - apply Inv_set_chan, Inv_set_latch, Inv_set_notify; auto.
  - apply Inv_key_latched, Inv_set_notify; auto.
Qed.

Lemma poll_ok : forall co st s kr ar st1 o sy,
  Inv st -> kr_ok kr -> poll v co st s kr ar = (st1, o, sy) -> Inv st1 /\ ok_outs o.
Proof.
  intros co st s kr ar st1 o sy HI Hkr H. unfold poll in H.
  (* a failed status request: one status message, then the wake-up *)
  assert (Hfail : forall msg, secrets msg = [] ->
     (let '(st', o0, sy0) := (let '(sta, oa) := set_status st msg true in (sta, oa, @nil sys)) in
      let '(st'', ow) := wake st' in (st'', [(HostRequest, [Lit "GET /secure-channel/status"; Public "headers"])] ++ o0 ++ ow, sy0))
       = (st1, o, sy) -> Inv st1 /\ ok_outs o).
  { intros msg Hmsg H0. destruct (set_status st msg true) as [sta oa] eqn:E.
    pose proof (set_status_ok _ _ _ _ _ HI E) as X; feed X; destruct X as (A & B & _).
    destruct (wake sta) as [stb ob] eqn:Ew. inversion H0; subst; clear H0.
    destruct (wake_ok _ _ _ A Ew) as [C D]. split; auto. so. }
  destruct s as [enabled guid r| | |]; try (apply Hfail in H; auto; reflexivity).
  destruct (set_status st msg_got_status true) as [sta oa] eqn:E1.
  pose proof (set_status_ok _ _ _ _ _ HI E1) as X; feed X; destruct X as (A1 & B1 & _).
  destruct (update_rules sta r) as [stb ob] eqn:E2.
  destruct (update_rules_ok _ _ _ _ A1 E2) as [A2 B2].
  destruct (if enabled && guid_differs guid (mem stb) then key_block v co stb guid kr ar else (stb, [], [], true))
    as [[[stc oc] sc] go] eqn:E3.
  assert (A3 : Inv stc /\ ok_outs oc).
  { destruct (enabled && guid_differs guid (mem stb)).
    - eapply key_block_ok; eauto.
    - inversion E3; subst; split; auto; so. }
  destruct A3 as [A3 B3].
  destruct go.
  - destruct (update_chan stc (if enabled then ChEnabled else ChDisabled)) as [std od] eqn:E4.
    destruct (update_chan_ok _ _ _ _ A3 E4) as [A4 B4].
    destruct (wake std) as [ste oe] eqn:E5. inversion H; subst; clear H.
    destruct (wake_ok _ _ _ A4 E5) as [A5 B5]. split; auto. so.
  - destruct (wake stc) as [ste oe] eqn:E5. inversion H; subst; clear H.
    destruct (wake_ok _ _ _ A3 E5) as [A5 B5]. split; auto. so.
Qed.

(* ---- the other operations ---- *)
Lemma client_request_ok : forall st, Inv st -> ok_outs (client_request st).
Proof.
  intros st (_ & B & _). unfold client_request.
  destruct (mem st) as [[k [|]]|] eqn:Em; try solve [so].
  destruct (B _ eq_refl eq_refl) as [Hf Hin]; simpl in Hin.
  assert (Hleak : ok_out (ConnLog, msg_sign_failed k)).
  { apply ok_hex; [reflexivity|]. intros k' Hk'; simpl in Hk'; intuition; subst; auto. }
  so.
Qed.

Lemma provision_query_ok : forall st n st1 o, Inv st -> provision_query st n = (st1, o) -> Inv st1 /\ ok_outs o.
Proof.
  intros st n st1 o HI H; unfold provision_query in H.
  destruct (failed_state_message st) as [m om] eqn:E. destruct (failed_state_message_ok _ _ _ HI E) as [Hm Hom].
  inversion H; subst; clear H. split.
  - destruct (n && negb (chan_latched (chan st))); [apply Inv_set_notify|]; auto.
  - destruct (n && negb (chan_latched (chan st))); so.
Qed.

Lemma provision_timeup_ok : forall st st1 o sy, Inv st -> provision_timeup st = (st1, o, sy) -> Inv st1 /\ ok_outs o.
Proof.
  intros st st1 o sy HI H; unfold provision_timeup in H.
  destruct (failed_state_message st) as [m om] eqn:E. destruct (failed_state_message_ok _ _ _ HI E) as [Hm Hom].
  inversion H; subst; clear H. split; [apply Inv_set_dir; auto | so].
Qed.

Lemma status_tick_ok : forall st, Inv st -> ok_outs (status_tick st).
Proof.
  intros st HI; unfold status_tick.
  destruct (module_status_kk st) as [m om] eqn:E. destruct (module_status_kk_ok _ _ _ HI E) as [Hm Hom]. so.
Qed.

Lemma boot_ok : forall fs d co st o sy,
  (forall e, In e fs -> hex_ok e) -> boot fs d co = (st, o, sy) -> Inv st /\ ok_outs o.
Proof.
  intros fs d co st o sy Hfs H. unfold boot in H.
  destruct (startup_event "Started proxy listener, ready to accept request") as [lm lo] eqn:Es.
  destruct (startup_event_ok _ _ _ Es) as [Hlm Hlo].
  match type of H with context [set_status ?s0 ?m true] => destruct (set_status s0 m true) as [st1 o1] eqn:E;
    assert (HI0 : Inv s0) by (unfold Inv; simpl; split; [apply body_tainted_pub; reflexivity | split; [intros; discriminate | auto]]) end.
  inversion H; subst; clear H.
  pose proof (set_status_ok _ _ _ _ _ HI0 E) as X; feed X; destruct X as (A & B & _).
  split; auto. destruct co; so.
Qed.

End Envelope.

(* monotonicity in the two fault sets *)
Lemma ok_out_mono : forall v Nl Ml Nl' Ml' o, incl Nl Nl' -> incl Ml Ml' -> ok_out v Nl Ml o -> ok_out v Nl' Ml' o.
Proof.
  intros v Nl Ml Nl' Ml' o HN HM H k Hk. destruct (H k Hk) as [A|[(A & B & C)|(A & B & C)]]; auto.
  - right; left; auto.
  - right; right; auto.
Qed.

Lemma ok_outs_mono : forall v Nl Ml Nl' Ml' os, incl Nl Nl' -> incl Ml Ml' -> ok_outs v Nl Ml os -> ok_outs v Nl' Ml' os.
Proof. intros; eapply Forall_impl; [|eassumption]. intros; eapply ok_out_mono; eauto. Qed.

Lemma Inv_mono : forall v Nl Ml Nl' Ml' st, incl Nl Nl' -> incl Ml Ml' -> Inv v Nl Ml st -> Inv v Nl' Ml' st.
Proof.
  intros v Nl Ml Nl' Ml' st HN HM (A & B & C). split; [|split].
  - intros k0 Hk0; destruct (A k0 Hk0); split; auto.
  - intros e0 He0 Hh0; destruct (B e0 He0 Hh0); split; auto.
  - intros e0 He0 Hh0; destruct (C e0 He0 Hh0); split; auto.
Qed.

(* ---------------------------------------------------------------------------------------- *)
(* every step, every history                                                                *)
(* ---------------------------------------------------------------------------------------- *)
Lemma step_ok : forall v co Nl Ml st o st1 outs sy,
  Inv v Nl Ml st -> step v co st o = (st1, outs, sy) ->
  Inv v (Nl ++ nonhex_keys_op o) (Ml ++ malformed_keys_op o) st1
  /\ ok_outs v (Nl ++ nonhex_keys_op o) (Ml ++ malformed_keys_op o) outs.
Proof.
  intros v co Nl Ml st o st1 outs sy HI H.
  assert (HI' : Inv v (Nl ++ nonhex_keys_op o) (Ml ++ malformed_keys_op o) st)
    by (eapply Inv_mono; [| |eassumption]; apply incl_appl, incl_refl).
  destruct o as [s kr ar| | |n| | | |]; simpl in H.
  - eapply poll_ok; eauto.
    destruct kr as [k [|]| |k l]; simpl; auto; apply in_or_app; right; left; reflexivity.
  - eapply boot_ok; [|eassumption]. destruct HI' as (_ & _ & C); auto.
  - inversion H; subst; split; auto. apply client_request_ok; auto.
  - destruct (provision_query st n) as [st2 o2] eqn:E. inversion H; subst. eapply provision_query_ok; eauto.
  - eapply provision_timeup_ok; eauto.
  - inversion H; subst; split; auto. apply status_tick_ok; auto.
  - inversion H; subst; split; [|constructor].
    apply Inv_set_dir. apply Inv_set_files; auto. intros e He; inversion He.
  - inversion H; subst; split; auto. apply log_console_pub; reflexivity.
Qed.

Lemma run_from_ok : forall v co h Nl Ml st outs sy,
  Inv v Nl Ml st -> run_from v co st h = (outs, sy) ->
  ok_outs v (Nl ++ nonhex_keys h) (Ml ++ malformed_keys h) outs.
Proof.
  intros v co. induction h as [|o h IH]; intros Nl Ml st outs sy HI H; simpl in H.
  - inversion H; constructor.
  - destruct (step v co st o) as [[st1 o1] s1] eqn:Es.
    destruct (run_from v co st1 h) as [o2 s2] eqn:Er. inversion H; subst; clear H.
    destruct (step_ok _ _ _ _ _ _ _ _ _ HI Es) as [HI1 Ho1].
    specialize (IH _ _ _ _ _ HI1 Er).
    unfold nonhex_keys, malformed_keys in *; simpl. rewrite !app_assoc.
    apply Forall_app; split; auto.
    eapply ok_outs_mono; [| |eassumption]; apply incl_appl, incl_refl.
Qed.

Lemma run_env_ok : forall v predir co h, ok_outs v (nonhex_keys h) (malformed_keys h) (run_env v predir co h).
Proof.
  intros v predir co h. unfold run_env, run_all.
  destruct (boot [] predir co) as [[st0 o0] s0] eqn:Eb.
  destruct (run_from v co st0 h) as [o s] eqn:Er. simpl.
  destruct (boot_ok v [] [] [] predir co st0 o0 s0 (fun e H => match H with end) Eb) as [HI Ho].
  apply Forall_app; split.
  - eapply ok_outs_mono; [| |eassumption]; intros x Hx; inversion Hx.
  - exact (run_from_ok v co h [] [] st0 o s HI Er).
Qed.

Lemma run_ok : forall v h, ok_outs v (nonhex_keys h) (malformed_keys h) (run v h).
Proof. intros; apply run_env_ok. Qed.

(* the exact leak envelope *)
Theorem leak_envelope : forall v h s t k,
  In (s, t) (run v h) -> In k (secrets t) -> leak_allowed v h s k.
Proof.
  intros v h s t k Hin Hk. pose proof (run_ok v h) as H. unfold ok_outs in H. rewrite Forall_forall in H.
  exact (H (s, t) Hin k Hk).
Qed.

(* ---------------------------------------------------------------------------------------- *)
(* non-interference                                                                         *)
(* ---------------------------------------------------------------------------------------- *)
Lemma nonhex_keys_none : forall h, existsb is_nonhex_poll h = false -> nonhex_keys h = [].
Proof.
  induction h as [|o h IH]; simpl; intros H; auto. apply orb_false_iff in H. destruct H as [H1 H2].
  unfold nonhex_keys in *; simpl. rewrite (IH H2), app_nil_r.
  destruct o as [s [k [|]| |k l] a| | | | | | |]; simpl in *; auto; discriminate.
Qed.

Lemma malformed_keys_none : forall h, existsb is_malformed_poll h = false -> malformed_keys h = [].
Proof.
  induction h as [|o h IH]; simpl; intros H; auto. apply orb_false_iff in H. destruct H as [H1 H2].
  unfold malformed_keys in *; simpl. rewrite (IH H2), app_nil_r.
  destruct o as [s [k hx| |k l] a| | | | | | |]; simpl in *; auto; discriminate.
Qed.

Theorem noninterference_partial : forall v h,
  KnownClass_host_key_not_hex v h = false ->
  KnownClass_host_key_body_malformed v h = false ->
  noninterference (run v h).
Proof.
  intros v h H1 H2. unfold noninterference. rewrite Forall_forall. intros [s t] Hin. simpl.
  destruct (secrets t) as [|k ks] eqn:Es; [right; exact Es|].
  assert (Hk : In k (secrets t)) by (rewrite Es; left; reflexivity).
  destruct (leak_envelope v h s t k Hin Hk) as [A|[(A & B & C)|(A & B & C)]]; [left; exact A| |].
  - unfold KnownClass_host_key_not_hex in H1. rewrite A in H1. simpl in H1.
    rewrite (nonhex_keys_none _ H1) in B. contradiction.
  - unfold KnownClass_host_key_body_malformed in H2. rewrite A in H2. simpl in H2.
    rewrite (malformed_keys_none _ H2) in B. contradiction.
Qed.

(* with both repairs in place non-interference holds for every history *)
Theorem noninterference_repaired : forall h, noninterference (run repaired h).
Proof. intros h; apply noninterference_partial; reflexivity. Qed.

(* a key delivered well-formed (never non-hex, never inside an undeserialisable body) is confined
   to the key file whatever else happens in the history *)
Theorem wellformed_key_confined : forall v h s t k,
  In (s, t) (run v h) -> In k (secrets t) ->
  ~ In k (nonhex_keys h) -> ~ In k (malformed_keys h) -> s = KeyFile.
Proof.
  intros v h s t k Hin Hk Hn Hm.
  destruct (leak_envelope v h s t k Hin Hk) as [A|[(A & B & C)|(A & B & C)]]; auto; contradiction.
Qed.

Lemma noninterferenceb_spec : forall outs, noninterferenceb outs = true <-> noninterference outs.
Proof.
  intros outs; unfold noninterferenceb, noninterference. rewrite forallb_forall, Forall_forall.
  split; intros H o Ho; specialize (H o Ho).
  - apply orb_true_iff in H. destruct H as [H|H].
    + left. destruct (fst o); simpl in H; try discriminate; reflexivity.
    + right. unfold secret_freeb, secret_free in *. destruct (secrets (snd o)); [reflexivity|discriminate].
  - apply orb_true_iff. destruct H as [H|H].
    + left; rewrite H; reflexivity.
    + right; unfold secret_freeb, secret_free in *; rewrite H; reflexivity.
Qed.

(* ---- refutation witnesses (F6) ---- *)
(* (1) the host hands out a non-hex key: attest_key's Error::Hex text reaches the log and the console;
       the host then reports that key as latched, the agent loads it from its key file, and the
       proxy's 'compute_signature failed' line prints it into the connection log *)
Definition witness_not_hex : history :=
  [Poll (SOk true None 1) (KOk 1 false) AOk; Poll (SOk true (Some 1%N) 1) KErr AOk; ClientRequest].
(* (2) the key body does not deserialize: read_response_body echoes it into the key keeper status
       message, hence the event, status.json, status.tag, the serial console and the /provision answer *)
Definition witness_body_malformed : history :=
  [Poll (SOk true None 1) (KMalformed 1 Early) AOk; StatusTick; ProvisionQuery false; ProvisionTimeup].

Lemma hex_error_refuted : exists h, ~ noninterference (run unfixed h).
Proof.
  exists witness_not_hex. rewrite <- noninterferenceb_spec. vm_compute. discriminate.
Qed.

Lemma body_error_refuted : exists h, ~ noninterference (run unfixed h).
Proof.
  exists witness_body_malformed. rewrite <- noninterferenceb_spec. vm_compute. discriminate.
Qed.

(* each repair is needed on its own: with only the other one in place the statement still fails *)
Lemma without_hex_repair_refuted : exists h, ~ noninterference (run only_body_repair h).
Proof.
  exists witness_not_hex. rewrite <- noninterferenceb_spec. vm_compute. discriminate.
Qed.

Lemma without_body_repair_refuted : exists h, ~ noninterference (run only_hex_repair h).
Proof.
  exists witness_body_malformed. rewrite <- noninterferenceb_spec. vm_compute. discriminate.
Qed.

(* the code as it is now: the full statement, every history over the whole fault alphabet *)
Theorem noninterference_current : forall h, noninterference (run current h).
Proof. exact noninterference_repaired. Qed.

Lemma witnesses_in_class :
  KnownClass_host_key_not_hex unfixed witness_not_hex = true
  /\ KnownClass_host_key_body_malformed unfixed witness_not_hex = false
  /\ KnownClass_host_key_body_malformed unfixed witness_body_malformed = true
  /\ KnownClass_host_key_not_hex unfixed witness_body_malformed = false.
Proof. vm_compute. repeat split. Qed.

Lemma witness_vectors :
  vector (run unfixed witness_not_hex) = [(KeyFile, [1%N]); (Log, [1%N]); (ConnLog, [1%N]); (Stdout, [1%N])]
  /\ vector (run unfixed witness_body_malformed)
     = [(Log, [1%N]); (ConnLog, [1%N]); (Event, [1%N]); (StatusJson, [1%N]); (ProvisionTag, [1%N]);
        (SerialConsole, [1%N]); (ClientResponse, [1%N])].
Proof. vm_compute. split; reflexivity. Qed.

(* ---------------------------------------------------------------------------------------- *)
(* the key directory is restricted before anything is created in it                         *)
(* ---------------------------------------------------------------------------------------- *)
Lemma creates_restricted_app : forall co a b d,
  creates_restricted co d (a ++ b) = creates_restricted co d a && creates_restricted co (fold_left sys_step a d) b.
Proof.
  induction a as [|e a IH]; intros b d; simpl; auto.
  destruct e as [|u g|m|[|]|]; simpl; rewrite ?IH; auto.
  rewrite andb_assoc. destruct d as [[c0 m0]|]; reflexivity.
Qed.

Lemma fold_sys_app : forall a b d, fold_left sys_step (a ++ b) d = fold_left sys_step b (fold_left sys_step a d).
Proof. intros; apply fold_left_app. Qed.

(* ---- the agent's view of the directory ([dir_exists]) and the directory itself ---- *)
Definition J (st : state) (d : dirstate) : Prop :=
  (dir_exists st = false -> d = None) /\ (dir_exists st = true -> d <> None).

Definition acl_tr (co : bool) : list sys := (if co then [Chown 0 0] else []) ++ [Chmod 448].
(* what storing a key does to the directory since fd6287b: create it if gone, restrict it, create the file *)
Definition store_tr (co dir : bool) : list sys := (if dir then @nil sys else [Mkdir]) ++ acl_tr co ++ [Create FKeyFile].

Lemma boot_trace : forall fs dir co st o sy, boot fs dir co = (st, o, sy) ->
  sy = (if dir then [] else [Mkdir]) ++ acl_tr co /\ dir_exists st = true.
Proof.
  intros fs dir co st o sy H. unfold boot in H.
  destruct (startup_event "Started proxy listener, ready to accept request").
  match type of H with context [set_status ?s0 ?m true] =>
    destruct (set_status s0 m true) as [s1 o1] eqn:E; assert (D : dir_exists s1 = true) end.
  { unfold set_status in E. match type of E with context [if ?c then _ else _] => destruct c end; inversion E; reflexivity. }
  inversion H; subst. split; [reflexivity | exact D].
Qed.

Lemma set_status_dir : forall st m b st1 o, set_status st m b = (st1, o) -> dir_exists st1 = dir_exists st.
Proof. intros st m b st1 o H; unfold set_status in H. destruct (text_eqb (kkmsg st) m); inversion H; reflexivity. Qed.

Lemma update_rules_dir : forall st r st1 o, update_rules st r = (st1, o) -> dir_exists st1 = dir_exists st.
Proof. intros st r st1 o H; unfold update_rules in H. destruct (N.eqb (rule st) r); inversion H; reflexivity. Qed.

Lemma update_chan_dir : forall st c st1 o, update_chan st c = (st1, o) -> dir_exists st1 = dir_exists st.
Proof.
  intros st c st1 o H; unfold update_chan in H. destruct (chan_eqb (chan st) c); [inversion H; reflexivity|].
  destruct c; try (inversion H; reflexivity).
  destruct (startup_event "Customer has not enforce the secure channel state.") as [m oe].
  destruct (set_status (set_chan st ChDisabled) m false) as [st2 os] eqn:E. inversion H; subst.
  simpl. rewrite (set_status_dir _ _ _ _ _ E). reflexivity.
Qed.

Lemma wake_dir : forall st st1 o, wake st = (st1, o) -> dir_exists st1 = dir_exists st.
Proof.
  intros st st1 o H; unfold wake in H. destruct (notify_pending st); [|inversion H; reflexivity].
  destruct (chan (set_notify st false)); inversion H; reflexivity.
Qed.

(* what the key block does to the directory: nothing, or one key store *)
Definition key_sys (co : bool) (st st1 : state) (sy : list sys) : Prop :=
  (sy = [] /\ dir_exists st1 = dir_exists st) \/ (sy = store_tr co (dir_exists st) /\ dir_exists st1 = true).

Lemma acquire_block_sys : forall v co st kr ar st1 o sy go, acquire_block v co st kr ar = (st1, o, sy, go) ->
  key_sys co st st1 sy.
Proof.
  intros v co st kr ar st1 o sy go H. unfold acquire_block in H.
  destruct kr as [k hex| |k l].
  - destruct (negb hex && fix_hex v).
    + destruct (set_status st msg_acquire_nonhex_fixed true) eqn:E; inversion H; subst.
      left; split; [reflexivity | eapply set_status_dir; eauto].
    + destruct (negb hex).
      * inversion H; subst. right; split; reflexivity.
      * destruct ar.
        -- destruct (startup_event "Successfully attest the key and ready to use.").
           match type of H with context [set_status ?s0 ?m false] => destruct (set_status s0 m false) eqn:E end.
           inversion H; subst. right; split; [reflexivity|]. simpl. rewrite (set_status_dir _ _ _ _ _ E). reflexivity.
        -- inversion H; subst. right; split; reflexivity.
  - destruct (set_status st msg_acquire_status true) eqn:E; inversion H; subst.
    left; split; [reflexivity | eapply set_status_dir; eauto].
  - match type of H with context [set_status ?s0 ?m true] => destruct (set_status s0 m true) eqn:E end.
    inversion H; subst. left; split; [reflexivity | eapply set_status_dir; eauto].
Qed.

Lemma key_block_sys : forall v co st g kr ar st1 o sy go, key_block v co st g kr ar = (st1, o, sy, go) ->
  key_sys co st st1 sy.
Proof.
  intros v co st g kr ar st1 o sy go H. unfold key_block in H.
  destruct g as [g|]; [|eapply acquire_block_sys; eauto].
  destruct (lookup_file g (files st)) as [[k hex]|].
  - destruct (startup_event "Found key details from local and ready to use.").
    match type of H with context [set_status ?s0 ?m false] => destruct (set_status s0 m false) eqn:E end.
    inversion H; subst. left; split; [reflexivity|]. simpl. rewrite (set_status_dir _ _ _ _ _ E). reflexivity.
  - destruct (acquire_block v co st kr ar) as [[[st2 o2] s2] go2] eqn:E. inversion H; subst.
    eapply acquire_block_sys; eauto.
Qed.

Lemma poll_sys : forall v co st s kr ar st1 o sy, poll v co st s kr ar = (st1, o, sy) -> key_sys co st st1 sy.
Proof.
  intros v co st s kr ar st1 o sy H. unfold poll in H.
  destruct s as [enabled guid r| | |];
    try (match type of H with context [set_status ?s0 ?m true] => destruct (set_status s0 m true) as [sa oa] eqn:E end;
         destruct (wake sa) eqn:Ew; inversion H; subst;
         left; split; [reflexivity | rewrite (wake_dir _ _ _ Ew); eapply set_status_dir; eauto]).
  destruct (set_status st msg_got_status true) as [sta oa] eqn:E1.
  destruct (update_rules sta r) as [stb ob] eqn:E2.
  assert (Db : dir_exists stb = dir_exists st)
    by (rewrite (update_rules_dir _ _ _ _ E2); eapply set_status_dir; eauto).
  destruct (if enabled && guid_differs guid (mem stb) then key_block v co stb guid kr ar else (stb, [], [], true))
    as [[[stc oc] sc] go] eqn:E3.
  assert (Kc : key_sys co stb stc sc).
  { destruct (enabled && guid_differs guid (mem stb)); [eapply key_block_sys; eauto | inversion E3; subst; left; split; reflexivity]. }
  assert (Kend : forall ste, dir_exists ste = dir_exists stc -> key_sys co st ste sc).
  { intros ste De. destruct Kc as [[K1 K2]|[K1 K2]]; [left | right]; split; auto; congruence. }
  destruct go.
  - destruct (update_chan stc (if enabled then ChEnabled else ChDisabled)) as [std od] eqn:E4.
    destruct (wake std) eqn:E5. inversion H; subst. apply Kend.
    rewrite (wake_dir _ _ _ E5), (update_chan_dir _ _ _ _ E4). reflexivity.
  - destruct (wake stc) eqn:E5. inversion H; subst. apply Kend. apply (wake_dir _ _ _ E5).
Qed.

Lemma restricted_after_acl : forall co (dir : bool) d,
  (dir = true -> d <> None) ->
  restricted_in co (fold_left sys_step ((if dir then @nil sys else [Mkdir]) ++ acl_tr co) d) = true.
Proof.
  intros co dir d Hd. destruct dir.
  - destruct d as [[c0 m0]|]; [|exfalso; apply Hd; auto]. destruct co; reflexivity.
  - destruct co; reflexivity.
Qed.

Lemma no_key_create : forall co d tr, (forall e, In e tr -> e <> Create FKeyFile) -> creates_restricted co d tr = true.
Proof.
  intros co d tr; revert d. induction tr as [|e tr IH]; intros d H; simpl; auto.
  destruct e as [| | |[|]|]; try (apply IH; intros; apply H; right; auto).
  exfalso. apply (H (Create FKeyFile)); [left|]; reflexivity.
Qed.

Lemma acl_prefix_no_create : forall co (dir : bool) e, In e ((if dir then @nil sys else [Mkdir]) ++ acl_tr co) -> e <> Create FKeyFile.
Proof. intros co dir e He. destruct dir; destruct co; simpl in He; intuition; subst; discriminate. Qed.

(* a key store: the file is created in a directory that exists and has just been restricted *)
Lemma store_tr_ok : forall co (dir : bool) d, (dir = true -> d <> None) ->
  creates_restricted co d (store_tr co dir) = true /\ fold_left sys_step (store_tr co dir) d <> None.
Proof.
  intros co dir d Hd. unfold store_tr. rewrite app_assoc.
  pose proof (restricted_after_acl co dir d Hd) as R.
  assert (E1 : forall x, creates_restricted co x [Create FKeyFile] = restricted_in co x && true) by reflexivity.
  assert (E2 : forall x, fold_left sys_step [Create FKeyFile] x = x) by (intros [[? ?]|]; reflexivity).
  split.
  - rewrite creates_restricted_app, E1, R.
    rewrite (no_key_create co d _ (acl_prefix_no_create co dir)). reflexivity.
  - rewrite fold_sys_app, E2.
    destruct (fold_left sys_step ((if dir then []%list else [Mkdir]) ++ acl_tr co) d) as [[c0 m0]|]; [discriminate|].
    destruct co; discriminate.
Qed.

Lemma step_dir : forall v co st o st1 outs sy d,
  J st d -> step v co st o = (st1, outs, sy) ->
  creates_restricted co d sy = true /\ J st1 (fold_left sys_step sy d).
Proof.
  intros v co st o st1 outs sy d [J1 J2] H. destruct o as [s kr ar| | |n| | | |]; simpl in H.
  - destruct (poll_sys _ _ _ _ _ _ _ _ _ H) as [[K D]|[K D]]; subst sy.
    + simpl. split; auto. split; rewrite D; auto.
    + destruct (store_tr_ok co (dir_exists st) d J2) as [A B]. split; auto.
      split; [rewrite D; discriminate | intros _; exact B].
  - destruct (boot_trace _ _ _ _ _ _ H) as [-> D]. split.
    + apply no_key_create. apply acl_prefix_no_create.
    + split; [rewrite D; discriminate | intros _].
      pose proof (restricted_after_acl co (dir_exists st) d J2) as R.
      destruct (fold_left sys_step ((if dir_exists st then []%list else [Mkdir]) ++ acl_tr co) d) as [[c0 m0]|]; [discriminate|].
      destruct co; discriminate.
  - inversion H; subst; simpl. split; auto. split; auto.
  - destruct (provision_query st n) as [st2 o2] eqn:E. inversion H; subst; simpl.
    assert (D : dir_exists st1 = dir_exists st).
    { unfold provision_query in E. destruct (failed_state_message st). inversion E; subst.
      destruct (n && negb (chan_latched (chan st))); reflexivity. }
    split; auto. split; rewrite D; auto.
  - unfold provision_timeup in H. destruct (failed_state_message st). inversion H; subst; clear H.
    split.
    + apply no_key_create. intros e He. destruct (dir_exists st); simpl in He; intuition; subst; discriminate.
    + split; [simpl; intros X; discriminate | intros _].
      destruct (dir_exists st) eqn:Ed; simpl.
      * specialize (J2 eq_refl). destruct d as [[c0 m0]|]; [discriminate | congruence].
      * discriminate.
  - inversion H; subst; simpl. split; auto. split; auto.
  - inversion H; subst; clear H. destruct (dir_exists st) eqn:Ed; simpl.
    + split; [reflexivity | split; [auto | simpl; intros X; discriminate]].
    + split; [reflexivity | split; [simpl; auto | simpl; intros X; discriminate]].
  - inversion H; subst; simpl. split; auto. split; auto.
Qed.

Lemma run_from_dir : forall v co h st outs sy d,
  J st d -> run_from v co st h = (outs, sy) -> creates_restricted co d sy = true.
Proof.
  intros v co. induction h as [|o h IH]; intros st outs sy d HJ H; simpl in H.
  - inversion H; reflexivity.
  - destruct (step v co st o) as [[st1 o1] s1] eqn:Es. destruct (run_from v co st1 h) as [o2 s2] eqn:Er.
    inversion H; subst; clear H.
    destruct (step_dir _ _ _ _ _ _ _ _ HJ Es) as (C1 & J1).
    rewrite creates_restricted_app, C1. simpl. eapply IH; eauto.
Qed.

(* in every environment, for EVERY history (restarts, removal of the directory, re-creation by the provision
   deadline included) and EVERY initial directory (absent, or present with any owner and mode): whatever can be
   demanded there (mode always, owner when chown can succeed) holds at every creation of a KEY file inside it *)
Theorem creates_in_restricted_dir : forall v predir co h d0,
  dir_matches predir d0 ->
  creates_restricted co d0 (sys_trace v predir co h) = true.
Proof.
  intros v predir co h d0 [P _]. unfold sys_trace, run_all.
  destruct (boot [] predir co) as [[st0 o0] s0] eqn:Eb. destruct (run_from v co st0 h) as [o s] eqn:Er. simpl.
  destruct (boot_trace _ _ _ _ _ _ Eb) as [-> D]. rewrite creates_restricted_app.
  rewrite (no_key_create co d0 _ (acl_prefix_no_create co predir)). simpl.
  eapply run_from_dir; [|exact Er].
  split; [rewrite D; discriminate | intros _].
  pose proof (restricted_after_acl co predir d0 P) as R.
  destruct (fold_left sys_step ((if predir then []%list else [Mkdir]) ++ acl_tr co) d0) as [[c0 m0]|]; [discriminate|].
  destruct co; discriminate.
Qed.

Lemma at_create : forall v predir co h d0 pre post,
  dir_matches predir d0 ->
  sys_trace v predir co h = pre ++ Create FKeyFile :: post -> restricted_in co (dir_after d0 pre) = true.
Proof.
  intros v predir co h d0 pre post Hd H. pose proof (creates_in_restricted_dir v predir co h d0 Hd) as R. rewrite H in R.
  rewrite creates_restricted_app in R. apply andb_true_iff in R. destruct R as [_ R].
  simpl in R. apply andb_true_iff in R. destruct R as [R _]. exact R.
Qed.

(* Prop forms.  Whatever the environment and the initial directory: the mode is 0o700 at every creation of a key file *)
Theorem dir_mode_restricted_at_create : forall v predir co h d0 pre post,
  dir_matches predir d0 ->
  sys_trace v predir co h = pre ++ Create FKeyFile :: post -> mode_restricted (dir_after d0 pre) = true.
Proof.
  intros v predir co h d0 pre post Hd H. pose proof (at_create v predir co h d0 pre post Hd H) as R.
  destruct co; simpl in R; auto.
  destruct (dir_after d0 pre) as [[c0 m0]|]; simpl in *; [destruct c0; auto; discriminate | discriminate].
Qed.

(* where chown can succeed: owner root:root AND mode 0o700 (and nothing undid that) -- also when the directory
   pre-existed with mode 0o700 and a foreign owner *)
Theorem dir_restricted_at_create : forall v predir h d0 pre post,
  dir_matches predir d0 ->
  sys_trace v predir true h = pre ++ Create FKeyFile :: post -> restricted (dir_after d0 pre) = true.
Proof. intros v predir h d0 pre post Hd H. exact (at_create v predir true h d0 pre post Hd H). Qed.

Lemma mode_700_needs_chmod : forall tr d, mode_restricted (fold_left sys_step tr d) = true ->
  mode_restricted d = true \/ In (Chmod 448) tr.
Proof.
  induction tr as [|e tr IH]; intros d H; simpl in *; auto.
  destruct (IH _ H) as [A|A]; [|right; right; exact A].
  destruct e as [|u g|m|c|]; simpl in A.
  - discriminate.
  - destruct d as [[c0 m0]|]; simpl in *; auto.
  - destruct d as [[c0 m0]|]; simpl in *; auto. apply N.eqb_eq in A. subst. right; left; reflexivity.
  - left. destruct d as [[? ?]|]; exact A.
  - discriminate.
Qed.

Lemma owner_needs_chown : forall tr d,
  (match fold_left sys_step tr d with Some (true, _) => true | _ => false end) = true ->
  (match d with Some (true, _) => true | _ => false end) = true \/ In (Chown 0 0) tr.
Proof.
  induction tr as [|e tr IH]; intros d H0; simpl in *; auto.
  destruct (IH _ H0) as [A|A]; [|right; right; exact A].
  destruct e as [|u g|m|c1|]; simpl in A.
  - discriminate.
  - destruct d as [[c0 m0]|]; simpl in *; auto.
    destruct (N.eqb u 0) eqn:Eu; destruct (N.eqb g 0) eqn:Eg; simpl in A; try discriminate.
    apply N.eqb_eq in Eu, Eg; subst. right; left; reflexivity.
  - destruct d as [[c0 m0]|]; simpl in *; auto.
  - left. destruct d as [[? ?]|]; exact A.
  - discriminate.
Qed.

Lemma prefix_before : forall (a s pre post : list sys) x,
  a ++ s = pre ++ x :: post -> ~ In x a -> exists r, pre = a ++ r.
Proof.
  induction a as [|y a IH]; intros s pre post x H Hn; [exists pre; reflexivity|].
  destruct pre as [|z pre]; simpl in H.
  - inversion H; subst. exfalso; apply Hn; left; reflexivity.
  - inversion H; subst. destruct (IH _ _ _ _ H2) as [r ->]; [intros X; apply Hn; right; exact X|].
    exists r; reflexivity.
Qed.

(* DESIGN form: the chmod 0o700 of the key directory precedes every creation of a key file in it -- in every
   environment, history and initial directory (the agent never relies on what it finds: it always chmods, and
   chowns wherever it can) *)
Theorem dir_restricted_first : forall v predir co h pre post,
  sys_trace v predir co h = pre ++ Create FKeyFile :: post ->
  In (Chmod 448) pre /\ (co = true -> In (Chown 0 0) pre).
Proof.
  intros v predir co h pre post H. unfold sys_trace, run_all in H.
  destruct (boot [] predir co) as [[st0 o0] s0] eqn:Eb. destruct (run_from v co st0 h) as [o s] eqn:Er. simpl in H.
  destruct (boot_trace _ _ _ _ _ _ Eb) as [-> D].
  destruct (prefix_before _ _ _ _ _ H) as [r ->].
  - intros X. exact (acl_prefix_no_create co predir _ X eq_refl).
  - split.
    + apply in_or_app; left. apply in_or_app; right. unfold acl_tr. apply in_or_app; right; left; reflexivity.
    + intros ->. apply in_or_app; left. apply in_or_app; right. left; reflexivity.
Qed.

(* F12 (repaired by fd6287b): the history on which the code used to store a key in a directory the provision
   deadline had re-created unrestricted -- now the store restricts it first *)
Definition witness_keydir_recreated : history :=
  [Poll (SOk true None 1) (KOk 1 true) AOk; RemoveKeyDir; ProvisionTimeup; Poll (SOk true None 1) (KOk 2 true) AOk].

Lemma keydir_recreated_now_restricted :
  map sys_code (sys_trace current false true witness_keydir_recreated)
  = [(0, 0); (1, 0); (2, 448); (1, 0); (2, 448); (3, 0); (4, 0); (0, 0); (3, 1); (3, 1); (1, 0); (2, 448); (3, 0)]%N.
Proof. vm_compute. reflexivity. Qed.

(* the gate is exactly hex::decode's acceptance: an odd number of hex digits is refused like any other
   undecodable value (without the gate it would reach attest_key's Error::Hex(.., OddLength) line) *)
Lemma odd_length_is_not_hex :
  hex_decode_accepts false true = false /\ hex_decode_accepts true false = false
  /\ hex_decode_accepts true true = true /\ hex_decode_accepts false false = false
  /\ vector (run current [Poll (SOk true None 1) (KOk 1 (hex_decode_accepts false true)) AOk; ClientRequest]) = []
  /\ vector (run only_body_repair [Poll (SOk true None 1) (KOk 1 (hex_decode_accepts false true)) AOk])
     = [(KeyFile, [1%N]); (Log, [1%N]); (Stdout, [1%N])].
Proof. vm_compute. repeat split. Qed.

(* non-vacuity *)
Lemma nonvacuous_examples :
  (* a latch, a rotation, a disable/enable cycle and a restart: two key files, nothing else *)
  vector (run unfixed [Poll (SOk true None 1) (KOk 1 true) AOk; ClientRequest; Poll (SOk true None 1) (KOk 2 true) AOk;
                       Poll (SOk false (Some 2%N) 1) KErr AOk; Restart; Poll (SOk true (Some 2%N) 1) KErr AOk; ClientRequest;
                       StatusTick; ProvisionQuery true; ProvisionTimeup])
    = [(KeyFile, [1%N; 2%N])]
  /\ map sys_code (sys_trace unfixed false true [Poll (SOk true None 1) (KOk 1 true) AOk; ProvisionTimeup; Restart; Poll (SOk true None 1) (KOk 2 true) AOk])
    = [(0, 0); (1, 0); (2, 448); (1, 0); (2, 448); (3, 0); (3, 1); (3, 1); (1, 0); (2, 448); (1, 0); (2, 448); (3, 0)]%N
  /\ map sys_code (sys_trace unfixed true true [Poll (SOk true None 1) (KOk 1 true) AOk])
    = [(1, 0); (2, 448); (1, 0); (2, 448); (3, 0)]%N
  /\ map sys_code (sys_trace current true false [Poll (SOk true None 1) (KOk 1 true) AOk])
    = [(2, 448); (2, 448); (3, 0)]%N
  /\ vector (run repaired witness_not_hex) = []
  /\ vector (run repaired witness_body_malformed) = [].
Proof. vm_compute. repeat split. Qed.
