(* C06 -- lemmas about Model/EbpfFaults.v (hook runs with failing map helper calls). *)
From GPA Require Import Ebpf EbpfProofs EbpfFaults.
From Coq Require Import Lia.
Arguments N.add : simpl never. Arguments N.sub : simpl never. Arguments N.mul : simpl never.
Arguments N.div : simpl never. Arguments N.modulo : simpl never. Arguments N.shiftr : simpl never.
Arguments N.ltb : simpl never. Arguments N.leb : simpl never. Arguments N.eqb : simpl never.

(* ---- the programs with the destructuring lets resolved ---- *)
Definition local_after (fail : bool) (sh : shifts) (s : kstate) (t : task) (ctx : sockaddr) : wmap :=
  if fail then local s
  else fst (lru_update local_cap (thread_key t) (local_entry_of sh t ctx) (local s)).

Lemma connect4_f_eq f sh s t ctx :
  connect4_f f sh s t ctx =
  match wlookup (c_destination_entry (sa_ip ctx) (sa_port ctx) (sa_proto ctx)) (policy s) with
  | Some pol =>
      if skipped s t then (s, ctx, PROCEED)
      else (set_local s (local_after (f 3%nat) sh s t ctx), rewritten pol ctx, PROCEED)
  | None => (s, ctx, PROCEED)
  end.
Proof.
  unfold connect4_f, authorize_v4_f, update_local_map_entry_f, local_after, lru_update_f, thread_key, rewritten.
  destruct (wlookup _ (policy s)); [|reflexivity].
  rewrite check_skip_skipped. destruct (skipped s t); [reflexivity|].
  destruct (f 3%nat); [reflexivity|].
  destruct (lru_update _ _ _ _). reflexivity.
Qed.

Definition audit_after_f (fail : bool) (s : kstate) (num : N) (le : words) : wmap :=
  if fail then audit s else audit_after s num le.
Definition local_consumed_f (fail : bool) (s : kstate) (t : task) : wmap :=
  if fail then lru_touch (thread_key t) (local s)
  else fst (map_delete (thread_key t) (lru_touch (thread_key t) (local s))).

Lemma trace_v4_f_eq f sh s t skc :
  trace_v4_f f sh s t skc =
  if negb (skc_family skc =? AF_INET) then (s, 0)
  else if skipped s t then (s, 0)
  else match wlookup (thread_key t) (local s) with
       | Some le =>
           (set_local (set_audit s (audit_after_f (f 3%nat) s (skc_num skc) le)) (local_consumed_f (f 4%nat) s t), 0)
       | None =>
           match wlookup (c_destination_entry (skc_daddr skc) (skc_dport skc) IPPROTO_TCP) (policy s) with
           | Some _ =>
               (set_audit s (if f 4%nat then audit s
                             else fst (lru_update audit_cap (c_audit_key IPPROTO_TCP (skc_num skc))
                                         (fallback_entry sh t skc) (audit s))), 0)
           | None => (s, 0)
           end
       end.
Proof.
  unfold trace_v4_f, thread_key, audit_after_f, audit_after, local_consumed_f, fallback_entry,
    update_audit_map_entry_sk_f, lru_update_f, map_delete_f.
  destruct (negb (skc_family skc =? AF_INET)); [reflexivity|].
  rewrite check_skip_skipped. destruct (skipped s t); [reflexivity|].
  destruct (wlookup (key64 (get_current_pid_tgid t)) (local s)) as [le|].
  - cbn [audit set_local]. destruct (f 3%nat).
    + cbn [local set_audit set_local]. destruct (f 4%nat); [reflexivity|].
      destruct (map_delete _ _). reflexivity.
    + destruct (lru_update audit_cap _ _ (audit s)) as [m r]. cbn [local set_audit set_local fst].
      destruct (f 4%nat); [reflexivity|]. destruct (map_delete _ _). reflexivity.
  - destruct (wlookup _ (policy s)); [|reflexivity].
    destruct (f 4%nat); [reflexivity|]. destruct (lru_update _ _ _ _). reflexivity.
Qed.

(* ======================================================================================== *)
(* (3) refinement: with no failing call the refined programs ARE the atomic ones              *)
(* ======================================================================================== *)
Lemma connect4_refines sh s t ctx : connect4_f no_fail sh s t ctx = connect4 sh s t ctx.
Proof.
  rewrite connect4_f_eq. unfold connect4. rewrite authorize_v4_eq, check_skip_skipped.
  unfold local_after, no_fail. reflexivity.
Qed.
Lemma tcp_v4_connect_refines sh s t skc : tcp_v4_connect_f no_fail sh s t skc = tcp_v4_connect sh s t skc.
Proof.
  unfold tcp_v4_connect_f, tcp_v4_connect. rewrite trace_v4_f_eq, trace_v4_eq, check_skip_skipped.
  unfold audit_after_f, local_consumed_f, no_fail. reflexivity.
Qed.
Lemma kstep_refines sh s ev : kstep_f no_fail sh s ev = kstep sh s ev.
Proof. destruct ev; reflexivity. Qed.
Lemma lstep_refines sh w l : lstep_f no_fail sh w l = lstep sh w l.
Proof. destruct w as [s fl]. destruct l as [ev|t sport]; [destruct ev|]; reflexivity. Qed.
(* only the calls the path actually makes matter *)
Lemma connect4_f_ext f g sh s t ctx : f 3%nat = g 3%nat -> connect4_f f sh s t ctx = connect4_f g sh s t ctx.
Proof. intros H. rewrite !connect4_f_eq, H. reflexivity. Qed.
Lemma tcp_v4_connect_f_ext f g sh s t skc :
  f 3%nat = g 3%nat -> f 4%nat = g 4%nat -> tcp_v4_connect_f f sh s t skc = tcp_v4_connect_f g sh s t skc.
Proof. intros H3 H4. unfold tcp_v4_connect_f. rewrite !trace_v4_f_eq, H3, H4. reflexivity. Qed.

(* ======================================================================================== *)
(* (1) fail-closed and (2) untouched, for EVERY oracle                                         *)
(* ======================================================================================== *)
Lemma fail_closed f sh s t ctx pol :
  wlookup (c_destination_entry (sa_ip ctx) (sa_port ctx) (sa_proto ctx)) (policy s) = Some pol ->
  skipped s t = false ->
  snd (fst (connect4_f f sh s t ctx)) = rewritten pol ctx /\ snd (connect4_f f sh s t ctx) = PROCEED.
Proof. intros Hp Hs. rewrite connect4_f_eq, Hp, Hs. split; reflexivity. Qed.

Lemma fail_closed_agent f sh s t ip port local_port :
  wlookup (destination_entry_from_ipv4 ip port) (policy s) =
    Some (destination_entry_from_ipv4 (string_to_ip PROXY_AGENT_IP) local_port) ->
  skipped s t = false ->
  snd (fst (connect4_f f sh s t (connect_ctx ip port IPPROTO_TCP))) =
    connect_ctx Consts.proxy_agent_ip_network_byte_order local_port IPPROTO_TCP.
Proof.
  intros Hp Hs. rewrite (layout_policy_key ip port) in Hp.
  destruct (fail_closed f sh s t _ _ Hp Hs) as [H _]. rewrite H. apply rewritten_is_proxy.
Qed.

Lemma untouched_f f sh s t ctx :
  wlookup (c_destination_entry (sa_ip ctx) (sa_port ctx) (sa_proto ctx)) (policy s) = None \/
  skipped s t = true ->
  connect4_f f sh s t ctx = (s, ctx, PROCEED).
Proof.
  intros H. rewrite connect4_f_eq. destruct (wlookup _ (policy s)); [|reflexivity].
  destruct H as [H|H]; [discriminate|]. rewrite H. reflexivity.
Qed.

Lemma untouched_f_agent f sh s t ip port proto :
  (u32 proto = IPPROTO_TCP -> wlookup (destination_entry_from_ipv4 ip port) (policy s) = None \/ skipped s t = true) ->
  (u32 proto <> IPPROTO_TCP -> policy_keys_tcp s \/ skipped s t = true) ->
  kstep_f f sh s (EConnect4 t (connect_ctx ip port proto)) =
  (s, [PROCEED; sa_ip (connect_ctx ip port proto); sa_port (connect_ctx ip port proto)]).
Proof.
  intros Htcp Hother. cbn [kstep_f].
  rewrite untouched_f; [reflexivity|].
  destruct (N.eq_dec (u32 proto) IPPROTO_TCP) as [E|E].
  - destruct (Htcp E) as [H|H]; [left|right; assumption].
    rewrite (layout_policy_key ip port) in H. cbn [connect_ctx sa_ip sa_port sa_proto] in *.
    rewrite E. exact H.
  - destruct (Hother E) as [H|H]; [left|right; assumption].
    clear Htcp Hother.
    destruct (wlookup (c_destination_entry _ _ _) (policy s)) eqn:El; [|reflexivity].
    apply wlookup_in, H in El. cbn [connect_ctx sa_ip sa_port sa_proto c_destination_entry nth] in El.
    destruct proto_consts_agree as [Ea _]. rewrite Ea in El. contradiction.
Qed.

(* ======================================================================================== *)
(* (4) what a failure can cost                                                                *)
(* ======================================================================================== *)
(* connect4: the hand-over entry is lost when (and only when) its update fails; still diverted *)
Lemma connect4_f_local sh f s t ctx pol :
  wlookup (c_destination_entry (sa_ip ctx) (sa_port ctx) (sa_proto ctx)) (policy s) = Some pol ->
  skipped s t = false ->
  local (fst (fst (connect4_f f sh s t ctx))) =
    (if f 3%nat then local s else local (fst (fst (connect4 sh s t ctx)))) /\
  policy (fst (fst (connect4_f f sh s t ctx))) = policy s /\
  skip (fst (fst (connect4_f f sh s t ctx))) = skip s /\
  audit (fst (fst (connect4_f f sh s t ctx))) = audit s.
Proof.
  intros Hp Hs. rewrite connect4_f_eq, Hp, Hs.
  rewrite (connect4_redirects sh s t ctx pol Hp Hs). cbn [fst local policy skip audit set_local].
  unfold local_after. destruct (f 3%nat); repeat split; reflexivity.
Qed.

(* the kprobe with a pending entry: the record is written iff the audit_map update (call 3) succeeds,
   and then it is exactly the atomic program's; the entry is consumed iff the delete (call 4) succeeds *)
Lemma tcp_connect_f_pending f sh s t fam n d p le :
  u16 fam = AF_INET -> skipped s t = false ->
  wlookup (thread_key t) (local s) = Some le ->
  let s' := fst (tcp_v4_connect_f f sh s t (mk_sock fam n d p)) in
  audit s' = (if f 3%nat then audit s else audit (fst (tcp_v4_connect sh s t (mk_sock fam n d p)))) /\
  wlookup (thread_key t) (local s') = (if f 4%nat then Some le else None) /\
  policy s' = policy s /\ skip s' = skip s.
Proof.
  intros Hf Hs Hl s'. unfold s', tcp_v4_connect_f.
  rewrite trace_v4_f_eq, Hs, Hl. cbn [skc_family skc_num mk_sock]. rewrite Hf, N.eqb_refl. cbn [negb fst].
  rewrite (tcp_connect_pending sh s t fam n d p le Hf Hs Hl). cbn [fst audit local policy skip set_local set_audit].
  unfold audit_after_f, local_consumed_f.
  split; [destruct (f 3%nat); reflexivity|].
  split; [|split; reflexivity].
  destruct (f 4%nat); [rewrite lru_touch_lookup; exact Hl|apply map_delete_lookup_same].
Qed.

(* the record, when the two updates succeed, whatever else fails: same statement as the atomic one *)
Lemma record_under_failures f1 f2 sh s t ctx pol num :
  wlookup (c_destination_entry (sa_ip ctx) (sa_port ctx) (sa_proto ctx)) (policy s) = Some pol ->
  skipped s t = false ->
  f1 3%nat = false -> f2 3%nat = false ->
  let s1 := fst (fst (connect4_f f1 sh s t ctx)) in
  let s3 := fst (kstep_f f2 sh s1 (ETcpConnect t KERNEL_AF_INET num (de_ipv4 pol) (de_port pol))) in
  wlookup (c_audit_key (sa_proto ctx) (u16 num)) (audit s3) =
    Some (c_audit_entry (uid_at (sh_connect4 sh) t) (pid_of t)
            (if uid_at (sh_connect4 sh) t =? 0 then 1 else 0) (sa_ip ctx) (sa_port ctx)).
Proof.
  intros Hp Hs H1 H2 s1 s3.
  assert (E1 : s1 = fst (fst (connect4 sh s t ctx))).
  { unfold s1. rewrite (connect4_f_ext f1 no_fail) by (rewrite H1; reflexivity). rewrite connect4_refines. reflexivity. }
  pose proof (redirect_and_record_words sh s t ctx pol [] num Hp Hs eq_refl eq_refl) as Hw.
  cbn [krun] in Hw. rewrite <- E1 in Hw.
  assert (Hcap : wlen (local s1) + count_connect4 [] <= local_cap \/ True) by (right; exact I).
  clear Hcap.
  (* the pending entry is there (no capacity question without events in between) *)
  assert (Hl : wlookup (thread_key t) (local s1) = Some (local_entry_of sh t ctx)).
  { rewrite E1, (connect4_redirects sh s t ctx pol Hp Hs). cbn [fst local set_local]. apply lru_update_same. }
  assert (Hs1 : skipped s1 t = false).
  { rewrite E1, (connect4_redirects sh s t ctx pol Hp Hs). exact Hs. }
  unfold s3. cbn [kstep_f].
  destruct (tcp_v4_connect_f f2 sh s1 t (mk_sock KERNEL_AF_INET num (de_ipv4 pol) (de_port pol))) as [sx r] eqn:Ex.
  cbn [fst].
  pose proof (tcp_connect_f_pending f2 sh s1 t KERNEL_AF_INET num (de_ipv4 pol) (de_port pol) _ af_inet_kernel Hs1 Hl) as (Ha & _).
  rewrite Ex in Ha. cbn [fst] in Ha. rewrite H2 in Ha. rewrite Ha.
  pose proof (tcp_connect_writes_pending sh s1 t KERNEL_AF_INET num (de_ipv4 pol) (de_port pol) _ af_inet_kernel Hs1 Hl) as Hrec.
  rewrite kstep_tcp_connect in Hrec. cbn [fst] in Hrec. exact Hrec.
Qed.

(* a concrete loss: the local_map update of connect4 fails -> diverted, but no record afterwards *)
Lemma losses :
  let proxy := connect_ctx Consts.proxy_agent_ip_network_byte_order Consts.proxy_agent_port IPPROTO_TCP in
  (* nothing fails: diverted, recorded, consumed *)
  (exists e, loss_witness no_fail no_fail = (proxy, Some e, None)) /\
  (* connect4's local_map update fails: diverted, NO record *)
  loss_witness (fail_at 3) no_fail = (proxy, None, None) /\
  (* the kprobe's audit_map update fails: diverted, NO record, entry consumed *)
  loss_witness no_fail (fail_at 3) = (proxy, None, None) /\
  (* the kprobe's local_map delete fails: diverted, recorded, but the hand-over entry stays behind *)
  (exists e le, loss_witness no_fail (fail_at 4) = (proxy, Some e, Some le)).
Proof. vm_compute. repeat split; repeat eexists. Qed.
